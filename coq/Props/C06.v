(* C06 - packet field codecs: property theorems only.
   Model: Model/C06.v (faithful to net/packet after the fix commits); proofs: Proofs/C06*.v *)
From Coq Require Import List NArith ZArith Lia.
From GoMC Require Import Base.Bytes Base.Dec Gen.Consts Model.C05 Model.C06
  Proofs.C06 Proofs.C06_read Proofs.C06_pos Proofs.C06_comb Proofs.C06_more.
Import ListNotations.
Open Scope N_scope.

(* ROUND TRIP, DESTINATION-STATE INDEPENDENCE, EXACT COUNT, NO OVER-READ - for every type of the universe
   (arbitrary nesting of Ary over the eight prefix types / Option / Opt / Tuple over the 17 leaf types),
   every value of the protocol domain, EVERY prior destination state `old` (any value whatsoever:
   nil, shorter, longer, spare capacity with stale elements, even ill-typed) and every trailing input:
   the reader returns a protocol-equal value, the count it returns is the number of bytes written, and
   the trailing input is left untouched. *)
Theorem C06_roundtrip : forall t v fuel, in_dom t v -> (need t v <= fuel)%nat ->
  forall old rest, exists r,
    run_flat (read_f fuel t old) (fst (wr t v) ++ rest) = FOk (r, lenN (fst (wr t v))) rest
    /\ view t r = view t v.
Proof. exact roundtrip_all. Qed.

(* WIRE LAYOUT: the bytes written are the protocol's layout (big-endian two's complement, minimal
   LEB128 prefixes, x:26|z:26|y:12 positions, Boolean-prefixed optionals, concatenation) *)
Theorem C06_layout : forall t v, in_dom t v -> fst (wr t v) = spec_img t v.
Proof. exact layout_all. Qed.

(* Position: the packing holds for ALL integers (out-of-range coordinates are truncated to 26/12/26 bits),
   and the whole signed cube round-trips *)
Theorem C06_position_layout : forall x y z,
  pos_pack x y z = twos 26 x * 2^38 + twos 26 z * 2^12 + twos 12 y.
Proof. exact pos_pack_spec. Qed.
Theorem C06_position_cube : forall x y z rest,
  (-2^25 <= x < 2^25)%Z -> (-2^11 <= y < 2^11)%Z -> (-2^25 <= z < 2^25)%Z ->
  run_flat r_pos (fst (w_pos x y z) ++ rest) = FOk (VPos x y z, 8) rest.
Proof. exact rt_pos. Qed.

(* BYTE COUNTS: WriteTo's count = bytes produced (every type, every value, in the domain or not);
   ReadFrom's count = bytes consumed on EVERY input on which it succeeds (not only on images), and the
   bytes consumed are a prefix of the input *)
Theorem C06_count_write : forall t v, snd (wr t v) = lenN (fst (wr t v)).
Proof. exact wr_count. Qed.
Theorem C06_count_read : forall fuel t old s r n rest,
  run_flat (read_f fuel t old) s = FOk (r, n) rest -> exists c, s = c ++ rest /\ lenN c = n.
Proof. exact read_consumes_prefix. Qed.

(* no reader panics, whatever the input and whatever the destination held (negative and oversized
   length prefixes included); and none issues a bare Read (fragmentation-proof, feeds C09) *)
Theorem C06_no_panic : forall fuel t old s, not_panic (run_flat (read_f fuel t old) s).
Proof. exact read_never_panics. Qed.
Theorem C06_robust : forall fuel t old, robust (read_f fuel t old).
Proof. exact read_f_robust. Qed.

(* WHAT MUST NOT CHANGE: an absent Option leaves Val exactly as it was and consumes one byte; an Opt whose
   Has is false neither writes, nor reads, nor touches the destination *)
Theorem C06_option_absent_frame : forall fuel e h x rest,
  run_flat (read_f fuel (TOption e) (VOpt h x)) (0 :: rest) = FOk (VOpt false x, 1) rest.
Proof. exact option_absent_frame. Qed.
Theorem C06_opt_off_frame : forall fuel e old v s,
  wr (TOpt false e) v = ([], 0) /\ run_flat (read_f fuel (TOpt false e) old) s = FOk (old, 0) s.
Proof. intros. split; [apply opt_off_writes_nothing|apply opt_off_frame]. Qed.

(* COMBINATORS, PARAMETRIC IN THE ELEMENT CODEC: for ANY element reader/writer pair (not only those of
   the universe) that round-trips each element into any prior slot content, Ary over any of the eight
   prefix types round-trips into any destination slice state; same for Option *)
Theorem C06_ary_parametric : forall (re : fval -> rd) (we : fval -> wres) (vw : fval -> fval),
  (forall o, robust (re o)) ->
  forall l zero xs fuel old rest,
  Forall (elem_ok re we vw) xs -> (length xs <= fuel)%nat -> (Z.of_N (lenN xs) <= lenk_max l)%Z ->
  let img := fst (wcat (w_len l (Z.of_N (lenN xs))) (w_seq we xs)) in
  exists rs, run_flat (r_ary fuel l re zero old) (img ++ rest) = FOk (VList rs [], lenN img) rest
             /\ map vw rs = map vw xs.
Proof. exact ary_parametric. Qed.
Theorem C06_option_parametric : forall (re : fval -> rd) (we : fval -> wres) (vw : fval -> fval),
  (forall o, robust (re o)) ->
  forall zero v old rest, elem_ok re we vw v ->
  let img := fst (wcat (w_bool true) (we v)) in
  exists r, run_flat (r_option re zero old) (img ++ rest) = FOk (VOpt true r, lenN img) rest /\ vw r = vw v.
Proof. exact option_parametric. Qed.

(* SEQUENTIAL COMPOSITION: Scan (Marshal fields ++ extra) gives the fields back in order, whatever the
   variables scanned into held before, and ignores what follows; Scan never panics on any data *)
Theorem C06_compose : forall fuel (fs : list fld) (extra : list N),
  Forall (fld_ok fuel) fs ->
  exists rs, run_flat (scan fuel (map (fun f => (f_ty f, f_old f)) fs))
                      (marshal (map (fun f => (f_ty f, f_val f)) fs) ++ extra) = FOk rs extra
             /\ Forall2 (fun f r => view (f_ty f) r = view (f_ty f) (f_val f)) fs rs.
Proof. exact scan_marshal. Qed.
Theorem C06_scan_no_panic : forall fuel fs s, not_panic (run_flat (scan fuel fs) s).
Proof. exact scan_never_panics. Qed.

(* context-sized fields *)
Theorem C06_fixedbitset : forall bs old rest, lenN old = lenN bs ->
  run_flat (r_fixedbitset old) (fst (w_raw bs) ++ rest) = FOk (bs, lenN (fst (w_raw bs))) rest.
Proof. exact rt_fixedbitset. Qed.
Theorem C06_plugin : forall bs, r_plugin (fst (w_raw bs)) = FOk (bs, lenN (fst (w_raw bs))) [].
Proof. exact rt_plugin. Qed.

(* ---- non-vacuity: the hypotheses are satisfiable by non-trivial instances, and the conclusions compute *)
Definition ex_t := TAry LUByte (TOption TString).
Definition ex_v := VList [VOpt true (VBytes [104; 105] []); VOpt false VUnit] [].
(* a LONGER destination with a stale third element and a hidden fourth one in spare capacity *)
Definition ex_old := VList [VOpt true (VBytes [1] [2;3]); VOpt true (VBytes [7;7] []); VOpt true (VBytes [9] [])]
                           [VOpt false (VBytes [8] [])].
Example C06_ex_dom : in_dom ex_t ex_v /\ (need ex_t ex_v <= 2)%nat.
Proof.
  split; [|vm_compute; repeat constructor].
  exists [VOpt true (VBytes [104; 105] []); VOpt false VUnit], []. split; [reflexivity|]. split.
  - constructor; [|constructor; [|constructor]].
    + exists true, (VBytes [104; 105] []). split; [reflexivity|]. intros _.
      exists [104; 105], []. split; [reflexivity|]. split; [|reflexivity].
      repeat constructor.
    + exists false, VUnit. split; [reflexivity|]. discriminate.
  - vm_compute. discriminate.
Qed.
Example C06_ex_run :
  fst (wr ex_t ex_v) = [2; 1; 2; 104; 105; 0] /\
  run_flat (read_f 2 ex_t ex_old) (fst (wr ex_t ex_v) ++ [99])
  = FOk (VList [VOpt true (VBytes [104; 105] []); VOpt false (VBytes [7;7] [])] [], 6) [99].
Proof. split; vm_compute; reflexivity. Qed.
Example C06_ex_pos : fst (w_pos (-1) (-2) 3) = [255; 255; 255; 192; 0; 0; 63; 254].
Proof. vm_compute. reflexivity. Qed.
Example C06_ex_elem_ok : Forall (elem_ok (fun _ => r_varint) (fun v => w_varint (zof v)) (fun v => v)) [VZ 300; VZ (-1)].
Proof.
  repeat constructor; intros old rest; eexists; (split; [apply rt_varint; cbn; lia|reflexivity]).
Qed.
Example C06_ex_fld : Forall (fld_ok 2) [(ex_t, ex_v, ex_old); (TVarInt, VZ 300, VZ 5)].
Proof.
  constructor; [exact C06_ex_dom|]. constructor; [|constructor].
  split; [exists 300%Z; split; [reflexivity|cbn; lia]|vm_compute; repeat constructor].
Qed.

(* ---- tie to the source: Gen/Funcs.v is TRANSLATED from the Go code by tools/gotrans on every run *)
From GoMC Require Gen.Funcs Proofs.C06_tie.
Theorem C06_position_pack_translated : forall x y z : Z, Funcs.packet_Position_WriteTo_position x z y = Z.of_N (pos_pack x y z).
Proof. exact C06_tie.tie_pos_pack. Qed.
Theorem C06_position_unpack_translated : forall v : Z, (- 2 ^ 63 <= v < 2 ^ 63)%Z -> pos_unpack v = VPos (Funcs.packet_Position_ReadFrom_x v) (Funcs.packet_Position_ReadFrom_y v) (Funcs.packet_Position_ReadFrom_z v).
Proof. exact C06_tie.tie_pos_unpack. Qed.


(* ---- tie to the source, phase 3: the field codecs of net/packet/types.go TRANSLATED statement by statement
   by tools/gotrans/c06.go on every run (coq/Gen/C06gen.v), proved equal to the model for ALL values / ALL
   byte inputs; the statement skeletons of the reflection-heavy functions compared with the recorded ones;
   the model's Ary and NBTField readers as the INTERPRETATION of the generated skeletons; NBTField. *)
From GoMC Require Gen.C06gen Proofs.C06_tie_w Proofs.C06_tie_r Proofs.C06_skel_expected Proofs.C06_skel.
From GoMC Require Import Model.C06_syntax.
Import C06_tie_w C06_tie_r C06_skel_expected C06_skel.
Local Open Scope Z_scope.

(* WRITERS: (n, err, bytes handed to w.Write) of the translated T.WriteTo under an accepting writer
   = (count, nil, image) of the model, for every value *)
(* the fixed-width types, in the order Boolean Byte UnsignedByte Short UnsignedShort Int Long Float Double Angle
   (one theorem: one Print Assumptions traversal) *)
Theorem C06_fixed_write_translated :
  (forall b : bool, C06gen.packet_Boolean_WriteTo_io b = wimg (wr TBool (VB b)))
  /\
  (forall z : Z, C06gen.packet_Byte_WriteTo_io z = wimg (wr TByte (VZ z)))
  /\
  (forall z : Z, C06gen.packet_UnsignedByte_WriteTo_io z = wimg (wr TUByte (VZ z)))
  /\
  (forall z : Z, C06gen.packet_Short_WriteTo_io z = wimg (wr TShort (VZ z)))
  /\
  (forall z : Z, C06gen.packet_UnsignedShort_WriteTo_io z = wimg (wr TUShort (VZ z)))
  /\
  (forall z : Z, C06gen.packet_Int_WriteTo_io z = wimg (wr TInt (VZ z)))
  /\
  (forall z : Z, C06gen.packet_Long_WriteTo_io z = wimg (wr TLong (VZ z)))
  /\
  (forall bits : Z, C06gen.packet_Float_WriteTo_io bits = wimg (wr TFloat (VZ bits)))
  /\
  (forall bits : Z, C06gen.packet_Double_WriteTo_io bits = wimg (wr TDouble (VZ bits)))
  /\
  (forall z : Z, C06gen.packet_Angle_WriteTo_io z = wimg (wr TAngle (VZ z))).
Proof.
  repeat split.
  - exact tie_Boolean_write.
  - exact tie_Byte_write.
  - exact tie_UnsignedByte_write.
  - exact tie_Short_write.
  - exact tie_UnsignedShort_write.
  - exact tie_Int_write.
  - exact tie_Long_write.
  - exact tie_Float_write.
  - exact tie_Double_write.
  - exact tie_Angle_write.
Qed.
(* VarInt, VarLong, String, ByteArray, BitSet (in this order): the VarInt / VarLong encoders are C05's translated
   WriteToBytes followed by w.Write(vi[:nn]); String / ByteArray / BitSet write VarInt(len) and then the payload *)
Theorem C06_lenprefixed_write_translated :
  (forall z : Z, C06gen.packet_VarInt_WriteTo_io z = wimg (wr TVarInt (VZ z)))
  /\
  (forall z : Z, C06gen.packet_VarLong_WriteTo_io z = wimg (wr TVarLong (VZ z)))
  /\
  (forall bs sp, (lenN bs < 2 ^ 62)%N -> C06gen.packet_String_WriteTo_io (map Z.of_N bs) = wimg (wr TString (VBytes bs sp)))
  /\
  (forall bs sp, (lenN bs < 2 ^ 62)%N -> C06gen.packet_ByteArray_WriteTo_io (map Z.of_N bs) = wimg (wr TByteArray (VBytes bs sp)))
  /\
  (forall zs sp, (lenN zs < 2 ^ 59)%N ->
  C06gen.packet_BitSet_WriteTo_io zs = wimg (wr TBitSet (VList (map VZ zs) sp))).
Proof.
  repeat split.
  - exact tie_VarInt_write.
  - exact tie_VarLong_write.
  - exact (fun bs _ => tie_String_write bs).
  - exact (fun bs _ => tie_lenbytes_write bs).
  - exact tie_BitSet_write.
Qed.
Theorem C06_Position_write_translated : forall x y z : Z, C06gen.packet_Position_WriteTo_io x z y = wimg (wr TPosition (VPos x y z)).
Proof. exact tie_Position_write. Qed.
(* UUID, PluginMessageData, FixedBitSet: one w.Write of the bytes themselves *)
Theorem C06_rawbytes_write_translated :
  (forall bs sp, (lenN bs < 2 ^ 63)%N -> C06gen.packet_UUID_WriteTo_io (map Z.of_N bs) = wimg (wr TUUID (VBytes bs sp)))
  /\
  (forall bs, (lenN bs < 2 ^ 63)%N -> C06gen.packet_PluginMessageData_WriteTo_io (map Z.of_N bs) = wimg (w_raw bs))
  /\
  (forall bs, (lenN bs < 2 ^ 63)%N -> C06gen.packet_FixedBitSet_WriteTo_io (map Z.of_N bs) = wimg (w_raw bs)).
Proof.
  repeat split.
  - exact (fun bs _ => tie_UUID_write bs).
  - exact tie_PluginMessageData_write.
  - exact tie_FixedBitSet_write.
Qed.

(* READERS: the translated T.ReadFrom (a Base.Dec.dec term) runs like the model's reader on every input made
   of bytes - outcome class, error class, value, count, rest *)
(* the fixed-width types, in the order Boolean Byte UnsignedByte Short UnsignedShort Int Long Float Double Angle UUID *)
Theorem C06_fixed_read_translated :
  (forall fuel old s, all_bytes s ->
  fmapr inj_b (run_flat C06gen.packet_Boolean_ReadFrom_io s) = run_flat (read_f fuel TBool old) s)
  /\
  (forall fuel old s, all_bytes s ->
  fmapr inj_z (run_flat C06gen.packet_Byte_ReadFrom_io s) = run_flat (read_f fuel TByte old) s)
  /\
  (forall fuel old s, all_bytes s ->
  fmapr inj_z (run_flat C06gen.packet_UnsignedByte_ReadFrom_io s) = run_flat (read_f fuel TUByte old) s)
  /\
  (forall fuel old s, all_bytes s ->
  fmapr inj_z (run_flat C06gen.packet_Short_ReadFrom_io s) = run_flat (read_f fuel TShort old) s)
  /\
  (forall fuel old s, all_bytes s ->
  fmapr inj_z (run_flat C06gen.packet_UnsignedShort_ReadFrom_io s) = run_flat (read_f fuel TUShort old) s)
  /\
  (forall fuel old s, all_bytes s ->
  fmapr inj_z (run_flat C06gen.packet_Int_ReadFrom_io s) = run_flat (read_f fuel TInt old) s)
  /\
  (forall fuel old s, all_bytes s ->
  fmapr inj_z (run_flat C06gen.packet_Long_ReadFrom_io s) = run_flat (read_f fuel TLong old) s)
  /\
  (forall fuel old s, all_bytes s ->
  fmapr inj_z (run_flat C06gen.packet_Float_ReadFrom_io s) = run_flat (read_f fuel TFloat old) s)
  /\
  (forall fuel old s, all_bytes s ->
  fmapr inj_z (run_flat C06gen.packet_Double_ReadFrom_io s) = run_flat (read_f fuel TDouble old) s)
  /\
  (forall fuel old s, all_bytes s ->
  fmapr inj_z (run_flat C06gen.packet_Angle_ReadFrom_io s) = run_flat (read_f fuel TAngle old) s)
  /\
  (forall fuel old s, all_bytes s ->
  fmapr inj_bytes (run_flat C06gen.packet_UUID_ReadFrom_io s) = run_flat (read_f fuel TUUID old) s).
Proof.
  repeat split.
  - intros fuel old s. exact (tie_Boolean_read s).
  - intros fuel old s. exact (tie_Byte_read s).
  - intros fuel old s. exact (tie_UnsignedByte_read s).
  - intros fuel old s. exact (tie_Short_read s).
  - intros fuel old s. exact (tie_UnsignedShort_read s).
  - intros fuel old s. exact (tie_Int_read s).
  - intros fuel old s. exact (tie_Long_read s).
  - intros fuel old s. exact (tie_Float_read s).
  - intros fuel old s. exact (tie_Double_read s).
  - intros fuel old s. exact (tie_Angle_read s).
  - intros fuel old s. exact (tie_UUID_read s).
Qed.
Theorem C06_Position_read_translated : forall fuel old s, all_bytes s ->
  fmapr inj_pos (run_flat C06gen.packet_Position_ReadFrom_io s) = run_flat (read_f fuel TPosition old) s.
Proof. intros fuel old s. exact (tie_Position_read s). Qed.
(* String, ByteArray, BitSet with VarInt.ReadFrom as a parameter instantiated with the model's read32 (the closed
   forms, with the translated VarInt.ReadFrom, are C06_string/bytearray/bitset_read_closed below) *)
Theorem C06_lenprefixed_read_translated :
  (forall fuel old s, all_bytes s ->
  fmapr inj_bytes (run_flat (C06gen.packet_String_ReadFrom_io varint_rd) s) = run_flat (read_f fuel TString old) s)
  /\
  (forall fuel bs0 sp0 s, all_bytes s ->
  fmapr inj_slice (run_flat (C06gen.packet_ByteArray_ReadFrom_io varint_rd (map Z.of_N bs0) (map Z.of_N sp0)) s)
  = run_flat (read_f fuel TByteArray (VBytes bs0 sp0)) s)
  /\
  (forall fuel old (b sp : list Z) s, all_bytes s ->
  (forall l n rest, run_flat read32 s = FOk (l, n) rest -> (Z.to_nat l <= fuel)%nat) ->
  fmapr inj_bitset (run_flat (C06gen.packet_BitSet_ReadFrom_io varint_rd b sp) s) = run_flat (read_f fuel TBitSet old) s).
Proof.
  repeat split.
  - intros fuel old s. exact (tie_String_read s).
  - intros fuel bs0 sp0 s. exact (tie_ByteArray_read bs0 sp0 s).
  - exact tie_BitSet_read.
Qed.
Theorem C06_FixedBitSet_read_translated : forall old s, all_bytes s -> (lenN old < 2 ^ 63)%N ->
  fmapr inj_fbs (run_flat (C06gen.packet_FixedBitSet_ReadFrom_io (map Z.of_N old)) s) = run_flat (r_fixedbitset old) s.
Proof. exact tie_FixedBitSet_read. Qed.

(* SKELETONS: the bodies rendered from the source are the recorded ones *)
Theorem C06_skeleton_readByte : C06gen.skel_readByte = expected_readByte.
Proof. exact skel_readByte_ok. Qed.
Theorem C06_skeleton_PluginMessageData_ReadFrom : C06gen.skel_PluginMessageData_ReadFrom = expected_PluginMessageData_ReadFrom.
Proof. exact skel_PluginMessageData_ReadFrom_ok. Qed.
Theorem C06_skeleton_NBTField_WriteTo : C06gen.skel_NBTField_WriteTo = expected_NBTField_WriteTo.
Proof. exact skel_NBTField_WriteTo_ok. Qed.
Theorem C06_skeleton_NBTField_ReadFrom : C06gen.skel_NBTField_ReadFrom = expected_NBTField_ReadFrom.
Proof. exact skel_NBTField_ReadFrom_ok. Qed.
Theorem C06_skeleton_countingWriter_Write : C06gen.skel_countingWriter_Write = expected_countingWriter_Write.
Proof. exact skel_countingWriter_Write_ok. Qed.
Theorem C06_skeleton_countingReader_Read : C06gen.skel_countingReader_Read = expected_countingReader_Read.
Proof. exact skel_countingReader_Read_ok. Qed.
Theorem C06_skeleton_NBT : C06gen.skel_NBT = expected_NBT.
Proof. exact skel_NBT_ok. Qed.
Theorem C06_skeleton_Ary_WriteTo : C06gen.skel_Ary_WriteTo = expected_Ary_WriteTo.
Proof. exact skel_Ary_WriteTo_ok. Qed.
Theorem C06_skeleton_Ary_ReadFrom : C06gen.skel_Ary_ReadFrom = expected_Ary_ReadFrom.
Proof. exact skel_Ary_ReadFrom_ok. Qed.
Theorem C06_skeleton_Array : C06gen.skel_Array = expected_Array.
Proof. exact skel_Array_ok. Qed.
Theorem C06_skeleton_Opt_has : C06gen.skel_Opt_has = expected_Opt_has.
Proof. exact skel_Opt_has_ok. Qed.
Theorem C06_skeleton_Opt_WriteTo : C06gen.skel_Opt_WriteTo = expected_Opt_WriteTo.
Proof. exact skel_Opt_WriteTo_ok. Qed.
Theorem C06_skeleton_Opt_ReadFrom : C06gen.skel_Opt_ReadFrom = expected_Opt_ReadFrom.
Proof. exact skel_Opt_ReadFrom_ok. Qed.
Theorem C06_skeleton_Option_WriteTo : C06gen.skel_Option_WriteTo = expected_Option_WriteTo.
Proof. exact skel_Option_WriteTo_ok. Qed.
Theorem C06_skeleton_Option_ReadFrom : C06gen.skel_Option_ReadFrom = expected_Option_ReadFrom.
Proof. exact skel_Option_ReadFrom_ok. Qed.
Theorem C06_skeleton_OptionDecoder_ReadFrom : C06gen.skel_OptionDecoder_ReadFrom = expected_OptionDecoder_ReadFrom.
Proof. exact skel_OptionDecoder_ReadFrom_ok. Qed.
Theorem C06_skeleton_OptionEncoder_WriteTo : C06gen.skel_OptionEncoder_WriteTo = expected_OptionEncoder_WriteTo.
Proof. exact skel_OptionEncoder_WriteTo_ok. Qed.
Theorem C06_skeleton_Tuple_WriteTo : C06gen.skel_Tuple_WriteTo = expected_Tuple_WriteTo.
Proof. exact skel_Tuple_WriteTo_ok. Qed.
Theorem C06_skeleton_Tuple_ReadFrom : C06gen.skel_Tuple_ReadFrom = expected_Tuple_ReadFrom.
Proof. exact skel_Tuple_ReadFrom_ok. Qed.
Theorem C06_skeleton_CreateByteReader : C06gen.skel_CreateByteReader = expected_CreateByteReader.
Proof. exact skel_CreateByteReader_ok. Qed.
Theorem C06_skeleton_byteReaderWrapper_ReadByte : C06gen.skel_byteReaderWrapper_ReadByte = expected_byteReaderWrapper_ReadByte.
Proof. exact skel_byteReaderWrapper_ReadByte_ok. Qed.
Theorem C06_skeleton_Marshal : C06gen.skel_Marshal = expected_Marshal.
Proof. exact skel_Marshal_ok. Qed.
Theorem C06_skeleton_Packet_Scan : C06gen.skel_Packet_Scan = expected_Packet_Scan.
Proof. exact skel_Packet_Scan_ok. Qed.
Theorem C06_skeleton_Builder_WriteField : C06gen.skel_Builder_WriteField = expected_Builder_WriteField.
Proof. exact skel_Builder_WriteField_ok. Qed.
Theorem C06_skeleton_Builder_Packet : C06gen.skel_Builder_Packet = expected_Builder_Packet.
Proof. exact skel_Builder_Packet_ok. Qed.

(* the model's Ary reader (every prefix type, element reader, destination state) and the NBTField reader
   (every decoder) ARE the interpretation of the skeletons generated from the source *)
Theorem C06_ary_read_is_skeleton : forall fuel l re zero old,
  ary_read fuel l re zero old (snd C06gen.skel_Ary_ReadFrom) (ast0 zero) = r_ary fuel l re zero old.
Proof. exact Ary_ReadFrom_is_skel. Qed.
Theorem C06_nbtfield_read_is_skeleton : forall eEND A (d : dec A),
  nbt_read eEND A d (snd C06gen.skel_NBTField_ReadFrom) (nst0 A) = r_nbtfield eEND d.
Proof. exact NBTField_ReadFrom_is_skel. Qed.
Theorem C06_option_read_is_skeleton : forall re zero old,
  option_read re (snd C06gen.skel_Option_ReadFrom) (ost0 zero old) = r_option re zero old
  /\ option_read re (snd C06gen.skel_OptionDecoder_ReadFrom) (ost0 zero old) = r_option re zero old.
Proof. intros. split; [apply Option_ReadFrom_is_skel|apply OptionDecoder_ReadFrom_is_skel]. Qed.
Theorem C06_option_write_is_skeleton : forall e h x,
  option_write (wr e) h x (snd C06gen.skel_Option_WriteTo) = Some (wr (TOption e) (VOpt h x))
  /\ option_write (wr e) h x (snd C06gen.skel_OptionEncoder_WriteTo) = Some (wr (TOption e) (VOpt h x)).
Proof. exact Option_WriteTo_is_skel. Qed.
Theorem C06_opt_is_skeleton : forall fuel has e old v,
  opt_interp m_read (snd C06gen.skel_Opt_ReadFrom) has (read_f fuel e old) (Ret (old, 0%N)) = Some (read_f fuel (TOpt has e) old)
  /\ opt_interp m_write (snd C06gen.skel_Opt_WriteTo) has (wr e v) ([], 0%N) = Some (wr (TOpt has e) v).
Proof. exact Opt_is_skel. Qed.
Theorem C06_ary_write_is_skeleton : forall l e xs sp,
  ary_write l (wr e) xs (snd C06gen.skel_Ary_WriteTo) 0%Z = Some (wr (TAry l e) (VList xs sp)).
Proof. exact Ary_WriteTo_is_skel. Qed.
Theorem C06_scan_is_skeleton : forall fuel fs s,
  run_flat (scan_interp fuel (snd C06gen.skel_Packet_Scan) fs []) s = run_flat (scan fuel fs) s.
Proof. exact Packet_Scan_is_skel. Qed.
Theorem C06_marshal_is_skeleton : forall fs, marshal_interp (snd C06gen.skel_Marshal) fs [] = Some (marshal fs).
Proof. exact Marshal_is_skel. Qed.

(* NBTField: count = bytes consumed on every successful read (ErrEND endings included); round trip through
   the counting wrapper for ANY robust NBT decoder; the ErrEND rule on the image of a nil value; the
   countingWriter's count = bytes written *)
Theorem C06_nbtfield_count : forall eEND A (d : dec A), robust d -> forall s r n rest,
  run_flat (r_nbtfield eEND d) s = FOk (r, n) rest -> exists c, s = c ++ rest /\ lenN c = n.
Proof. exact nbtfield_count. Qed.
Theorem C06_nbtfield_roundtrip : forall eEND A (d : dec A), robust d -> forall img rest v,
  run_flat d (img ++ rest) = FOk v rest ->
  run_flat (r_nbtfield eEND d) (img ++ rest) = FOk (Some v, lenN img) rest.
Proof. exact nbtfield_roundtrip. Qed.
Theorem C06_nbtfield_end : forall eEND A (k : N -> dec A) rest, k 0%N = Fail eEND ->
  run_flat (r_nbtfield eEND (ReadByte k)) (fst (w_nbtfield None) ++ rest) = FOk (None, 1%N) rest.
Proof. exact nbtfield_end. Qed.
Theorem C06_nbtfield_write_count : forall enc, snd (w_nbtfield enc) = lenN (fst (w_nbtfield enc)).
Proof. exact w_nbtfield_count. Qed.

(* non-vacuity: the translated definitions compute *)
Example C06_ex_translated_write : C06gen.packet_Short_WriteTo_io (-2) = (2, 0%N, [255; 254])
  /\ C06gen.packet_Position_WriteTo_io (-1) 3 (-2) = (8, 0%N, [255; 255; 255; 192; 0; 0; 63; 254])
  /\ C06gen.packet_String_WriteTo_io [104; 105] = (3, 0%N, [2; 104; 105]).
Proof. repeat split; vm_compute; reflexivity. Qed.
Example C06_ex_translated_read :
  run_flat C06gen.packet_Short_ReadFrom_io [255; 254; 9]%N = FOk (-2, 2) [9%N]
  /\ run_flat (C06gen.packet_String_ReadFrom_io varint_rd) [2; 104; 105; 7]%N = FOk ([104; 105], 3) [7%N]
  /\ run_flat (C06gen.packet_String_ReadFrom_io varint_rd) [255; 255; 255; 255; 15]%N = FErr 3%N
  /\ run_flat (C06gen.packet_ByteArray_ReadFrom_io varint_rd [1] [2; 3]) [2; 8; 9]%N = FOk (([8; 9], [3]), 3) [].
Proof. repeat split; vm_compute; reflexivity. Qed.
Example C06_ex_translated_bitset :
  run_flat (C06gen.packet_BitSet_ReadFrom_io varint_rd [7; 8; 9] [5]) [1; 0;0;0;0;0;0;1;2; 77]%N = FOk (([258], [8; 9; 5]), 9) [77%N]
  /\ C06gen.packet_BitSet_WriteTo_io [258] = (9, 0%N, [1; 0;0;0;0;0;0;1;2]).
Proof. split; vm_compute; reflexivity. Qed.
Example C06_ex_nbt_end : run_flat (r_nbtfield 7 (ReadByte (fun id => if (id =? 0)%N then Fail 7 else Ret id))) [0; 5]%N
  = FOk (None, 1%N) [5%N].
Proof. vm_compute. reflexivity. Qed.

(* ---- phase 4 *)
From GoMC Require Gen.C05gen Proofs.C06_tie_closed Proofs.C06_skel_more.
Import C06_tie_closed C06_skel_more.
(* CLOSED form of the length-prefixed readers: VarInt.ReadFrom is no longer a parameter but its own translation
   (Gen/C05gen.v), for both outcomes br of the io.ByteReader type assertion *)
Theorem C06_string_read_closed : forall br fuel old s, all_bytes s ->
  fmapr inj_bytes (run_flat (C06gen.packet_String_ReadFrom_io (C05gen.packet_VarInt_ReadFrom_io br)) s)
  = run_flat (read_f fuel TString old) s.
Proof. intros br fuel old s. exact (closed_String_read br s). Qed.
Theorem C06_bytearray_read_closed : forall br fuel bs0 sp0 s, all_bytes s ->
  fmapr inj_slice (run_flat (C06gen.packet_ByteArray_ReadFrom_io (C05gen.packet_VarInt_ReadFrom_io br) (map Z.of_N bs0) (map Z.of_N sp0)) s)
  = run_flat (read_f fuel TByteArray (VBytes bs0 sp0)) s.
Proof. intros br fuel bs0 sp0 s. exact (closed_ByteArray_read br bs0 sp0 s). Qed.
Theorem C06_bitset_read_closed : forall br fuel old (b sp : list Z) s, all_bytes s ->
  (forall l n rest, run_flat read32 s = FOk (l, n) rest -> (Z.to_nat l <= fuel)%nat) ->
  fmapr inj_bitset (run_flat (C06gen.packet_BitSet_ReadFrom_io (C05gen.packet_VarInt_ReadFrom_io br) b sp) s)
  = run_flat (read_f fuel TBitSet old) s.
Proof. exact closed_BitSet_read. Qed.

(* Marshal / Builder over a heap of buffers (interpretation of the generated skeletons of Marshal,
   Builder.WriteField, Builder.Packet): Marshal allocates ONE fresh buffer, fills it with the field images in
   order, leaves every older buffer as it was and returns a view of the new one; the Data of a packet returned
   by Marshal is not changed by any later sequence of Marshal / Builder.WriteField / Builder.Packet calls; more
   generally every view a Builder has handed out keeps its bytes *)
Theorem C06_marshal_heap_is_skeleton : forall h fs,
  marshal_heap (snd C06gen.skel_Marshal) h None fs = Some ((h ++ [marshal fs])%list, (length h, length (marshal fs))).
Proof. exact Marshal_heap_is_skel. Qed.
Theorem C06_marshal_isolated : forall h fs h1 p os h2,
  marshal_heap (snd C06gen.skel_Marshal) h None fs = Some (h1, p) ->
  run_ops h1 os = Some h2 ->
  pdata h1 p = marshal fs /\ pdata h2 p = marshal fs.
Proof. exact marshal_isolated. Qed.
Theorem C06_builder_views_stable : forall os h h' p, pvalid h p -> run_ops h os = Some h' -> pdata h' p = pdata h p.
Proof. exact views_stable. Qed.

(* Tuple against the model's nested pairs; Scan and trailing bytes; NBTField and AllowUnknownFields *)
Theorem C06_tuple_read_is_skeleton : forall fuel fs s,
  run_flat (tuple_read fuel (snd C06gen.skel_Tuple_ReadFrom) fs) s
  = run_flat (read_f fuel (tuple_ty (map fst fs)) (tuple_val (map snd fs))) s.
Proof. exact Tuple_ReadFrom_is_skel. Qed.
Theorem C06_tuple_write_is_skeleton : forall fs,
  tuple_write (snd C06gen.skel_Tuple_WriteTo) fs = Some (wr (tuple_ty (map fst fs)) (tuple_val (map snd fs))).
Proof. exact Tuple_WriteTo_is_skel. Qed.
Theorem C06_scan_trailing : forall fuel fs data vs extra,
  run_flat (scan fuel fs) data = FOk vs [] ->
  run_flat (scan_interp fuel (snd C06gen.skel_Packet_Scan) fs []) (data ++ extra) = FOk vs extra.
Proof. exact Packet_Scan_trailing. Qed.
Theorem C06_nbtfield_allow_is_skeleton : forall eEND A (dl ds : dec A) allow,
  nbt_read2 eEND A dl ds allow (snd C06gen.skel_NBTField_ReadFrom) (ast20 A) = r_nbtfield eEND (if allow then dl else ds).
Proof. exact NBTField_ReadFrom_allow_is_skel. Qed.

Example C06_ex_marshal_heap :
  exists h1 p h2, marshal_heap (snd C06gen.skel_Marshal) [[9%N]] None [(TShort, VZ 258)] = Some (h1, p)
    /\ run_ops h1 [OMarshal [(TBool, VB true)]; OWriteField 1 [(TByte, VZ 7)]; OPacket 1] = Some h2
    /\ h2 = [[9]; [1; 2; 7]; [1]]%N /\ pdata h2 p = [1; 2]%N.
Proof. do 3 eexists. repeat split; vm_compute; reflexivity. Qed.

(* ---- phase 5: the remaining bodies, and the closing obligation *)
From GoMC Require Proofs.C06_skel_rest.
Import C06_skel_rest.
(* PluginMessageData.ReadFrom (io.ReadAll): the value is ALL of the remaining input, the count its length, and
   nothing is left - `rest` is always empty, the field can only be the last one *)
Theorem C06_plugin_read_is_skeleton : forall s,
  plugin_interp (snd C06gen.skel_PluginMessageData_ReadFrom) s = r_plugin s
  /\ (forall v n rest, r_plugin s = FOk (v, n) rest -> v = s /\ n = lenN s /\ rest = []).
Proof. intros s. split; [apply PluginMessageData_ReadFrom_is_skel|apply plugin_rest_empty]. Qed.
(* the counters behind every count an NBT field reports: one Write call through countingWriter adds exactly the
   bytes passed on, one Read call through countingReader adds exactly the bytes delivered, and the model's
   nbt_counting is the decoder read through that counter *)
Theorem C06_counting_wrappers_are_skeleton :
  (forall acc p, cw_step C06gen.skel_countingWriter_Write acc p = ((fst acc ++ p)%list, (snd acc + lenN p)%N))
  /\ (forall cn k, cr_step C06gen.skel_countingReader_Read cn k = (cn + k)%N)
  /\ (forall A (d : dec A) n s,
        run_flat (counting_via (cr_step C06gen.skel_countingReader_Read) d n) s = run_flat (nbt_counting d n) s).
Proof. split; [exact countingWriter_Write_is_skel|split; [exact countingReader_Read_is_skel|intros; apply counting_is_skel]]. Qed.
Theorem C06_nbtfield_write_is_skeleton : forall enc,
  nbt_write (snd C06gen.skel_NBTField_WriteTo) (match enc with None => true | Some _ => false end)
            (match enc with None => []%list | Some ws => ws end) = Some (w_nbtfield enc).
Proof. exact NBTField_WriteTo_is_skel. Qed.
(* Opt.has: *bool chains and func() bool give the flag; the panic is reached exactly when the pointer chain of the
   Has VALUE ends in something else.  has() reads nothing from the stream, so peer input cannot reach the panic
   of an Opt whose Has is a (pointer to a) bool or a func() bool *)
Theorem C06_opt_has_is_skeleton :
  (forall v fuel, (has_depth v < fuel)%nat -> has_interp (snd C06gen.skel_Opt_has) fuel v = Some (has_model v))
  /\ (forall v, has_model v = GoInt.GoPanic <-> has_bottom v = HOther)
  /\ (forall v, has_bottom v <> HOther -> exists b, has_model v = GoInt.GoRet b).
Proof. split; [exact Opt_has_is_skel|split; [exact has_panic_iff|exact has_wellformed_total]]. Qed.
(* NBT(v) builds a field with the STRICT decoder; Array(ary) is Ary with the VarInt prefix *)
Theorem C06_constructors_are_skeleton :
  nbt_ctor (snd C06gen.skel_NBT) = Some false /\ array_ctor (snd C06gen.skel_Array) = Some LVarInt
  /\ (forall eEND A (dl ds : dec A),
        nbt_read2 eEND A dl ds false (snd C06gen.skel_NBTField_ReadFrom) (ast20 A) = r_nbtfield eEND ds).
Proof. split; [exact NBT_is_skel|split; [exact Array_is_skel|intros; exact (NBTField_ReadFrom_allow_is_skel eEND A dl ds false)]]. Qed.
(* CLOSING OBLIGATION: every function the source declares in types.go, util.go, builder.go and Marshal /
   Packet.Scan of packet.go (C06gen.all_funcs, regenerated on every run) is one of ten named non-codec helpers
   or is, in source order, the name of an entry of `covered` - a list whose entries carry the PROOF of the
   function's tie / interpretation lemma.  A function added to these files without a lemma breaks this. *)
Theorem C06_every_body_interpreted :
  filter (fun n => negb (mem_str n helpers)) C06gen.all_funcs = map c_name covered
  /\ forallb (fun h => mem_str h C06gen.all_funcs) helpers = true.
Proof. exact every_body_interpreted. Qed.
Example C06_ex_covered : length covered = 67%nat /\ length C06gen.all_funcs = 77%nat /\ Forall (fun c => c_stmt c) covered.
Proof. split; [reflexivity|split; [reflexivity|]]. apply Forall_forall. intros c _. exact (c_proof c). Qed.

(* ---- phase 6: ALLOCATION (fixes 9fa2cc1, and the String / ByteArray / BitSet ones): the sizes the readers
   allocate are TRANSLATED from the source (Gen/C06gen.v: packet_Ary_ReadFrom_first/more, packet_readBytes_first/more,
   packet_BitSet_ReadFrom_first/more) and the skeleton / translated loops fix where they are used (first: once, before
   the loop; more: only when every slot allocated so far has been read).  In every reachable state (a slots
   allocated, r elements / bytes / words read), whatever count n the input declares: r <= a <= n, and
   a <= maxPrealloc or a <= 2 r - nothing is allocated in proportion to a declared count the stream has not backed *)
Theorem C06_ary_alloc_bounded : forall n, (0 <= n < 2 ^ 63)%Z ->
  (forall a r, ary_reach n a r -> (0 <= r <= a /\ a <= n /\ (a <= Consts.packet_maxPreallocElems \/ a <= 2 * r))%Z)
  /\ (forall a, ary_reach n a 0 -> (a <= 1024)%Z).
Proof. intros n Hn. split; [apply ary_alloc_bounded, Hn|intros a; apply ary_alloc_before_first, Hn]. Qed.
Theorem C06_bytes_bitset_alloc_bounded : forall n, (0 <= n < 2 ^ 63)%Z ->
  (forall a r, grow_reach C06gen.packet_readBytes_first C06gen.packet_readBytes_more n a r ->
     (0 <= r <= a /\ a <= n /\ (a <= Consts.packet_maxPreallocBytes \/ a <= 2 * r))%Z)
  /\ (forall a r, grow_reach C06gen.packet_BitSet_ReadFrom_first C06gen.packet_BitSet_ReadFrom_more n a r ->
     (0 <= r <= a /\ a <= n /\ (a <= Consts.packet_maxPreallocBytes / 8 \/ a <= 2 * r))%Z).
Proof. intros n Hn. split; [apply bytes_alloc_bounded, Hn|apply bitset_alloc_bounded, Hn]. Qed.
(* readBytes (the bounded-step reader behind String / ByteArray.ReadFrom, used by their translation as the effect
   ReadFull n): its own body, interpreted, runs exactly like one ReadFull of n bytes *)
Theorem C06_readbytes_is_skeleton : forall n s, (0 <= n < 2 ^ 62)%Z ->
  run_flat (readBytes_interp (snd C06gen.skel_readBytes) 64 n) s = run_flat (ReadFull (Z.to_N n) (fun data => Ret data)) s.
Proof. exact readBytes_is_ReadFull. Qed.
Theorem C06_skeleton_readBytes : C06gen.skel_readBytes = expected_readBytes.
Proof. exact skel_readBytes_ok. Qed.
Example C06_ex_alloc :   (* 2^31-1 elements declared: 1024 slots before the first element, 2048 after 1024 have been read *)
  ary_reach 2147483647 1024 0 /\ C06gen.packet_Ary_ReadFrom_more 2147483647 1024 = 1024%Z
  /\ C06gen.packet_Ary_ReadFrom_more 1500 1024 = 476%Z.
Proof. split; [exact (ar_first 2147483647)|split; reflexivity]. Qed.

Print Assumptions C06_roundtrip.
Print Assumptions C06_layout.
Print Assumptions C06_position_layout.
Print Assumptions C06_position_cube.
Print Assumptions C06_count_write.
Print Assumptions C06_count_read.
Print Assumptions C06_no_panic.
Print Assumptions C06_robust.
Print Assumptions C06_option_absent_frame.
Print Assumptions C06_opt_off_frame.
Print Assumptions C06_ary_parametric.
Print Assumptions C06_option_parametric.
Print Assumptions C06_compose.
Print Assumptions C06_scan_no_panic.
Print Assumptions C06_fixedbitset.
Print Assumptions C06_plugin.
Print Assumptions C06_position_pack_translated.
Print Assumptions C06_position_unpack_translated.
Print Assumptions C06_Position_write_translated.
Print Assumptions C06_Position_read_translated.
Print Assumptions C06_FixedBitSet_read_translated.
Print Assumptions C06_skeleton_readByte.
Print Assumptions C06_skeleton_PluginMessageData_ReadFrom.
Print Assumptions C06_skeleton_NBTField_WriteTo.
Print Assumptions C06_skeleton_NBTField_ReadFrom.
Print Assumptions C06_skeleton_countingWriter_Write.
Print Assumptions C06_skeleton_countingReader_Read.
Print Assumptions C06_skeleton_NBT.
Print Assumptions C06_skeleton_Ary_WriteTo.
Print Assumptions C06_skeleton_Ary_ReadFrom.
Print Assumptions C06_skeleton_Array.
Print Assumptions C06_skeleton_Opt_has.
Print Assumptions C06_skeleton_Opt_WriteTo.
Print Assumptions C06_skeleton_Opt_ReadFrom.
Print Assumptions C06_skeleton_Option_WriteTo.
Print Assumptions C06_skeleton_Option_ReadFrom.
Print Assumptions C06_skeleton_OptionDecoder_ReadFrom.
Print Assumptions C06_skeleton_OptionEncoder_WriteTo.
Print Assumptions C06_skeleton_Tuple_WriteTo.
Print Assumptions C06_skeleton_Tuple_ReadFrom.
Print Assumptions C06_skeleton_CreateByteReader.
Print Assumptions C06_skeleton_byteReaderWrapper_ReadByte.
Print Assumptions C06_skeleton_Marshal.
Print Assumptions C06_skeleton_Packet_Scan.
Print Assumptions C06_skeleton_Builder_WriteField.
Print Assumptions C06_skeleton_Builder_Packet.
Print Assumptions C06_ary_read_is_skeleton.
Print Assumptions C06_nbtfield_read_is_skeleton.
Print Assumptions C06_option_read_is_skeleton.
Print Assumptions C06_option_write_is_skeleton.
Print Assumptions C06_opt_is_skeleton.
Print Assumptions C06_ary_write_is_skeleton.
Print Assumptions C06_scan_is_skeleton.
Print Assumptions C06_marshal_is_skeleton.
Print Assumptions C06_nbtfield_count.
Print Assumptions C06_nbtfield_roundtrip.
Print Assumptions C06_nbtfield_end.
Print Assumptions C06_nbtfield_write_count.
Print Assumptions C06_string_read_closed.
Print Assumptions C06_bytearray_read_closed.
Print Assumptions C06_bitset_read_closed.
Print Assumptions C06_marshal_heap_is_skeleton.
Print Assumptions C06_marshal_isolated.
Print Assumptions C06_builder_views_stable.
Print Assumptions C06_tuple_read_is_skeleton.
Print Assumptions C06_tuple_write_is_skeleton.
Print Assumptions C06_scan_trailing.
Print Assumptions C06_nbtfield_allow_is_skeleton.
Print Assumptions C06_fixed_write_translated.
Print Assumptions C06_rawbytes_write_translated.
Print Assumptions C06_fixed_read_translated.
Print Assumptions C06_lenprefixed_write_translated.
Print Assumptions C06_lenprefixed_read_translated.
Print Assumptions C06_plugin_read_is_skeleton.
Print Assumptions C06_counting_wrappers_are_skeleton.
Print Assumptions C06_nbtfield_write_is_skeleton.
Print Assumptions C06_opt_has_is_skeleton.
Print Assumptions C06_constructors_are_skeleton.
Print Assumptions C06_every_body_interpreted.
Print Assumptions C06_ary_alloc_bounded.
Print Assumptions C06_bytes_bitset_alloc_bounded.
Print Assumptions C06_readbytes_is_skeleton.
Print Assumptions C06_skeleton_readBytes.
