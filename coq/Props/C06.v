(* C06 - packet field codecs: property theorems only.
   Model: Model/C06.v (faithful to net/packet after the fix commits); proofs: Proofs/C06*.v *)
From Coq Require Import List NArith ZArith Lia.
From GoMC Require Import Base.Bytes Base.Dec Gen.Consts Model.C05 Model.C06
  Proofs.C06 Proofs.C06_read Proofs.C06_pos Proofs.C06_comb Proofs.C06_more.
Import ListNotations.
Open Scope N_scope.

(* ROUND TRIP, DESTINATION-STATE INDEPENDENCE, EXACT COUNT, NO OVER-READ - for every type of the universe
   (arbitrary nesting of Ary over the eight prefix types / Option / Opt / Tuple over the 17 leaf types),
   every value of the protocol domain, EVERY prior destination state `old` (any value whatsoever:
   nil, shorter, longer, spare capacity with stale elements, even ill-typed) and every trailing input:
   the reader returns a protocol-equal value, the count it returns is the number of bytes written, and
   the trailing input is left untouched. *)
Theorem C06_roundtrip : forall t v fuel, in_dom t v -> (need t v <= fuel)%nat ->
  forall old rest, exists r,
    run_flat (read_f fuel t old) (fst (wr t v) ++ rest) = FOk (r, lenN (fst (wr t v))) rest
    /\ view t r = view t v.
Proof. exact roundtrip_all. Qed.

(* WIRE LAYOUT: the bytes written are the protocol's layout (big-endian two's complement, minimal
   LEB128 prefixes, x:26|z:26|y:12 positions, Boolean-prefixed optionals, concatenation) *)
Theorem C06_layout : forall t v, in_dom t v -> fst (wr t v) = spec_img t v.
Proof. exact layout_all. Qed.

(* Position: the packing holds for ALL integers (out-of-range coordinates are truncated to 26/12/26 bits),
   and the whole signed cube round-trips *)
Theorem C06_position_layout : forall x y z,
  pos_pack x y z = twos 26 x * 2^38 + twos 26 z * 2^12 + twos 12 y.
Proof. exact pos_pack_spec. Qed.
Theorem C06_position_cube : forall x y z rest,
  (-2^25 <= x < 2^25)%Z -> (-2^11 <= y < 2^11)%Z -> (-2^25 <= z < 2^25)%Z ->
  run_flat r_pos (fst (w_pos x y z) ++ rest) = FOk (VPos x y z, 8) rest.
Proof. exact rt_pos. Qed.

(* BYTE COUNTS: WriteTo's count = bytes produced (every type, every value, in the domain or not);
   ReadFrom's count = bytes consumed on EVERY input on which it succeeds (not only on images), and the
   bytes consumed are a prefix of the input *)
Theorem C06_count_write : forall t v, snd (wr t v) = lenN (fst (wr t v)).
Proof. exact wr_count. Qed.
Theorem C06_count_read : forall fuel t old s r n rest,
  run_flat (read_f fuel t old) s = FOk (r, n) rest -> exists c, s = c ++ rest /\ lenN c = n.
Proof. exact read_consumes_prefix. Qed.

(* no reader panics, whatever the input and whatever the destination held (negative and oversized
   length prefixes included); and none issues a bare Read (fragmentation-proof, feeds C09) *)
Theorem C06_no_panic : forall fuel t old s, not_panic (run_flat (read_f fuel t old) s).
Proof. exact read_never_panics. Qed.
Theorem C06_robust : forall fuel t old, robust (read_f fuel t old).
Proof. exact read_f_robust. Qed.

(* WHAT MUST NOT CHANGE: an absent Option leaves Val exactly as it was and consumes one byte; an Opt whose
   Has is false neither writes, nor reads, nor touches the destination *)
Theorem C06_option_absent_frame : forall fuel e h x rest,
  run_flat (read_f fuel (TOption e) (VOpt h x)) (0 :: rest) = FOk (VOpt false x, 1) rest.
Proof. exact option_absent_frame. Qed.
Theorem C06_opt_off_frame : forall fuel e old v s,
  wr (TOpt false e) v = ([], 0) /\ run_flat (read_f fuel (TOpt false e) old) s = FOk (old, 0) s.
Proof. intros. split; [apply opt_off_writes_nothing|apply opt_off_frame]. Qed.

(* COMBINATORS, PARAMETRIC IN THE ELEMENT CODEC: for ANY element reader/writer pair (not only those of
   the universe) that round-trips each element into any prior slot content, Ary over any of the eight
   prefix types round-trips into any destination slice state; same for Option *)
Theorem C06_ary_parametric : forall (re : fval -> rd) (we : fval -> wres) (vw : fval -> fval),
  (forall o, robust (re o)) ->
  forall l zero xs fuel old rest,
  Forall (elem_ok re we vw) xs -> (length xs <= fuel)%nat -> (Z.of_N (lenN xs) <= lenk_max l)%Z ->
  let img := fst (wcat (w_len l (Z.of_N (lenN xs))) (w_seq we xs)) in
  exists rs, run_flat (r_ary fuel l re zero old) (img ++ rest) = FOk (VList rs [], lenN img) rest
             /\ map vw rs = map vw xs.
Proof. exact ary_parametric. Qed.
Theorem C06_option_parametric : forall (re : fval -> rd) (we : fval -> wres) (vw : fval -> fval),
  (forall o, robust (re o)) ->
  forall zero v old rest, elem_ok re we vw v ->
  let img := fst (wcat (w_bool true) (we v)) in
  exists r, run_flat (r_option re zero old) (img ++ rest) = FOk (VOpt true r, lenN img) rest /\ vw r = vw v.
Proof. exact option_parametric. Qed.

(* SEQUENTIAL COMPOSITION: Scan (Marshal fields ++ extra) gives the fields back in order, whatever the
   variables scanned into held before, and ignores what follows; Scan never panics on any data *)
Theorem C06_compose : forall fuel (fs : list fld) (extra : list N),
  Forall (fld_ok fuel) fs ->
  exists rs, run_flat (scan fuel (map (fun f => (f_ty f, f_old f)) fs))
                      (marshal (map (fun f => (f_ty f, f_val f)) fs) ++ extra) = FOk rs extra
             /\ Forall2 (fun f r => view (f_ty f) r = view (f_ty f) (f_val f)) fs rs.
Proof. exact scan_marshal. Qed.
Theorem C06_scan_no_panic : forall fuel fs s, not_panic (run_flat (scan fuel fs) s).
Proof. exact scan_never_panics. Qed.

(* context-sized fields *)
Theorem C06_fixedbitset : forall bs old rest, lenN old = lenN bs ->
  run_flat (r_fixedbitset old) (fst (w_raw bs) ++ rest) = FOk (bs, lenN (fst (w_raw bs))) rest.
Proof. exact rt_fixedbitset. Qed.
Theorem C06_plugin : forall bs, r_plugin (fst (w_raw bs)) = FOk (bs, lenN (fst (w_raw bs))) [].
Proof. exact rt_plugin. Qed.

(* ---- non-vacuity: the hypotheses are satisfiable by non-trivial instances, and the conclusions compute *)
Definition ex_t := TAry LUByte (TOption TString).
Definition ex_v := VList [VOpt true (VBytes [104; 105] []); VOpt false VUnit] [].
(* a LONGER destination with a stale third element and a hidden fourth one in spare capacity *)
Definition ex_old := VList [VOpt true (VBytes [1] [2;3]); VOpt true (VBytes [7;7] []); VOpt true (VBytes [9] [])]
                           [VOpt false (VBytes [8] [])].
Example C06_ex_dom : in_dom ex_t ex_v /\ (need ex_t ex_v <= 2)%nat.
Proof.
  split; [|vm_compute; repeat constructor].
  exists [VOpt true (VBytes [104; 105] []); VOpt false VUnit], []. split; [reflexivity|]. split.
  - constructor; [|constructor; [|constructor]].
    + exists true, (VBytes [104; 105] []). split; [reflexivity|]. intros _.
      exists [104; 105], []. split; [reflexivity|]. split; [|reflexivity].
      repeat constructor.
    + exists false, VUnit. split; [reflexivity|]. discriminate.
  - vm_compute. discriminate.
Qed.
Example C06_ex_run :
  fst (wr ex_t ex_v) = [2; 1; 2; 104; 105; 0] /\
  run_flat (read_f 2 ex_t ex_old) (fst (wr ex_t ex_v) ++ [99])
  = FOk (VList [VOpt true (VBytes [104; 105] []); VOpt false (VBytes [7;7] [])] [], 6) [99].
Proof. split; vm_compute; reflexivity. Qed.
Example C06_ex_pos : fst (w_pos (-1) (-2) 3) = [255; 255; 255; 192; 0; 0; 63; 254].
Proof. vm_compute. reflexivity. Qed.
Example C06_ex_elem_ok : Forall (elem_ok (fun _ => r_varint) (fun v => w_varint (zof v)) (fun v => v)) [VZ 300; VZ (-1)].
Proof.
  repeat constructor; intros old rest; eexists; (split; [apply rt_varint; cbn; lia|reflexivity]).
Qed.
Example C06_ex_fld : Forall (fld_ok 2) [(ex_t, ex_v, ex_old); (TVarInt, VZ 300, VZ 5)].
Proof.
  constructor; [exact C06_ex_dom|]. constructor; [|constructor].
  split; [exists 300%Z; split; [reflexivity|cbn; lia]|vm_compute; repeat constructor].
Qed.

(* ---- tie to the source: Gen/Funcs.v is TRANSLATED from the Go code by tools/gotrans on every run *)
From GoMC Require Gen.Funcs Proofs.C06_tie.
Theorem C06_position_pack_translated : forall x y z : Z, Funcs.packet_Position_WriteTo_position x z y = Z.of_N (pos_pack x y z).
Proof. exact C06_tie.tie_pos_pack. Qed.
Theorem C06_position_unpack_translated : forall v : Z, (- 2 ^ 63 <= v < 2 ^ 63)%Z -> pos_unpack v = VPos (Funcs.packet_Position_ReadFrom_x v) (Funcs.packet_Position_ReadFrom_y v) (Funcs.packet_Position_ReadFrom_z v).
Proof. exact C06_tie.tie_pos_unpack. Qed.

Print Assumptions C06_roundtrip.
Print Assumptions C06_layout.
Print Assumptions C06_position_layout.
Print Assumptions C06_position_cube.
Print Assumptions C06_count_write.
Print Assumptions C06_count_read.
Print Assumptions C06_no_panic.
Print Assumptions C06_robust.
Print Assumptions C06_option_absent_frame.
Print Assumptions C06_opt_off_frame.
Print Assumptions C06_ary_parametric.
Print Assumptions C06_option_parametric.
Print Assumptions C06_compose.
Print Assumptions C06_scan_no_panic.
Print Assumptions C06_fixedbitset.
Print Assumptions C06_plugin.
Print Assumptions C06_position_pack_translated.
Print Assumptions C06_position_unpack_translated.
