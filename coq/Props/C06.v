(* C06 - packet field codecs: property theorems only.  Model: Model/C06.v; proofs: Proofs/C06*.v *)
From Coq Require Import List NArith ZArith.
From GoMC Require Import Base.Bytes Base.Dec Gen.Consts Model.C05 Model.C06 Proofs.C06.
Import ListNotations.
Open Scope N_scope.

(* the count every WriteTo returns is the number of bytes it produced, for every type and value *)
Theorem C06_count_write : forall t v, snd (wr t v) = lenN (fst (wr t v)).
Proof. exact wr_count. Qed.

Print Assumptions C06_count_write.
