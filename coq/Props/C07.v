(* C07 - packet framing: property theorems only.  Model: Model/C07.v; proofs: Proofs/C07.v.
   compress/zlib enters as three explicit function parameters (deflate, inflate, inflate_strict) and
   the hypotheses zlib_inverse / zlib_fits / zlib_strict_inverse; nothing is assumed globally. *)
From Coq Require Import List NArith ZArith.
From GoMC Require Import Base.Bytes Base.Dec Gen.Consts Model.C05 Model.C07 Proofs.C07 Proofs.C07_spec.
Import ListNotations.
Open Scope N_scope.

(* Pack then UnPack with the same setting: same id, same payload, exactly one frame consumed (rest is
   left untouched) - for every threshold (any Go int), every packet in the domain, every previous
   state of the receiving Packet, every stale content of the pooled buffers on both sides. The only
   thing that depends on the receiver's past is the capacity it keeps (newcap). *)
Theorem C07_roundtrip :
  forall (deflate : list N -> list N) (inflate : list N -> option (list N))
         (thr : Z) (pool pool' : list N) (old : rstate) (p : packet) (rest : list N),
  zlib_inverse deflate inflate -> zlib_fits deflate -> in_domain p ->
  run_flat (unpack inflate thr pool' old) (pack deflate thr pool p ++ rest) = FOk (received old p) rest.
Proof. intros deflate inflate. exact (roundtrip deflate inflate inflate). Qed.

(* any concatenation of frames is recovered packet by packet, in order, by a loop that re-uses one
   Packet value; the bytes after the last frame are left in the reader *)
Theorem C07_stream :
  forall (deflate : list N -> list N) (inflate : list N -> option (list N)) (thr : Z),
  zlib_inverse deflate inflate -> zlib_fits deflate ->
  forall (pps : list (list N * packet)) (upools : list (list N)) (old : rstate) (rest : list N),
  Forall in_domain (map snd pps) -> length upools = length pps ->
  run_flat (unpack_seq inflate thr upools old) (frames deflate thr pps ++ rest)
  = FOk (thread old (map snd pps)) rest.
Proof. intros deflate inflate. exact (stream deflate inflate inflate). Qed.
Theorem C07_stream_packets : forall (ps : list packet) (old : rstate), map pkt_of (thread old ps) = ps.
Proof. exact thread_packets. Qed.

(* the emitted bytes are a conformant frame for an independent reader written from the protocol text *)
Theorem C07_conformant :
  forall (deflate : list N -> list N) (inflate_strict : list N -> option (list N))
         (thr : Z) (pool : list N) (p : packet),
  zlib_strict_inverse deflate inflate_strict -> zlib_fits deflate -> in_domain p ->
  spec_frame_reader inflate_strict thr (pack deflate thr pool p) = Some p.
Proof. intros deflate inflate_strict. exact (conformant deflate inflate_strict inflate_strict). Qed.

(* Pack = header arithmetic ++ body for EVERY input (also outside the domain): the 5-byte padding,
   buff.Next and the in-place length patch leave exactly PacketLength ++ DataLength ++ zlib stream.
   (This is what lets the correspondence run use pack_hdr on 2 MiB payloads.) *)
Theorem C07_pack_header :
  forall (deflate : list N -> list N) (thr : Z) (pool : list N) (p : packet),
  pack deflate thr pool p =
  fst (pack_hdr thr (fst p) (lenN (snd p)) (lenN (deflate (write32 (fst p) ++ snd p))))
  ++ body_of deflate thr p.
Proof. intros deflate. exact (pack_split deflate (fun _ => None) (fun _ => None)). Qed.
Theorem C07_pool_irrelevant :
  forall (deflate : list N -> list N) (thr : Z) (pool pool' : list N) (p : packet),
  pack deflate thr pool p = pack deflate thr pool' p.
Proof. intros deflate. exact (pack_pool_irrelevant deflate (fun _ => None) (fun _ => None)). Qed.

(* what the receiver does with ANY frame Pack emits, also outside the domain (payloads beyond the
   maximum, huge thresholds): accepted exactly when own_accepts says so - arithmetic on lengths,
   used by the correspondence run for payloads too long for the list model *)
Theorem C07_own_frame_verdict :
  forall (deflate : list N -> list N) (inflate : list N -> option (list N))
         (thr : Z) (pool pool' : list N) (old : rstate) (id : Z) (data rest : list N),
  in_sw 32 id -> (1 + Z.of_N (len32 id) + Z.of_N (lenN data) < 2147483648)%Z ->
  inflate (deflate (write32 id ++ data)) = Some (write32 id ++ data) ->
  (Z.of_N (lenN (deflate (write32 id ++ data))) < 2147483648 - 5)%Z ->
  run_flat (unpack inflate thr pool' old) (pack deflate thr pool (id, data) ++ rest) =
  if own_accepts thr id (lenN data) then FOk (received old (id, data)) rest
  else FErr (if (0 <=? thr)%Z then eTooLarge else eLength).
Proof. intros deflate inflate. exact (own_frame_verdict deflate inflate inflate). Qed.

(* rejection: for EVERY byte string s whose header the receiver can parse. Declared size =
   Length - len(id) without compression; the data-length field of the delimited frame with
   compression (negative, above the maximum, or non-zero and below the threshold). *)
Theorem C07_reject :
  forall (inflate : list N -> option (list N)) (thr : Z) (pool : list N) (old : rstate) (s : list N),
  match run_flat read32 s with
  | FOk (L, _) s1 =>
      if (thr <? 0)%Z then
        match run_flat read32 s1 with
        | FOk (_, n) _ => (L - Z.of_N n < 0 \/ L - Z.of_N n > 2097152)%Z
        | _ => False
        end
      else
        Z.to_N L <= lenN s1 /\
        match run_flat read32 (takeN (Z.to_N L) s1) with
        | FOk (DL, _) _ => declared_bad thr DL
        | _ => False
        end
  | _ => False
  end ->
  is_err (run_flat (unpack inflate thr pool old) s) = true.
Proof. intros inflate. exact (reject (fun x => x) inflate inflate). Qed.

(* the same clause with the headers parsed by the SPECIFICATION's VarInt reader (spec_varint, any
   encoding of up to five groups): the receiver's reader agrees with it on every byte string *)
Theorem C07_varint_reader_agrees :
  forall (s : list N) (v : Z) (r : list N), all_bytes s -> spec_varint s = Some (v, r) ->
  exists n, run_flat read32 s = FOk (v, n) r.
Proof. exact read32_of_spec. Qed.
Theorem C07_reject_spec :
  forall (inflate : list N -> option (list N)) (thr : Z) (pool : list N) (old : rstate) (s : list N),
  all_bytes s ->
  match spec_varint s with
  | Some (L, s1) =>
      if (thr <? 0)%Z then
        match spec_varint s1 with
        | Some (_, s2) =>
            let n := Z.of_N (lenN s1 - lenN s2) in (L - n < 0 \/ L - n > 2097152)%Z
        | None => False
        end
      else
        Z.to_N L <= lenN s1 /\
        match spec_varint (takeN (Z.to_N L) s1) with
        | Some (DL, _) => declared_bad thr DL
        | None => False
        end
  | None => False
  end ->
  is_err (run_flat (unpack inflate thr pool old) s) = true.
Proof. exact reject_spec. Qed.

Theorem C07_reject_plain_canonical :
  forall (inflate : list N -> option (list N)) (thr : Z) (pool : list N) (old : rstate)
         (L id : Z) (body : list N),
  (thr < 0)%Z -> in_sw 32 L -> in_sw 32 id ->
  (L - Z.of_N (len32 id) < 0 \/ L - Z.of_N (len32 id) > 2097152)%Z ->
  is_err (run_flat (unpack inflate thr pool old) (write32 L ++ write32 id ++ body)) = true.
Proof. intros inflate. exact (reject_plain_canonical (fun x => x) inflate inflate). Qed.

Theorem C07_reject_compressed_canonical :
  forall (inflate : list N -> option (list N)) (thr : Z) (pool : list N) (old : rstate)
         (DL : Z) (body rest : list N),
  (0 <= thr)%Z -> in_sw 32 DL -> (Z.of_N (lenN body) < 2147483648 - 5)%Z ->
  declared_bad thr DL ->
  is_err (run_flat (unpack inflate thr pool old)
            (write32 (Z.of_N (len32 DL) + Z.of_N (lenN body)) ++ (write32 DL ++ body) ++ rest)) = true.
Proof. intros inflate. exact (reject_compressed_canonical (fun x => x) inflate inflate). Qed.

(* UnPack returns a value or an error on EVERY input, for every threshold, receiver state and
   behaviour of zlib (no hypothesis on inflate): no slice-bounds / makeslice panic is left after the
   `DataLength < len(id)` guard, and the model never runs out of fuel *)
Theorem C07_total :
  forall (inflate : list N -> option (list N)) (thr : Z) (pool : list N) (old : rstate) (s : list N),
  ok_or_err (run_flat (unpack inflate thr pool old) s).
Proof. intros inflate. exact (unpack_total (fun x => x) inflate inflate). Qed.

(* only ReadByte / ReadFull effects: fragmentation-proof (feeds C09) *)
Theorem C07_robust :
  forall (inflate : list N -> option (list N)) (thr : Z) (pool : list N) (old : rstate),
  robust (unpack inflate thr pool old).
Proof. intros inflate. exact (unpack_robust inflate). Qed.

(* net.Conn: the threshold set by SetThreshold is the one used by WritePacket and by ReadPacket;
   a freshly wrapped Conn (threshold -1) needs nothing from zlib *)
Theorem C07_conn :
  forall (deflate : list N -> list N) (inflate : list N -> option (list N))
         (t : Z) (pool pool' : list N) (old : rstate) (p : packet) (rest : list N),
  zlib_inverse deflate inflate -> zlib_fits deflate -> in_domain p ->
  let c := set_threshold wrap_conn t in
  run_flat (read_packet inflate c pool' old) (write_packet deflate c pool p ++ rest)
  = FOk (received old p) rest.
Proof. intros deflate inflate. exact (conn_roundtrip deflate inflate inflate). Qed.
Theorem C07_conn_default :
  forall (deflate : list N -> list N) (inflate : list N -> option (list N))
         (pool pool' : list N) (old : rstate) (p : packet) (rest : list N),
  in_domain p ->
  run_flat (read_packet inflate wrap_conn pool' old) (write_packet deflate wrap_conn pool p ++ rest)
  = FOk (received old p) rest.
Proof. intros deflate inflate. exact (conn_default_roundtrip deflate inflate inflate). Qed.

(* ---------- non-vacuity ---------- *)
(* the zlib hypotheses are satisfiable (a "stored" toy codec) *)
Example C07_ex_oracles :
  zlib_inverse (fun x => x) (fun z => Some z) /\ zlib_fits (fun x => x) /\
  zlib_strict_inverse (fun x => x) (fun z => Some z).
Proof.
  split; [intros x; reflexivity|]. split; [|intros x; reflexivity].
  intros x H. apply Z.le_lt_trans with (1 := H). reflexivity.
Qed.
(* the domain is inhabited, at its upper edge too *)
Example C07_ex_domain : in_domain (300%Z, [1; 2; 3]) /\ in_domain ((-1)%Z, []).
Proof.
  unfold in_domain, in_sw. cbn [fst snd]. repeat split; try (vm_compute; congruence).
Qed.
(* concrete runs of the model with the toy codec: threshold 2, payload at the threshold (compressed
   frame), below it (data length 0), and without compression *)
Example C07_ex_run :
  let old := {| r_id := 7%Z; r_data := [9; 9]; r_cap := 2 |} in
  pack (fun x => x) 3 [1; 1] (300%Z, [1; 2; 3]) = [6; 5; 172; 2; 1; 2; 3] /\
  pack (fun x => x) 4 [1; 1] (300%Z, [1; 2; 3]) = [6; 0; 172; 2; 1; 2; 3] /\
  pack (fun x => x) (-1) [1; 1] (300%Z, [1; 2; 3]) = [5; 172; 2; 1; 2; 3] /\
  run_flat (unpack (fun z => Some z) 3 [4] old) [6; 5; 172; 2; 1; 2; 3; 77]
  = FOk {| r_id := 300%Z; r_data := [1; 2; 3]; r_cap := 3 |} [77].
Proof. vm_compute. repeat split. Qed.
(* the rejection hypotheses are satisfiable: data length 1 under threshold 64; and the frame that
   used to panic (data length 1, two-byte id inside the stream) is now an error *)
Example C07_ex_reject :
  declared_bad 64 1 /\
  run_flat (unpack (fun z => Some z) 64 [] {| r_id := 0%Z; r_data := []; r_cap := 0 |}) [3; 1; 5; 6] = FErr eThreshold /\
  run_flat (unpack (fun z => Some z) 0 [] {| r_id := 0%Z; r_data := []; r_cap := 0 |}) [4; 1; 128; 1; 9] = FErr eBelowId.
Proof. split; [right; right; split; [discriminate|reflexivity]|]. vm_compute. split; reflexivity. Qed.

Print Assumptions C07_roundtrip.
Print Assumptions C07_stream.
Print Assumptions C07_stream_packets.
Print Assumptions C07_conformant.
Print Assumptions C07_pack_header.
Print Assumptions C07_pool_irrelevant.
Print Assumptions C07_own_frame_verdict.
Print Assumptions C07_reject.
Print Assumptions C07_varint_reader_agrees.
Print Assumptions C07_reject_spec.
Print Assumptions C07_reject_plain_canonical.
Print Assumptions C07_reject_compressed_canonical.
Print Assumptions C07_total.
Print Assumptions C07_robust.
Print Assumptions C07_conn.
Print Assumptions C07_conn_default.

(* ====================================================================================================
   Extension: the tie by TRANSLATION (Gen/C07gen.v is regenerated from net/packet/packet.go and
   net/conn.go by tools/gotrans/c07.go on every run), the Conn-level stream theorem, and the receiver's
   treatment of plain frames inside compressed mode.  Proofs: Proofs/C07_skel.v, Proofs/C07_conn.v. *)
From GoMC Require Import Base.GoInt Gen.Funcs Gen.C07gen Model.C07_syntax Model.C07_conn
  Proofs.C07_expected Proofs.C07_skel Proofs.C07_conn.
Local Open Scope Z_scope.
Local Open Scope bool_scope.

(* the statement skeletons translated from the source have the recorded shapes: statement kinds in
   source order (reads of VarInts with their error checks, the tests `< 0 || > MaxDataLength`,
   `!= 0`, `< threshold`, `> MaxDataLength`, `< n3` in this order, CopyN, the zlib reader, the
   resize-or-reuse of p.Data, padding / Next / in-place patch) with the source text of every expression *)
Theorem C07_skeleton_shapes :
  map shape C07gen.Pack = expected_Pack /\
  map shape C07gen.packWithoutCompression = expected_packWithoutCompression /\
  map shape C07gen.packWithCompression = expected_packWithCompression /\
  map shape C07gen.UnPack = expected_UnPack /\
  map shape C07gen.unpackWithoutCompression = expected_unpackWithoutCompression /\
  map shape C07gen.unpackWithCompression = expected_unpackWithCompression.
Proof.
  exact (conj Pack_skel_ok (conj packWithoutCompression_skel_ok (conj packWithCompression_skel_ok
        (conj UnPack_skel_ok (conj unpackWithoutCompression_skel_ok unpackWithCompression_skel_ok))))).
Qed.
Theorem C07_skeleton_conn :
  C07gen.conn_ReadPacket = expected_conn_ReadPacket /\ C07gen.conn_WritePacket = expected_conn_WritePacket /\
  C07gen.conn_SetThreshold = expected_conn_SetThreshold /\ C07gen.conn_SetCipher = expected_conn_SetCipher /\
  C07gen.conn_literals = expected_conn_literals.
Proof.
  exact (conj conn_ReadPacket_skel_ok (conj conn_WritePacket_skel_ok (conj conn_SetThreshold_skel_ok
        (conj conn_SetCipher_skel_ok conn_literals_skel_ok)))).
Qed.

(* the model's pack IS the interpretation of the translated Pack / packWithoutCompression /
   packWithCompression (+ compressPacket) for every threshold, pooled-buffer content, int32 id and
   payload (lengths below 2^62: Go's int does not wrap) - every expression evaluated by its translation
   with explicit wrap semantics *)
Theorem C07_pack_translated :
  forall (deflate : list N -> list N) (thr : Z) (pool : list N) (id : Z) (data : list N),
  in_sw 32 id -> Z.of_N (lenN data) < 2 ^ 62 -> Z.of_N (lenN (deflate (write32 id ++ data))) < 2 ^ 62 ->
  interp_pack deflate thr pool (id, data) = Ret (pack deflate thr pool (id, data)).
Proof. exact interp_pack_is_model. Qed.

(* the model's unpack IS the interpretation of the translated UnPack / unpackWithoutCompression /
   unpackWithCompression on every input stream, for every threshold, receiver state, pooled buffer and
   behaviour of zlib: same value, same rest, same outcome class (and the same error class) *)
Theorem C07_unpack_translated :
  forall (inflate : list N -> option (list N)) (thr : Z) (pool : list N) (old : rstate) (s : list N),
  run_flat (interp_unpack inflate thr pool old) s = run_flat (unpack inflate thr pool old) s.
Proof. exact interp_unpack_is_model. Qed.

(* hence the round trip holds of the interpreted translation itself *)
Theorem C07_roundtrip_translated :
  forall (deflate : list N -> list N) (inflate : list N -> option (list N))
         (thr : Z) (pool pool' : list N) (old : rstate) (p : packet) (rest : list N),
  zlib_inverse deflate inflate -> zlib_fits deflate -> in_domain p ->
  exists frame, interp_pack deflate thr pool p = Ret frame /\
    run_flat (interp_unpack inflate thr pool' old) (frame ++ rest) = FOk (received old p) rest.
Proof. exact roundtrip_translated. Qed.

(* the header arithmetic, translated expression by expression (wrap_s after every + - and conversion),
   equals the model's expressions for all arguments in Go's ranges *)
Theorem C07_header_arithmetic_translated :
  (forall id n, in_sw 32 id -> 0 <= n < 2 ^ 62 ->
     c07_packWithoutCompression_Length id n = vi (Z.of_N (len32 id) + n)) /\
  (forall dl pid n, 0 <= n < 2 ^ 62 ->
     c07_packWithCompression_PacketLength dl pid n = vi (Z.of_N (len32 dl) + Z.of_N (len32 pid) + n)) /\
  (forall pid n, 0 <= n < 2 ^ 62 -> c07_packWithCompression_DataLength_1 pid n = vi (Z.of_N (len32 pid) + n)) /\
  (forall b, 0 <= b < 2 ^ 63 -> c07_packWithCompression_PacketLength_1 b = vi (b - packet_MaxVarIntLen)) /\
  (forall x, c07_packWithCompression_packetLengthLen x = Z.of_N (len32 x)) /\
  (forall l, 1 <= l <= 5 -> c07_packWithCompression_next l = packet_MaxVarIntLen - l) /\
  c07_packWithCompression_padding = packet_MaxVarIntLen.
Proof.
  exact (conj tie_plain_Length (conj tie_below_PacketLength (conj tie_zlib_DataLength
        (conj tie_zlib_PacketLength (conj tie_packetLengthLen (conj tie_next tie_padding)))))).
Qed.
Theorem C07_length_checks_translated :
  (forall L n, in_sw 32 L -> 0 <= n <= 5 -> c07_unpackWithoutCompression_lengthOfData L n = L - n) /\
  (forall x, c07_unpackWithoutCompression_cond x = (x <? 0) || (packet_MaxDataLength <? x)) /\
  (forall PL, in_sw 32 PL -> c07_unpackWithCompression_copy_count PL = PL) /\
  (forall DL, c07_unpackWithCompression_cond DL = negb (DL =? 0)) /\
  (forall DL thr, in_sw 32 DL -> c07_unpackWithCompression_cond_1 DL thr = (DL <? thr)) /\
  (forall DL, c07_unpackWithCompression_cond_2 DL = (packet_MaxDataLength <? DL)) /\
  (forall DL n3, in_sw 32 DL -> c07_unpackWithCompression_cond_3 DL n3 = (DL <? n3)) /\
  (forall DL n3, 0 <= n3 <= 5 -> c07_unpackWithCompression_DataLength DL n3 = vi (DL - n3)) /\
  (forall PL n2 n3, in_sw 32 PL -> 0 <= n2 <= 5 -> 0 <= n3 <= 5 ->
     c07_unpackWithCompression_DataLength_1 PL n2 n3 = vi (PL - n2 - n3)).
Proof.
  exact (conj tie_lengthOfData (conj tie_plain_check (conj tie_copy_count (conj tie_nonzero
        (conj tie_threshold_check (conj tie_max_check (conj tie_below_id_check
        (conj tie_inner_DataLength tie_plain_DataLength)))))))).
Qed.

(* a PLAIN frame inside compressed mode (data length 0): accepted for EVERY payload size its frame
   length can express - 1 + len(id) + n <= 2^31 - 1 - whatever the threshold (also n >= threshold) and
   beyond MaxDataLength; a frame length <= 0 is an error *)
Theorem C07_plain_in_compressed_accepted :
  forall (inflate : list N -> option (list N)) (thr : Z) (pool : list N) (old : rstate)
         (id : Z) (data rest : list N),
  0 <= thr -> in_sw 32 id -> 1 + Z.of_N (len32 id) + Z.of_N (lenN data) < 2147483648 ->
  run_flat (unpack inflate thr pool old)
    (write32 (1 + Z.of_N (len32 id) + Z.of_N (lenN data)) ++ write32 0 ++ write32 id ++ data ++ rest)
  = FOk (received old (id, data)) rest.
Proof. exact plain_in_compressed_accepted. Qed.
Theorem C07_compressed_empty_frame_rejected :
  forall (inflate : list N -> option (list N)) (thr : Z) (pool : list N) (old : rstate) (PL : Z) (rest : list N),
  0 <= thr -> in_sw 32 PL -> PL <= 0 ->
  is_err (run_flat (unpack inflate thr pool old) (write32 PL ++ rest)) = true.
Proof. exact compressed_empty_frame_rejected. Qed.

(* net.Conn: any sequence of WritePacket / SetThreshold / SetCipher events on the sending Conn, the same
   events applied on the receiving Conn at the same frame boundaries (ReadPacket into one re-used Packet):
   the packets arrive intact and in order, the bytes after the last frame stay in the socket, and the two
   ends stay linked (same threshold, synchronised streams).  The cipher streams are arbitrary byte-wise
   state machines of which only `the receiver's stream inverts the sender's from synchronised states`
   is assumed *)
Theorem C07_conn_stream :
  forall (cs : Type) (enc1 dec1 : cs -> N -> N * cs) (deflate : list N -> list N)
         (inflate : list N -> option (list N)) (sync : cs -> cs -> Prop),
  zlib_inverse deflate inflate -> zlib_fits deflate -> stream_inverse cs enc1 dec1 sync ->
  forall (evs : list (ev cs)) (ca cb : conn2 cs) (old : rstate) (rest : list N),
  linked cs sync ca cb -> evs_ok cs sync evs ->
  exists cb',
    recv_all cs dec1 inflate cb evs old (fst (send_all cs enc1 deflate ca evs) ++ rest)
    = FOk (thread old (packets_of cs evs), cb') rest /\
    linked cs sync (snd (send_all cs enc1 deflate ca evs)) cb'.
Proof. exact conn_stream. Qed.

(* ---------- non-vacuity ---------- *)
(* a cipher with ciphertext feedback (the CFB shape: the state is the last ciphertext byte) satisfies
   stream_inverse with sync = equality of states *)
Example C07_ex_stream_inverse : stream_inverse N toy_enc toy_dec eq.
Proof.
  intros a b x ->. unfold toy_enc, toy_dec. cbn [fst snd]. split; [|reflexivity].
  rewrite N.lxor_assoc, N.lxor_nilpotent, N.lxor_0_r. reflexivity.
Qed.
(* a concrete run: two fresh Conns; a packet in the clear, SetThreshold 2, a packet that gets a
   compressed frame, SetCipher, one more packet below the threshold; trailing byte 77 stays *)
Example C07_ex_conn_run :
  let evs := [ EPacket N [1%N] [] (5, [9; 9; 9]%N); EThreshold N 2; EPacket N [] [2%N] (300, [1; 2; 3]%N);
               ECipher N 7%N 8%N 9%N 7%N; EPacket N [] [] (6, [4%N]) ] in
  let '(wire, ca) := send_all N toy_enc (fun x => x) (wrap_conn2 N) evs in
  wire = [4; 5; 9; 9; 9;  6; 5; 172; 2; 1; 2; 3;  4; 4; 2; 6]%N /\
  match recv_all N toy_dec (fun z => Some z) (wrap_conn2 N) evs {| r_id := 0; r_data := []; r_cap := 0%N |} (wire ++ [77%N]) with
  | FOk (rs, cb) rest => map pkt_of rs = packets_of N evs /\ rest = [77%N] /\ k_thr N cb = 2 /\ k_dec N cb = k_enc N ca
  | _ => False
  end.
Proof. vm_compute. repeat split. Qed.
(* the plain-in-compressed frame: threshold 1, payload of 3 bytes (>= threshold), data length 0 *)
Example C07_ex_plain_in_compressed :
  run_flat (unpack (fun z => Some z) 1 [] {| r_id := 0; r_data := []; r_cap := 0%N |}) [5; 0; 7; 1; 2; 3; 77]%N
  = FOk {| r_id := 7; r_data := [1; 2; 3]%N; r_cap := 3%N |} [77%N].
Proof. vm_compute. reflexivity. Qed.

Print Assumptions C07_skeleton_shapes.
Print Assumptions C07_skeleton_conn.
Print Assumptions C07_pack_translated.
Print Assumptions C07_unpack_translated.
Print Assumptions C07_roundtrip_translated.
Print Assumptions C07_header_arithmetic_translated.
Print Assumptions C07_length_checks_translated.
Print Assumptions C07_plain_in_compressed_accepted.
Print Assumptions C07_compressed_empty_frame_rejected.
Print Assumptions C07_conn_stream.

(* ====================================================================================================
   Extension 2: net/conn.go by structured translation (Gen/C07gen.v cs_*, Model/C07_connsyntax.v) and an
   interpreter of the skeletons (Proofs/C07_connskel.v). *)
From GoMC Require Import Model.C07_connsyntax Proofs.C07_connskel.

(* ReadPacket = p.UnPack(c.Reader, c.threshold); WritePacket = p.Pack(c.Writer, c.threshold) (the threshold
   field is read at the call); SetThreshold assigns it; SetCipher replaces Reader by
   cipher.StreamReader{S: decoStream, R: c.Socket} and Writer by cipher.StreamWriter{S: ecoStream, W: c.Socket}
   (both directions, directly around the raw socket); Conn literals: Reader = Writer = Socket, threshold -1 *)
Theorem C07_conn_skeleton_structured :
  C07gen.cs_ReadPacket = expected_cs_ReadPacket /\ C07gen.cs_WritePacket = expected_cs_WritePacket /\
  C07gen.cs_SetThreshold = expected_cs_SetThreshold /\ C07gen.cs_SetCipher = expected_cs_SetCipher /\
  C07gen.cs_fields = expected_cs_fields /\ C07gen.cs_literals = expected_cs_literals.
Proof.
  exact (conj cs_ReadPacket_skel_ok (conj cs_WritePacket_skel_ok (conj cs_SetThreshold_skel_ok
        (conj cs_SetCipher_skel_ok (conj cs_fields_skel_ok cs_literals_skel_ok))))).
Qed.

(* the model's Conn operations ARE the interpretation of the translated methods on the image of a model Conn
   (reader / writer values are the raw socket or stream objects layered around other values; a read decrypts
   layer by layer exactly the bytes UnPack takes and advances the stream it went through) *)
Theorem C07_conn_methods_translated :
  forall (cs : Type) (enc1 dec1 : cs -> N -> N * cs) (deflate : list N -> list N) (inflate : list N -> option (list N)),
  (forall l, In l C07gen.cs_literals -> iliteral cs l = Some (embed cs (wrap_conn2 cs))) /\
  (forall c t, iset_threshold cs (embed cs c) t = Some (embed cs (set_threshold2 cs c t))) /\
  (forall c eco deco, iset_cipher cs (embed cs c) eco deco = Some (embed cs (set_cipher2 cs c eco deco))) /\
  (forall c pool old wire,
     iread_packet cs enc1 dec1 inflate (embed cs c) pool old wire
     = fmap_conn cs (read_packet2 cs dec1 inflate c pool old wire)) /\
  (forall c pool p,
     iwrite_packet cs enc1 dec1 deflate (embed cs c) pool p
     = Some (fst (write_packet2 cs enc1 deflate c pool p), embed cs (snd (write_packet2 cs enc1 deflate c pool p)))).
Proof.
  intros cs enc1 dec1 deflate inflate.
  exact (conj (iliteral_is_model cs) (conj (iset_threshold_is_model cs) (conj (iset_cipher_is_model cs)
        (conj (iread_packet_is_model cs enc1 dec1 inflate) (iwrite_packet_is_model cs enc1 dec1 deflate))))).
Qed.

(* the Conn-level stream theorem, stated of the interpretation of the translated skeletons *)
Theorem C07_conn_stream_translated :
  forall (cs : Type) (enc1 dec1 : cs -> N -> N * cs) (deflate : list N -> list N)
         (inflate : list N -> option (list N)) (sync : cs -> cs -> Prop),
  zlib_inverse deflate inflate -> zlib_fits deflate -> stream_inverse cs enc1 dec1 sync ->
  forall (evs : list (ev cs)) (ca cb : conn2 cs) (old : rstate) (rest : list N),
  linked cs sync ca cb -> evs_ok cs sync evs ->
  exists wire ia cb',
    isend_all cs enc1 dec1 deflate (embed cs ca) evs = Some (wire, ia) /\
    irecv_all cs enc1 dec1 inflate (embed cs cb) evs old (wire ++ rest)
    = FOk (thread old (packets_of cs evs), embed cs cb') rest /\
    ia = embed cs (snd (send_all cs enc1 deflate ca evs)) /\
    linked cs sync (snd (send_all cs enc1 deflate ca evs)) cb'.
Proof. exact conn_stream_translated. Qed.

Print Assumptions C07_conn_skeleton_structured.
Print Assumptions C07_conn_methods_translated.
Print Assumptions C07_conn_stream_translated.
