(* C08 - peer-controlled input never crashes a bot or server: property theorems only.
   Models: Model/C08.v (command dispatcher; chunk / registry / tag skeletons) and the models of the
   owning properties (C05 C06 C07 C11 C01); proofs: Proofs/C08.v, Proofs/C08_skel.v and the owners'. *)
From Coq Require Import List NArith ZArith Bool.
From GoMC Require Import Base.Bytes Base.Dec Gen.Consts Model.C01 Model.C05 Model.C06 Model.C07 Model.C11 Model.C08
  Proofs.C06_more Proofs.C03 Proofs.C08 Proofs.C08_skel Props.C05 Props.C06 Props.C07 Props.C11.
Import ListNotations.
Open Scope N_scope.

(* ================================================================ the command dispatcher *)

(* Graph.Execute on EVERY command line, for every well-formed graph (cycles, duplicate names, mixed
   child kinds, nodes without handler, unreachable garbage all allowed): a handler is called with the
   parsed arguments or an error is returned - never a panic, and the walk never runs out of fuel *)
Theorem C08_dispatch : forall g line, wf_graph g = true -> good (execute g line).
Proof. exact dispatch_total. Qed.
(* ... and with ANY larger fuel the outcome is the same: the bound |line| + 2 is not an artefact *)
Theorem C08_dispatch_fuel_irrelevant : forall g line fuel, wf_graph g = true ->
  (length line + 2 <= fuel)%nat -> execute_f fuel g line = execute g line.
Proof. exact dispatch_fuel_irrelevant. Qed.
(* the empty line and every all-blank line are answered with an error when the root has no handler *)
Theorem C08_dispatch_blank : forall root rest line,
  kindof root = 0 -> run root = None -> forallb is_space line = true -> execute (root :: rest) line = OErr.
Proof. exact blank_line_is_error. Qed.
(* StringParser: the three formats never panic on any text and never return more than they were given *)
Theorem C08_string_parser_total : forall f cmd, (0 <= f <= 2)%Z ->
  match sp_parse f cmd with PR l _ => (length l <= length cmd)%nat | PErr => True | PCrash _ => False end.
Proof. exact sp_parse_total. Qed.
(* well-formedness is not vacuous and not superfluous: the package's own test graph is well-formed;
   a nil Parser, an unknown format and a dangling child index are reached by short lines *)
Definition test_graph : graph :=
  [ mkNode 0 [] [1; 3; 5]%Z None None;
    mkNode 1 [109; 101] [2]%Z None (Some 1);                 (* me <action: greedy> *)
    mkNode 2 [97] [] (Some 2%Z) (Some 2);
    mkNode 1 [104; 101; 108; 112] [4]%Z None (Some 3);       (* help [<command: word>] *)
    mkNode 2 [99] [] (Some 0%Z) (Some 4);
    mkNode 1 [108; 105; 115; 116] [6]%Z None (Some 5);       (* list [uuids] *)
    mkNode 1 [117; 117; 105; 100; 115] [] None (Some 6) ].
Example C08_ex_test_graph :
  wf_graph test_graph = true /\
  execute test_graph [109;101;32;84;110;122;101;32;88;105] = ORun 2 [PNil; PLit [109;101]; PStr [84;110;122;101;32;88;105]] /\
  execute test_graph [] = OErr /\ execute test_graph [32; 9] = OErr /\
  execute test_graph [108;105;115;116;32;120] = OErr.
Proof. repeat split; vm_compute; reflexivity. Qed.
Theorem C08_dispatch_wf_needed :
  (exists g line, wf_graph g = false /\ execute g line = OCrash pNilParser) /\
  (exists g line, wf_graph g = false /\ execute g line = OCrash pFormat) /\
  (exists g line, wf_graph g = false /\ execute g line = OCrash pIndex).
Proof.
  split; [|split].
  - exists [mkNode 0 [] [1]%Z None None; mkNode 2 [120] [] None (Some 1)], [97]. split; vm_compute; reflexivity.
  - exists [mkNode 0 [] [1]%Z None None; mkNode 2 [120] [] (Some 3%Z) (Some 1)], [97]. split; vm_compute; reflexivity.
  - exists [mkNode 0 [] [4]%Z None None], [97]. split; vm_compute; reflexivity.
Qed.

(* ================================================================ level/chunk.go, registry, tags *)

(* Chunk.ReadFrom, PutData, Registry.ReadFrom over ARBITRARY sub-decoders for the NBT documents and the
   palette containers that are robust and total (value or error, never reading backwards): value or
   error on every input, for every number of sections, once the fuel exceeds the input length *)
Definition sub_ok {A} (d : dec A) : Prop := robust d /\ forall s, prog0 s (run_flat d s).

Theorem C08_chunk_total : forall nbt_hm nbt_raw states biomes,
  sub_ok nbt_hm -> (forall j, sub_ok (nbt_raw j)) -> (forall i, sub_ok (states i)) -> (forall i, sub_ok (biomes i)) ->
  forall fuel nsec s, calc_size (bits_for_height nsec) 256 <> None -> (length s < fuel)%nat ->
  ok_or_err (run_flat (chunk_read nbt_hm nbt_raw states biomes fuel nsec) s).
Proof.
  intros hm raw st bi [H1 H2] H3 H4 H5 fuel nsec s.
  apply chunk_read_total; auto; intros; first [apply H3|apply H4|apply H5].
Qed.
(* the height-map size check: a MOTION_BLOCKING or WORLD_SURFACE array of the wrong length never
   yields a chunk and never panics - the run ends in an error *)
Theorem C08_chunk_heightmap_checked : forall nbt_hm nbt_raw states biomes,
  sub_ok nbt_hm -> (forall j, sub_ok (nbt_raw j)) -> (forall i, sub_ok (states i)) -> (forall i, sub_ok (biomes i)) ->
  forall fuel nsec s mb ws r want, (length s < fuel)%nat ->
  run_flat nbt_hm s = FOk (mb, ws) r ->
  calc_size (bits_for_height nsec) 256 = Some want ->
  hm_bad want mb || hm_bad want ws = true ->
  is_err (run_flat (chunk_read nbt_hm nbt_raw states biomes fuel nsec) s) = true.
Proof.
  intros hm raw st bi [H1 H2] H3 H4 H5 fuel nsec s mb ws r want.
  apply chunk_heightmap_checked; auto; intros; first [apply H3|apply H4|apply H5].
Qed.
Theorem C08_put_data_total : forall states biomes,
  (forall i, sub_ok (states i)) -> (forall i, sub_ok (biomes i)) ->
  forall nsec data s, ok_or_err (run_flat (put_data states biomes nsec data) s).
Proof.
  intros st bi H4 H5 nsec data s.
  apply put_data_total; intros; first [apply H4|apply H5].
Qed.
Theorem C08_block_entity_total : forall nbt_raw, (forall j, sub_ok (nbt_raw j)) ->
  forall j s, ok_or_err (run_flat (block_entity nbt_raw j) s).
Proof.
  intros raw H j s. apply (prog0_ok s), prog_prog0.
  apply block_entity_prog; intros; apply H.
Qed.
Theorem C08_registry_total : forall nbt_entry, (forall i, sub_ok (nbt_entry i)) ->
  forall fuel s, (length s < fuel)%nat -> ok_or_err (run_flat (registry_read nbt_entry fuel) s).
Proof. intros en H fuel s. apply registry_read_total; intros; apply H. Qed.

(* the tag decoders have no foreign part: total outright *)
Theorem C08_tags_total : forall fuel nvalues s, (length s < fuel)%nat ->
  ok_or_err (run_flat (tags_read fuel nvalues) s).
Proof. exact tags_read_total. Qed.
Theorem C08_idle_tags_total : forall fuel s, (length s < fuel)%nat -> ok_or_err (run_flat (idle_tags fuel) s).
Proof. exact idle_tags_total. Qed.
Theorem C08_update_tags_total : forall fuel known s, (length s < fuel)%nat ->
  ok_or_err (run_flat (update_tags fuel known) s).
Proof. exact update_tags_total. Qed.

(* negative and oversized length prefixes are reported as errors *)
Theorem C08_tags_negative_count : forall fuel nv s r0 r1 r2 c tag l, (length s < fuel)%nat ->
  run_flat rd_varint s = FOk c r0 -> (0 < c)%Z ->
  run_flat rd_lenbytes r0 = FOk tag r1 ->
  run_flat rd_varint r1 = FOk l r2 -> (l < 0)%Z ->
  run_flat (tags_read fuel nv) s = FErr eNegLen.
Proof. exact tags_negative_count. Qed.
Theorem C08_length_negative : forall s l r, run_flat rd_varint s = FOk l r -> (l < 0)%Z ->
  run_flat rd_lenbytes s = FErr eNegLen /\
  forall A fuel (e : N -> dec A), run_flat (rd_ary fuel e) s = FErr eNegLen.
Proof. intros s l r H Hl. split; [eapply rd_lenbytes_negative; eauto|]. intros. eapply rd_ary_negative; eauto. Qed.
Theorem C08_length_beyond_input : forall s l r, run_flat rd_varint s = FOk l r -> (Z.of_N (lenN r) < l)%Z ->
  run_flat rd_lenbytes s = FErr eEOF.
Proof. exact rd_lenbytes_short. Qed.

(* the hypotheses are satisfiable: the oracle decoders of the correspondence run (consume k bytes, then
   answer) meet them, and a concrete chunk skeleton computes *)
Example C08_ex_sub_ok : forall A k (v : option A), sub_ok (oracle k v).
Proof. intros. split; [apply oracle_robust|intros; apply oracle_prog0]. Qed.
Example C08_ex_sizes : calc_size (bits_for_height 24) 256 = Some 37%Z /\ calc_size (bits_for_height 0) 256 = Some 4%Z
  /\ calc_size (bits_for_height 16) 256 = Some 37%Z.
Proof. repeat split; vm_compute; reflexivity. Qed.
Example C08_ex_chunk :
  let hm l := oracle 1 (Some (Some l, @None N)) in
  let sub := fun _ : N => oracle 1 (Some tt) in
  (* NBT byte, data = 2 sections x (short + 1 + 1), no block entity, empty light data *)
  let body := [9; 8; 0;0;1;1; 0;0;1;1; 0; 0;0;0;0;0;0] in
  run_flat (chunk_read (hm 26) sub sub sub 20 2) body = FOk tt [] /\
  run_flat (chunk_read (hm 3) sub sub sub 20 2) body = FErr eHeightMap /\
  run_flat (chunk_read (hm 26) sub sub sub 20 3) body = FErr eEOF.
Proof. repeat split; vm_compute; reflexivity. Qed.

(* ================================================================ re-exported from the owners *)

(* frame unpacking, both modes, every threshold, any behaviour of zlib (owner: C07) *)
Theorem C08_frame_total :
  forall (inflate : list N -> option (list N)) (thr : Z) (pool : list N) (old : rstate) (s : list N),
  ok_or_err (run_flat (Model.C07.unpack inflate thr pool old) s).
Proof. exact C07_total. Qed.
(* every packet field type and combinator, into any destination state (owner: C06) *)
Theorem C08_field_no_panic : forall fuel t old s, not_panic (run_flat (read_f fuel t old) s).
Proof. exact C06_no_panic. Qed.
Theorem C08_scan_no_panic : forall fuel fs s, not_panic (run_flat (Model.C06.scan fuel fs) s).
Proof. exact C06_scan_no_panic. Qed.
(* VarInt / VarLong (owner: C05) *)
Theorem C08_varint_total : forall s,
  match run_flat read32 s with FOk (_, n) rest => n <= 5 /\ lenN s = n + lenN rest | FErr _ => True | _ => False end.
Proof. exact C05_cap32. Qed.
(* BitStorage.ReadFrom (owner: C11) *)
Theorem C08_bitstorage_total : forall d s, ok_or_err (run_flat (bs_read d) s).
Proof. exact C11_read_total. Qed.
(* NBT documents into interface{}, skipped, into dynbt (owners: C01 model, C03 proofs): with fuel above
   the input length a value or an error, and a value means input was consumed *)
Theorem C08_nbt_any_total : forall fuel id s, (length s + 1 < fuel)%nat -> prog s (run_flat (dec_any fuel id) s).
Proof. exact dec_any_prog. Qed.
Theorem C08_nbt_skip_total : forall fuel id s, (length s + 1 < fuel)%nat -> prog s (run_flat (dec_skip fuel id) s).
Proof. exact dec_skip_prog. Qed.

Print Assumptions C08_dispatch.
Print Assumptions C08_dispatch_fuel_irrelevant.
Print Assumptions C08_dispatch_blank.
Print Assumptions C08_string_parser_total.
Print Assumptions C08_dispatch_wf_needed.
Print Assumptions C08_chunk_total.
Print Assumptions C08_chunk_heightmap_checked.
Print Assumptions C08_put_data_total.
Print Assumptions C08_block_entity_total.
Print Assumptions C08_registry_total.
Print Assumptions C08_tags_total.
Print Assumptions C08_idle_tags_total.
Print Assumptions C08_update_tags_total.
Print Assumptions C08_tags_negative_count.
Print Assumptions C08_length_negative.
Print Assumptions C08_length_beyond_input.
Print Assumptions C08_frame_total.
Print Assumptions C08_field_no_panic.
Print Assumptions C08_scan_no_panic.
Print Assumptions C08_varint_total.
Print Assumptions C08_bitstorage_total.
Print Assumptions C08_nbt_any_total.
Print Assumptions C08_nbt_skip_total.
