(* C08 - peer-controlled input never crashes a bot or server: property theorems only.
   Models: Model/C08.v (command dispatcher; chunk / registry / tag skeletons) and the models of the
   owning properties (C05 C06 C07 C11 C01); proofs: Proofs/C08.v, Proofs/C08_skel.v and the owners'. *)
From Coq Require Import List NArith ZArith Bool.
From GoMC Require Import Base.Bytes Base.Dec Gen.Consts Model.C01 Model.C05 Model.C06 Model.C07 Model.C11 Model.C08
  Model.C08_inst Proofs.C06_more Proofs.C03 Proofs.C08 Proofs.C08_skel Proofs.C08_inst Proofs.C08_field
  Proofs.C05 Proofs.C07 Proofs.C11_wire.
Import ListNotations.
Open Scope N_scope.

(* ================================================================ the command dispatcher *)

(* Graph.Execute on EVERY command line, for every well-formed graph (cycles, duplicate names, mixed
   child kinds, nodes without handler, unreachable garbage all allowed): a handler is called with the
   parsed arguments or an error is returned - never a panic, and the walk never runs out of fuel *)
Theorem C08_dispatch : forall g line, wf_graph g = true -> good (execute g line).
Proof. exact dispatch_total. Qed.
(* ... and with ANY larger fuel the outcome is the same: the bound |line| + 2 is not an artefact *)
Theorem C08_dispatch_fuel_irrelevant : forall g line fuel, wf_graph g = true ->
  (length line + 2 <= fuel)%nat -> execute_f fuel g line = execute g line.
Proof. exact dispatch_fuel_irrelevant. Qed.
(* the empty line and every all-blank line are answered with an error when the root has no handler *)
Theorem C08_dispatch_blank : forall root rest line,
  kindof root = 0 -> run root = None -> forallb is_space line = true -> execute (root :: rest) line = OErr.
Proof. exact blank_line_is_error. Qed.
(* StringParser: the three formats never panic on any text and never return more than they were given *)
Theorem C08_string_parser_total : forall f cmd, (0 <= f <= 2)%Z ->
  match sp_parse f cmd with PR l _ => (length l <= length cmd)%nat | PErr => True | PCrash _ => False end.
Proof. exact sp_parse_total. Qed.
(* well-formedness is not vacuous and not superfluous: the package's own test graph is well-formed;
   a nil Parser, an unknown format and a dangling child index are reached by short lines *)
Definition test_graph : graph :=
  [ mkNode 0 [] [1; 3; 5]%Z None None;
    mkNode 1 [109; 101] [2]%Z None (Some 1);                 (* me <action: greedy> *)
    mkNode 2 [97] [] (Some 2%Z) (Some 2);
    mkNode 1 [104; 101; 108; 112] [4]%Z None (Some 3);       (* help [<command: word>] *)
    mkNode 2 [99] [] (Some 0%Z) (Some 4);
    mkNode 1 [108; 105; 115; 116] [6]%Z None (Some 5);       (* list [uuids] *)
    mkNode 1 [117; 117; 105; 100; 115] [] None (Some 6) ].
Example C08_ex_test_graph :
  wf_graph test_graph = true /\
  execute test_graph [109;101;32;84;110;122;101;32;88;105] = ORun 2 [PNil; PLit [109;101]; PStr [84;110;122;101;32;88;105]] /\
  execute test_graph [] = OErr /\ execute test_graph [32; 9] = OErr /\
  execute test_graph [108;105;115;116;32;120] = OErr.
Proof. repeat split; vm_compute; reflexivity. Qed.
Theorem C08_dispatch_wf_needed :
  (exists g line, wf_graph g = false /\ execute g line = OCrash pNilParser) /\
  (exists g line, wf_graph g = false /\ execute g line = OCrash pFormat) /\
  (exists g line, wf_graph g = false /\ execute g line = OCrash pIndex).
Proof.
  split; [|split].
  - exists [mkNode 0 [] [1]%Z None None; mkNode 2 [120] [] None (Some 1)], [97]. split; vm_compute; reflexivity.
  - exists [mkNode 0 [] [1]%Z None None; mkNode 2 [120] [] (Some 3%Z) (Some 1)], [97]. split; vm_compute; reflexivity.
  - exists [mkNode 0 [] [4]%Z None None], [97]. split; vm_compute; reflexivity.
Qed.

(* ================================================================ level/chunk.go, registry, tags *)

(* Chunk.ReadFrom, PutData, Registry.ReadFrom over ARBITRARY sub-decoders for the NBT documents and the
   palette containers that are robust and total (value or error, never reading backwards): value or
   error on every input, for every number of sections, once the fuel exceeds the input length *)
Definition sub_ok {A} (d : dec A) : Prop := robust d /\ forall s, prog0 s (run_flat d s).

Theorem C08_chunk_total : forall nbt_hm nbt_raw states biomes,
  sub_ok nbt_hm -> (forall j, sub_ok (nbt_raw j)) -> (forall i, sub_ok (states i)) -> (forall i, sub_ok (biomes i)) ->
  forall fuel nsec s, calc_size (bits_for_height nsec) 256 <> None -> (length s < fuel)%nat ->
  ok_or_err (run_flat (chunk_read nbt_hm nbt_raw states biomes fuel nsec) s).
Proof.
  intros hm raw st bi [H1 H2] H3 H4 H5 fuel nsec s.
  apply chunk_read_total; auto; intros; first [apply H3|apply H4|apply H5].
Qed.
(* the height-map size check: a MOTION_BLOCKING or WORLD_SURFACE array of the wrong length never
   yields a chunk and never panics - the run ends in an error *)
Theorem C08_chunk_heightmap_checked : forall nbt_hm nbt_raw states biomes,
  sub_ok nbt_hm -> (forall j, sub_ok (nbt_raw j)) -> (forall i, sub_ok (states i)) -> (forall i, sub_ok (biomes i)) ->
  forall fuel nsec s mb ws r want, (length s < fuel)%nat ->
  run_flat nbt_hm s = FOk (mb, ws) r ->
  calc_size (bits_for_height nsec) 256 = Some want ->
  hm_bad want mb || hm_bad want ws = true ->
  is_err (run_flat (chunk_read nbt_hm nbt_raw states biomes fuel nsec) s) = true.
Proof.
  intros hm raw st bi [H1 H2] H3 H4 H5 fuel nsec s mb ws r want.
  apply chunk_heightmap_checked; auto; intros; first [apply H3|apply H4|apply H5].
Qed.
Theorem C08_put_data_total : forall states biomes,
  (forall i, sub_ok (states i)) -> (forall i, sub_ok (biomes i)) ->
  forall nsec data s, ok_or_err (run_flat (put_data states biomes nsec data) s).
Proof.
  intros st bi H4 H5 nsec data s.
  apply put_data_total; intros; first [apply H4|apply H5].
Qed.
Theorem C08_block_entity_total : forall nbt_raw, (forall j, sub_ok (nbt_raw j)) ->
  forall j s, ok_or_err (run_flat (block_entity nbt_raw j) s).
Proof.
  intros raw H j s. apply (prog0_ok s), prog_prog0.
  apply block_entity_prog; intros; apply H.
Qed.
Theorem C08_registry_total : forall nbt_entry, (forall i, sub_ok (nbt_entry i)) ->
  forall fuel s, (length s < fuel)%nat -> ok_or_err (run_flat (registry_read nbt_entry fuel) s).
Proof. intros en H fuel s. apply registry_read_total; intros; apply H. Qed.

(* the tag decoders have no foreign part: total outright *)
Theorem C08_tags_total : forall fuel nvalues s, (length s < fuel)%nat ->
  ok_or_err (run_flat (tags_read fuel nvalues) s).
Proof. exact tags_read_total. Qed.
Theorem C08_idle_tags_total : forall fuel s, (length s < fuel)%nat -> ok_or_err (run_flat (idle_tags fuel) s).
Proof. exact idle_tags_total. Qed.
Theorem C08_update_tags_total : forall fuel known s, (length s < fuel)%nat ->
  ok_or_err (run_flat (update_tags fuel known) s).
Proof. exact update_tags_total. Qed.

(* negative and oversized length prefixes are reported as errors *)
Theorem C08_tags_negative_count : forall fuel nv s r0 r1 r2 c tag l, (length s < fuel)%nat ->
  run_flat rd_varint s = FOk c r0 -> (0 < c)%Z ->
  run_flat rd_lenbytes r0 = FOk tag r1 ->
  run_flat rd_varint r1 = FOk l r2 -> (l < 0)%Z ->
  run_flat (tags_read fuel nv) s = FErr eNegLen.
Proof. exact tags_negative_count. Qed.
Theorem C08_length_negative : forall s l r, run_flat rd_varint s = FOk l r -> (l < 0)%Z ->
  run_flat rd_lenbytes s = FErr eNegLen /\
  forall A fuel (e : N -> dec A), run_flat (rd_ary fuel e) s = FErr eNegLen.
Proof. intros s l r H Hl. split; [eapply rd_lenbytes_negative; eauto|]. intros. eapply rd_ary_negative; eauto. Qed.
Theorem C08_length_beyond_input : forall s l r, run_flat rd_varint s = FOk l r -> (Z.of_N (lenN r) < l)%Z ->
  run_flat rd_lenbytes s = FErr eEOF.
Proof. exact rd_lenbytes_short. Qed.

(* the hypotheses are satisfiable: the oracle decoders of the correspondence run (consume k bytes, then
   answer) meet them, and a concrete chunk skeleton computes *)
Example C08_ex_sub_ok : forall A k (v : option A), sub_ok (oracle k v).
Proof. intros. split; [apply oracle_robust|intros; apply oracle_prog0]. Qed.
Example C08_ex_sizes : calc_size (bits_for_height 24) 256 = Some 37%Z /\ calc_size (bits_for_height 0) 256 = Some 4%Z
  /\ calc_size (bits_for_height 16) 256 = Some 37%Z.
Proof. repeat split; vm_compute; reflexivity. Qed.
Example C08_ex_chunk :
  let hm l := oracle 1 (Some (Some l, @None N)) in
  let sub := fun _ : N => oracle 1 (Some tt) in
  (* NBT byte, data = 2 sections x (short + 1 + 1), no block entity, empty light data *)
  let body := [9; 8; 0;0;1;1; 0;0;1;1; 0; 0;0;0;0;0;0] in
  run_flat (chunk_read (hm 26) sub sub sub 20 2) body = FOk tt [] /\
  run_flat (chunk_read (hm 3) sub sub sub 20 2) body = FErr eHeightMap /\
  run_flat (chunk_read (hm 26) sub sub sub 20 3) body = FErr eEOF.
Proof. repeat split; vm_compute; reflexivity. Qed.

(* ================================================================ re-exported from the owners *)

(* frame unpacking, both modes, every threshold, any behaviour of zlib (owner: C07) *)
Theorem C08_frame_total :
  forall (inflate : list N -> option (list N)) (thr : Z) (pool : list N) (old : rstate) (s : list N),
  ok_or_err (run_flat (Model.C07.unpack inflate thr pool old) s).
Proof. intros inflate. exact (Proofs.C07.unpack_total (fun x => x) inflate inflate). Qed.
(* every packet field type and combinator, into any destination state (owner: C06) *)
Theorem C08_field_no_panic : forall fuel t old s, not_panic (run_flat (read_f fuel t old) s).
Proof. exact read_never_panics. Qed.
Theorem C08_scan_no_panic : forall fuel fs s, not_panic (run_flat (Model.C06.scan fuel fs) s).
Proof. exact scan_never_panics. Qed.
(* VarInt / VarLong (owner: C05) *)
Theorem C08_varint_total : forall s,
  match run_flat read32 s with FOk (_, n) rest => n <= 5 /\ lenN s = n + lenN rest | FErr _ => True | _ => False end.
Proof. exact read32_cap. Qed.
(* BitStorage.ReadFrom (owner: C11) *)
Theorem C08_bitstorage_total : forall d s, ok_or_err (run_flat (bs_read d) s).
Proof. exact Proofs.C11_wire.read_total. Qed.
(* NBT documents into interface{}, skipped, into dynbt (owners: C01 model, C03 proofs): with fuel above
   the input length a value or an error, and a value means input was consumed *)
Theorem C08_nbt_any_total : forall fuel id s, (length s + 1 < fuel)%nat -> prog s (run_flat (dec_any fuel id) s).
Proof. exact dec_any_prog. Qed.
Theorem C08_nbt_skip_total : forall fuel id s, (length s + 1 < fuel)%nat -> prog s (run_flat (dec_skip fuel id) s).
Proof. exact dec_skip_prog. Qed.


(* ================================================================ phase 2: nothing abstract left *)

(* the sub-decoders themselves (models of the owning properties C12 / C13 over C01, totality proved in
   Proofs/C08_inst.v from C03, C05, C11): value or error on every input once fuel exceeds its length *)
Theorem C08_palette_read_total : forall fuel c s, Proofs.C12.wfcfg (Model.C12.ccfg c) -> (length s < fuel)%nat ->
  ok_or_err (run_flat (Model.C12.pc_read fuel c) s).
Proof. exact c12_pc_read_total. Qed.
Theorem C08_heightmap_decoder_total : forall fuel s, (length s < fuel)%nat ->
  ok_or_err (run_flat (Model.C13.hm_read fuel) s).
Proof. exact hm_read_total. Qed.
Theorem C08_rawmessage_total : forall fuel old s, (length s < fuel)%nat ->
  ok_or_err (run_flat (Model.C13.raw_body fuel old) s).
Proof. exact raw_body_total. Qed.

(* Chunk.ReadFrom with C13's height-map and RawMessage decoders and C12's PaletteContainer.ReadFrom in
   place: for EVERY input, every state of the destination containers (any palette, any data; only the
   registry widths 9..31 / 4..31 of their configuration are asked), every section count a slice can
   have - a value or an error.  No hypothesis on any sub-decoder. *)
Theorem C08_chunk_total_instantiated : forall fuel cs cb nsec s,
  (forall i, Proofs.C12.wfcfg (Model.C12.ccfg (cs i))) -> (forall i, Proofs.C12.wfcfg (Model.C12.ccfg (cb i))) ->
  N.of_nat nsec < 2^58 -> (length s < fuel)%nat ->
  ok_or_err (run_flat (chunk_read_inst fuel cs cb nsec) s).
Proof. exact chunk_total_inst. Qed.
Theorem C08_put_data_total_instantiated : forall fuel cs cb nsec data s,
  (forall i, Proofs.C12.wfcfg (Model.C12.ccfg (cs i))) -> (forall i, Proofs.C12.wfcfg (Model.C12.ccfg (cb i))) ->
  (length data < fuel)%nat -> ok_or_err (run_flat (put_data_inst fuel cs cb nsec data) s).
Proof. exact put_data_total_inst. Qed.
Theorem C08_block_entity_total_instantiated : forall fuel j s, (length s < fuel)%nat ->
  ok_or_err (run_flat (block_entity_inst fuel j) s).
Proof. exact block_entity_total_inst. Qed.
(* Registry[E].ReadFrom for every entry type E of C03's struct universe and every prior value *)
Theorem C08_registry_total_instantiated : forall fuel ty cur s, (length s + 1 + Model.C03.sdepth ty < fuel)%nat ->
  ok_or_err (run_flat (registry_read_inst fuel ty cur) s).
Proof. exact registry_total_inst. Qed.

Definition ex_states : Model.C12.pc :=
  match Model.C12.pc_new (Model.C12.mkCfg Model.C12.KStates 15) 4096 0 with ROk c => c | RPanic _ => Model.C12.mkPC 0 (Model.C12.mkCfg Model.C12.KStates 15) Model.C12.PGlobal (mkBS [] 0 0 0 0) end.
Definition ex_biomes : Model.C12.pc :=
  match Model.C12.pc_new (Model.C12.mkCfg Model.C12.KBiomes 6) 64 0 with ROk c => c | RPanic _ => Model.C12.mkPC 0 (Model.C12.mkCfg Model.C12.KBiomes 6) Model.C12.PGlobal (mkBS [] 0 0 0 0) end.
Example C08_ex_instantiated :
  Proofs.C12.wfcfg (Model.C12.ccfg ex_states) /\ Proofs.C12.wfcfg (Model.C12.ccfg ex_biomes) /\
  (* TAG_End for the height maps; one section: count, single-valued states and biomes; nothing else *)
  (run_flat (chunk_read_inst 40 (fun _ => ex_states) (fun _ => ex_biomes) 1) [0; 8; 0;0; 0;0;0; 0;0;0; 0; 0;0;0;0;0;0] = FOk tt []) /\
  (* a palette length of -1 inside the section data *)
  (run_flat (chunk_read_inst 40 (fun _ => ex_states) (fun _ => ex_biomes) 1) [0; 9; 0;0; 4;255;255;255;255;15; 0; 0;0;0;0;0;0;0] = FErr Model.C12.eNegPal) /\
  (* MOTION_BLOCKING given as a TAG_Long_Array of one long: wrong size *)
  (run_flat (chunk_read_inst 60 (fun _ => ex_states) (fun _ => ex_biomes) 1)
    [10; 12; 0;15; 77;79;84;73;79;78;95;66;76;79;67;75;73;78;71; 0;0;0;1; 0;0;0;0;0;0;0;5; 0; 0; 0; 0;0;0;0;0;0] = FErr eHeightMap).
Proof. repeat split; try (vm_compute; intuition congruence); vm_compute; reflexivity. Qed.

(* ================================================================ packet fields: no NoFuel either *)

(* zero-width types (the empty Tuple, Opt with Has = false, and tuples/Opts of those) read nothing and
   cannot fail; every other type consumes at least one byte when it succeeds: the split is exact *)
Theorem C08_zero_width_exact : forall fuel t old s,
  (zw t = true -> exists v, run_flat (read_f fuel t old) s = FOk (v, 0) s) /\ (zw t = false -> ary_ok t = true -> (length s < fuel)%nat -> prog s (run_flat (read_f fuel t old) s)).
Proof. intros. split; [apply zero_width_reads_nothing|intros; apply field_consumes; assumption]. Qed.
(* every field type in which no array has a zero-width element type (all the types the protocol uses):
   a value or an error - not NoFuel - as soon as the fuel exceeds the input length, whatever the
   declared counts; likewise Packet.Scan of any list of such fields *)
Theorem C08_field_total : forall fuel t old s, ary_ok t = true -> (length s < fuel)%nat ->
  ok_or_err (run_flat (read_f fuel t old) s).
Proof. exact field_total. Qed.
Theorem C08_scan_total : forall fuel fs s, forallb (fun f => ary_ok (fst f)) fs = true -> (length s < fuel)%nat ->
  ok_or_err (run_flat (Model.C06.scan fuel fs) s).
Proof. intros. apply (prog0_ok s). apply scan_total; assumption. Qed.
(* the excluded shape really spins: an array of empty tuples runs its declared count without reading *)
Theorem C08_field_spin_refuted : exists t old s, ary_ok t = false /\ (forall fuel, (fuel < 100)%nat -> run_flat (read_f fuel t old) s = FFuel) /\ length s = 1%nat.
Proof.
  exists (TAry LVarInt TUnit), (VList [] []), [100]. split; [reflexivity|]. split; [|reflexivity].
  intros fuel Hf. do 100 (destruct fuel as [|fuel]; [vm_compute; reflexivity|]). exfalso. apply PeanoNat.Nat.ltb_lt in Hf. vm_compute in Hf. discriminate.
Qed.
Example C08_ex_field_types :
  ary_ok (TAry LVarInt (TPair TString (TPair (TOption TByteArray) TUnit))) = true /\ ary_ok (TPair TBitSet (TAry LUByte (TAry LVarInt TVarInt))) = true /\ zw (TPair TUnit (TOpt false TString)) = true /\ zw (TOpt true TBool) = false.
Proof. repeat split. Qed.

(* ================================================================ Unicode white space *)
(* trim_u is strings.TrimSpace on arbitrary bytes (validated against the standard library in the
   correspondence run); on lines whose bytes are all below 0x80 the dispatcher model's ASCII trim IS
   trim_u, so the dispatcher model is exact for ASCII lines *)
Theorem C08_trim_ascii_exact : forall l, Forall (fun b => b < 128) l -> trim_u l = trim l.
Proof. exact ascii_trim_exact. Qed.
Example C08_ex_trim_unicode :
  trim_u [32; 194;133; 226;128;138; 97; 32; 98; 227;128;128; 194;160; 9] = [97; 32; 98] /\ trim [194;133; 97] = [194;133; 97] /\ trim_u [194;133; 97] = [97] /\ trim_u [226;128;139; 97] = [226;128;139; 97].
Proof. repeat split; vm_compute; reflexivity. Qed.

Print Assumptions C08_dispatch.
Print Assumptions C08_dispatch_fuel_irrelevant.
Print Assumptions C08_dispatch_blank.
Print Assumptions C08_string_parser_total.
Print Assumptions C08_dispatch_wf_needed.
Print Assumptions C08_chunk_total.
Print Assumptions C08_chunk_heightmap_checked.
Print Assumptions C08_put_data_total.
Print Assumptions C08_block_entity_total.
Print Assumptions C08_registry_total.
Print Assumptions C08_tags_total.
Print Assumptions C08_idle_tags_total.
Print Assumptions C08_update_tags_total.
Print Assumptions C08_tags_negative_count.
Print Assumptions C08_length_negative.
Print Assumptions C08_length_beyond_input.
Print Assumptions C08_frame_total.
Print Assumptions C08_field_no_panic.
Print Assumptions C08_scan_no_panic.
Print Assumptions C08_varint_total.
Print Assumptions C08_bitstorage_total.
Print Assumptions C08_nbt_any_total.
Print Assumptions C08_nbt_skip_total.
Print Assumptions C08_palette_read_total.
Print Assumptions C08_heightmap_decoder_total.
Print Assumptions C08_rawmessage_total.
Print Assumptions C08_chunk_total_instantiated.
Print Assumptions C08_put_data_total_instantiated.
Print Assumptions C08_block_entity_total_instantiated.
Print Assumptions C08_registry_total_instantiated.
Print Assumptions C08_zero_width_exact.
Print Assumptions C08_field_total.
Print Assumptions C08_scan_total.
Print Assumptions C08_field_spin_refuted.
Print Assumptions C08_trim_ascii_exact.

(* ================================================================ phase 3: the tie by translation *)
From GoMC Require Import Model.C08_syntax Gen.C08gen Proofs.C08_expected Proofs.C08_tie.

(* the bodies tools/gotrans/c08.go translates from the working tree on every run have the recorded
   statement shapes: server/command Execute / parse / next / StringParser.Parse, registry ReadFrom /
   ReadTagsFrom, bot's idleTagsDecoder and update-tags case; the node kinds are 0, 1, 2 *)
Theorem C08_skeletons_translated : forall g cP cp cn ne kn ci ct,
  map shape c08_sp_Parse = expected_sp_Parse /\
  map shape (c08_node_parse cP) = expected_node_parse /\
  map shape (c08_node_next g cP) = expected_node_next /\
  map shape (c08_Execute g cp cn) = expected_Execute /\
  map shape (c08_Registry_ReadFrom ne) = expected_Registry_ReadFrom /\
  map shape c08_Registry_ReadTagsFrom = expected_Registry_ReadTagsFrom /\
  map shape c08_idle_ReadFrom = expected_idle_ReadFrom /\
  map shape (c08_update_tags kn ci ct) = expected_update_tags /\
  (c08_RootNode = 0 /\ c08_LiteralNode = 1 /\ c08_ArgumentNode = 2).
Proof.
  intros. repeat split.
Qed.

(* Node.parse: the model's node_parse IS the interpretation of the translated body (its guards and
   panics included), for every node and every text, whenever the callee Parse is the model's *)
Theorem C08_parse_translated : forall cP nd cmd, (forall f c, cP f c = sp_parse f c) ->
  parse_interp cP nd cmd = node_parse nd cmd.
Proof. exact parse_interp_ok. Qed.

(* Graph.Execute: the model's execute_f IS the interpretation of the translated body - the index
   expressions g.nodes[0], g.nodes[next] with their bounds, the order of the tests, the nil-Run test -
   for every non-empty graph, every line and every fuel on which the model does not run dry *)
Theorem C08_execute_translated : forall g cp cn, (forall nd c, cp nd c = node_parse nd c) ->
  (forall nd l, cn nd l = node_next g nd l) ->
  forall fuel line, g <> [] -> execute_f fuel g line <> ONoFuel ->
  execute_interp g cp cn fuel line = execute_f fuel g line.
Proof. exact execute_interp_ok. Qed.

(* StringParser.Parse (all three modes, the escape loop, every slice expression with its bounds) and
   Node.next (the child-kind dispatch, the children loop with its break, every index expression): the
   model's sp_parse / node_next ARE the interpretations of the translated bodies, for every input *)
Theorem C08_string_parser_translated : forall f cmd, sp_interp f cmd = sp_parse f cmd.
Proof. exact sp_interp_ok. Qed.
Theorem C08_next_translated : forall g cP nd lft, (forall f c, cP f c = sp_parse f c) ->
  next_interp g cP nd lft = node_next g nd lft.
Proof. exact next_interp_ok. Qed.

(* all four bodies together, each callee being the interpretation of the callee's translated body *)
Definition command_interp (g : graph) (fuel : nat) (line : list N) : outcome :=
  execute_interp g (parse_interp sp_interp) (next_interp g sp_interp) fuel line.
Theorem C08_command_translated : forall g fuel line, g <> [] -> execute_f fuel g line <> ONoFuel ->
  command_interp g fuel line = execute_f fuel g line.
Proof.
  intros. apply execute_interp_ok; auto; intros.
  - apply parse_interp_ok. exact sp_interp_ok.
  - apply next_interp_ok. exact sp_interp_ok.
Qed.

(* the no-panic theorem over the interpretation of the translated source: on a well-formed graph every
   guard of every slice and index expression reached by Execute, parse, next and Parse holds, on every
   command line: the interpretation ends in a handler call or an error *)
Theorem C08_command_total_translated : forall g line, wf_graph g = true ->
  good (command_interp g (length line + 2) line).
Proof.
  intros g line W.
  assert (G: g <> []) by (destruct g; discriminate).
  pose proof (dispatch_total g line W) as D. unfold execute in D.
  rewrite (C08_command_translated g _ line G).
  - exact D.
  - intros E. rewrite E in D. exact D.
Qed.

Print Assumptions C08_skeletons_translated.
Print Assumptions C08_parse_translated.
Print Assumptions C08_execute_translated.
Print Assumptions C08_string_parser_translated.
Print Assumptions C08_next_translated.
Print Assumptions C08_command_translated.
Print Assumptions C08_command_total_translated.

(* ================================================================ phase 4: the translated decoders *)
From GoMC Require Import Proofs.C08_tie_dec.

(* the model's control skeletons ARE the interpretations of the translated decoder bodies: on every
   byte string the interpretation of the Go body (its loops, the order of its reads, the negative-length
   test, the id-range test, the make length and the index guards values[i], reg.values[id]) and the
   model give the same outcome and the same residual input, as soon as both fuels exceed its length *)
Theorem C08_tags_translated : forall F M nv s, (length s < F)%nat -> (length s < M)%nat ->
  run_flat (tags_interp F nv) s = run_flat (tags_read M nv) s.
Proof. exact tags_interp_ok. Qed.
Theorem C08_idle_tags_translated : forall F M s, (length s < F)%nat -> (length s < M)%nat ->
  run_flat (idle_interp F) s = run_flat (idle_tags M) s.
Proof. exact idle_interp_ok. Qed.
Theorem C08_registry_translated : forall ne, (forall i, robust (ne i)) ->
  forall F M s, (length s < F)%nat -> (length s < M)%nat ->
  run_flat (registry_interp ne F) s = run_flat (registry_read ne M) s.
Proof. exact registry_interp_ok. Qed.
Theorem C08_update_tags_translated : forall F M known s, (length s < F)%nat -> (length s < M)%nat ->
  run_flat (update_tags_interp known (idle_tags M) (tags_read M) F) s = run_flat (update_tags M known) s.
Proof. exact update_tags_interp_model. Qed.

(* totality over the interpretation of the translated source: on every byte string every guard reached
   (make length, values[i], reg.values[id]) holds or the function has already returned an error *)
Theorem C08_tags_total_translated : forall F nv s, (length s < F)%nat -> ok_or_err (run_flat (tags_interp F nv) s).
Proof.
  intros F nv s HF. rewrite (tags_interp_ok F (Datatypes.S (length s)) nv s HF (Nat.lt_succ_diag_r _)).
  apply tags_read_total. apply Nat.lt_succ_diag_r.
Qed.
Theorem C08_idle_tags_total_translated : forall F s, (length s < F)%nat -> ok_or_err (run_flat (idle_interp F) s).
Proof.
  intros F s HF. rewrite (idle_interp_ok F (Datatypes.S (length s)) s HF (Nat.lt_succ_diag_r _)).
  apply idle_tags_total. apply Nat.lt_succ_diag_r.
Qed.
Theorem C08_registry_total_translated : forall ne, (forall i, sub_ok (ne i)) ->
  forall F s, (length s < F)%nat -> ok_or_err (run_flat (registry_interp ne F) s).
Proof.
  intros ne H F s HF.
  rewrite (registry_interp_ok ne (fun i => proj1 (H i)) F (Datatypes.S (length s)) s HF (Nat.lt_succ_diag_r _)).
  apply C08_registry_total; [exact H|apply Nat.lt_succ_diag_r].
Qed.
Theorem C08_update_tags_total_translated : forall F known s, (length s < F)%nat ->
  ok_or_err (run_flat (update_tags_interp known (idle_tags (Datatypes.S (length s))) (tags_read (Datatypes.S (length s))) F) s).
Proof.
  intros F known s HF. rewrite (update_tags_interp_model F _ known s HF (Nat.lt_succ_diag_r _)).
  apply update_tags_total. apply Nat.lt_succ_diag_r.
Qed.

Print Assumptions C08_tags_translated.
Print Assumptions C08_idle_tags_translated.
Print Assumptions C08_registry_translated.
Print Assumptions C08_update_tags_translated.
Print Assumptions C08_tags_total_translated.
Print Assumptions C08_idle_tags_total_translated.
Print Assumptions C08_registry_total_translated.
Print Assumptions C08_update_tags_total_translated.

(* ================================================================ phase 5: every decode site *)
From GoMC Require Import Model.C08_sites Proofs.C08_sites Proofs.C08_sites_expected Proofs.C08_sites_tie.

(* the table tools/gotrans/c08.go regenerates on every run - every `<packet>.Scan(args...)` call of
   bot/... and server/... with the declared type of each argument, every ReadFrom method of chat/sign,
   level/component, yggdrasil/user, bot, bot/screen with its reads in source order - is the recorded one *)
Theorem C08_sites_recorded :
  c08_scan_sites = expected_scan_sites /\ c08_readfrom_sites = expected_readfrom_sites.
Proof. split; [exact scan_sites_recorded|exact readfrom_sites_recorded]. Qed.

(* what a descriptor denotes is total whenever it has no panic statement and no array of zero-width
   elements, for every choice the decoded data can make (oracle) and all foreign decoders (text
   components, chunks, NBT documents, FixedBitSet) that return a value or an error without reading
   backwards and - FixedBitSet apart - consume input when they succeed *)
Definition ext_ok (ext : String.string -> dec unit) (fuel : nat) : Prop :=
  (forall k s, (length s < fuel)%nat -> prog0 s (run_flat (ext k) s)) /\
  (forall k s, (length s < fuel)%nat -> String.eqb k fixedbits = false -> prog s (run_flat (ext k) s)).
Theorem C08_descriptor_total : forall ext oracle fuel, ext_ok ext fuel ->
  forall d, sd_ok d = true -> forall s, (length s < fuel)%nat ->
  prog0 s (run_flat (sdr ext oracle fuel d) s) /\ (productive d = true -> prog s (run_flat (sdr ext oracle fuel d) s)).
Proof. intros ext oracle fuel [H1 H2] d Hd s Hs. exact (sdr_fine ext oracle fuel H1 H2 d Hd s Hs). Qed.

(* EVERY row of the regenerated tables: the Scan over that site's argument types / the ReadFrom method
   returns a value or an error and gives no input back, on every byte string.  A new Scan site or a
   changed argument type is inside the theorem on the next run (or stops the translator). *)
Theorem C08_scan_sites_total : forall ext oracle fuel, ext_ok ext fuel ->
  forall r, In r c08_scan_sites -> forall s, (length s < fuel)%nat ->
  prog0 s (run_flat (sdr ext oracle fuel (r_desc r)) s).
Proof. intros ext oracle fuel [H1 H2]. exact (scan_sites_total ext oracle fuel H1 H2). Qed.
Theorem C08_readfrom_sites_total : forall ext oracle fuel, ext_ok ext fuel ->
  forall r, In r c08_readfrom_sites -> forall s, (length s < fuel)%nat ->
  prog0 s (run_flat (sdr ext oracle fuel (r_desc r)) s).
Proof. intros ext oracle fuel [H1 H2]. exact (readfrom_sites_total ext oracle fuel H1 H2). Qed.

(* the hypothesis on the foreign decoders is satisfiable, the tables are not empty, and a panic
   statement or an array of zero-width elements is what sd_ok refuses *)
Definition ex_ext : String.string -> dec unit :=
  fun k => if String.eqb k fixedbits then ReadFull 3 (fun _ => Ret tt) else ReadByte (fun _ => Ret tt).
Example C08_ex_ext_ok : forall fuel, ext_ok ex_ext fuel.
Proof.
  intros fuel. split; intros k s _; unfold ex_ext.
  - destruct (String.eqb k fixedbits); [apply readfull_prog0; intros; apply ret_prog0|].
    apply prog_prog0. cbn. destruct s; cbn; [exact I|apply Nat.lt_succ_diag_r].
  - intros E. rewrite E. cbn. destruct s; cbn; [exact I|apply Nat.lt_succ_diag_r].
Qed.
Example C08_ex_sites : (length c08_scan_sites = 42)%nat /\ Nat.leb 40 (length c08_readfrom_sites) = true /\
  sd_ok (DSeq [DF TVarInt; DPanic String.EmptyString]) = false /\ sd_ok (DAry (DSeq [])) = false /\
  sd_ok (DAry (DSeq [DF TVarInt; DChoice 1 (DRaw 256) (DSeq [])])) = true.
Proof. repeat split; vm_compute; reflexivity. Qed.

Print Assumptions C08_sites_recorded.
Print Assumptions C08_descriptor_total.
Print Assumptions C08_scan_sites_total.
Print Assumptions C08_readfrom_sites_total.

(* ================================================================ phase 6: nothing foreign left *)
From GoMC Require Import Model.C08_ext Proofs.C08_ext Proofs.C08_effects Proofs.C08_regrt.

(* the foreign decoders of the site descriptors, given by the owners' models, meet the hypotheses of
   C08_descriptor_total: pk.NBT through C03's TRANSLATED decoder (into interface{}, any scalar / slice
   type, or - model dec_st - any struct shape and prior value; ErrEND tolerated), level.Chunk through
   the instantiated chunk skeleton, FixedBitSet through C06's reader, chat.Message through C03's translated
   reader composed with C17's conversion of_tag_into, chat.JsonMessage through pk.String, encoding/json
   (ANY function json_parse: total by the library's contract) and C17's of_json_into *)
Theorem C08_foreign_decoders_ok : forall tgt cs cb nsec bits json_parse,
  (forall i, Proofs.C12.wfcfg (Model.C12.ccfg (cs i))) -> (forall i, Proofs.C12.wfcfg (Model.C12.ccfg (cb i))) ->
  N.of_nat nsec < 2^58 -> forall fuel, ext_ok (ext_inst tgt cs cb nsec bits json_parse fuel) fuel.
Proof. intros. apply ext_inst_ok; assumption. Qed.

(* EVERY Scan site and EVERY listed ReadFrom method (bot/playerlist's hand-written handlers included), with
   no hypothesis on any sub-decoder: a value or an error, no input given back, on every byte string, for
   every NBT destination, every destination chunk, every behaviour of encoding/json and every
   data-dependent choice *)
Theorem C08_scan_sites_total_closed : forall tgt cs cb nsec bits json_parse,
  (forall i, Proofs.C12.wfcfg (Model.C12.ccfg (cs i))) -> (forall i, Proofs.C12.wfcfg (Model.C12.ccfg (cb i))) ->
  N.of_nat nsec < 2^58 ->
  forall oracle fuel r, In r c08_scan_sites -> forall s, (length s < fuel)%nat ->
  prog0 s (run_flat (sdr (ext_inst tgt cs cb nsec bits json_parse fuel) oracle fuel (r_desc r)) s).
Proof. intros tgt cs cb nsec bits jp Ws Wb Hn oracle fuel. exact (scan_sites_total_closed tgt cs cb nsec bits jp Ws Wb Hn oracle fuel). Qed.
Theorem C08_readfrom_sites_total_closed : forall tgt cs cb nsec bits json_parse,
  (forall i, Proofs.C12.wfcfg (Model.C12.ccfg (cs i))) -> (forall i, Proofs.C12.wfcfg (Model.C12.ccfg (cb i))) ->
  N.of_nat nsec < 2^58 ->
  forall oracle fuel r, In r c08_readfrom_sites -> forall s, (length s < fuel)%nat ->
  prog0 s (run_flat (sdr (ext_inst tgt cs cb nsec bits json_parse fuel) oracle fuel (r_desc r)) s).
Proof. intros tgt cs cb nsec bits jp Ws Wb Hn oracle fuel. exact (readfrom_sites_total_closed tgt cs cb nsec bits jp Ws Wb Hn oracle fuel). Qed.

(* the read effects of the decoder interpretations ARE the translated readers of net/packet
   (Gen/C05gen.v VarInt.ReadFrom, Gen/C06gen.v String.ReadFrom = Identifier, Boolean.ReadFrom) *)
Theorem C08_read_effects_translated :
  (forall S br (set : S -> Z -> S) σ k s,
     run_flat (eff_varint set σ k) s =
     match run_flat (Gen.C05gen.packet_VarInt_ReadFrom_io br) s with
     | FOk (z, _) r => run_flat (k (set σ z)) r | FErr e => FErr e | FPanic w => FPanic w | FFuel => FFuel end) /\
  (forall S br (set : S -> list N -> S) σ k s, all_bytes s ->
     run_flat (eff_string set σ k) s =
     match run_flat (Gen.C06gen.packet_String_ReadFrom_io (Gen.C05gen.packet_VarInt_ReadFrom_io br)) s with
     | FOk (bs, _) r => run_flat (k (set σ (map Z.to_N bs))) r | FErr e => FErr e | FPanic w => FPanic w | FFuel => FFuel end) /\
  (forall S (set : S -> bool -> S) σ (k : S -> dec unit) s, all_bytes s ->
     run_flat (eff_bool set σ k) s =
     match run_flat Gen.C06gen.packet_Boolean_ReadFrom_io s with
     | FOk (v, _) r => run_flat (k (set σ v)) r | FErr e => FErr e | FPanic w => FPanic w | FFuel => FFuel end).
Proof.
  split; [|split]; intros.
  - apply eff_varint_translated.
  - apply eff_string_translated; assumption.
  - apply eff_bool_translated; assumption.
Qed.

(* Registry.WriteTo then Registry.ReadFrom over the interpretation of the translated ReadFrom: the image
   (C19's reg_write) is consumed exactly and what follows is left untouched *)
Theorem C08_registry_roundtrip_translated : forall ne, (forall i, robust (ne i)) ->
  forall es rest F, lenN es < 2^31 -> fits ne 0 es -> (length (Model.C19.reg_write es ++ rest) < F)%nat ->
  run_flat (registry_interp ne F) (Model.C19.reg_write es ++ rest) = FOk tt rest.
Proof. exact registry_roundtrip_interp. Qed.

Print Assumptions C08_foreign_decoders_ok.
Print Assumptions C08_scan_sites_total_closed.
Print Assumptions C08_readfrom_sites_total_closed.
Print Assumptions C08_read_effects_translated.
Print Assumptions C08_registry_roundtrip_translated.

(* ================================================================ phase 7: allocations sized by the peer *)
From GoMC Require Import Proofs.C08_alloc.

(* the census of the covered packages (level, level/component, registry, chat/sign, yggdrasil/user,
   bot and its modules, server, server/auth, server/command), regenerated from the tree on every run:
   every make / reflect.MakeSlice / Grow / append-in-a-counted-loop whose size mentions a value READ
   FROM THE PEER earlier in the function is dominated by a test bounding the size from above (a
   constant, what is present, the labels of a switch, min(.., K), or one successful read per appended
   element) and - unless it is such an append - by a test excluding a negative size; the only rows
   without are the ones named in c08_alloc_open (empty: the four findings of phase 7 are repaired; each site of the census is measured on the implementation by the child-process stream of the
   harness, classes C08.oom.<site>) *)
Theorem C08_alloc_sites_bounded : forall r, In r c08_alloc_sites -> a_origin r = OPeer ->
  (a_upper r <> BNone /\ (a_lower r <> String.EmptyString \/ exists c, a_upper r = BRead c))
  \/ In (a_site r) c08_alloc_open.
Proof. exact alloc_sites_bounded. Qed.
(* no row is excused *)
Example C08_ex_alloc_open : c08_alloc_open = [].
Proof. reflexivity. Qed.

Print Assumptions C08_alloc_sites_bounded.

(* ================================================================ extra wave: totality on C13's own term *)
From GoMC Require Import Model.C13 Proofs.C08_c13.

(* Model/C13.v chunk_read - the term C13's round-trip theorems are about and, by Proofs/C13_skel_interp.v,
   the interpretation of the translated Chunk.ReadFrom - is generic in the paletted container.  For
   EVERY container type and every PaletteContainer.ReadFrom that returns a value or an error on inputs
   shorter than the fuel (for the destination containers, predicate good), chunk_read returns a value or
   an error on every byte string shorter than the fuel: never a panic (the height-map size check
   precedes NewBitStorage), never out of fuel.  This is C08_chunk_total_instantiated stated on C13's term
   instead of this property's skeleton (an outcome-refinement between the two terms is NOT proved) *)
Theorem C08_chunk_c13_total : forall (cont : Type) (pc_read : bool -> cont -> dec (cont * N)) fuel (good : cont -> Prop),
  (forall biome c s, good c -> (length s < fuel)%nat -> ok_or_err (run_flat (pc_read biome c) s)) ->
  forall (d : chunk cont) s,
  Forall (fun se => good (s_states se) /\ good (s_biomes se)) (c_secs d) ->
  N.of_nat (length (c_secs d)) < 2^58 -> (length s < fuel)%nat ->
  ok_or_err (run_flat (Model.C13.chunk_read cont pc_read fuel d) s).
Proof. intros cont pc_read fuel good H d s. exact (c13_chunk_read_total cont pc_read fuel good H d s). Qed.
(* ... for C13's field-level container: wchunk_read, the reader of C13's wire round trip (gs, gb: the
   global palette widths computed from the registries) *)
Theorem C08_chunk_c13_total_wire : forall fuel gs gb (d : wchunk) s, (0 <= gs <= 64)%Z -> (0 <= gb <= 64)%Z ->
  N.of_nat (length (c_secs d)) < 2^58 -> (length s < fuel)%nat ->
  ok_or_err (run_flat (wchunk_read fuel gs gb d) s).
Proof. exact c13_wchunk_read_total. Qed.
(* ... and for C12's container, the one C08_chunk_total_instantiated puts into this property's skeleton *)
Theorem C08_chunk_c13_total_c12 : forall fuel (d : chunk Model.C12.pc) s,
  Forall (fun se => Proofs.C12.wfcfg (Model.C12.ccfg (s_states se)) /\ Proofs.C12.wfcfg (Model.C12.ccfg (s_biomes se))) (c_secs d) ->
  N.of_nat (length (c_secs d)) < 2^58 -> (length s < fuel)%nat ->
  ok_or_err (run_flat (Model.C13.chunk_read Model.C12.pc (fun _ => Model.C12.pc_read fuel) fuel d) s).
Proof. exact c13_chunk_read_total_c12. Qed.


(* ================================================================ chat.Message from the peer (NBT form) *)
From GoMC Require Import Model.C08_chat Proofs.C08_chat.

(* Message.ReadFrom on EVERY byte string: a component or an error - never a panic, never out of fuel once the
   fuel exceeds the input length - and a component means input was consumed.  The model (Model/C08_chat.v) is
   the control flow of Message.UnmarshalNBT / TranslateArgs.UnmarshalNBT / nestedReader over package nbt's
   typed decoder (C01's dty / dany / dskip = the TRANSLATED gen_ty / gen_any / gen_rawRead, C03_unmarshal_translated),
   with the struct fields and their declared types taken from the tag tables regenerated on every run *)
Theorem C08_chat_total : forall fuel s, (length s + 1 < fuel)%nat -> prog s (run_flat (chat_read fuel) s).
Proof. exact chat_read_total. Qed.
(* ... for a value of every declared type, at every nesting level, with every depth budget of the decoder *)
Theorem C08_chat_value_total : forall fuel t lvl dep id s, t <> COther -> (length s + 1 < fuel)%nat ->
  prog s (run_flat (cval fuel t lvl dep id) s).
Proof. exact cval_prog. Qed.
(* every declared type of the regenerated tables of Message, ClickEvent, HoverEvent is one the model knows *)
Theorem C08_chat_types_known : chat_types_known = true.
Proof. exact types_known. Qed.
(* what is left over is a suffix of the input: nothing is given back, nothing is read twice *)
Theorem C08_chat_suffix : forall fuel s a rest, run_flat (chat_read fuel) s = FOk a rest -> exists used, s = used ++ rest.
Proof. exact chat_read_suffix. Qed.
(* the tag types a component / a translation-argument list accepts; any other id is an error without a read *)
Theorem C08_chat_tag_types : forall fuel lvl dep id s,
  (id <> idString -> id <> idCompound -> id <> idList -> run_flat (cval (S fuel) CMsg lvl dep id) s = FErr eChatType) /\
  (id <> idList -> id <> idByteArray -> id <> idIntArray -> id <> idLongArray ->
     run_flat (cval (S fuel) CArgs lvl dep id) s = FErr eChatType).
Proof. intros. split; [apply hook_accepts|apply args_accepts]. Qed.
(* the nesting limit (fix 76b3415): a decoder stacked above chat.maxNestingDepth is an error on every input, so at
   most 513 of them are ever stacked whatever the length of the input - before the fix only the input length
   bounded them (130000 levels in 650006 bytes: fatal stack overflow on the implementation) *)
Theorem C08_chat_nest_limit : nest_limit = 512 /\ forall fuel lvl dep id s, nest_limit < lvl ->
  is_ok (run_flat (cval (S fuel) CMsg lvl dep id) s) = false /\ is_ok (run_flat (cval (S fuel) CArgs lvl dep id) s) = false.
Proof. split; [exact nest_limit_value|exact hook_above_limit]. Qed.
(* the limit is met exactly: 512 lists nested in a component decode, 513 are refused (the input of the report) *)
Theorem C08_chat_limit_exact :
  chat_outcome 3000 (deep_lists 512) = (0, 0) /\ chat_outcome 3000 (deep_lists 513) = (1, 0).
Proof. split; [exact deep_at_limit|exact deep_over_limit]. Qed.
(* the field tables of the model ARE the struct tag tables of Message / ClickEvent / HoverEvent rendered from the
   source on this run (key = nbt tag name, declared type -> decoder) *)
Theorem C08_chat_rows_translated : msg_rows = rows Gen.C17gen.chat_Message_fields /\
  click_rows = rows Gen.C17gen.chat_ClickEvent_fields /\ hover_rows = rows Gen.C17gen.chat_HoverEvent_fields.
Proof. exact rows_translated. Qed.
Example C08_chat_total_ex : chat_outcome 40 [10; 8; 0; 4; 116; 101; 120; 116; 0; 1; 120; 0; 7] = (0, 1).
Proof. vm_compute. reflexivity. Qed.

Print Assumptions C08_chunk_c13_total.
Print Assumptions C08_chunk_c13_total_wire.
Print Assumptions C08_chunk_c13_total_c12.
Print Assumptions C08_chat_total.
Print Assumptions C08_chat_value_total.
Print Assumptions C08_chat_types_known.
Print Assumptions C08_chat_suffix.
Print Assumptions C08_chat_tag_types.
Print Assumptions C08_chat_nest_limit.
Print Assumptions C08_chat_limit_exact.
Print Assumptions C08_chat_rows_translated.
