(* C09 - stream reads are fragmentation-invariant; I/O failures are never swallowed: property theorems only.
   Model: Model/C09.v (run_src, run_writer, the Write-call lists of the encoders) on top of the reader and encoder
   models of C05 C06 C07 C16 C11 C01; proofs: Proofs/C09.v, Proofs/C09_writer.v, Proofs/C09_inst.v.

   Reading the reader theorems.  frag_invariant D: for EVERY division s of the stream into pieces, D returns on s
   what it returns on the contiguous bytes concat s - same value (the reported byte count is part of the value of
   every reader that reports one), same residual stream, same outcome class - also when the terminal error arrives
   together with the last piece (iotest.DataErrReader) and whatever that error is.  fault_safe D: if D completes on
   s leaving rest, a source that ends (term = eEOF: the clause C09_eof_D) or fails (term = eInj or any other value:
   C09_err_D) after k bytes makes D return that error for every k short of D's need, and D's value for every k
   that covers it.  Both are stated for ALL parameters of D (destination states, thresholds, pooled buffers, the
   behaviour of zlib, fuel). *)
From Coq Require Import List NArith ZArith.
From GoMC Require Import Base.Bytes Base.Dec Gen.Consts Model.C09 Proofs.C09 Proofs.C09_writer Proofs.C09_more Proofs.C09_inst Proofs.C09_gen Proofs.C09_gen2.
From GoMC Require Gen.C05gen Gen.C11gen Gen.C13gen Proofs.C11_tie_io Proofs.C13_skel_interp Model.C12.
From GoMC Require Gen.C09gen Proofs.C09_idioms Proofs.C06_tie_r Proofs.C07_skel Proofs.C16_skel Model.C07_syntax.
From GoMC Require Model.C05 Model.C06 Model.C07 Model.C16 Model.C11 Model.C01.
Import ListNotations.
Open Scope N_scope.

(* ------------------------------------------------------------------ generic, over the syntax of decoders *)
(* run_src with a separate EOF is run_chunked of Base/Dec.v, for every decoder (bare Reads included) *)
Theorem C09_src_is_chunked : forall A (d : dec A) s, run_src d false eEOF s = run_chunked d s.
Proof. exact @src_chunked. Qed.
Theorem C09_fragment_generic : forall A (d : dec A), robust d -> frag_invariant d.
Proof. exact @robust_frag_invariant. Qed.
Theorem C09_fault_generic : forall A (d : dec A), robust d -> fault_safe d.
Proof. exact @robust_fault_safe. Qed.
(* every byte string has the chunkings the correspondence run uses *)
Theorem C09_chunks_cover : forall sizes s, concat (chunks_of sizes s) = s.
Proof. exact chunks_of_concat. Qed.

(* ------------------------------------------------------------------ VarInt / VarLong *)
Theorem C09_fragment_varint : frag_invariant d_varint.
Proof. exact (robust_frag_invariant _ rb_varint). Qed.
Theorem C09_fault_varint : fault_safe d_varint.
Proof. exact (robust_fault_safe _ rb_varint). Qed.
Theorem C09_fragment_varlong : frag_invariant d_varlong.
Proof. exact (robust_frag_invariant _ rb_varlong). Qed.
Theorem C09_fault_varlong : fault_safe d_varlong.
Proof. exact (robust_fault_safe _ rb_varlong). Qed.

(* ------------------------------------------------------------------ every packet field type (any nesting of Ary /
   Option / Opt / Tuple over the 17 leaves), every prior destination state; FixedBitSet of any size *)
Theorem C09_fragment_field : forall fuel t old, frag_invariant (d_field fuel t old).
Proof. exact (fun fuel t old => robust_frag_invariant _ (rb_field fuel t old)). Qed.
Theorem C09_fault_field : forall fuel t old, fault_safe (d_field fuel t old).
Proof. exact (fun fuel t old => robust_fault_safe _ (rb_field fuel t old)). Qed.
Theorem C09_fragment_fixedbitset : forall old, frag_invariant (d_fixedbitset old).
Proof. exact (fun old => robust_frag_invariant _ (fixedbitset_robust old)). Qed.
Theorem C09_fault_fixedbitset : forall old, fault_safe (d_fixedbitset old).
Proof. exact (fun old => robust_fault_safe _ (fixedbitset_robust old)). Qed.

(* ------------------------------------------------------------------ frames: UnPack, both modes, every threshold,
   every state of the pooled buffer and of the receiving Packet, every behaviour of zlib *)
Theorem C09_fragment_frame : forall inflate thr pool old, frag_invariant (d_frame inflate thr pool old).
Proof. exact (fun i t p o => robust_frag_invariant _ (rb_frame i t p o)). Qed.
Theorem C09_fault_frame : forall inflate thr pool old, fault_safe (d_frame inflate thr pool old).
Proof. exact (fun i t p o => robust_fault_safe _ (rb_frame i t p o)). Qed.

(* ------------------------------------------------------------------ RCON ReadPacket, BitStorage.ReadFrom *)
Theorem C09_fragment_rcon : frag_invariant d_rcon.
Proof. exact (robust_frag_invariant _ rb_rcon). Qed.
Theorem C09_fault_rcon : fault_safe d_rcon.
Proof. exact (robust_fault_safe _ rb_rcon). Qed.
Theorem C09_fragment_bitstorage : forall old, frag_invariant (d_bits old).
Proof. exact (fun old => robust_frag_invariant _ (rb_bits old)). Qed.
Theorem C09_fault_bitstorage : forall old, fault_safe (d_bits old).
Proof. exact (fun old => robust_fault_safe _ (rb_bits old)). Qed.

(* ------------------------------------------------------------------ NBT documents, file and network format, into
   interface{} / map[string]any / struct{} (skip) / RawMessage / dynbt.Value / StringifiedMessage / typed scalars and
   slices *)
Theorem C09_fragment_nbt_any : forall f fuel, frag_invariant (d_nbt_any f fuel).
Proof. exact (fun f fuel => robust_frag_invariant _ (rb_nbt_any f fuel)). Qed.
Theorem C09_fault_nbt_any : forall f fuel, fault_safe (d_nbt_any f fuel).
Proof. exact (fun f fuel => robust_fault_safe _ (rb_nbt_any f fuel)). Qed.
Theorem C09_fragment_nbt_map : forall f fuel, frag_invariant (d_nbt_map f fuel).
Proof. exact (fun f fuel => robust_frag_invariant _ (rb_nbt_map f fuel)). Qed.
Theorem C09_fault_nbt_map : forall f fuel, fault_safe (d_nbt_map f fuel).
Proof. exact (fun f fuel => robust_fault_safe _ (rb_nbt_map f fuel)). Qed.
Theorem C09_fragment_nbt_skip : forall f fuel, frag_invariant (d_nbt_skip f fuel).
Proof. exact (fun f fuel => robust_frag_invariant _ (rb_nbt_skip f fuel)). Qed.
Theorem C09_fault_nbt_skip : forall f fuel, fault_safe (d_nbt_skip f fuel).
Proof. exact (fun f fuel => robust_fault_safe _ (rb_nbt_skip f fuel)). Qed.
Theorem C09_fragment_nbt_raw : forall f fuel, frag_invariant (d_nbt_raw f fuel).
Proof. exact (fun f fuel => robust_frag_invariant _ (rb_nbt_raw f fuel)). Qed.
Theorem C09_fault_nbt_raw : forall f fuel, fault_safe (d_nbt_raw f fuel).
Proof. exact (fun f fuel => robust_fault_safe _ (rb_nbt_raw f fuel)). Qed.
Theorem C09_fragment_nbt_dyn : forall f fuel, frag_invariant (d_nbt_dyn f fuel).
Proof. exact (fun f fuel => robust_frag_invariant _ (rb_nbt_dyn f fuel)). Qed.
Theorem C09_fault_nbt_dyn : forall f fuel, fault_safe (d_nbt_dyn f fuel).
Proof. exact (fun f fuel => robust_fault_safe _ (rb_nbt_dyn f fuel)). Qed.
Theorem C09_fragment_nbt_snbt : forall f fuel, frag_invariant (d_nbt_snbt f fuel).
Proof. exact (fun f fuel => robust_frag_invariant _ (rb_nbt_snbt f fuel)). Qed.
Theorem C09_fault_nbt_snbt : forall f fuel, fault_safe (d_nbt_snbt f fuel).
Proof. exact (fun f fuel => robust_fault_safe _ (rb_nbt_snbt f fuel)). Qed.
Theorem C09_fragment_nbt_typed : forall f fuel ty, frag_invariant (d_nbt_ty f fuel ty).
Proof. exact (fun f fuel ty => robust_frag_invariant _ (rb_nbt_ty f fuel ty)). Qed.
Theorem C09_fault_nbt_typed : forall f fuel ty, fault_safe (d_nbt_ty f fuel ty).
Proof. exact (fun f fuel ty => robust_fault_safe _ (rb_nbt_ty f fuel ty)). Qed.

(* ------------------------------------------------------------------ the (n > 0, io.EOF) shape: the former
   packet.readByte (one Read, error tested before the data) is NOT invariant - it loses the last byte when the
   source returns it together with io.EOF; the code as it is now (io.ReadFull) is *)
Theorem C09_readByte_orig_refuted :
  exists tg s, run_src readByte_orig tg eEOF s <> run_flat readByte_orig (concat s).
Proof. exact readByte_orig_refuted. Qed.
Theorem C09_fragment_readByte : frag_invariant readByte_now.
Proof. exact (robust_frag_invariant _ readByte_now_robust). Qed.

(* ------------------------------------------------------------------ writers, generic *)
(* every call checked: an error for every k below the image length (the sink holds exactly the first k bytes),
   nil once the whole image is accepted *)
Theorem C09_writer_generic : forall ws img, all_checked ws -> image ws = img -> writer_safe ws img.
Proof. exact checked_writer_safe. Qed.
(* whatever is checked or not, what reaches the destination is the first k bytes of the image, in order *)
Theorem C09_writer_sink_prefix : forall ws k, sink_of (write_to ws k) = takeN k (image ws).
Proof. exact (fun ws k => run_writer_sink ws (Some k) []). Qed.
(* and an encoder that drops a Write error does report success with a truncated image *)
Theorem C09_unchecked_refuted :
  exists ws k, k < lenN (image ws) /\ w_ok (write_to ws k) = true /\ sink_of (write_to ws k) <> image ws.
Proof. exact sloppy_refuted. Qed.

(* ------------------------------------------------------------------ writers, per encoder: the Write calls read off
   the Go source produce exactly the byte image of the encoder model of the owning property, and a destination
   failing after any k < length of that image yields an error *)
Theorem C09_write_varint : forall z, writer_safe (varint_calls z) (Model.C05.write32 z).
Proof. exact ws_varint. Qed.
Theorem C09_write_varlong : forall z, writer_safe (varlong_calls z) (Model.C05.write64 z).
Proof. exact ws_varlong. Qed.
Theorem C09_write_field : forall t v, writer_safe (fld_calls t v) (fst (Model.C06.wr t v)).
Proof. exact ws_field. Qed.
Theorem C09_write_raw : forall bs, writer_safe (raw_calls bs) (fst (Model.C06.w_raw bs)).
Proof. exact ws_raw. Qed.
Theorem C09_write_frame : forall deflate thr pool p,
  writer_safe (pack_calls deflate thr pool p) (Model.C07.pack deflate thr pool p).
Proof. exact ws_frame. Qed.
Theorem C09_write_rcon : forall id ty pl, writer_safe (rcon_calls id ty pl) (Model.C16.rcon_write id ty pl).
Proof. exact ws_rcon. Qed.
Theorem C09_write_bitstorage : forall st, writer_safe (bs_calls st) (fst (Model.C11.bs_write st)).
Proof. exact ws_bits. Qed.
Theorem C09_write_nbt : forall f name t, writer_safe (nbt_doc_calls f name t) (Model.C01.doc f name t).
Proof. exact ws_nbt. Qed.

(* ------------------------------------------------------------------ non-vacuity: the hypotheses of fault_safe are met
   by concrete runs, and the conclusions compute *)
(* VarInt 300 = ac 02, followed by 09; the source fails after 1 byte (one piece), resp. after 2 (two pieces) *)
Example C09_ex_varint :
  run_flat d_varint [172; 2; 9] = FOk (300%Z, 2) [9] /\ cut_of [[172]] 1 [172; 2; 9] /\
  run_src d_varint true eInj [[172]] = FErr eInj /\
  run_src d_varint true eInj [[172]; [2]] = FOk (300%Z, 2) [].
Proof. repeat split; vm_compute; reflexivity. Qed.
(* an uncompressed frame in compressed mode (threshold 64), id 1, payload 7 8, read into a Packet of capacity 0 *)
Example C09_ex_frame :
  let d := d_frame (fun z => Some z) 64%Z [222; 173] (mk_rstate 77%Z 0) in
  run_flat d [4; 0; 1; 7; 8; 99] = FOk (Model.C07.Build_rstate 1%Z [7; 8] 2) [99] /\
  run_src d true eEOF [[4; 0]; [1]; [7; 8; 99]] = FOk (Model.C07.Build_rstate 1%Z [7; 8] 2) [99] /\
  run_src d false eInj [[4; 0]; [1; 7]] = FErr eInj.
Proof. repeat split; vm_compute; reflexivity. Qed.
(* an NBT document {"a": Byte 5} in file format with root name "r" *)
Example C09_ex_nbt :
  let docb := Model.C01.doc Model.C01.File [114] (Model.C01.TCompound [([97], Model.C01.TByte 5%Z)]) in
  docb = [10; 0; 1; 114; 1; 0; 1; 97; 5; 0] /\
  is_ok (run_flat (d_nbt_any Model.C01.File 20) docb) = true /\
  run_src (d_nbt_any Model.C01.File 20) true eEOF (uniform 3 docb) = run_flat (d_nbt_any Model.C01.File 20) docb /\
  run_src (d_nbt_any Model.C01.File 20) true eEOF (uniform 1 (firstn 9 docb)) = FErr eEOF.
Proof. repeat split; vm_compute; reflexivity. Qed.
(* writers: a String field "hi" is two calls; the sink failing after 2 of the 3 bytes gives an error *)
Example C09_ex_write :
  fld_calls Model.C06.TString (Model.C06.VBytes [104; 105] []) = [ck [2]; ck [104; 105]] /\
  write_to (fld_calls Model.C06.TString (Model.C06.VBytes [104; 105] [])) 2 = WFail [2; 104] /\
  write_to (fld_calls Model.C06.TString (Model.C06.VBytes [104; 105] [])) 3 = WDone [2; 104; 105].
Proof. repeat split; vm_compute; reflexivity. Qed.

(* ================================================================== phase 2 *)
(* the source interpretation of a robust decoder is EXACTLY the labelled linear-time flat run on the concatenation
   (error label included); with io.EOF as the label that is run_flat.  (The driver runs run_flat_t instead of
   run_src on inputs beyond 1500 bytes.) *)
Theorem C09_src_fast : forall A (d : dec A), robust d ->
  forall tg term s, run_src d tg term s = run_flat_t term d (concat s).
Proof. exact @src_flat_t. Qed.
Theorem C09_flat_t_eof : forall A (d : dec A) s, run_flat_t eEOF d s = run_flat d s.
Proof. exact @run_flat_t_eof. Qed.

(* NBT into struct / pointer / fixed array / RawMessage-field destinations (Model/C03.v), any shape, any current
   value of the destination *)
Theorem C09_fragment_nbt_struct : forall f fuel sh cur, frag_invariant (d_nbt_st f fuel sh cur).
Proof. exact (fun f fuel sh cur => robust_frag_invariant _ (rb_nbt_st f fuel sh cur)). Qed.
Theorem C09_fault_nbt_struct : forall f fuel sh cur, fault_safe (d_nbt_st f fuel sh cur).
Proof. exact (fun f fuel sh cur => robust_fault_safe _ (rb_nbt_st f fuel sh cur)). Qed.

(* pk.NBTField.ReadFrom around ANY fragmentation-proof destination decoder: counting wrapper + ErrEND rule *)
Theorem C09_fragment_nbtfield : forall A (body : N -> dec A), (forall id, robust (body id)) ->
  frag_invariant (d_nbtfield body).
Proof. exact @nbtfield_frag. Qed.
Theorem C09_fault_nbtfield : forall A (body : N -> dec A), (forall id, robust (body id)) ->
  fault_safe (d_nbtfield body).
Proof. exact @nbtfield_fault. Qed.
(* ... the count it returns with a nil error is what was taken from the source, and the residual is the rest *)
Theorem C09_nbtfield_count : forall A (body : N -> dec A), (forall id, robust (body id)) ->
  forall s v n rest, run_flat (d_nbtfield body) s = FOk (v, n) rest ->
  run_flat (nbtfield_body body) s = FOk v rest /\ n = consumed (nbtfield_body body) s /\ lenN s = n + lenN rest.
Proof. exact @nbtfield_count. Qed.
(* ... and the count it returns with an error (nbtfield_errn = consumed) never exceeds what the source delivered;
   for any robust decoder `consumed` is exact on success *)
Theorem C09_consumed_le : forall A (d : dec A) s, consumed d s <= lenN s.
Proof. exact @consumed_le. Qed.
Theorem C09_consumed_exact : forall A (d : dec A), robust d ->
  forall s a rest, run_flat d s = FOk a rest -> lenN s = consumed d s + lenN rest.
Proof. exact @consumed_ok. Qed.

(* PluginMessageData (io.ReadAll), a reader that ENDS ON EOF: for every division of the stream and wherever the
   terminal error arrives, the value is the concatenation of what was delivered and the count its length; the
   result is nil-error exactly when the source ended with io.EOF.  So fragmentation invariance holds in full,
   the failure clause holds for every error other than io.EOF, and a stream cut short by io.EOF is - by the
   design of this field - a shorter message, not a failure. *)
Theorem C09_plugin : forall tg term s,
  plugin_read tg term s = (concat s, lenN (concat s), if term =? eEOF then None else Some term).
Proof. exact plugin_read_spec. Qed.

(* THE COUNT RETURNED TOGETHER WITH AN ERROR (errn: read off every ReadFrom of net/packet, see Model/C09.v) is a
   function of the bytes delivered (so it cannot depend on the fragmentation) and never exceeds their number,
   for every field type, destination state and input; same for BitStorage.ReadFrom *)
Theorem C09_errn_le : forall fuel t old s, errn fuel t old s <= lenN s.
Proof. exact errn_le. Qed.
Theorem C09_errn_bits_le : forall s, errn_bits s <= lenN s.
Proof. exact errn_bits_le. Qed.

(* writers: documents containing Marshaler values (RawMessage: one Write of its Data; dynbt Values: one Write per
   scalar / string / array, structure for lists and compounds) *)
Theorem C09_write_nbt_marshaler : forall f name w,
  writer_safe (wt_doc_calls f name w) (Model.C01.doc f name (untree w)).
Proof. exact ws_nbt_marshaler. Qed.
Theorem C09_dyn_value_tree : forall t, untree (dyn_w t) = t.
Proof. exact untree_dyn_w. Qed.

Example C09_ex_errn :
  errn 5 (Model.C06.TAry Model.C06.LVarInt Model.C06.TShort) (Model.C06.VList [] []) [3; 0; 1; 0] = 4 /\
  errn 5 Model.C06.TString (Model.C06.VBytes [] []) [5; 2] = 1 /\
  errn 5 (Model.C06.TPair Model.C06.TVarInt (Model.C06.TPair Model.C06.TShort Model.C06.TUnit)) Model.C06.VUnit [1; 2] = 1.
Proof. repeat split; vm_compute; reflexivity. Qed.
Example C09_ex_nbtfield :
  run_flat (d_nbtfield_any 9) [0; 7] = FOk (None, 1) [7] /\
  run_flat (d_nbtfield_any 9) [1; 5; 7] = FOk (Some (Model.C01.AByte 5%Z), 2) [7] /\
  nbtfield_errn (Model.C01.dec_any 9) [8; 0; 3; 104] = 4.
Proof. repeat split; vm_compute; reflexivity. Qed.

(* ================================================================== phase 3: over the TRANSLATED readers and writers
   Every term below is regenerated from the Go source on each run (Gen/C06gen.v by tools/gotrans/c06.go, Gen/C07gen.v
   by c07.go through the interpreter of Proofs/C07_skel.v, Gen/C16gen.v by c16.go through Proofs/C16_skel.v,
   Gen/C03gen.v by c03.go); robustness is proved on the generated term.  frag_invariant = C09_fragment (every
   division of the stream, error with or after the last piece, any terminal error: same value, count, residual);
   fault_safe = C09_eof / C09_err (the source ends or fails at any offset: the error when short of the reader's need,
   the unchanged value when not). *)
Theorem C09_fragment_fields_translated : fields_translated (@frag_invariant).
Proof. exact (fields_translated_of (@frag_invariant) (@robust_frag_invariant)). Qed.
Theorem C09_eof_fields_translated : fields_translated (@fault_safe).
Proof. exact (fields_translated_of (@fault_safe) (@robust_fault_safe)). Qed.
(* the VarInt reader the String / ByteArray / BitSet terms are closed with in Proofs/C06_tie_r.v (C05's loop) *)
Theorem C09_fields_varint_parameter : robust Proofs.C06_tie_r.varint_rd.
Proof. exact Proofs.C06_tie_r.robust_varint_rd. Qed.
Theorem C09_fragment_frame_translated : forall inflate thr pool old,
  frag_invariant (Proofs.C07_skel.interp_unpack inflate thr pool old).
Proof. exact (fun i t p o => robust_frag_invariant _ (interp_unpack_robust i t p o)). Qed.
Theorem C09_eof_frame_translated : forall inflate thr pool old,
  fault_safe (Proofs.C07_skel.interp_unpack inflate thr pool old).
Proof. exact (fun i t p o => robust_fault_safe _ (interp_unpack_robust i t p o)). Qed.
(* ... and ANY skeleton the translator can emit is interpreted without a bare Read *)
Theorem C09_frame_interpreter_robust : forall deflate inflate pool R (s : Model.C07_syntax.sem_stmt) (ret k : Proofs.C07_skel.st -> dec R),
  (forall σ, robust (ret σ)) -> (forall σ, robust (k σ)) ->
  forall σ, robust (Proofs.C07_skel.exec deflate inflate pool s ret k σ).
Proof. exact (fun d i p R => @exec_robust d i p R). Qed.
Theorem C09_fragment_rcon_translated : frag_invariant Proofs.C16_skel.sem_ReadPacket.
Proof. exact (robust_frag_invariant _ g_rcon). Qed.
Theorem C09_eof_rcon_translated : fault_safe Proofs.C16_skel.sem_ReadPacket.
Proof. exact (robust_fault_safe _ g_rcon). Qed.
Theorem C09_fragment_nbt_translated : nbt_translated (@frag_invariant).
Proof. exact (nbt_translated_of (@frag_invariant) (@robust_frag_invariant)). Qed.
Theorem C09_eof_nbt_translated : nbt_translated (@fault_safe).
Proof. exact (nbt_translated_of (@fault_safe) (@robust_fault_safe)). Qed.

(* writers: the Write-call lists of Model/C09.v have exactly the byte image the TRANSLATED writer hands to w.Write, and
   a destination failing after any k < that image's length yields an error *)
Theorem C09_write_fields_translated : field_writers_translated.
Proof. exact field_writers_translated_ok. Qed.
Theorem C09_write_rcon_translated : forall id ty pl img,
  Proofs.C16_skel.sem_WritePacket id ty pl = Some img -> writer_safe (rcon_calls id ty pl) img.
Proof. exact gw_rcon. Qed.
Theorem C09_write_frame_translated : forall deflate thr pool id data img,
  in_sw 32 id -> (Z.of_N (lenN data) < 2 ^ 62)%Z -> (Z.of_N (lenN (deflate (Model.C05.write32 id ++ data))) < 2 ^ 62)%Z ->
  Proofs.C07_skel.interp_pack deflate thr pool (id, data) = Ret img -> writer_safe (pack_calls deflate thr pool (id, data)) img.
Proof. exact gw_pack. Qed.

(* THE I/O IDIOM TABLE (Gen/C09gen.v, tools/gotrans/c09.go): every call on an io.Reader / io.Writer in the anchor files
   with the function it is in, the idiom, the stream and what happens to its results.  It is the table recorded
   in Proofs/C09_idioms.v, and - evaluated on the generated table - it satisfies the policy: a bare r.Read only in
   countingReader.Read and nbt reader.ReadByte; no io.ReadAtLeast / LimitReader / io.Copy / bufio / ioutil /
   ReadString / Peek ...; io.ReadAll only in PluginMessageData.ReadFrom; every read's error kept; every Write whose
   error is not kept goes to an in-memory buffer. *)
Theorem C09_io_idioms_recorded : Gen.C09gen.c09_io_calls = Proofs.C09_idioms.expected_io_calls.
Proof. exact Proofs.C09_idioms.io_table_recorded. Qed.
Theorem C09_io_policy : Proofs.C09_idioms.policy Gen.C09gen.c09_io_calls = true.
Proof. exact Proofs.C09_idioms.io_policy_holds. Qed.

(* ================================================================== phase 4
   VarInt.ReadFrom / VarLong.ReadFrom and their byte sources are now TRANSLATED too (Gen/C05gen.v): the field theorems
   are restated CLOSED - no reader is a parameter any more; br = whether the caller's io.Reader is an io.ByteReader,
   i.e. the two branches of CreateByteReader / readByte. *)
Theorem C09_fragment_fields_closed : fields_closed (@frag_invariant).
Proof. exact (fields_closed_of (@frag_invariant) (@robust_frag_invariant)). Qed.
Theorem C09_eof_fields_closed : fields_closed (@fault_safe).
Proof. exact (fields_closed_of (@fault_safe) (@robust_fault_safe)). Qed.
(* BitStorage.ReadFrom (Gen/C11gen.v), closed over the translated VarInt reader, any destination storage *)
Theorem C09_fragment_bitstorage_translated : forall br b,
  frag_invariant (Gen.C11gen.c11_BitStorage_ReadFrom (Gen.C05gen.packet_VarInt_ReadFrom_io br) b).
Proof. exact (fun br b => robust_frag_invariant _ (g_BitStorage_closed br b)). Qed.
Theorem C09_eof_bitstorage_translated : forall br b,
  fault_safe (Gen.C11gen.c11_BitStorage_ReadFrom (Gen.C05gen.packet_VarInt_ReadFrom_io br) b).
Proof. exact (fun br b => robust_fault_safe _ (g_BitStorage_closed br b)). Qed.
Theorem C09_write_bitstorage_translated : forall st sp,
  Forall (fun l => l < 2 ^ 64) (Model.C11.data st) -> lenN (Model.C11.data st) < 2 ^ 59 ->
  writer_safe (bs_calls st) (out_of (Gen.C11gen.c11_BitStorage_WriteTo (Some (Proofs.C11_tie_io.inj st sp)))).
Proof. exact gw_BitStorage. Qed.
(* level/chunk.go: Section / BlockEntity / Chunk ReadFrom as the element-by-element interpretation (Proofs/
   C13_skel_interp.v interp_r) of the element lists c13.go extracts (Gen/C13gen.v); Section for ANY palette-container
   reader that issues no bare Read *)
Theorem C09_fragment_section_translated : forall cont (pc_read : bool -> cont -> dec (cont * N)),
  (forall b d, robust (pc_read b d)) ->
  forall s, frag_invariant (Proofs.C13_skel_interp.interp_r (Proofs.C13_skel_interp.sec_renv cont pc_read) Gen.C13gen.c13_Section_ReadFrom_fields s).
Proof. exact (fun cont pc H s => robust_frag_invariant _ (g_section cont pc H s)). Qed.
Theorem C09_eof_section_translated : forall cont (pc_read : bool -> cont -> dec (cont * N)),
  (forall b d, robust (pc_read b d)) ->
  forall s, fault_safe (Proofs.C13_skel_interp.interp_r (Proofs.C13_skel_interp.sec_renv cont pc_read) Gen.C13gen.c13_Section_ReadFrom_fields s).
Proof. exact (fun cont pc H s => robust_fault_safe _ (g_section cont pc H s)). Qed.
Theorem C09_fragment_blockentity_translated : forall fuel st,
  frag_invariant (Proofs.C13_skel_interp.interp_r (Proofs.C13_skel_interp.be_renv fuel) Gen.C13gen.c13_BlockEntity_ReadFrom_fields st).
Proof. exact (fun fuel st => robust_frag_invariant _ (g_blockentity fuel st)). Qed.
Theorem C09_eof_blockentity_translated : forall fuel st,
  fault_safe (Proofs.C13_skel_interp.interp_r (Proofs.C13_skel_interp.be_renv fuel) Gen.C13gen.c13_BlockEntity_ReadFrom_fields st).
Proof. exact (fun fuel st => robust_fault_safe _ (g_blockentity fuel st)). Qed.
Theorem C09_fragment_chunk_translated : forall cont fuel d st,
  frag_invariant (Proofs.C13_skel_interp.interp_r (Proofs.C13_skel_interp.chunk_renv cont fuel d) Gen.C13gen.c13_Chunk_ReadFrom_fields st).
Proof. exact (fun cont fuel d st => robust_frag_invariant _ (g_chunk cont fuel d st)). Qed.
Theorem C09_eof_chunk_translated : forall cont fuel d st,
  fault_safe (Proofs.C13_skel_interp.interp_r (Proofs.C13_skel_interp.chunk_renv cont fuel d) Gen.C13gen.c13_Chunk_ReadFrom_fields st).
Proof. exact (fun cont fuel d st => robust_fault_safe _ (g_chunk cont fuel d st)). Qed.
(* PaletteContainer.ReadFrom: on the MODEL pc_read (the translated body is tied to it by an interpretation over the
   contiguous input, Proofs/C12_skel_read.v, not by a Base.Dec term) - the instance for the Section theorem above *)
Theorem C09_fragment_palette_container : forall fuel c, frag_invariant (Model.C12.pc_read fuel c).
Proof. exact (fun fuel c => robust_frag_invariant _ (pc_read_robust fuel c)). Qed.
Theorem C09_eof_palette_container : forall fuel c, fault_safe (Model.C12.pc_read fuel c).
Proof. exact (fun fuel c => robust_fault_safe _ (pc_read_robust fuel c)). Qed.

Print Assumptions C09_src_is_chunked.
Print Assumptions C09_fragment_generic.
Print Assumptions C09_fault_generic.
Print Assumptions C09_chunks_cover.
Print Assumptions C09_fragment_varint.
Print Assumptions C09_fault_varint.
Print Assumptions C09_fragment_varlong.
Print Assumptions C09_fault_varlong.
Print Assumptions C09_fragment_field.
Print Assumptions C09_fault_field.
Print Assumptions C09_fragment_fixedbitset.
Print Assumptions C09_fault_fixedbitset.
Print Assumptions C09_fragment_frame.
Print Assumptions C09_fault_frame.
Print Assumptions C09_fragment_rcon.
Print Assumptions C09_fault_rcon.
Print Assumptions C09_fragment_bitstorage.
Print Assumptions C09_fault_bitstorage.
Print Assumptions C09_fragment_nbt_any.
Print Assumptions C09_fault_nbt_any.
Print Assumptions C09_fragment_nbt_map.
Print Assumptions C09_fault_nbt_map.
Print Assumptions C09_fragment_nbt_skip.
Print Assumptions C09_fault_nbt_skip.
Print Assumptions C09_fragment_nbt_raw.
Print Assumptions C09_fault_nbt_raw.
Print Assumptions C09_fragment_nbt_dyn.
Print Assumptions C09_fault_nbt_dyn.
Print Assumptions C09_fragment_nbt_snbt.
Print Assumptions C09_fault_nbt_snbt.
Print Assumptions C09_fragment_nbt_typed.
Print Assumptions C09_fault_nbt_typed.
Print Assumptions C09_readByte_orig_refuted.
Print Assumptions C09_fragment_readByte.
Print Assumptions C09_writer_generic.
Print Assumptions C09_writer_sink_prefix.
Print Assumptions C09_unchecked_refuted.
Print Assumptions C09_write_varint.
Print Assumptions C09_write_varlong.
Print Assumptions C09_write_field.
Print Assumptions C09_write_raw.
Print Assumptions C09_write_frame.
Print Assumptions C09_write_rcon.
Print Assumptions C09_write_bitstorage.
Print Assumptions C09_write_nbt.
Print Assumptions C09_src_fast.
Print Assumptions C09_flat_t_eof.
Print Assumptions C09_fragment_nbt_struct.
Print Assumptions C09_fault_nbt_struct.
Print Assumptions C09_fragment_nbtfield.
Print Assumptions C09_fault_nbtfield.
Print Assumptions C09_nbtfield_count.
Print Assumptions C09_consumed_le.
Print Assumptions C09_consumed_exact.
Print Assumptions C09_plugin.
Print Assumptions C09_errn_le.
Print Assumptions C09_errn_bits_le.
Print Assumptions C09_write_nbt_marshaler.
Print Assumptions C09_dyn_value_tree.
Print Assumptions C09_fragment_fields_translated.
Print Assumptions C09_eof_fields_translated.
Print Assumptions C09_fields_varint_parameter.
Print Assumptions C09_fragment_frame_translated.
Print Assumptions C09_eof_frame_translated.
Print Assumptions C09_frame_interpreter_robust.
Print Assumptions C09_fragment_rcon_translated.
Print Assumptions C09_eof_rcon_translated.
Print Assumptions C09_fragment_nbt_translated.
Print Assumptions C09_eof_nbt_translated.
Print Assumptions C09_write_fields_translated.
Print Assumptions C09_write_rcon_translated.
Print Assumptions C09_write_frame_translated.
Print Assumptions C09_io_idioms_recorded.
Print Assumptions C09_io_policy.
Print Assumptions C09_fragment_fields_closed.
Print Assumptions C09_eof_fields_closed.
Print Assumptions C09_fragment_bitstorage_translated.
Print Assumptions C09_eof_bitstorage_translated.
Print Assumptions C09_write_bitstorage_translated.
Print Assumptions C09_fragment_section_translated.
Print Assumptions C09_eof_section_translated.
Print Assumptions C09_fragment_blockentity_translated.
Print Assumptions C09_eof_blockentity_translated.
Print Assumptions C09_fragment_chunk_translated.
Print Assumptions C09_eof_chunk_translated.
Print Assumptions C09_fragment_palette_container.
Print Assumptions C09_eof_palette_container.
