(* C10 - CFB8 = block-cipher CFB8 for any call pattern: property theorems only.
   Model: Model/C10.v; proofs: Proofs/C10_step.v, Proofs/C10.v.
   E is the block function (AES under some key): an arbitrary function, no hypothesis.
   de = true: decrypter (NewCFB8Decrypt), de = false: encrypter. *)
From Coq Require Import List NArith.
From GoMC Require Import Base.Bytes Model.C10 Proofs.C10_step Proofs.C10.
Import ListNotations.
Local Open Scope nat_scope.

(* specification: decryption inverts encryption, for any register contents *)
Theorem C10_inverse : forall (E : list N -> list N) (iv m : list N), ref_dec E iv (ref_enc E iv m) = m.
Proof. exact ref_dec_enc. Qed.

(* specification: transforming piece by piece, carrying the register, is transforming the whole *)
Theorem C10_spec_chunks : forall (E : list N -> list N) (de : bool) (calls : list call) (reg : list N),
  Forall call_ok calls ->
  written calls (spec_outs E de reg calls) = cfb E de reg (concat (map c_src calls)).
Proof. exact spec_outs_written. Qed.

(* one ring-buffer step from ANY state satisfying the invariant (48-byte buffer, position 0..32):
   emits v xor E(register)[0], shifts the ciphertext byte in, re-establishes the invariant *)
Theorem C10_step : forall (E : list N -> list N) (de : bool) (st : state) (v : N) (reg : list N),
  Inv st reg ->
  exists st', step E de st v = Some (st', N.lxor v (ks E reg))
           /\ Inv st' (shift reg (if de then v else N.lxor v (ks E reg))).
Proof. exact step_ok. Qed.

(* one XORKeyStream call from ANY state satisfying the invariant, any source, either aliasing class,
   ANY initial destination contents at least as long as the source: no panic, dst[:len src] is the
   reference image continued from the current register, dst[len src:] is untouched, invariant kept *)
Theorem C10_call : forall (E : list N -> list N) (de : bool) (st : state) (al : alias)
                          (src dst0 reg : list N),
  Inv st reg -> length src <= length (dst_for al src dst0) ->
  exists st', xor_key_stream E de st al src dst0
              = Some (st', cfb E de reg src ++ skipn (length src) (dst_for al src dst0))
           /\ Inv st' (reg_after reg (if de then src else cfb E de reg src)).
Proof. exact xks_ok. Qed.

(* every history of calls on a fresh CFB8: never panics; per call exactly the specified bytes; the
   concatenation of what the calls stored is the reference image of the concatenated sources; nothing
   else in any destination changes; after the history the register window is the last 16 bytes of
   IV ++ ciphertext so far (every prefix of a history is a history, so this holds after every call) *)
Theorem C10_any_pattern : forall (E : list N -> list N) (de : bool) (iv0 : list N) (calls : list call),
  length iv0 = bs -> Forall call_ok calls ->
  exists sts outs,
       trace E de (new_state iv0) calls = map Some (combine sts outs)
    /\ length sts = length calls /\ length outs = length calls
    /\ outs = spec_outs E de iv0 calls
    /\ written calls outs = cfb E de iv0 (concat (map c_src calls))
    /\ Forall2 untouched calls outs
    /\ Forall (fun s => length (iv s) = 3 * bs /\ pos s <= bs + bs) sts
    /\ window (last sts (new_state iv0))
       = lastn bs (iv0 ++ ciphertext E de iv0 (concat (map c_src calls))).
Proof. exact any_pattern. Qed.

(* an encrypting history followed by ANY decrypting history over the same ciphertext returns the
   message (StreamWriter on one end, StreamReader with whatever read sizes on the other) *)
Theorem C10_roundtrip_histories : forall (E : list N -> list N) (iv0 : list N) (ecalls dcalls : list call),
  length iv0 = bs -> Forall call_ok ecalls -> Forall call_ok dcalls ->
  exists ests eouts dsts douts,
       trace E false (new_state iv0) ecalls = map Some (combine ests eouts)
    /\ length ests = length ecalls /\ length eouts = length ecalls
    /\ trace E true (new_state iv0) dcalls = map Some (combine dsts douts)
    /\ length dsts = length dcalls /\ length douts = length dcalls
    /\ (concat (map c_src dcalls) = written ecalls eouts ->
        written dcalls douts = concat (map c_src ecalls)).
Proof. exact roundtrip_histories. Qed.

(* the explicit panic, and the early return *)
Theorem C10_short_dst_panics : forall (E : list N -> list N) (de : bool) (st : state) (src dst0 : list N),
  src <> [] -> length dst0 < length src -> xor_key_stream E de st Disjoint src dst0 = None.
Proof. exact xks_short_dst. Qed.
Theorem C10_empty_noop : forall (E : list N -> list N) (de : bool) (st : state) (al : alias) (dst0 : list N),
  xor_key_stream E de st al [] dst0 = Some (st, dst_for al [] dst0).
Proof. exact xks_empty. Qed.

(* non-vacuity: a concrete history (slow in place, fast disjoint with a longer dst, slow disjoint) on the
   toy block function (ex_iv, ex_calls in Model/C10.v) satisfies the hypotheses, runs without panic, and
   is not the identity *)
Example C10_ex_hyps : length ex_iv = bs /\ Forall call_ok ex_calls /\ Inv (new_state ex_iv) ex_iv.
Proof.
  split. { reflexivity. }
  split. 2:{ apply (Inv_new (fun x => x)). reflexivity. }
  repeat (apply Forall_cons; [apply PeanoNat.Nat.leb_le; reflexivity|]). apply Forall_nil.
Qed.
Example C10_ex_run :
  map (fun r => match r with Some (st, out) => Some (pos st, length out, firstn 3 out) | None => None end)
      (toy_trace 7 false ex_iv ex_calls)
  = [Some (5, 7, [23; 29; 32]%N); Some (0, 43, [56; 176; 241]%N); Some (20, 20, [45; 167; 77]%N)]
  /\ skipn 40 (match nth 1 (toy_trace 7 false ex_iv ex_calls) None with Some (_, o) => o | None => [] end) = [9; 9; 9]%N.
Proof. vm_compute. split; reflexivity. Qed.
Example C10_ex_short_dst :
  toy_trace 7 true ex_iv [ {| c_alias := Disjoint; c_src := [1; 2; 3]%N; c_dst := [0; 0]%N |} ] = [None].
Proof. vm_compute. reflexivity. Qed.

Print Assumptions C10_inverse.
Print Assumptions C10_spec_chunks.
Print Assumptions C10_step.
Print Assumptions C10_call.
Print Assumptions C10_any_pattern.
Print Assumptions C10_roundtrip_histories.
Print Assumptions C10_short_dst_panics.
Print Assumptions C10_empty_noop.
