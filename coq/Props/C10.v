(* C10 - CFB8 = block-cipher CFB8 for any call pattern: property theorems only.
   Model: Model/C10.v; proofs: Proofs/C10_step.v, Proofs/C10.v.
   E is the block function (AES under some key): an arbitrary function, no hypothesis.
   de = true: decrypter (NewCFB8Decrypt), de = false: encrypter. *)
From Coq Require Import List NArith.
From GoMC Require Import Base.Bytes Model.C10 Proofs.C10_step Proofs.C10.
Import ListNotations.
Local Open Scope nat_scope.

(* specification: decryption inverts encryption, for any register contents *)
Theorem C10_inverse : forall (E : list N -> list N) (iv m : list N), ref_dec E iv (ref_enc E iv m) = m.
Proof. exact ref_dec_enc. Qed.

(* specification: transforming piece by piece, carrying the register, is transforming the whole *)
Theorem C10_spec_chunks : forall (E : list N -> list N) (de : bool) (calls : list call) (reg : list N),
  Forall call_ok calls ->
  written calls (spec_outs E de reg calls) = cfb E de reg (concat (map c_src calls)).
Proof. exact spec_outs_written. Qed.

(* one ring-buffer step from ANY state satisfying the invariant (48-byte buffer, position 0..32):
   emits v xor E(register)[0], shifts the ciphertext byte in, re-establishes the invariant *)
Theorem C10_step : forall (E : list N -> list N) (de : bool) (st : state) (v : N) (reg : list N),
  Inv st reg ->
  exists st', step E de st v = Some (st', N.lxor v (ks E reg))
           /\ Inv st' (shift reg (if de then v else N.lxor v (ks E reg))).
Proof. exact step_ok. Qed.

(* one XORKeyStream call from ANY state satisfying the invariant, any source, either aliasing class,
   ANY initial destination contents at least as long as the source: no panic, dst[:len src] is the
   reference image continued from the current register, dst[len src:] is untouched, invariant kept *)
Theorem C10_call : forall (E : list N -> list N) (de : bool) (st : state) (al : alias)
                          (src dst0 reg : list N),
  Inv st reg -> length src <= length (dst_for al src dst0) ->
  exists st', xor_key_stream E de st al src dst0
              = Some (st', cfb E de reg src ++ skipn (length src) (dst_for al src dst0))
           /\ Inv st' (reg_after reg (if de then src else cfb E de reg src)).
Proof. exact xks_ok. Qed.

(* every history of calls on a fresh CFB8: never panics; per call exactly the specified bytes; the
   concatenation of what the calls stored is the reference image of the concatenated sources; nothing
   else in any destination changes; after the history the register window is the last 16 bytes of
   IV ++ ciphertext so far (every prefix of a history is a history, so this holds after every call) *)
Theorem C10_any_pattern : forall (E : list N -> list N) (de : bool) (iv0 : list N) (calls : list call),
  length iv0 = bs -> Forall call_ok calls ->
  exists sts outs,
       trace E de (new_state iv0) calls = map Some (combine sts outs)
    /\ length sts = length calls /\ length outs = length calls
    /\ outs = spec_outs E de iv0 calls
    /\ written calls outs = cfb E de iv0 (concat (map c_src calls))
    /\ Forall2 untouched calls outs
    /\ Forall (fun s => length (iv s) = 3 * bs /\ pos s <= bs + bs) sts
    /\ window (last sts (new_state iv0))
       = lastn bs (iv0 ++ ciphertext E de iv0 (concat (map c_src calls))).
Proof. exact any_pattern. Qed.

(* an encrypting history followed by ANY decrypting history over the same ciphertext returns the
   message (StreamWriter on one end, StreamReader with whatever read sizes on the other) *)
Theorem C10_roundtrip_histories : forall (E : list N -> list N) (iv0 : list N) (ecalls dcalls : list call),
  length iv0 = bs -> Forall call_ok ecalls -> Forall call_ok dcalls ->
  exists ests eouts dsts douts,
       trace E false (new_state iv0) ecalls = map Some (combine ests eouts)
    /\ length ests = length ecalls /\ length eouts = length ecalls
    /\ trace E true (new_state iv0) dcalls = map Some (combine dsts douts)
    /\ length dsts = length dcalls /\ length douts = length dcalls
    /\ (concat (map c_src dcalls) = written ecalls eouts ->
        written dcalls douts = concat (map c_src ecalls)).
Proof. exact roundtrip_histories. Qed.

(* the explicit panic, and the early return *)
Theorem C10_short_dst_panics : forall (E : list N -> list N) (de : bool) (st : state) (src dst0 : list N),
  src <> [] -> length dst0 < length src -> xor_key_stream E de st Disjoint src dst0 = None.
Proof. exact xks_short_dst. Qed.
Theorem C10_empty_noop : forall (E : list N -> list N) (de : bool) (st : state) (al : alias) (dst0 : list N),
  xor_key_stream E de st al [] dst0 = Some (st, dst_for al [] dst0).
Proof. exact xks_empty. Qed.

(* non-vacuity: a concrete history (slow in place, fast disjoint with a longer dst, slow disjoint) on the
   toy block function (ex_iv, ex_calls in Model/C10.v) satisfies the hypotheses, runs without panic, and
   is not the identity *)
Example C10_ex_hyps : length ex_iv = bs /\ Forall call_ok ex_calls /\ Inv (new_state ex_iv) ex_iv.
Proof.
  split. { reflexivity. }
  split. 2:{ apply (Inv_new (fun x => x)). reflexivity. }
  repeat (apply Forall_cons; [apply PeanoNat.Nat.leb_le; reflexivity|]). apply Forall_nil.
Qed.
Example C10_ex_run :
  map (fun r => match r with Some (st, out) => Some (pos st, length out, firstn 3 out) | None => None end)
      (toy_trace 7 false ex_iv ex_calls)
  = [Some (5, 7, [23; 29; 32]%N); Some (0, 43, [56; 176; 241]%N); Some (20, 20, [45; 167; 77]%N)]
  /\ skipn 40 (match nth 1 (toy_trace 7 false ex_iv ex_calls) None with Some (_, o) => o | None => [] end) = [9; 9; 9]%N.
Proof. vm_compute. split; reflexivity. Qed.
Example C10_ex_short_dst :
  toy_trace 7 true ex_iv [ {| c_alias := Disjoint; c_src := [1; 2; 3]%N; c_dst := [0; 0]%N |} ] = [None].
Proof. vm_compute. reflexivity. Qed.

Print Assumptions C10_inverse.
Print Assumptions C10_spec_chunks.
Print Assumptions C10_step.
Print Assumptions C10_call.
Print Assumptions C10_any_pattern.
Print Assumptions C10_roundtrip_histories.
Print Assumptions C10_short_dst_panics.
Print Assumptions C10_empty_noop.

(* ================================================================== extension: the tie by translation.
   tools/gotrans/c10.go translates net/CFB8/cfb8.go into Gen/C10gen.v on every run; Model/C10_interp.v
   interprets the translated statements over an explicit memory in which dst and src are windows at any
   offset from each other.  Proofs: C10_skel.v, C10_tie.v, C10_ext.v. *)
From Coq Require Import ZArith String Bool.
Local Open Scope bool_scope.
From GoMC Require Import Base.GoInt Model.C10_syntax Gen.C10gen Model.C10_interp.
From GoMC Require Import Proofs.C10_expected Proofs.C10_skel Proofs.C10_tie Proofs.C10_ext Proofs.C10_tie_slow.

(* the source is what was modelled: statement kinds, order, constants and expression texts of XORKeyStream and
   xorKeyStream; bodies and signatures of the constructors; the fields of CFB8; and what the interpreter
   (and the extracted driver) runs is the translation *)
Theorem C10_source_shape :
  map shape C10gen.XORKeyStream = expected_XORKeyStream /\
  map shape C10gen.xorKeyStream = expected_xorKeyStream /\
  C10gen.cfb8_newCFB8 = expected_cfb8_newCFB8 /\
  C10gen.cfb8_NewCFB8Encrypt = expected_cfb8_NewCFB8Encrypt /\
  C10gen.cfb8_NewCFB8Decrypt = expected_cfb8_NewCFB8Decrypt /\
  C10gen.cfb8_struct = expected_cfb8_struct /\
  XKS = map notext C10gen.XORKeyStream /\ SLOW = map notext C10gen.xorKeyStream.
Proof.
  exact (conj XORKeyStream_skel_ok (conj xorKeyStream_skel_ok (conj (proj1 newCFB8_skel_ok)
        (conj (proj1 NewCFB8Encrypt_skel_ok) (conj (proj1 NewCFB8Decrypt_skel_ok) (conj struct_skel_ok
        (conj XKS_is_translation SLOW_is_translation))))))).
Qed.

(* newCFB8: the translated make length is three times the IV length *)
Theorem C10_new_len : forall n : Z, (0 <= n < 2 ^ 61)%Z -> c10_newCFB8_make_len n = (3 * n)%Z.
Proof. exact tie_make_len. Qed.

(* the ring-buffer step of the hand model IS the interpretation of the translated loop body of xorKeyStream:
   for every ring position, every content and length of the iv buffer (panics included), every source byte,
   both directions, iteration k of a loop over a source a and destination d in the flat memory *)
Theorem C10_interp_step : forall (E : list N -> list N) (fuel : nat) (call : callee -> slc -> slc -> st -> outcome)
    (m : Z -> N) (ivl : list N) (p : nat) (de : bool) (k : Z) (v : N) (d a : slc) (ppb0 tp0 : Z) (ct ivs : slc),
  (Z.of_nat p < 2 ^ 62)%Z ->
  sl_sp d = Arena -> sl_sp a = Arena -> (0 <= k < sl_len a)%Z -> (0 <= k < sl_len d)%Z -> m (sl_off a + k)%Z = v ->
  run_block (exec E false fuel call) slow_body (body_state m ivl p 16 de k v d a ppb0 tp0 ct ivs)
  = match step E de {| iv := ivl; pos := p |} v with
    | None => OPanic
    | Some (s', o) =>
        ONormal (mkst (upd m (sl_off d + k)%Z o) (iv s') (Z.of_nat (pos s')) 16%Z de
                      (mkloc k (Z.of_nat (p + 16)) (Z.land (Z.of_nat (p + 16)) 31) o d a ct ivs))
    end.
Proof. exact interp_body_is_step. Qed.
(* the same for any block size n > 0 (stepn: Model/C10_interp.v; step = stepn 16 by computation) *)
Theorem C10_interp_stepn : forall (E : list N -> list N) (fuel : nat) (call : callee -> slc -> slc -> st -> outcome)
    (m : Z -> N) (ivl : list N) (p n : nat) (de : bool) (k : Z) (v : N) (d a : slc) (ppb0 tp0 : Z) (ct ivs : slc),
  0 < n -> (Z.of_nat p < 2 ^ 62)%Z -> (Z.of_nat n < 2 ^ 62)%Z ->
  sl_sp d = Arena -> sl_sp a = Arena -> (0 <= k < sl_len a)%Z -> (0 <= k < sl_len d)%Z -> m (sl_off a + k)%Z = v ->
  run_block (exec E false fuel call) slow_body (body_state m ivl p n de k v d a ppb0 tp0 ct ivs)
  = match stepn E n de {| iv := ivl; pos := p |} v with
    | None => OPanic
    | Some (s', o) =>
        ONormal (mkst (upd m (sl_off d + k)%Z o) (iv s') (Z.of_nat (pos s')) (Z.of_nat n) de
                      (mkloc k (Z.of_nat (p + n)) (Z.land (Z.of_nat (p + n)) (2 * Z.of_nat n - 1)) o d a ct ivs))
    end.
Proof. exact interp_body_is_stepn. Qed.

(* the whole slow path: interpreting the translated xorKeyStream (dst = dst[:len(src)] and the range loop) on a
   source a whose bytes are src and a destination d that starts where a starts (in place) or shares no byte
   with it gives exactly the hand model: same panics; otherwise the model's outputs stored at d[0..len src)
   and nowhere else, the model's iv buffer and ivPos; the caller's locals untouched.  Any block size n > 0
   (slown; Model/C10.v's slow is slown 16, C10_slow_is_slown16) *)
Theorem C10_interp_slow : forall (E : list N -> list N) (fuel n : nat) (de : bool) (d a : slc) (src : list N)
    (m : Z -> N) (ivl : list N) (p : nat) (lc : loc),
  0 < n -> (Z.of_nat n < 2 ^ 62)%Z -> sl_sp d = Arena -> sl_sp a = Arena ->
  (sl_off d = sl_off a \/ sl_off d + sl_len a <= sl_off a \/ sl_off a + sl_len a <= sl_off d)%Z ->
  lenZ src = sl_len a -> (sl_len a <= sl_len d)%Z -> (sl_len d <= sl_cap d)%Z ->
  (Z.of_nat p + lenZ src < 2 ^ 62)%Z ->
  (forall j, j < List.length src -> m (sl_off a + Z.of_nat j)%Z = nth j src 0%N) ->
  interp_slow E false fuel d a (mkst m ivl (Z.of_nat p) (Z.of_nat n) de lc)
  = match slown E n de {| iv := ivl; pos := p |} src with
    | None => OPanic
    | Some (s', outs) =>
        ONormal (mkst (wr_mem m (sl_off d) outs) (iv s') (Z.of_nat (pos s')) (Z.of_nat n) de lc)
    end.
Proof. exact interp_slow_is_slown. Qed.
Theorem C10_slow_is_slown16 : forall (E : list N -> list N) (de : bool) (src : list N) (s : state),
  slow E de s src = slown E 16 de s src.
Proof. exact slow_is_slown16. Qed.

(* the two pointer tests of XORKeyStream as translated, inside the address range (no wrap):
   fast path iff more than two blocks and (dst starts >= b bytes before src, or src ends before dst);
   on the fast path the batched branch is taken iff decrypting and dst starts delta bytes before src with
   b <= delta <= len(src) - b - 1, i.e. ONLY for a partial overlap *)
Theorem C10_fast_test : forall L b D Ld S : Z,
  (0 < L <= Ld -> 0 <= b < 2 ^ 62 -> 0 <= D -> 0 <= S -> D + Ld < 2 ^ 63 -> S + L < 2 ^ 63 ->
   c10_XORKeyStream_cond_2 L b D Ld S = Some ((2 * b <? L) && ((D + b <=? S) || (S + L <=? D))))%Z.
Proof. exact tie_fast_test. Qed.
Theorem C10_batched_guard : forall de L b D Ld S : Z,
  (0 < L <= Ld -> 0 < b < 2 ^ 62 -> 0 <= D -> 0 <= S -> D + Ld < 2 ^ 63 -> S + L < 2 ^ 63 ->
   c10_XORKeyStream_cond_2 L b D Ld S = Some true ->
   c10_XORKeyStream_cond_4 de (D + b) (L - b) (L - b) (S + b)
   = Some (negb (de =? 0) && (b <=? S - D) && (S - D <=? L - b - 1)))%Z.
Proof. exact batched_reached_iff. Qed.
(* dst == src exactly never reaches the fast path (hence never the batched branch) *)
Theorem C10_exact_overlap_slow : forall L b D Ld : Z,
  (0 < L <= Ld -> 0 < b < 2 ^ 62 -> 0 <= D -> D + Ld < 2 ^ 63 ->
   c10_XORKeyStream_cond_2 L b D Ld D = Some false)%Z.
Proof. exact exact_overlap_is_slow. Qed.
(* no common byte: fast path iff more than two blocks, and then the plain loop *)
Theorem C10_disjoint_plain : forall de L b D Ld S : Z,
  (0 < L <= Ld -> 0 < b < 2 ^ 62 -> 0 <= D -> 0 <= S -> D + Ld < 2 ^ 63 -> S + L < 2 ^ 63 ->
   D + Ld <= S \/ S + L <= D ->
   c10_XORKeyStream_cond_2 L b D Ld S = Some (2 * b <? L) /\
   (2 * b < L -> c10_XORKeyStream_cond_4 de (D + b) (L - b) (L - b) (S + b) = Some false))%Z.
Proof. exact disjoint_is_plain. Qed.

(* partial overlap is NOT transformed correctly (the cipher.Stream contract excludes it): the batched branch
   on a decrypter with dst 20 bytes before src, and the slow path with src 5 bytes before dst *)
Theorem C10_batched_partial_overlap_refuted :
  exists out, wit_result true wit_batched = Some out /\ out <> wit_expected true wit_batched.
Proof. exact batched_partial_overlap_refuted. Qed.
Theorem C10_slow_partial_overlap_refuted :
  forall de, exists out, wit_result de wit_behind = Some out /\ out <> wit_expected de wit_behind.
Proof. exact slow_partial_overlap_refuted. Qed.

(* a cipher with BlockSize() = 8: the same ring on a 24-byte buffer; one step and any slow-path source *)
Theorem C10_step8 : forall (E : list N -> list N) (de : bool) (s : state) (v : N) (reg : list N),
  Inv8 s reg ->
  exists s', stepn E 8 de s v = Some (s', N.lxor v (ks E reg))
          /\ Inv8 s' (Model.C10.shift reg (if de then v else N.lxor v (ks E reg))).
Proof. exact step8_ok. Qed.
Theorem C10_slow8 : forall (E : list N -> list N) (de : bool) (src : list N) (s : state) (reg : list N),
  Inv8 s reg ->
  exists s', slown E 8 de s src = Some (s', cfb E de reg src)
          /\ Inv8 s' (reg_after reg (if de then src else cfb E de reg src)).
Proof. exact slow8_ok. Qed.

(* non-vacuity: the witness layout does reach the batched branch; an 8-byte IV satisfies Inv8 *)
Example C10_ex_batched_reached :
  c10_XORKeyStream_cond_2 50 16 base_addr 50 (base_addr + 20) = Some true /\
  c10_XORKeyStream_cond_4 1 (base_addr + 16) 34 34 (base_addr + 36) = Some true.
Proof. exact wit_batched_reaches_branch. Qed.
Example C10_ex_inv8 : Inv8 (new_state (map N.of_nat (seq 1 8))) (map N.of_nat (seq 1 8)).
Proof. exact (Inv8_new (fun x => x) (map N.of_nat (seq 1 8)) eq_refl). Qed.

Print Assumptions C10_source_shape.
Print Assumptions C10_new_len.
Print Assumptions C10_interp_step.
Print Assumptions C10_interp_stepn.
Print Assumptions C10_interp_slow.
Print Assumptions C10_slow_is_slown16.
Print Assumptions C10_fast_test.
Print Assumptions C10_batched_guard.
Print Assumptions C10_exact_overlap_slow.
Print Assumptions C10_disjoint_plain.
Print Assumptions C10_batched_partial_overlap_refuted.
Print Assumptions C10_slow_partial_overlap_refuted.
Print Assumptions C10_step8.
Print Assumptions C10_slow8.

(* ================================================================== phase 5: the fast path and the headline
   over the interpretation of the translated code.  Proofs: C10_mem.v, C10_tie_fast.v, C10_tie_xks.v,
   C10_stream.v. *)
From GoMC Require Import Proofs.C10_mem Proofs.C10_tie_fast Proofs.C10_tie_xks Proofs.C10_stream.

(* the plain loop of the fast path as translated (for i, val = range src { cf.c.Encrypt(iv, ciphertext[i:]);
   dst[i] = val ^ iv[0] }), interpreted from iteration k for cnt iterations on ANY memory m and iv buffer of at
   least 16 bytes.  Decrypting: ciphertext is src (src' = C + 16) and dst' shares no byte with it.  The bytes
   stored are the reference image of src'[k..k+cnt) continued from the 16-byte window of memory at C + k
   (the ciphertext-as-register invariant of fast_dec_ok), stored at dst'[k..] and nowhere else; i ends at
   k+cnt-1; iv keeps its length and its bytes from 16 on; the window after the loop is the register after
   the ciphertext consumed *)
Theorem C10_interp_fast_dec : forall (E : list N -> list N) (fuel : nat) (call : callee -> slc -> slc -> st -> outcome)
    (D' S' C n L capd caps capc : Z) (livn : nat),
  (n + 16 <= L)%Z -> 16 <= livn -> (L <= capc)%Z -> S' = (C + 16)%Z -> (D' + n <= C \/ C + L <= D')%Z ->
  forall (cnt : nat) (m : Z -> N) (ivb : list N) (p k i0 : Z) (v0 : N) (ppb tp : Z),
  List.length ivb = livn -> (0 <= k)%Z -> (k + Z.of_nat cnt <= n)%Z ->
  exists ivb' i' v',
    range_loop (run_block (exec E false fuel call) fast_body) (mkslc Arena S' n caps) k cnt
               (fstate true D' S' C n L capd caps capc livn m ivb p i0 v0 ppb tp)
    = ONormal (fstate true D' S' C n L capd caps capc livn
                 (wr_mem m (D' + k)%Z (ref_dec E (rd_mem m (C + k)%Z 16) (rd_mem m (S' + k)%Z cnt))) ivb' p i' v' ppb tp)
    /\ List.length ivb' = livn /\ skipn 16 ivb' = skipn 16 ivb
    /\ (0 < cnt -> i' = (k + Z.of_nat cnt - 1)%Z)
    /\ rd_mem (wr_mem m (D' + k)%Z (ref_dec E (rd_mem m (C + k)%Z 16) (rd_mem m (S' + k)%Z cnt))) (C + k + Z.of_nat cnt)%Z 16
       = reg_after (rd_mem m (C + k)%Z 16) (rd_mem m (S' + k)%Z cnt).
Proof.
  intros E fuel call D' S' C n L capd caps capc livn H1 H2 H3 H4 H5.
  exact (fast_loop E fuel call true D' S' C n L capd caps capc livn H1 H2 H3 (or_introl (conj eq_refl (conj H4 H5)))).
Qed.
(* encrypting: ciphertext is dst (dst' = C + 16: the loop reads back what it stored) and src' shares no byte
   with it *)
Theorem C10_interp_fast_enc : forall (E : list N -> list N) (fuel : nat) (call : callee -> slc -> slc -> st -> outcome)
    (D' S' C n L capd caps capc : Z) (livn : nat),
  (n + 16 <= L)%Z -> 16 <= livn -> (L <= capc)%Z -> D' = (C + 16)%Z -> (S' + n <= C \/ C + L <= S')%Z ->
  forall (cnt : nat) (m : Z -> N) (ivb : list N) (p k i0 : Z) (v0 : N) (ppb tp : Z),
  List.length ivb = livn -> (0 <= k)%Z -> (k + Z.of_nat cnt <= n)%Z ->
  exists ivb' i' v',
    range_loop (run_block (exec E false fuel call) fast_body) (mkslc Arena S' n caps) k cnt
               (fstate false D' S' C n L capd caps capc livn m ivb p i0 v0 ppb tp)
    = ONormal (fstate false D' S' C n L capd caps capc livn
                 (wr_mem m (D' + k)%Z (ref_enc E (rd_mem m (C + k)%Z 16) (rd_mem m (S' + k)%Z cnt))) ivb' p i' v' ppb tp)
    /\ List.length ivb' = livn /\ skipn 16 ivb' = skipn 16 ivb
    /\ (0 < cnt -> i' = (k + Z.of_nat cnt - 1)%Z)
    /\ rd_mem (wr_mem m (D' + k)%Z (ref_enc E (rd_mem m (C + k)%Z 16) (rd_mem m (S' + k)%Z cnt))) (C + k + Z.of_nat cnt)%Z 16
       = reg_after (rd_mem m (C + k)%Z 16) (ref_enc E (rd_mem m (C + k)%Z 16) (rd_mem m (S' + k)%Z cnt)).
Proof.
  intros E fuel call D' S' C n L capd caps capc livn H1 H2 H3 H4 H5.
  exact (fast_loop E fuel call false D' S' C n L capd caps capc livn H1 H2 H3 (or_intror (conj eq_refl (conj H4 H5)))).
Qed.

(* the WHOLE translated XORKeyStream (length tests, both pointer tests, xorKeyStream on the first block, the
   reslices and bounds hints, the plain loop, the final copy and ivPos reset; or xorKeyStream on everything)
   interpreted on ANY ring state (iv contents and length, position: panics included), any source, any
   destination contents, with dst == src exactly (InPlace) or no common byte (Disjoint, either order) IS the
   hand model's xor_key_stream (dispatch + slow + fast_dec / fast_enc): same panics; otherwise the model's iv
   and ivPos, and memory = the memory before with the model's output stored at dst[0..len src).  No
   hypothesis about the batched branch: on these classes the translated second test is false *)
Theorem C10_interp_dispatch : forall (E : list N -> list N) (fuel : nat) (de : bool) (m : Z -> N)
    (D S capd caps : Z) (src dst : list N) (st0 : state) (lc : loc),
  (0 <= D)%Z -> (0 <= S)%Z -> (D + lenZ dst < 2 ^ 62)%Z -> (S + lenZ src < 2 ^ 62)%Z ->
  (lenZ dst <= capd)%Z -> (lenZ src <= caps)%Z -> (Z.of_nat (pos st0) + lenZ src < 2 ^ 62)%Z ->
  rd_mem m S (List.length src) = src ->
  forall (al : alias) (dst0 : list N),
  dst = dst_for al src dst0 ->
  (al = InPlace /\ S = D) \/ (al = Disjoint /\ (D + lenZ dst <= S \/ S + lenZ src <= D)%Z) ->
  interp_xks E false fuel (sd D capd dst) (sa S caps src) (s_in de m st0 lc)
  = match xor_key_stream E de st0 al src dst0 with
    | None => OPanic
    | Some (st', out) =>
        ONormal (mkst (wr_mem m D (firstn (List.length src) out)) (iv st') (Z.of_nat (pos st')) 16%Z de lc)
    end.
Proof. exact interp_xks_is_model. Qed.

(* one call from any state satisfying the ring invariant: the interpretation of the translated code stores
   exactly the reference image continued from the register, re-establishes the invariant *)
Theorem C10_call_translated : forall (E : list N -> list N) (fuel : nat) (de : bool) (x : lcall) (st0 : state)
    (reg : list N) (lc : loc),
  Inv st0 reg -> laid_out x -> call_ok (lc_call x) ->
  exists st1,
    interp_xks E false fuel (mkslc Arena (lc_D x) (lenZ (lc_dst x)) (lc_capd x))
               (mkslc Arena (lc_S x) (lenZ (lc_src x)) (lc_caps x))
               (mkst (lc_mem x) (iv st0) (Z.of_nat (pos st0)) 16%Z de lc)
    = ONormal (mkst (wr_mem (lc_mem x) (lc_D x) (cfb E de reg (lc_src x))) (iv st1) (Z.of_nat (pos st1)) 16%Z de lc)
    /\ Inv st1 (reg_after reg (if de then lc_src x else cfb E de reg (lc_src x))).
Proof. exact call_translated. Qed.

(* THE HEADLINE over the translation: any block function, any 16-byte IV, any history of XORKeyStream calls of
   any lengths, each with its own memory and its own permitted placement of dst and src: the translated
   newCFB8 builds the model's initial state; the interpretation of the translated XORKeyStream never panics
   and leaves in every dst exactly what the byte-at-a-time shift-register specification says; the
   concatenation of what the calls stored is the reference image of the concatenated sources *)
Theorem C10_stream_translated : forall (E : list N -> list N) (fuel : nat) (de : bool) (iv0 : list N)
    (l : list lcall) (lc : loc) (m0 : Z -> N),
  List.length iv0 = bs -> Forall laid_out l -> Forall call_ok (map lc_call l) ->
  interp_new 16 de iv0 m0 = Some (mkst m0 (iv (new_state iv0)) 0%Z 16%Z de (locals nil_slc nil_slc)) /\
  itrace E fuel (mkst m0 (iv (new_state iv0)) 0%Z 16%Z de lc) l = map Some (spec_outs E de iv0 (map lc_call l)) /\
  written (map lc_call l) (spec_outs E de iv0 (map lc_call l)) = cfb E de iv0 (List.concat (map lc_src l)).
Proof. exact stream_translated. Qed.
(* and every byte outside dst[0..len src) keeps its value *)
Theorem C10_translated_frame : forall (E : list N -> list N) (fuel : nat) (de : bool) (x : lcall) (st0 : state)
    (reg : list N) (lc : loc) (a : Z),
  Inv st0 reg -> laid_out x -> call_ok (lc_call x) ->
  (a < lc_D x \/ lc_D x + lenZ (lc_src x) <= a)%Z ->
  match interp_xks E false fuel (mkslc Arena (lc_D x) (lenZ (lc_dst x)) (lc_capd x))
               (mkslc Arena (lc_S x) (lenZ (lc_src x)) (lc_caps x))
               (mkst (lc_mem x) (iv st0) (Z.of_nat (pos st0)) 16%Z de lc) with
  | ONormal s1 => x_mem s1 a = lc_mem x a
  | _ => False
  end.
Proof. exact call_translated_frame. Qed.

(* non-vacuity: a fast disjoint call (40 bytes, dst first) and an in-place call are laid out and call_ok *)
Definition ex_lcalls : list lcall :=
  [ {| lc_call := {| c_alias := Disjoint; c_src := map N.of_nat (seq 20 40); c_dst := repeat 9%N 43 |};
       lc_mem := wr_mem (wr_mem zero_mem 4096 (repeat 9%N 43)) 4200 (map N.of_nat (seq 20 40));
       lc_D := 4096; lc_S := 4200; lc_capd := 43; lc_caps := 40 |};
    {| lc_call := {| c_alias := InPlace; c_src := map N.of_nat (seq 10 5); c_dst := [8; 8]%N |};
       lc_mem := wr_mem zero_mem 4096 (map N.of_nat (seq 10 5) ++ [8; 8]%N);
       lc_D := 4096; lc_S := 4096; lc_capd := 7; lc_caps := 5 |} ].
Example C10_ex_laid_out : Forall laid_out ex_lcalls /\ Forall call_ok (map lc_call ex_lcalls).
Proof.
  split.
  - repeat (apply Forall_cons; [unfold laid_out; repeat split; try (vm_compute; congruence); try (vm_compute; reflexivity); try (left; vm_compute; congruence)|]).
    apply Forall_nil.
  - repeat (apply Forall_cons; [apply PeanoNat.Nat.leb_le; reflexivity|]). apply Forall_nil.
Qed.
Example C10_ex_itrace :
  map (fun r => match r with Some o => Some (List.length o, firstn 3 o) | None => None end)
      (itrace (toyE 7) 0 (mkst zero_mem (iv (new_state ex_iv)) 0%Z 16%Z false (locals nil_slc nil_slc)) ex_lcalls)
  = [Some (43, firstn 3 (toy_ref 7 false ex_iv (map N.of_nat (seq 20 40)))); Some (7, firstn 3 (toy_ref 7 false (reg_after ex_iv (toy_ref 7 false ex_iv (map N.of_nat (seq 20 40)))) (map N.of_nat (seq 10 5))))].
Proof. vm_compute. reflexivity. Qed.

Print Assumptions C10_interp_fast_dec.
Print Assumptions C10_interp_fast_enc.
Print Assumptions C10_interp_dispatch.
Print Assumptions C10_call_translated.
Print Assumptions C10_stream_translated.
Print Assumptions C10_translated_frame.
