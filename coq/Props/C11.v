(* C11 - BitStorage: property theorems only.  Model: Model/C11.v; proofs: Proofs/C11*.v *)
From Coq Require Import List NArith ZArith.
From GoMC Require Import Base.Bytes Base.Dec Model.C05 Model.C11 Proofs.C11.
Import ListNotations.
Open Scope N_scope.

Theorem C11_infer_refuted : exists b n : Z, (1 <= b <= 32)%Z /\ (0 < n)%Z /\
  match calc_size b n with Some s => calc_bits n s <> Some b | None => False end.
Proof. exact infer_refuted. Qed.

Print Assumptions C11_infer_refuted.
