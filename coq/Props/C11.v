(* C11 - BitStorage: property theorems only.  Model and specification: Model/C11.v;
   proofs: Proofs/C11.v, C11_laws.v, C11_pack.v, C11_wire.v.
   wf st  = a storage as NewBitStorage / Fix leave it: 1 <= bits <= 63 (the property asks 1..32),
            vpl = 64/bits, mask = 2^bits-1, length >= 0, len(data) = ceil(length/vpl), longs < 2^64.
   abs st = unpack bits length data : the array the longs denote (value j = bits (j mod vpl)*b ..
            of long j / vpl), written with / and mod only. *)
From Coq Require Import List NArith ZArith Bool.
From GoMC Require Import Base.Bytes Base.Dec Model.C05 Model.C11
  Proofs.C11 Proofs.C11_laws Proofs.C11_pack Proofs.C11_wire.
Import ListNotations.
Open Scope N_scope.

(* ALL histories of Get/Set/Swap with 64-bit int arguments on ANY well-formed storage (any initial
   longs, padding bits set or not): the outcomes - values, panics and their kind - are those of a
   checked array of n unsigned b-bit integers, the final longs denote the final array (so no other
   index ever changes), and the storage stays well formed with the same width and length *)
Theorem C11_histories : forall ops st, wf st -> Forall op_ints ops ->
  wf (fst (bs_run st ops)) /\ bits (fst (bs_run st ops)) = bits st /\ blen (fst (bs_run st ops)) = blen st /\
  spec_run (wbits st) (abs st) ops = (abs (fst (bs_run st ops)), snd (bs_run st ops)).
Proof. exact run_refines. Qed.

(* pointwise: Get after Set *)
Theorem C11_get_set : forall st i v j, wf st ->
  (0 <= i < blen st)%Z -> (0 <= v < 2 ^ bits st)%Z -> (0 <= j < blen st)%Z ->
  snd (bs_get (fst (bs_set st i v)) j) = if (i =? j)%Z then ORet v else snd (bs_get st j).
Proof. exact get_set. Qed.

(* raw level: an accepted Set rewrites exactly the b bits of field i (bits off .. off+b-1 of long
   i / vpl) and no other bit of any long - padding bits and the unused high bits included *)
Theorem C11_set_raw_bits : forall st i v c j, wf st -> (0 <= i < blen st)%Z -> (0 <= v < 2 ^ bits st)%Z ->
  let b := wbits st in
  let ci := N.to_nat (Z.to_N i / spec_vpl b) in
  let off := b * (Z.to_N i mod spec_vpl b) in
  N.testbit (nth c (data (fst (bs_set st i v))) 0) j =
  if (c =? ci)%nat && (off <=? j) && (j <? off + b)
  then N.testbit (Z.to_N v) (j - off) else N.testbit (nth c (data st) 0) j.
Proof. exact set_raw_bits. Qed.

(* Swap = Set + the previous Get, for every storage and every argument *)
Theorem C11_swap : forall st i v,
  bs_swap st i v = (fst (bs_set st i v),
                    match snd (bs_set st i v) with OUnit => snd (bs_get st i) | r => r end).
Proof. exact swap_is_set_get. Qed.

(* initial contents *)
Theorem C11_init_zero : forall bts n, (1 <= bts <= 63)%Z -> (0 <= n)%Z ->
  exists st, bs_new bts n None = ROk st /\ wf st /\ bits st = bts /\ blen st = n /\
             abs st = repeat 0 (Z.to_nat n) /\ data st = repeat 0 (Z.to_nat (size_of bts n)).
Proof. exact new_zero. Qed.
Theorem C11_init_raw : forall bts n raw, (1 <= bts <= 63)%Z -> (0 <= n)%Z ->
  bs_new bts n (Some raw) =
  if (Z.of_nat (length raw) =? size_of bts n)%Z
  then ROk (mkBS raw (mk_mask bts) bts n (Z.quot 64 bts)) else RPanic pNew.
Proof. exact new_raw. Qed.
Theorem C11_init_raw_wf : forall bts n raw, (1 <= bts <= 63)%Z -> (0 <= n)%Z ->
  Z.of_nat (length raw) = size_of bts n -> Forall (fun l => l < 2^64) raw ->
  wf (mkBS raw (mk_mask bts) bts n (Z.quot 64 bts)) /\
  abs (mkBS raw (mk_mask bts) bts n (Z.quot 64 bts)) = unpack (Z.to_N bts) (Z.to_nat n) raw.
Proof. intros. split; [apply new_wf; auto | reflexivity]. Qed.

(* rejected calls: a panic leaves the identical storage (any storage), and on a well-formed storage
   a call panics exactly when its index or value is out of range *)
Theorem C11_reject_unchanged : forall st o w, snd (bs_step st o) = OPanic w -> fst (bs_step st o) = st.
Proof. exact panic_unchanged. Qed.
Theorem C11_reject_iff : forall st o, wf st -> op_ints o ->
  is_panic (snd (bs_step st o)) = negb (valid_op (wbits st) (blen st) o).
Proof. exact rejected_iff. Qed.

(* bits = 0 *)
Theorem C11_b0 : forall n raw, exists st, bs_new 0 n raw = ROk st /\ blen st = n /\
  forall i v, bs_get st i = (st, ORet 0%Z) /\ bs_set st i v = (st, OUnit) /\ bs_swap st i v = (st, ORet 0%Z).
Proof. intros. eexists. split; [apply b0_new|]. split; [reflexivity|]. apply b0_ops. reflexivity. Qed.

(* packing specification: pack and unpack are inverse *)
Theorem C11_unpack_pack : forall b vals, 1 <= b <= 64 -> Forall (fun v => v < 2 ^ b) vals ->
  unpack b (length vals) (pack b vals) = vals.
Proof. exact unpack_pack. Qed.
Theorem C11_pack_unpack : forall b n raw, 1 <= b <= 64 -> length raw = spec_size b n -> clean b n raw ->
  pack b (unpack b n raw) = raw.
Proof. exact pack_unpack_clean. Qed.

(* Raw() of a storage built from nil data by ANY history is the 1.16+ packing of its contents *)
Theorem C11_raw : forall bts n ops st0, (1 <= bts <= 63)%Z -> (0 <= n)%Z -> Forall op_ints ops ->
  bs_new bts n None = ROk st0 ->
  data (fst (bs_run st0 ops)) = pack (Z.to_N bts) (abs (fst (bs_run st0 ops))).
Proof. exact raw_is_pack. Qed.

(* the raw longs are accepted back and give the identical storage *)
Theorem C11_accept_back : forall st, wf st -> bs_new (bits st) (blen st) (Some (data st)) = ROk st.
Proof. exact accept_back. Qed.

(* wire round trip followed by Fix, into ANY destination storage of the same length, with ANY
   bytes following: the identical storage comes back, exactly the image is consumed, the byte count
   is right *)
Theorem C11_wire : forall st d rest, wf st -> lenN (data st) < 2^31 -> blen d = blen st ->
  exists d', run_flat (bs_read d) (fst (bs_write st) ++ rest) = FOk (d', snd (bs_write st)) rest /\
             snd (bs_write st) = lenN (fst (bs_write st)) /\
             bs_fix d' (bits st) = (st, OUnit).
Proof. exact wire_roundtrip. Qed.
Theorem C11_read_robust : forall d, robust (bs_read d).
Proof. exact read_robust. Qed.
Theorem C11_read_total : forall d s, ok_or_err (run_flat (bs_read d) s).
Proof. exact read_total. Qed.

(* size rules: calcBitStorageSize is the length of the packing; any other raw length is refused by
   the constructor (panic) and by Fix (error) *)
Theorem C11_size : forall bts n, (1 <= bts <= 63)%Z -> (0 <= n)%Z ->
  calc_size bts n = Some (size_of bts n) /\
  size_of bts n = Z.of_nat (spec_size (Z.to_N bts) (Z.to_nat n)) /\
  forall vals, length vals = Z.to_nat n -> length (pack (Z.to_N bts) vals) = Z.to_nat (size_of bts n).
Proof.
  intros bts n Hb Hn. split; [apply calc_size_ok; auto|]. split; [apply size_of_spec; auto|].
  intros vals Hl. rewrite pack_length, Hl, size_of_spec by auto. symmetry. apply Nat2Z.id.
Qed.
Theorem C11_size_refused_new : forall bts n raw, (1 <= bts <= 63)%Z -> (0 <= n)%Z ->
  Z.of_nat (length raw) <> size_of bts n -> bs_new bts n (Some raw) = RPanic pNew.
Proof.
  intros bts n raw Hb Hn Hne. rewrite new_raw by auto.
  destruct (Z.eqb_spec (Z.of_nat (length raw)) (size_of bts n)); [contradiction|reflexivity].
Qed.
Theorem C11_size_refused_fix : forall st bts, (1 <= bts <= 63)%Z -> (0 <= blen st)%Z ->
  snd (bs_fix st bts) = if (Z.of_nat (length (data st)) =? size_of bts (blen st))%Z then OUnit else OErr.
Proof. intros st bts Hb Hn. rewrite fix_result by auto. reflexivity. Qed.

(* calcBitsPerValue does NOT recover the width in general (not a C11 clause; consequences are C12/C13) *)
Theorem C11_infer_refuted : exists b n : Z, (1 <= b <= 32)%Z /\ (0 < n)%Z /\
  match calc_size b n with Some s => calc_bits n s <> Some b | None => False end.
Proof. exact infer_refuted. Qed.
Theorem C11_infer_partial : forall b n, (1 <= b <= 63)%Z -> (0 < n)%Z -> (n mod Z.quot 64 b = 0)%Z ->
  exists s, calc_size b n = Some s /\ calc_bits n s = Some (Z.quot 64 (Z.quot 64 b)).
Proof. exact infer_partial. Qed.

(* ---------- non-vacuity ---------- *)
Definition ex_st : bstore := mkBS [0xFFFFFFFFFFFFFFFF; 0x123456789ABCDEF0] (mk_mask 5) 5 13 12.
Example C11_ex_wf : wf ex_st.
Proof.
  constructor; cbn; try reflexivity; try (split; discriminate); try discriminate.
  repeat constructor.
Qed.
Example C11_ex_abs : abs ex_st = [31;31;31;31;31;31;31;31;31;31;31;31;16].
Proof. vm_compute. reflexivity. Qed.
Example C11_ex_history :
  snd (bs_run ex_st [ASet 12 7; AGet 12; AGet 11; ASwap 0 32; ASwap 0 1; AGet 13; AGet (-1)])
  = [OUnit; ORet 7; ORet 31; OPanic pVal; ORet 31; OPanic pIdx; OPanic pIdx]%Z
  /\ Forall op_ints [ASet 12 7; AGet 12; AGet 11; ASwap 0 32; ASwap 0 1; AGet 13; AGet (-1)]%Z.
Proof. split; [vm_compute; reflexivity|]. repeat constructor; vm_compute; discriminate. Qed.
Example C11_ex_clean : clean 5 13 (repeat 0 2) /\ length (repeat 0 2) = spec_size 5 13 /\
  pack 5 [1;2;3;4;5;6;7;8;9;10;11;12;13] = [445092485129178177; 13] /\
  unpack 5 13 [445092485129178177; 13] = [1;2;3;4;5;6;7;8;9;10;11;12;13].
Proof. split; [apply clean_zero|]. split; [reflexivity|]. split; vm_compute; reflexivity. Qed.
Example C11_ex_wire : lenN (data ex_st) < 2^31 /\
  fst (bs_write ex_st) = [2; 255;255;255;255;255;255;255;255; 0x12;0x34;0x56;0x78;0x9A;0xBC;0xDE;0xF0].
Proof. split; vm_compute; reflexivity. Qed.
Example C11_ex_infer : (64 mod Z.quot 64 4 = 0)%Z /\ Z.quot 64 (Z.quot 64 4) = 4%Z.
Proof. split; reflexivity. Qed.

(* ---- tie to the source: Gen/Funcs.v is TRANSLATED from the Go code by tools/gotrans on every run *)
From GoMC Require Base.GoInt Gen.Funcs Proofs.C11_tie.
Theorem C11_calc_size_translated : forall b n r : Z, (0 <= b <= 64)%Z -> (0 <= n < 2 ^ 62)%Z -> calc_size b n = Some r -> Funcs.level_calcBitStorageSize b n = r.
Proof. exact C11_tie.tie_calcBitStorageSize. Qed.
Theorem C11_calc_bits_translated : forall n l r : Z, (0 <= n < 2 ^ 62)%Z -> (0 <= l < 2 ^ 62)%Z -> calc_bits n l = Some r -> Funcs.level_calcBitsPerValue n l = r.
Proof. exact C11_tie.tie_calcBitsPerValue. Qed.
Theorem C11_calc_index_translated : forall st n, (0 <= n < 2 ^ 31)%Z -> (0 < vpl st <= 64)%Z -> (0 <= bits st <= 64)%Z -> Funcs.level_BitStorage_calcIndex n (vpl st) (bits st) = calc_index st n.
Proof. exact C11_tie.tie_calcIndex. Qed.
Theorem C11_get_translated : forall st i, C11_tie.fields_ok st -> snd (bs_get st i) <> OPanic pRt ->
  Funcs.level_BitStorage_Get i (vpl st) (blen st) (bits st) (C11_tie.dataf st) (Z.of_N (mask st)) =
  match snd (bs_get st i) with ORet v => GoInt.GoRet v | _ => GoInt.GoPanic end.
Proof. exact C11_tie.tie_Get. Qed.
Theorem C11_set_translated : forall st i v, C11_tie.fields_ok st -> snd (bs_set st i v) <> OPanic pRt ->
  Funcs.level_BitStorage_Set i v (vpl st) (Z.of_N (mask st)) (blen st) (bits st) (C11_tie.dataf st) =
  match bs_set st i v, locate st i with
  | (_, OUnit), Some (c, off, l) =>
      if (vpl st =? 0)%Z then GoInt.GoRet [] else GoInt.GoRet [(Z.of_nat c, Z.of_N (set_long l (mask st) off (u64 v)))]
  | (_, OUnit), None => GoInt.GoRet []
  | _, _ => GoInt.GoPanic
  end.
Proof. exact C11_tie.tie_Set. Qed.
Theorem C11_swap_translated : forall st i v, C11_tie.fields_ok st -> snd (bs_swap st i v) <> OPanic pRt ->
  Funcs.level_BitStorage_Swap i v (vpl st) (Z.of_N (mask st)) (blen st) (bits st) (C11_tie.dataf st) =
  match bs_swap st i v, locate st i with
  | (_, ORet old), Some (c, off, l) =>
      if (vpl st =? 0)%Z then GoInt.GoRet (old, []) else GoInt.GoRet (old, [(Z.of_nat c, Z.of_N (set_long l (mask st) off (u64 v)))])
  | (_, ORet old), None => GoInt.GoRet (old, [])
  | _, _ => GoInt.GoPanic
  end.
Proof. exact C11_tie.tie_Swap. Qed.
(* non-vacuity: a 5-bit storage of 20 values meets fields_ok and never reaches the run-time panic *)
Example C11_translated_ex :
  let st := mkBS [0x37f1150f95; 7] 31 5%Z 20%Z 12%Z in
  C11_tie.fields_ok st /\ snd (bs_get st 13) <> OPanic pRt /\ snd (bs_set st 13 9) <> OPanic pRt.
Proof. cbv zeta. split; [unfold C11_tie.fields_ok; cbn [blen vpl bits mask]; repeat split; try discriminate; reflexivity|]. split; vm_compute; discriminate. Qed.

Print Assumptions C11_histories.
Print Assumptions C11_get_set.
Print Assumptions C11_set_raw_bits.
Print Assumptions C11_swap.
Print Assumptions C11_init_zero.
Print Assumptions C11_init_raw.
Print Assumptions C11_init_raw_wf.
Print Assumptions C11_reject_unchanged.
Print Assumptions C11_reject_iff.
Print Assumptions C11_b0.
Print Assumptions C11_unpack_pack.
Print Assumptions C11_pack_unpack.
Print Assumptions C11_raw.
Print Assumptions C11_accept_back.
Print Assumptions C11_wire.
Print Assumptions C11_read_robust.
Print Assumptions C11_read_total.
Print Assumptions C11_size.
Print Assumptions C11_size_refused_new.
Print Assumptions C11_size_refused_fix.
Print Assumptions C11_infer_refuted.
Print Assumptions C11_infer_partial.
Print Assumptions C11_calc_size_translated.
Print Assumptions C11_calc_bits_translated.
Print Assumptions C11_calc_index_translated.
Print Assumptions C11_get_translated.
Print Assumptions C11_set_translated.
Print Assumptions C11_swap_translated.

(* ---- phase 4: the constructor, Fix, ReadFrom, WriteTo, Len and Raw are TRANSLATED from level/bitstorage.go
   by tools/gotrans/c11.go on every run (Gen/C11gen.v: the struct as the record gbs - a slice field as visible
   part + spare capacity -, field writes as record updates, every run-time panic an explicit guard, ReadFrom a
   Base.Dec term whose argument is the prior state of the destination).  inj st sp = the record that holds
   the model state st with spare capacity sp; abs = the model state of a record. *)
From GoMC Require Model.C06_syntax Model.C11_syntax Gen.C11gen Proofs.C06_tie_r Proofs.C11_tie_io.

(* calcBitStorageSize with its run-time panic (divide by zero when bits > 64), every width *)
Theorem C11_calc_size_panics_translated : forall b n : Z, C11_tie_io.in_int n ->
  C11gen.c11_calcBitStorageSize b n =
  match calc_size b n with Some r => C11_syntax.GRet r | None => C11_syntax.GPanic C11gen.GV_runtime end.
Proof. exact C11_tie_io.tie_calc. Qed.

(* NewBitStorage, every width (negative, 0, > 64 included), every length inside int arithmetic, nil or any
   raw longs: the same record, or a panic with the same value (newBitStorageErr{len(data), wanted}) *)
Theorem C11_new_translated : forall (bts n : Z) (raw : option (list N)), C11_tie_io.in_int n ->
  C11gen.c11_NewBitStorage bts n (option_map (map Z.of_N) raw) =
  match bs_new bts n raw with
  | ROk st => C11_syntax.GRet (C11_tie_io.inj st [])
  | RPanic w => C11_syntax.GPanic (C11_tie_io.new_panic bts n raw w)
  end.
Proof. exact C11_tie_io.tie_New. Qed.

(* Fix, every storage (well formed or not, any spare capacity), every width: the same fields afterwards
   (assigned BEFORE the size check), nil / the same error value / a run-time panic *)
Theorem C11_fix_translated : forall (st : bstore) (sp : list Z) (bts : Z), C11_tie_io.in_int (blen st) ->
  C11gen.c11_BitStorage_Fix (C11_tie_io.inj st sp) bts =
  (C11_tie_io.inj (fst (bs_fix st bts)) sp, C11_tie_io.fix_out st bts (snd (bs_fix st bts))).
Proof. exact C11_tie_io.tie_Fix. Qed.

(* ReadFrom into ANY prior destination record (any longs, any spare capacity, any field values - not only
   images of model states) on ANY byte string: same outcome class, same error class, same bytes left, same
   count; the decoded longs are stored IN b.data (reused backing array when cap(b.data) >= Len, a fresh one
   otherwise) and no other field changes *)
Theorem C11_read_translated : forall (b : C11gen.gbs) (s : list N), all_bytes s ->
  run_flat (C11gen.c11_BitStorage_ReadFrom C06_tie_r.varint_rd b) s =
  match run_flat (bs_read (C11_tie_io.abs b)) s with
  | FOk (st', n) rest =>
      FOk (C11gen.set_g_data b (map Z.of_N (data st'),
                                C11_tie_io.spare_after b (Z.of_N (lenN (data st')))), Z.of_N n) rest
  | FErr e => FErr e
  | FPanic w => FPanic w
  | FFuel => FFuel
  end.
Proof. exact C11_tie_io.tie_Read. Qed.

(* WriteTo under a writer that accepts everything: the model's byte image and count, no error *)
Theorem C11_write_translated : forall (st : bstore) (sp : list Z),
  Forall (fun l => l < 2 ^ 64) (data st) -> lenN (data st) < 2 ^ 59 ->
  C11gen.c11_BitStorage_WriteTo (Some (C11_tie_io.inj st sp)) =
  (Z.of_N (snd (bs_write st)), 0, map Z.of_N (fst (bs_write st))).
Proof. exact C11_tie_io.tie_Write. Qed.
Theorem C11_write_nil_translated : C11gen.c11_BitStorage_WriteTo None = (1%Z, 0, [0%Z]).
Proof. exact C11_tie_io.tie_Write_nil. Qed.

(* Len and Raw are the projections *)
Theorem C11_accessors_translated : forall (st : bstore) (sp : list Z),
  C11gen.c11_BitStorage_Len (C11_tie_io.inj st sp) = blen st /\
  C11gen.c11_BitStorage_Raw (Some (C11_tie_io.inj st sp)) = map Z.of_N (data st) /\
  C11gen.c11_BitStorage_Raw None = [].
Proof. intros st sp. split; [apply C11_tie_io.tie_Len|apply C11_tie_io.tie_Raw]. Qed.

(* HEADLINE over translated code only: any history of the translated Get / Set / Swap (Gen/Funcs.v) run on
   the record the translated NewBitStorage(b, n, nil) returns behaves as the checked array of n unsigned b-bit
   integers that starts all zero - same values, same normal returns, same panics - and Raw() afterwards is
   the Minecraft >= 1.16 packing of the array's final contents, Len() is n *)
Theorem C11_array_semantics_translated : forall (bts n : Z) (ops : list aop) (b0 : C11gen.gbs),
  (1 <= bts <= 63)%Z -> (0 <= n < 2 ^ 31)%Z -> Forall op_ints ops ->
  C11gen.c11_NewBitStorage bts n None = C11_syntax.GRet b0 ->
  let r := C11_tie_io.t_run b0 ops in
  let sp := spec_run (Z.to_N bts) (repeat 0 (Z.to_nat n)) ops in
  snd r = map C11_tie_io.erase (snd sp) /\
  C11gen.c11_BitStorage_Raw (Some (fst r)) = map Z.of_N (pack (Z.to_N bts) (fst sp)) /\
  C11gen.c11_BitStorage_Len (fst r) = n /\ length (fst sp) = Z.to_nat n.
Proof. exact C11_tie_io.array_semantics_translated. Qed.

(* HEADLINE over translated code only: translated WriteTo of a well-formed storage, translated ReadFrom of
   that image (any bytes after it) into ANY destination of the same length, translated Fix with the width:
   no error, exactly the image consumed, the count right, and the same storage (fields and longs) comes back *)
Theorem C11_wire_roundtrip_translated : forall (st : bstore) (sp : list Z) (dm : bstore) (dsp : list Z) (rest : list N),
  wf st -> lenN (data st) < 2 ^ 31 -> blen dm = blen st -> all_bytes rest ->
  exists n img d' sp',
    C11gen.c11_BitStorage_WriteTo (Some (C11_tie_io.inj st sp)) = (n, 0, img) /\ n = C06_syntax.zlen img /\
    run_flat (C11gen.c11_BitStorage_ReadFrom C06_tie_r.varint_rd (C11_tie_io.inj dm dsp)) (map Z.to_N img ++ rest)
      = FOk (d', n) rest /\
    C11gen.c11_BitStorage_Fix d' (bits st) = (C11_tie_io.inj st sp', C11_syntax.GRet None) /\
    C11gen.c11_BitStorage_Raw (Some (C11_tie_io.inj st sp')) = C11gen.c11_BitStorage_Raw (Some (C11_tie_io.inj st sp)).
Proof. exact C11_tie_io.wire_roundtrip_translated. Qed.

(* non-vacuity: the translated constructor accepts 5-bit / 13 values, a translated history runs on it, wrong
   raw length and width 65 panic with the stated values, the hypotheses of the two headline theorems hold for
   ex_st, and the translated reader reuses a destination with enough capacity and allocates otherwise *)
Example C11_translated_io_ex1 : exists b0, C11gen.c11_NewBitStorage 5 13 None = C11_syntax.GRet b0 /\
  snd (C11_tie_io.t_run b0 [ASet 12 7; AGet 12; ASwap 0 32; AGet 13])%Z
  = [C11_tie_io.TUnit; C11_tie_io.TRet 7; C11_tie_io.TPanic; C11_tie_io.TPanic]%Z.
Proof. eexists; split; [vm_compute; reflexivity|vm_compute; reflexivity]. Qed.
Example C11_translated_io_ex2 :
  C11gen.c11_NewBitStorage 5 13 (Some [1; 2; 3])%Z = C11_syntax.GPanic (C11gen.GV_newBitStorageErr 3 2).
Proof. vm_compute. reflexivity. Qed.
Example C11_translated_io_ex3 : C11gen.c11_NewBitStorage 65 13 None = C11_syntax.GPanic C11gen.GV_runtime.
Proof. vm_compute. reflexivity. Qed.
Example C11_translated_io_ex4 : C11_tie_io.in_int 13 /\ wf ex_st /\ lenN (data ex_st) < 2 ^ 31 /\ all_bytes [7; 7].
Proof.
  split; [unfold C11_tie_io.in_int; split; [discriminate|reflexivity]|].
  split; [exact C11_ex_wf|]. split; [reflexivity|]. constructor; [reflexivity|]. constructor; [reflexivity|constructor].
Qed.
Example C11_translated_io_ex5 :
  C11_tie_io.spare_after (C11gen.mkG [1; 2; 3]%Z [4; 5]%Z 0 0 0 0) 2 = [3; 4; 5]%Z /\
  C11_tie_io.spare_after (C11gen.mkG [1; 2; 3]%Z [4; 5]%Z 0 0 0 0) 6 = [].
Proof. split; vm_compute; reflexivity. Qed.

Print Assumptions C11_calc_size_panics_translated.
Print Assumptions C11_new_translated.
Print Assumptions C11_fix_translated.
Print Assumptions C11_read_translated.
Print Assumptions C11_write_translated.
Print Assumptions C11_write_nil_translated.
Print Assumptions C11_accessors_translated.
Print Assumptions C11_array_semantics_translated.
Print Assumptions C11_wire_roundtrip_translated.

(* ---- phase 5: ALLOCATION of ReadFrom (the defect fixed in level/bitstorage.go: make([]uint64, Len) with the
   peer-declared count before any long had arrived).  The make lengths are TRANSLATED from the fixed ReadFrom
   (Gen/C11gen.v): first = c11_BitStorage_ReadFrom_make2 Len = min(Len, maxPreallocLongs) longs; the array grows to
   c11_BitStorage_ReadFrom_make3 Len i = i + min(Len - i, i) only when every allocated long has been read (the
   test i == len(b.data) of the translated loop, which C11_read_translated is proved against).  In every
   reachable state (a longs allocated, r longs read) of a read that declares n longs: r <= a <= n, and a <= 1024
   or a <= 2 r - nothing is allocated in proportion to a declared count that the stream has not backed. *)
Theorem C11_read_alloc_bounded : forall n : Z, (0 <= n < 2 ^ 31)%Z -> forall a r : Z,
  C11_tie_io.rd_areach C11gen.c11_BitStorage_ReadFrom_make2 C11gen.c11_BitStorage_ReadFrom_make3 n a r ->
  (0 <= r <= a)%Z /\ (a <= n)%Z /\ (a <= 1024 \/ a <= 2 * r)%Z.
Proof. exact C11_tie_io.read_alloc_bounded. Qed.
Example C11_ex_alloc :   (* 2^31-1 longs declared: 1024 allocated before any byte, 2048 once 1024 have arrived *)
  C11_tie_io.rd_areach C11gen.c11_BitStorage_ReadFrom_make2 C11gen.c11_BitStorage_ReadFrom_make3 2147483647 1024 0 /\
  C11gen.c11_BitStorage_ReadFrom_make3 2147483647 1024 = 2048%Z /\
  C11gen.c11_BitStorage_ReadFrom_make3 1500 1024 = 1500%Z /\
  C11gen.c11_BitStorage_ReadFrom_make2 7 = 7%Z.
Proof.
  split; [exact (C11_tie_io.ra_init C11gen.c11_BitStorage_ReadFrom_make2 C11gen.c11_BitStorage_ReadFrom_make3 2147483647)|].
  split; [vm_compute; reflexivity|]. split; vm_compute; reflexivity.
Qed.
Print Assumptions C11_read_alloc_bounded.
