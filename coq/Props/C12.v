(* C12 - PaletteContainer: property theorems only.  Model and specification: Model/C12.v (on top of the
   BitStorage model Model/C11.v); proofs: Proofs/C12.v, Proofs/C12_wire.v, Proofs/C12_spec.v, Proofs/C12_data.v, Proofs/C12_off.v.
   Inv c    = a container as New*PaletteContainer / Set / ReadFrom leave it: registry width g in 9..31
              (block states) or 4..31 (biomes); the data array is a well-formed BitStorage (C11) of the
              width the configuration table gives for the logical width, or has width 0; the palette
              has the kind the table gives, |values| <= cap <= 2^width, every value is a registry id
              (0 <= v < 2^g); every position of the data array holds an index the palette resolves.
   pabs c   = the array of state ids the container denotes (data indices resolved through the palette).
   inreg cf v = 0 <= v < 2^(gbits cf). *)
From Coq Require Import List NArith ZArith Bool Lia.
From GoMC Require Import Base.Bytes Base.Dec Model.C05 Model.C11 Model.C12 Proofs.C11 Proofs.C12 Proofs.C12_wire Proofs.C12_spec Proofs.C12_data Proofs.C12_off.
Import ListNotations.
Open Scope Z_scope.

(* a new container is the constant array *)
Theorem C12_new : forall cf n dflt, wfcfg cf -> 0 <= n -> inreg cf dflt ->
  exists c, pc_new cf n dflt = ROk c /\ Inv c /\ ccfg c = cf /\ blen (cdata c) = n /\
            pabs c = repeat dflt (Z.to_nat n).
Proof. exact new_inv. Qed.

(* Set on ANY container satisfying the invariant, for either configuration and across EVERY
   representation change (value present, appended, single -> indirect, indirect -> wider indirect,
   indirect -> direct): never panics, keeps the invariant, the kind and the length, and the array
   afterwards is the point update - so no other position changes *)
Theorem C12_refines : forall f c i v, Inv c -> 0 <= i < blen (cdata c) -> inreg (ccfg c) v ->
  exists c', pc_set (S (S f)) c i v = (c', OUnit) /\ Inv c' /\ ccfg c' = ccfg c /\
             blen (cdata c') = blen (cdata c) /\ pabs c' = upd_nth (pabs c) (Z.to_nat i) v.
Proof. exact set_refines. Qed.

(* Get returns the element of the array *)
Theorem C12_get : forall c j, Inv c -> 0 <= j < blen (cdata c) -> pc_get c j = ORet (nth (Z.to_nat j) (pabs c) 0).
Proof. exact get_abs. Qed.

(* Get after Set, pointwise *)
Theorem C12_get_set : forall f c i v j, Inv c -> 0 <= i < blen (cdata c) -> inreg (ccfg c) v ->
  0 <= j < blen (cdata c) ->
  pc_get (fst (pc_set (S (S f)) c i v)) j = if i =? j then ORet v else pc_get c j.
Proof. exact get_set. Qed.

(* ALL histories of Get/Set with in-range arguments, from any container satisfying the invariant:
   the outcomes are those of the plain array with point update, the final container denotes the
   final array, invariant, kind and length are kept *)
Theorem C12_histories : forall ops c, Inv c -> Forall (valid_pop (ccfg c) (blen (cdata c))) ops ->
  Inv (fst (pc_run c ops)) /\ ccfg (fst (pc_run c ops)) = ccfg c /\
  blen (cdata (fst (pc_run c ops))) = blen (cdata c) /\
  spec_prun (pabs c) ops = (pabs (fst (pc_run c ops)), snd (pc_run c ops)).
Proof. exact run_refines. Qed.

(* key lemma of the resize: a copy destination whose palette holds, without duplicates, only values
   of the source palette U (|U| < cap) always has room for one more value *)
Theorem C12_copy_never_overflows : forall cf b n U dst x, DI cf b n U dst -> room (cpal dst) x.
Proof. exact di_room. Qed.

(* the Go map of hashPalette (last index) and the linear scan (first index) agree when the palette
   has no duplicates - which is what id() maintains *)
Theorem C12_hash_is_linear : forall v l, NoDup l -> forall s, last_index_of v l s = index_of v l s.
Proof. exact index_first_last. Qed.

(* wire: write c, then read the image - followed by ANY bytes - into ANY container of the same kind
   and length (whatever its palette kind, width, contents and history): the read succeeds, returns
   the number of bytes written, leaves exactly the trailing bytes, and the destination now denotes
   the same array and satisfies the invariant (so every later history behaves as on c) *)
Theorem C12_wire : forall c used rest fuel, Inv c -> ccfg used = ccfg c ->
  blen (cdata used) = blen (cdata c) -> (lenN (data (cdata c)) < 2^31)%N ->
  (length (pal_export (cpal c)) <= fuel)%nat ->
  exists c', run_flat (pc_read fuel used) (fst (pc_write c) ++ rest) = FOk (c', snd (pc_write c)) rest /\
    snd (pc_write c) = lenN (fst (pc_write c)) /\ Inv c' /\ ccfg c' = ccfg c /\
    blen (cdata c') = blen (cdata c) /\ pabs c' = pabs c.
Proof. exact wire_roundtrip. Qed.

(* conformance: the image of ANY container satisfying the invariant, read by the independent
   specification reader of the protocol's paletted container (bits-per-entry byte through the
   protocol table 0 / 1-4 -> 4 / 5-8 / direct for block states and 0 / 1-3 / direct for biomes, VarInt
   palette length and entries, VarInt long count, big-endian longs in the 1.16+ packing of C11,
   direct ids with ceil(log2(registry)) bits), denotes exactly the array, and exactly the image is
   consumed *)
Theorem C12_conformant : forall c rest fuel, Inv c -> (lenN (data (cdata c)) < 2^31)%N ->
  (length (pal_export (cpal c)) <= fuel)%nat ->
  run_flat (spec_container (ckind (ccfg c)) (Z.to_N (gbits (ccfg c))) (Z.to_nat (blen (cdata c))) fuel)
           (fst (pc_write c) ++ rest) = FOk (pabs c) rest.
Proof. exact conformance. Qed.

(* save data.  The save layout (Anvil block_states / biomes): a palette and, unless it has a single
   entry, an index array of save_width bits per entry - ceil(log2 |palette|), for block states at
   least 4 - in the packing of C11; spec_saved reads it independently of the code.  For EVERY such
   palette/data pair (palette entries registry ids, every index within the palette) the constructor
   returns a container that satisfies the invariant and denotes exactly that array - whichever
   representation it chooses: single value, linear, hash, or (more than 256 block states / 8 biomes,
   fix 6364be8) the indices resolved through the palette into direct ids.  width_recovered says that
   calcBitsPerValue lands in the class of the save width; it holds for the section lengths of the
   chunk format (C12_with_data_section) but not for every length (C11_infer_refuted) *)
Theorem C12_with_data : forall cf n data pat a,
  wfcfg cf -> 0 <= n -> pat <> [] -> Forall (inreg cf) pat -> zlen pat <= 2 ^ gbits cf ->
  let w := save_width (ckind cf) (zlen pat) in
  Z.of_nat (length data) = (if w =? 0 then 0 else size_of w n) ->
  Forall (fun l => (l < 2^64)%N) data ->
  spec_saved (Z.to_N w) (Z.to_nat n) pat data = Some a ->
  width_recovered cf n w (zlen pat) ->
  exists c, pc_with_data cf n data pat = ROk c /\ Inv c /\ ccfg c = cf /\ blen (cdata c) = n /\ pabs c = a.
Proof. exact with_data. Qed.

(* the same for the containers of a chunk section (4096 block states, 64 biomes), with no hypothesis
   on the inference: every palette length up to 2^g, every width 0, 4..g / 0..g *)
Theorem C12_with_data_section : forall cf data pat a,
  wfcfg cf -> pat <> [] -> Forall (inreg cf) pat -> zlen pat <= 2 ^ gbits cf ->
  let n := section_len (ckind cf) in
  let w := save_width (ckind cf) (zlen pat) in
  Z.of_nat (length data) = (if w =? 0 then 0 else size_of w n) ->
  Forall (fun l => (l < 2^64)%N) data ->
  spec_saved (Z.to_N w) (Z.to_nat n) pat data = Some a ->
  exists c, pc_with_data cf n data pat = ROk c /\ Inv c /\ ccfg c = cf /\ blen (cdata c) = n /\ pabs c = a.
Proof. exact with_data_section. Qed.

(* ---------- outside the property's domain: what the code does ---------- *)

(* Set with an index out of range (any 64-bit index, any 64-bit id): the array, the length and the
   kind are unchanged; the call panics - except on a single-valued container (no data array) asked
   for the value it already holds, which ignores the index and returns.  (The palette may have taken
   the new id before the panic; if the id is a registry id the invariant still holds.) *)
Theorem C12_set_bad_index : forall f c i v, Inv c -> ~ (0 <= i < blen (cdata c)) -> in_sw 64 v ->
  let r := pc_set (S (S f)) c i v in
  pabs (fst r) = pabs c /\ blen (cdata (fst r)) = blen (cdata c) /\ ccfg (fst r) = ccfg c /\
  ((snd r = OUnit /\ vpl (cdata c) = 0) \/ exists w, snd r = OPanic w).
Proof. exact set_bad_index. Qed.

(* Set of an id outside the registry range on a direct container: value-out-of-bounds panic whatever
   the index, container untouched.  (Indirect palettes do NOT check ids: see C12_ex_unchecked_id.) *)
Theorem C12_set_bad_id_direct : forall f c i v, Inv c -> cpal c = PGlobal -> in_sw 64 v ->
  ~ inreg (ccfg c) v -> pc_set (S f) c i v = (c, OPanic pVal).
Proof. exact set_bad_id_direct. Qed.

(* a ReadFrom that fails leaves a container of which only the configuration and the length are
   guaranteed (left_behind: every other field arbitrary); the next successful read into it - of the
   image of any container of that kind and length - yields a container that satisfies the invariant
   and denotes the written array *)
Theorem C12_failed_read_recoverable : forall before left c rest fuel,
  left_behind before left -> Inv c -> ccfg c = ccfg before -> blen (cdata c) = blen (cdata before) ->
  (lenN (data (cdata c)) < 2^31)%N -> (length (pal_export (cpal c)) <= fuel)%nat ->
  exists c', run_flat (pc_read fuel left) (fst (pc_write c) ++ rest) = FOk (c', snd (pc_write c)) rest /\
    Inv c' /\ left_behind before c' /\ pabs c' = pabs c.
Proof. exact failed_read_recoverable. Qed.

(* the reader is fragmentation-proof (feeds C09) *)
Theorem C12_pal_read_robust : forall fuel p, robust (pal_read fuel p).
Proof. exact pal_read_robust. Qed.

(* ---------- non-vacuity ---------- *)
Definition ex_cf : cfg := mkCfg KStates 15.
Example C12_ex_cfg : wfcfg ex_cf /\ inreg ex_cf 26683 /\ wfcfg (mkCfg KBiomes 6) /\ inreg (mkCfg KBiomes 6) 63.
Proof. unfold wfcfg, inreg. cbn. repeat split; try discriminate; reflexivity. Qed.
(* a 20-position block container driven through single -> 4 bit -> 5 bit by 17 distinct ids *)
Definition ex_ops : list pop :=
  map (fun k => PSet (Z.of_nat k) (Z.of_nat k * 1000)) (seq 1 17) ++ [PGet 17; PGet 0; PSet 3 26683; PGet 3].
Example C12_ex_history : exists c0, pc_new ex_cf 20 7 = ROk c0 /\
  Forall (valid_pop (ccfg c0) (blen (cdata c0))) ex_ops /\
  cbits (fst (pc_run c0 ex_ops)) = 5 /\
  skipn 17 (snd (pc_run c0 ex_ops)) = [ORet 17000; ORet 7; OUnit; ORet 26683].
Proof.
  eexists. split; [reflexivity|]. split; [|split; vm_compute; reflexivity].
  cbn [ccfg cdata blen]. unfold ex_ops. apply Forall_app. split.
  - apply Forall_forall. intros o Ho. apply in_map_iff in Ho. destruct Ho as (k & <- & Hk).
    apply in_seq in Hk. unfold valid_pop, inreg, ex_cf. cbn [gbits]. change (2 ^ 15) with 32768. split; lia.
  - unfold valid_pop, inreg, ex_cf. cbn [gbits]. change (2 ^ 15) with 32768. repeat constructor; lia.
Qed.
Example C12_ex_wire : exists c0, pc_new (mkCfg KBiomes 6) 64 3 = ROk c0 /\
  (lenN (data (cdata (fst (pc_run c0 [PSet 5 9; PSet 6 63])))) < 2^31)%N /\
  fst (pc_write (fst (pc_run c0 [PSet 5 9; PSet 6 63]))) =
    [2; 3; 3; 9; 63; 2; 0;0;0;0;0;0;0x24;0; 0;0;0;0;0;0;0;0]%N.
Proof. eexists. split; [reflexivity|]. split; vm_compute; reflexivity. Qed.

(* save data: the constructor agrees with the specification of saved sections on a concrete 5-entry
   biome section (3-bit data, the case of fix 9a83ac5) and a direct block section *)
Example C12_ex_with_data :
  (exists c, pc_with_data (mkCfg KBiomes 6) 64 [0x0000000000004688; 0; 0; 0]%N [10; 20; 30; 40; 50] = ROk c /\
             Some (map (fun j => match pc_get c j with ORet v => v | _ => -1 end) (positions 64)) =
             spec_saved 3 64 [10; 20; 30; 40; 50] [0x0000000000004688; 0; 0; 0]%N) /\
  (exists c, pc_with_data (mkCfg KStates 15) 8 [0x0003000100002000; 0x1]%N [] = ROk c /\
             Some (map (fun j => match pc_get c j with ORet v => v | _ => -1 end) (positions 8)) =
             spec_saved 15 8 [] [0x0003000100002000; 0x1]%N).
Proof. split; eexists; (split; [reflexivity|vm_compute; reflexivity]). Qed.

(* a block section with 300 palette entries (9-bit indices, 586 longs): the hypotheses of
   C12_with_data_section hold and the constructor resolves the indices (panicked before 6364be8) *)
Definition ex_pat300 : list Z := map Z.of_nat (seq 0 300).
Definition ex_data300 : list N := repeat 0x0000000000040201%N 586.
Example C12_ex_wide :
  save_width KStates (zlen ex_pat300) = 9 /\ Z.of_nat (length ex_data300) = size_of 9 4096 /\
  (exists a, spec_saved 9 4096 ex_pat300 ex_data300 = Some a /\ firstn 8 a = [1; 1; 1; 0; 0; 0; 0; 1]) /\
  (exists c, pc_with_data (mkCfg KStates 15) 4096 ex_data300 ex_pat300 = ROk c /\
             map (pc_get c) [0; 1; 2; 3; 7; 4095] = [ORet 1; ORet 1; ORet 1; ORet 0; ORet 1; ORet 1] /\ cbits c = 9).
Proof.
  split; [vm_compute; reflexivity|]. split; [vm_compute; reflexivity|]. split.
  - eexists. split; vm_compute; reflexivity.
  - eexists. split; [vm_compute; reflexivity|]. split; vm_compute; reflexivity.
Qed.

(* ids are not checked against the registry by the indirect palettes: 1000 is stored in a biome
   container (registry width 6) and read back; the container then no longer satisfies the invariant's
   id clause, and the Set that needs the upgrade to direct ids panics (value out of bounds in the
   copy) leaving the container as it was *)
Definition ex_b0 : pc := match pc_new (mkCfg KBiomes 6) 64 0 with ROk c => c | RPanic _ => mkPC 0 (mkCfg KBiomes 6) PGlobal (mkBS [] 0%N 0 0 0) end.
Definition ex_b8 : pc := fst (pc_run ex_b0 [PSet 0 1000; PSet 1 1; PSet 2 2; PSet 3 3; PSet 4 4; PSet 5 5; PSet 6 6]).
Example C12_ex_unchecked_id :
  ~ inreg (mkCfg KBiomes 6) 1000 /\ pc_get ex_b8 0 = ORet 1000 /\ pc_get ex_b8 6 = ORet 6 /\
  pc_set set_fuel ex_b8 7 7 = (ex_b8, OPanic pVal) /\
  snd (pc_set set_fuel ex_b8 (-1) 7) = OPanic pVal /\ snd (pc_set set_fuel ex_b8 64 6) = OPanic pIdx /\
  pc_set set_fuel ex_b0 (-5) 0 = (ex_b0, OUnit).
Proof.
  split; [unfold inreg; cbn; lia|]. repeat split; vm_compute; reflexivity.
Qed.

(* ---- tie to the source: the two width tables are TRANSLATED from level/palette.go (Gen/Funcs.v) *)
From GoMC Require Gen.Funcs Proofs.C12_tie.
Theorem C12_cfg_bits_translated : forall b g : Z,
  Funcs.level_statesCfg_bits b g = cfg_bits (mkCfg KStates g) b /\
  Funcs.level_biomesCfg_bits b g = cfg_bits (mkCfg KBiomes g) b.
Proof. intros b g. split; [apply C12_tie.tie_statesCfg_bits | apply C12_tie.tie_biomesCfg_bits]. Qed.

Print Assumptions C12_new.
Print Assumptions C12_refines.
Print Assumptions C12_get.
Print Assumptions C12_get_set.
Print Assumptions C12_histories.
Print Assumptions C12_copy_never_overflows.
Print Assumptions C12_hash_is_linear.
Print Assumptions C12_wire.
Print Assumptions C12_conformant.
Print Assumptions C12_with_data.
Print Assumptions C12_with_data_section.
Print Assumptions C12_set_bad_index.
Print Assumptions C12_set_bad_id_direct.
Print Assumptions C12_failed_read_recoverable.
Print Assumptions C12_pal_read_robust.
Print Assumptions C12_cfg_bits_translated.
