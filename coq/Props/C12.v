(* C12 - PaletteContainer: property theorems only.  Model and specification: Model/C12.v (on top of the
   BitStorage model Model/C11.v); proofs: Proofs/C12.v, Proofs/C12_wire.v, Proofs/C12_spec.v, Proofs/C12_data.v, Proofs/C12_off.v.
   Inv c    = a container as New*PaletteContainer / Set / ReadFrom leave it: registry width g in 9..31
              (block states) or 4..31 (biomes); the data array is a well-formed BitStorage (C11) of the
              width the configuration table gives for the logical width, or has width 0; the palette
              has the kind the table gives, |values| <= cap <= 2^width, every value is a registry id
              (0 <= v < 2^g); every position of the data array holds an index the palette resolves.
   pabs c   = the array of state ids the container denotes (data indices resolved through the palette).
   inreg cf v = 0 <= v < 2^(gbits cf). *)
From Coq Require Import List NArith ZArith Bool Lia.
From GoMC Require Import Base.Bytes Base.Dec Model.C05 Model.C11 Model.C12 Proofs.C11 Proofs.C12 Proofs.C12_wire Proofs.C12_spec Proofs.C12_data Proofs.C12_off.
Import ListNotations.
Open Scope Z_scope.

(* a new container is the constant array *)
Theorem C12_new : forall cf n dflt, wfcfg cf -> 0 <= n -> inreg cf dflt ->
  exists c, pc_new cf n dflt = ROk c /\ Inv c /\ ccfg c = cf /\ blen (cdata c) = n /\
            pabs c = repeat dflt (Z.to_nat n).
Proof. exact new_inv. Qed.

(* Set on ANY container satisfying the invariant, for either configuration and across EVERY
   representation change (value present, appended, single -> indirect, indirect -> wider indirect,
   indirect -> direct): never panics, keeps the invariant, the kind and the length, and the array
   afterwards is the point update - so no other position changes *)
Theorem C12_refines : forall f c i v, Inv c -> 0 <= i < blen (cdata c) -> inreg (ccfg c) v ->
  exists c', pc_set (S (S f)) c i v = (c', OUnit) /\ Inv c' /\ ccfg c' = ccfg c /\
             blen (cdata c') = blen (cdata c) /\ pabs c' = upd_nth (pabs c) (Z.to_nat i) v.
Proof. exact set_refines. Qed.

(* Get returns the element of the array *)
Theorem C12_get : forall c j, Inv c -> 0 <= j < blen (cdata c) -> pc_get c j = ORet (nth (Z.to_nat j) (pabs c) 0).
Proof. exact get_abs. Qed.

(* Get after Set, pointwise *)
Theorem C12_get_set : forall f c i v j, Inv c -> 0 <= i < blen (cdata c) -> inreg (ccfg c) v ->
  0 <= j < blen (cdata c) ->
  pc_get (fst (pc_set (S (S f)) c i v)) j = if i =? j then ORet v else pc_get c j.
Proof. exact get_set. Qed.

(* ALL histories of Get/Set with in-range arguments, from any container satisfying the invariant:
   the outcomes are those of the plain array with point update, the final container denotes the
   final array, invariant, kind and length are kept *)
Theorem C12_histories : forall ops c, Inv c -> Forall (valid_pop (ccfg c) (blen (cdata c))) ops ->
  Inv (fst (pc_run c ops)) /\ ccfg (fst (pc_run c ops)) = ccfg c /\
  blen (cdata (fst (pc_run c ops))) = blen (cdata c) /\
  spec_prun (pabs c) ops = (pabs (fst (pc_run c ops)), snd (pc_run c ops)).
Proof. exact run_refines. Qed.

(* key lemma of the resize: a copy destination whose palette holds, without duplicates, only values
   of the source palette U (|U| < cap) always has room for one more value *)
Theorem C12_copy_never_overflows : forall cf b n U dst x, DI cf b n U dst -> room (cpal dst) x.
Proof. exact di_room. Qed.

(* the Go map of hashPalette (last index) and the linear scan (first index) agree when the palette
   has no duplicates - which is what id() maintains *)
Theorem C12_hash_is_linear : forall v l, NoDup l -> forall s, last_index_of v l s = index_of v l s.
Proof. exact index_first_last. Qed.

(* wire: write c, then read the image - followed by ANY bytes - into ANY container of the same kind
   and length (whatever its palette kind, width, contents and history): the read succeeds, returns
   the number of bytes written, leaves exactly the trailing bytes, and the destination now denotes
   the same array and satisfies the invariant (so every later history behaves as on c) *)
Theorem C12_wire : forall c used rest fuel, Inv c -> ccfg used = ccfg c ->
  blen (cdata used) = blen (cdata c) -> (lenN (data (cdata c)) < 2^31)%N ->
  (length (pal_export (cpal c)) <= fuel)%nat ->
  exists c', run_flat (pc_read fuel used) (fst (pc_write c) ++ rest) = FOk (c', snd (pc_write c)) rest /\
    snd (pc_write c) = lenN (fst (pc_write c)) /\ Inv c' /\ ccfg c' = ccfg c /\
    blen (cdata c') = blen (cdata c) /\ pabs c' = pabs c.
Proof. exact wire_roundtrip. Qed.

(* conformance: the image of ANY container satisfying the invariant, read by the independent
   specification reader of the protocol's paletted container (bits-per-entry byte through the
   protocol table 0 / 1-4 -> 4 / 5-8 / direct for block states and 0 / 1-3 / direct for biomes, VarInt
   palette length and entries, VarInt long count, big-endian longs in the 1.16+ packing of C11,
   direct ids with ceil(log2(registry)) bits), denotes exactly the array, and exactly the image is
   consumed *)
Theorem C12_conformant : forall c rest fuel, Inv c -> (lenN (data (cdata c)) < 2^31)%N ->
  (length (pal_export (cpal c)) <= fuel)%nat ->
  run_flat (spec_container (ckind (ccfg c)) (Z.to_N (gbits (ccfg c))) (Z.to_nat (blen (cdata c))) fuel)
           (fst (pc_write c) ++ rest) = FOk (pabs c) rest.
Proof. exact conformance. Qed.

(* save data.  The save layout (Anvil block_states / biomes): a palette and, unless it has a single
   entry, an index array of save_width bits per entry - ceil(log2 |palette|), for block states at
   least 4 - in the packing of C11; spec_saved reads it independently of the code.  For EVERY such
   palette/data pair (palette entries registry ids, every index within the palette) the constructor
   returns a container that satisfies the invariant and denotes exactly that array - whichever
   representation it chooses: single value, linear, hash, or (more than 256 block states / 8 biomes,
   fix 6364be8) the indices resolved through the palette into direct ids.  width_recovered says that
   calcBitsPerValue lands in the class of the save width; it holds for the section lengths of the
   chunk format (C12_with_data_section) but not for every length (C11_infer_refuted) *)
Theorem C12_with_data : forall cf n data pat a,
  wfcfg cf -> 0 <= n -> pat <> [] -> Forall (inreg cf) pat -> zlen pat <= 2 ^ gbits cf ->
  let w := save_width (ckind cf) (zlen pat) in
  Z.of_nat (length data) = (if w =? 0 then 0 else size_of w n) ->
  Forall (fun l => (l < 2^64)%N) data ->
  spec_saved (Z.to_N w) (Z.to_nat n) pat data = Some a ->
  width_recovered cf n w (zlen pat) ->
  exists c, pc_with_data cf n data pat = ROk c /\ Inv c /\ ccfg c = cf /\ blen (cdata c) = n /\ pabs c = a.
Proof. exact with_data. Qed.

(* the same for the containers of a chunk section (4096 block states, 64 biomes), with no hypothesis
   on the inference: every palette length up to 2^g, every width 0, 4..g / 0..g *)
Theorem C12_with_data_section : forall cf data pat a,
  wfcfg cf -> pat <> [] -> Forall (inreg cf) pat -> zlen pat <= 2 ^ gbits cf ->
  let n := section_len (ckind cf) in
  let w := save_width (ckind cf) (zlen pat) in
  Z.of_nat (length data) = (if w =? 0 then 0 else size_of w n) ->
  Forall (fun l => (l < 2^64)%N) data ->
  spec_saved (Z.to_N w) (Z.to_nat n) pat data = Some a ->
  exists c, pc_with_data cf n data pat = ROk c /\ Inv c /\ ccfg c = cf /\ blen (cdata c) = n /\ pabs c = a.
Proof. exact with_data_section. Qed.

(* ---------- outside the property's domain: what the code does ---------- *)

(* Set with an index out of range (any 64-bit index, any 64-bit id): the array, the length and the
   kind are unchanged; the call panics - except on a single-valued container (no data array) asked
   for the value it already holds, which ignores the index and returns.  (The palette may have taken
   the new id before the panic; if the id is a registry id the invariant still holds.) *)
Theorem C12_set_bad_index : forall f c i v, Inv c -> ~ (0 <= i < blen (cdata c)) -> in_sw 64 v ->
  let r := pc_set (S (S f)) c i v in
  pabs (fst r) = pabs c /\ blen (cdata (fst r)) = blen (cdata c) /\ ccfg (fst r) = ccfg c /\
  ((snd r = OUnit /\ vpl (cdata c) = 0) \/ exists w, snd r = OPanic w).
Proof. exact set_bad_index. Qed.

(* Set of an id outside the registry range on a direct container: value-out-of-bounds panic whatever
   the index, container untouched.  (Indirect palettes do NOT check ids: see C12_ex_unchecked_id.) *)
Theorem C12_set_bad_id_direct : forall f c i v, Inv c -> cpal c = PGlobal -> in_sw 64 v ->
  ~ inreg (ccfg c) v -> pc_set (S f) c i v = (c, OPanic pVal).
Proof. exact set_bad_id_direct. Qed.

(* a ReadFrom that fails leaves a container of which only the configuration and the length are
   guaranteed (left_behind: every other field arbitrary); the next successful read into it - of the
   image of any container of that kind and length - yields a container that satisfies the invariant
   and denotes the written array *)
Theorem C12_failed_read_recoverable : forall before left c rest fuel,
  left_behind before left -> Inv c -> ccfg c = ccfg before -> blen (cdata c) = blen (cdata before) ->
  (lenN (data (cdata c)) < 2^31)%N -> (length (pal_export (cpal c)) <= fuel)%nat ->
  exists c', run_flat (pc_read fuel left) (fst (pc_write c) ++ rest) = FOk (c', snd (pc_write c)) rest /\
    Inv c' /\ left_behind before c' /\ pabs c' = pabs c.
Proof. exact failed_read_recoverable. Qed.

(* the reader is fragmentation-proof (feeds C09) *)
Theorem C12_pal_read_robust : forall fuel p, robust (pal_read fuel p).
Proof. exact pal_read_robust. Qed.

(* ---------- non-vacuity ---------- *)
Definition ex_cf : cfg := mkCfg KStates 15.
Example C12_ex_cfg : wfcfg ex_cf /\ inreg ex_cf 26683 /\ wfcfg (mkCfg KBiomes 6) /\ inreg (mkCfg KBiomes 6) 63.
Proof. unfold wfcfg, inreg. cbn. repeat split; try discriminate; reflexivity. Qed.
(* a 20-position block container driven through single -> 4 bit -> 5 bit by 17 distinct ids *)
Definition ex_ops : list pop :=
  map (fun k => PSet (Z.of_nat k) (Z.of_nat k * 1000)) (seq 1 17) ++ [PGet 17; PGet 0; PSet 3 26683; PGet 3].
Example C12_ex_history : exists c0, pc_new ex_cf 20 7 = ROk c0 /\
  Forall (valid_pop (ccfg c0) (blen (cdata c0))) ex_ops /\
  cbits (fst (pc_run c0 ex_ops)) = 5 /\
  skipn 17 (snd (pc_run c0 ex_ops)) = [ORet 17000; ORet 7; OUnit; ORet 26683].
Proof.
  eexists. split; [reflexivity|]. split; [|split; vm_compute; reflexivity].
  cbn [ccfg cdata blen]. unfold ex_ops. apply Forall_app. split.
  - apply Forall_forall. intros o Ho. apply in_map_iff in Ho. destruct Ho as (k & <- & Hk).
    apply in_seq in Hk. unfold valid_pop, inreg, ex_cf. cbn [gbits]. change (2 ^ 15) with 32768. split; lia.
  - unfold valid_pop, inreg, ex_cf. cbn [gbits]. change (2 ^ 15) with 32768. repeat constructor; lia.
Qed.
Example C12_ex_wire : exists c0, pc_new (mkCfg KBiomes 6) 64 3 = ROk c0 /\
  (lenN (data (cdata (fst (pc_run c0 [PSet 5 9; PSet 6 63])))) < 2^31)%N /\
  fst (pc_write (fst (pc_run c0 [PSet 5 9; PSet 6 63]))) =
    [2; 3; 3; 9; 63; 2; 0;0;0;0;0;0;0x24;0; 0;0;0;0;0;0;0;0]%N.
Proof. eexists. split; [reflexivity|]. split; vm_compute; reflexivity. Qed.

(* save data: the constructor agrees with the specification of saved sections on a concrete 5-entry
   biome section (3-bit data, the case of fix 9a83ac5) and a direct block section *)
Example C12_ex_with_data :
  (exists c, pc_with_data (mkCfg KBiomes 6) 64 [0x0000000000004688; 0; 0; 0]%N [10; 20; 30; 40; 50] = ROk c /\
             Some (map (fun j => match pc_get c j with ORet v => v | _ => -1 end) (positions 64)) =
             spec_saved 3 64 [10; 20; 30; 40; 50] [0x0000000000004688; 0; 0; 0]%N) /\
  (exists c, pc_with_data (mkCfg KStates 15) 8 [0x0003000100002000; 0x1]%N [] = ROk c /\
             Some (map (fun j => match pc_get c j with ORet v => v | _ => -1 end) (positions 8)) =
             spec_saved 15 8 [] [0x0003000100002000; 0x1]%N).
Proof. split; eexists; (split; [reflexivity|vm_compute; reflexivity]). Qed.

(* a block section with 300 palette entries (9-bit indices, 586 longs): the hypotheses of
   C12_with_data_section hold and the constructor resolves the indices (panicked before 6364be8) *)
Definition ex_pat300 : list Z := map Z.of_nat (seq 0 300).
Definition ex_data300 : list N := repeat 0x0000000000040201%N 586.
Example C12_ex_wide :
  save_width KStates (zlen ex_pat300) = 9 /\ Z.of_nat (length ex_data300) = size_of 9 4096 /\
  (exists a, spec_saved 9 4096 ex_pat300 ex_data300 = Some a /\ firstn 8 a = [1; 1; 1; 0; 0; 0; 0; 1]) /\
  (exists c, pc_with_data (mkCfg KStates 15) 4096 ex_data300 ex_pat300 = ROk c /\
             map (pc_get c) [0; 1; 2; 3; 7; 4095] = [ORet 1; ORet 1; ORet 1; ORet 0; ORet 1; ORet 1] /\ cbits c = 9).
Proof.
  split; [vm_compute; reflexivity|]. split; [vm_compute; reflexivity|]. split.
  - eexists. split; vm_compute; reflexivity.
  - eexists. split; [vm_compute; reflexivity|]. split; vm_compute; reflexivity.
Qed.

(* ids are not checked against the registry by the indirect palettes: 1000 is stored in a biome
   container (registry width 6) and read back; the container then no longer satisfies the invariant's
   id clause, and the Set that needs the upgrade to direct ids panics (value out of bounds in the
   copy) leaving the container as it was *)
Definition ex_b0 : pc := match pc_new (mkCfg KBiomes 6) 64 0 with ROk c => c | RPanic _ => mkPC 0 (mkCfg KBiomes 6) PGlobal (mkBS [] 0%N 0 0 0) end.
Definition ex_b8 : pc := fst (pc_run ex_b0 [PSet 0 1000; PSet 1 1; PSet 2 2; PSet 3 3; PSet 4 4; PSet 5 5; PSet 6 6]).
Example C12_ex_unchecked_id :
  ~ inreg (mkCfg KBiomes 6) 1000 /\ pc_get ex_b8 0 = ORet 1000 /\ pc_get ex_b8 6 = ORet 6 /\
  pc_set set_fuel ex_b8 7 7 = (ex_b8, OPanic pVal) /\
  snd (pc_set set_fuel ex_b8 (-1) 7) = OPanic pVal /\ snd (pc_set set_fuel ex_b8 64 6) = OPanic pIdx /\
  pc_set set_fuel ex_b0 (-5) 0 = (ex_b0, OUnit).
Proof.
  split; [unfold inreg; cbn; lia|]. repeat split; vm_compute; reflexivity.
Qed.

(* ---- tie to the source: the two width tables are TRANSLATED from level/palette.go (Gen/Funcs.v) *)
From GoMC Require Gen.Funcs Proofs.C12_tie.
Theorem C12_cfg_bits_translated : forall b g : Z,
  Funcs.level_statesCfg_bits b g = cfg_bits (mkCfg KStates g) b /\
  Funcs.level_biomesCfg_bits b g = cfg_bits (mkCfg KBiomes g) b.
Proof. intros b g. split; [apply C12_tie.tie_statesCfg_bits | apply C12_tie.tie_biomesCfg_bits]. Qed.

Print Assumptions C12_new.
Print Assumptions C12_refines.
Print Assumptions C12_get.
Print Assumptions C12_get_set.
Print Assumptions C12_histories.
Print Assumptions C12_copy_never_overflows.
Print Assumptions C12_hash_is_linear.
Print Assumptions C12_wire.
Print Assumptions C12_conformant.
Print Assumptions C12_with_data.
Print Assumptions C12_with_data_section.
Print Assumptions C12_set_bad_index.
Print Assumptions C12_set_bad_id_direct.
Print Assumptions C12_failed_read_recoverable.
Print Assumptions C12_pal_read_robust.
Print Assumptions C12_cfg_bits_translated.

(* ---- tie to the source by TRANSLATION (phase 3): tools/gotrans/c12.go renders 30 functions of
   level/palette.go - every method of PaletteContainer, of the two configurations and of the four
   palettes, the constructors, withCap, resolveIndirect - as terms of Model/C12_syntax.v (Gen/C12gen.v,
   regenerated on every run).  Proofs/C12_expected.v pins each of them to a recorded copy; the
   interpretation lemmas of Proofs/C12_skel.v show that the recorded terms, run by the interpreter of
   Model/C12_syntax.v, ARE the model's functions.  The theorems below are about the GENERATED terms. *)
From GoMC Require Model.C12_syntax Gen.C12gen Proofs.C12_expected Proofs.C12_skel.
Import C12_syntax.

(* the palette lookup used by Set - id() of the four palettes: index or upgrade width, the growth test
   cap-len > 0, the append, the hash map as the last-index view - as translated, is the model's pal_id *)
Theorem C12_id_translated : forall v,
  (forall v0, C12_skel.id_result C12gen.pal_singleValuePalette_id
     (run no_set C12gen.pal_singleValuePalette_id (VPal (PSingle v0)) [VZ v]) = Some (pal_id (PSingle v0) v)) /\
  (forall vals cap pb, C12_skel.id_result C12gen.pal_linearPalette_id
     (run no_set C12gen.pal_linearPalette_id (VPal (PLinear vals cap pb)) [VZ v]) = Some (pal_id (PLinear vals cap pb) v)) /\
  (forall vals cap pb, C12_skel.id_result C12gen.pal_hashPalette_id
     (run no_set C12gen.pal_hashPalette_id (VPal (PHash vals cap pb)) [VZ v]) = Some (pal_id (PHash vals cap pb) v)) /\
  C12_skel.id_result C12gen.pal_globalPalette_id
     (run no_set C12gen.pal_globalPalette_id (VPal PGlobal) [VZ v]) = Some (pal_id PGlobal v).
Proof.
  intros v. rewrite C12_expected.singleValuePalette_id_skel_ok, C12_expected.linearPalette_id_skel_ok,
    C12_expected.hashPalette_id_skel_ok, C12_expected.globalPalette_id_skel_ok.
  split; [intros; apply C12_skel.tie_single_id|]. split; [intros; apply C12_skel.tie_linear_id|].
  split; [intros; apply C12_skel.tie_hash_id|apply C12_skel.tie_global_id].
Qed.

(* value() of the four palettes (bounds test, panic) as translated is the model's pal_value *)
Theorem C12_value_translated : forall i,
  (forall v0, C12_skel.value_result (run no_set C12gen.pal_singleValuePalette_value (VPal (PSingle v0)) [VZ i])
              = Some (pal_value (PSingle v0) i)) /\
  (forall vals cap pb, C12_skel.value_result (run no_set C12gen.pal_linearPalette_value (VPal (PLinear vals cap pb)) [VZ i])
              = Some (pal_value (PLinear vals cap pb) i)) /\
  (forall vals cap pb, C12_skel.value_result (run no_set C12gen.pal_hashPalette_value (VPal (PHash vals cap pb)) [VZ i])
              = Some (pal_value (PHash vals cap pb) i)) /\
  C12_skel.value_result (run no_set C12gen.pal_globalPalette_value (VPal PGlobal) [VZ i]) = Some (pal_value PGlobal i).
Proof.
  intros i. rewrite C12_expected.singleValuePalette_value_skel_ok, C12_expected.linearPalette_value_skel_ok,
    C12_expected.hashPalette_value_skel_ok, C12_expected.globalPalette_value_skel_ok.
  split; [intros; apply C12_skel.tie_single_value|]. split; [intros; apply C12_skel.tie_linear_value|].
  split; [intros; apply C12_skel.tie_hash_value|apply C12_skel.tie_global_value].
Qed.

(* the threshold switches of the two configurations (create: 0 / 1..4 -> linear of 4 bits and 1<<4
   entries / 5..8 -> hash of 1<<bits entries / direct; biomes 0 / 1..3 -> linear of 1<<bits / direct)
   as translated are the model's cfg_create, for every width *)
Theorem C12_create_translated : forall g b,
  C12_skel.create_result (run no_set C12gen.pal_statesCfg_create (VCfg (mkCfg KStates g)) [VZ b])
    = Some (cfg_create (mkCfg KStates g) b) /\
  C12_skel.create_result (run no_set C12gen.pal_biomesCfg_create (VCfg (mkCfg KBiomes g)) [VZ b])
    = Some (cfg_create (mkCfg KBiomes g) b).
Proof.
  intros g b. rewrite C12_expected.statesCfg_create_skel_ok, C12_expected.biomesCfg_create_skel_ok.
  split; [apply C12_skel.tie_states_create|apply C12_skel.tie_biomes_create].
Qed.

(* headline over the interpretation: the translated Get on a container satisfying the invariant returns
   the element of the array (so, with C12_refines / C12_histories, the last value set there) *)
Theorem C12_get_translated : forall c j, Inv c -> 0 <= j < blen (cdata c) ->
  C12_skel.out_result (run no_set C12gen.pal_PaletteContainer_Get (VCont c) [VZ j])
  = Some (ORet (nth (Z.to_nat j) (pabs c) 0)).
Proof.
  intros c j I Hj. rewrite C12_expected.PaletteContainer_Get_skel_ok, C12_skel.tie_get.
  rewrite (get_abs c j I Hj). reflexivity.
Qed.

(* the translated WriteTo writes bits byte, palette, data array in this order: the model's image *)
Theorem C12_writeto_translated : forall c,
  C12_skel.interp_writeto C12gen.pal_PaletteContainer_WriteTo c = Some (fst (pc_write c)).
Proof. intros c. rewrite C12_expected.PaletteContainer_WriteTo_skel_ok. apply C12_skel.tie_writeto. Qed.

(* Set, ReadFrom (container and palettes), the palettes' WriteTo, the constructors, withCap and
   resolveIndirect are pinned statement by statement to the recorded translation (no interpretation
   lemma yet): a changed constant, a dropped or swapped statement breaks the obligation *)
Theorem C12_bodies_recorded :
  C12gen.pal_PaletteContainer_Set = C12_expected.exp_PaletteContainer_Set /\
  C12gen.pal_PaletteContainer_ReadFrom = C12_expected.exp_PaletteContainer_ReadFrom /\
  C12gen.pal_singleValuePalette_ReadFrom = C12_expected.exp_singleValuePalette_ReadFrom /\
  C12gen.pal_linearPalette_ReadFrom = C12_expected.exp_linearPalette_ReadFrom /\
  C12gen.pal_hashPalette_ReadFrom = C12_expected.exp_hashPalette_ReadFrom /\
  C12gen.pal_linearPalette_WriteTo = C12_expected.exp_linearPalette_WriteTo /\
  C12gen.pal_hashPalette_WriteTo = C12_expected.exp_hashPalette_WriteTo /\
  C12gen.pal_NewStatesPaletteContainerWithData = C12_expected.exp_NewStatesPaletteContainerWithData /\
  C12gen.pal_NewBiomesPaletteContainerWithData = C12_expected.exp_NewBiomesPaletteContainerWithData /\
  C12gen.pal_resolveIndirect = C12_expected.exp_resolveIndirect /\
  C12gen.pal_withCap = C12_expected.exp_withCap /\
  C12gen.pal_statesCfg_bits = C12_expected.exp_statesCfg_bits /\
  C12gen.pal_biomesCfg_bits = C12_expected.exp_biomesCfg_bits.
Proof.
  repeat split; first
   [ apply C12_expected.PaletteContainer_Set_skel_ok | apply C12_expected.PaletteContainer_ReadFrom_skel_ok
   | apply C12_expected.singleValuePalette_ReadFrom_skel_ok | apply C12_expected.linearPalette_ReadFrom_skel_ok
   | apply C12_expected.hashPalette_ReadFrom_skel_ok | apply C12_expected.linearPalette_WriteTo_skel_ok
   | apply C12_expected.hashPalette_WriteTo_skel_ok | apply C12_expected.NewStatesPaletteContainerWithData_skel_ok
   | apply C12_expected.NewBiomesPaletteContainerWithData_skel_ok | apply C12_expected.resolveIndirect_skel_ok
   | apply C12_expected.withCap_skel_ok | apply C12_expected.statesCfg_bits_skel_ok | apply C12_expected.biomesCfg_bits_skel_ok ].
Qed.

Print Assumptions C12_id_translated.
Print Assumptions C12_value_translated.
Print Assumptions C12_create_translated.
Print Assumptions C12_get_translated.
Print Assumptions C12_writeto_translated.
Print Assumptions C12_bodies_recorded.

(* ---- phase 4: interpretation of Set, the constructors and ReadFrom; headlines over the translation.
   (C12_bodies_recorded above still pins every body; of its list, Set, PaletteContainer.ReadFrom and
   singleValuePalette.ReadFrom - and New{States,Biomes}PaletteContainer - now also have interpretation
   lemmas: Proofs/C12_skel_set.v, Proofs/C12_skel_read.v, Proofs/C12_tr.v) *)
From GoMC Require Proofs.C12_skel_set Proofs.C12_skel_read Proofs.C12_tr.

(* the translated Set - palette lookup; on a hit the store; on a miss the new container of the next
   width (config.create, NewBitStorage(config.bits)), the copy loop newContainer.Set(i, p.Get(i)) over
   every position, the second lookup (panic "not reachable"), the store, *p = newContainer - run with
   the model's pc_set f for the recursive call IS pc_set (S f): same container, same outcome, on every
   exit (normal and each panic), for every container, index, id and fuel *)
Theorem C12_set_translated : forall (sf : prims) f, (forall c i v, p_set sf c i v = pc_set f c i v) ->
  forall c i v, C12_skel_set.set_result (run sf C12gen.pal_PaletteContainer_Set (VCont c) [VZ i; VZ v])
                = Some (pc_set (S f) c i v).
Proof. intros sf f H c i v. rewrite C12_expected.PaletteContainer_Set_skel_ok. apply C12_skel_set.tie_set. exact H. Qed.

(* with the recursive call tied back to the translated Set itself: the translated Set is the model's *)
Theorem C12_tr_set_is_model : forall f c i v, C12_tr.tr_set f c i v = pc_set f c i v.
Proof. exact C12_tr.tr_set_is_pc_set. Qed.

(* the translated constructors are pc_new *)
Theorem C12_new_translated : forall k gs gb n dflt,
  C12_tr.tr_new k gs gb n dflt = Some (pc_new (mkCfg k (match k with KStates => gs | KBiomes => gb end)) n dflt).
Proof. exact C12_tr.tr_new_is_pc_new. Qed.

(* the translated PaletteContainer.ReadFrom (bits byte, bits / palette of the configuration, palette
   read, data read, Fix; every error exit) over the flat input semantics returns what the model's
   pc_read returns, for every destination container and every input *)
Theorem C12_readfrom_translated : forall fuel used s, run_flat (pc_read fuel used) s <> FFuel ->
  C12_tr.tr_read fuel used s = Some (run_flat (pc_read fuel used) s).
Proof. exact C12_tr.tr_read_is_pc_read. Qed.
Theorem C12_single_readfrom_translated : forall v0 s,
  C12_skel_read.read_result (fst (g_recv C12gen.pal_singleValuePalette_ReadFrom))
    (run_g C12_skel_read.res_env no_set C12gen.pal_singleValuePalette_ReadFrom (VPal (PSingle v0)) [VReader s])
  = Some (C12_skel_read.map_fres VPal (run_flat (pal_read 0 (PSingle v0)) s)).
Proof. intros. rewrite C12_expected.singleValuePalette_ReadFrom_skel_ok. apply C12_skel_read.tie_single_read. Qed.

(* HEADLINE 1: a container made by the TRANSLATED constructor and driven by ANY history of the
   TRANSLATED Set / Get (in-range indices, registry ids) behaves as the array with point update, across
   every upgrade, for both configurations *)
Theorem C12_set_get_translated : forall k gs gb n dflt ops,
  let cf := mkCfg k (match k with KStates => gs | KBiomes => gb end) in
  wfcfg cf -> 0 <= n -> inreg cf dflt -> Forall (valid_pop cf n) ops ->
  exists c0, C12_tr.tr_new k gs gb n dflt = Some (ROk c0) /\
    spec_prun (repeat dflt (Z.to_nat n)) ops = (pabs (fst (C12_tr.tr_run c0 ops)), snd (C12_tr.tr_run c0 ops)) /\
    Inv (fst (C12_tr.tr_run c0 ops)).
Proof. exact C12_tr.set_get_translated. Qed.

(* HEADLINE 2: the image the TRANSLATED WriteTo emits, followed by any bytes, read by the TRANSLATED
   ReadFrom into any container of the same kind and length: the array, the byte count, the rest *)
Theorem C12_wire_roundtrip_translated : forall c used rest fuel, Inv c -> ccfg used = ccfg c ->
  blen (cdata used) = blen (cdata c) -> (lenN (data (cdata c)) < 2^31)%N ->
  (List.length (pal_export (cpal c)) <= fuel)%nat ->
  exists img c', C12_tr.tr_write c = Some img /\
                 C12_tr.tr_read fuel used (img ++ rest) = Some (FOk (c', lenN img) rest) /\
                 Inv c' /\ ccfg c' = ccfg c /\ blen (cdata c') = blen (cdata c) /\ pabs c' = pabs c.
Proof. exact C12_tr.wire_roundtrip_translated. Qed.

(* the long count is below 2^31 whenever the length is: C12_wire with the bound on the LENGTH *)
Theorem C12_wire_len : forall c used rest fuel, Inv c -> ccfg used = ccfg c ->
  blen (cdata used) = blen (cdata c) -> (wf (cdata c) \/ data (cdata c) = []) -> blen (cdata c) < 2 ^ 31 ->
  (List.length (pal_export (cpal c)) <= fuel)%nat ->
  exists c', run_flat (pc_read fuel used) (fst (pc_write c) ++ rest) = FOk (c', snd (pc_write c)) rest /\
    snd (pc_write c) = lenN (fst (pc_write c)) /\ Inv c' /\ ccfg c' = ccfg c /\
    blen (cdata c') = blen (cdata c) /\ pabs c' = pabs c.
Proof. exact wire_roundtrip_len. Qed.

Print Assumptions C12_set_translated.
Print Assumptions C12_tr_set_is_model.
Print Assumptions C12_new_translated.
Print Assumptions C12_readfrom_translated.
Print Assumptions C12_single_readfrom_translated.
Print Assumptions C12_set_get_translated.
Print Assumptions C12_wire_roundtrip_translated.
Print Assumptions C12_wire_len.

(* ---- phase 5 *)
From GoMC Require Proofs.C12_skel_data.

(* the fuel-exhaustion hypothesis of C12_readfrom_translated removed: the model's palette reader
   consumes at least one byte per entry, so fuel >= |input| is always enough (the driver and the
   interpreter use |input| + 1) *)
Theorem C12_read_no_fuel : forall fuel c s, (List.length s <= fuel)%nat -> run_flat (pc_read fuel c) s <> FFuel.
Proof. exact pc_read_no_fuel. Qed.
Theorem C12_readfrom_translated_total : forall fuel used s, (List.length s <= fuel)%nat ->
  C12_tr.tr_read fuel used s = Some (run_flat (pc_read fuel used) s).
Proof. exact C12_tr.tr_read_total. Qed.

(* the translated NewBiomesPaletteContainerWithData - width inference calcBitsPerValue, the 3-bit
   special case by palette length and calcBitStorageSize(3, length), the switch 0 / 1..3 / default,
   withCap, resolveIndirect for more than 1<<3 entries, NewBitStorage(biomesCfg{}.bits(n), length, data)
   with its length check - IS pc_with_data, for every length, long array and palette slice of any
   capacity, on every exit (each panic included).  (withCap and resolveIndirect enter as the model's
   with_cap / resolve_indirect; their own bodies and the block-state constructor are pinned by
   *_skel_ok, see C12_bodies_recorded.) *)
Theorem C12_biomes_with_data_translated : forall gs gb n data pat capp,
  C12_skel_set.new_result
    (run_g (cfg_env gs gb) no_set C12gen.pal_NewBiomesPaletteContainerWithData VNil [VZ n; VData data; VSlice pat capp])
  = Some (pc_with_data (mkCfg KBiomes gb) n data pat).
Proof.
  intros. rewrite C12_expected.NewBiomesPaletteContainerWithData_skel_ok. apply C12_skel_data.tie_biomes_with_data.
Qed.

Print Assumptions C12_read_no_fuel.
Print Assumptions C12_readfrom_translated_total.
Print Assumptions C12_biomes_with_data_translated.

(* ---- phase 6: the declared palette length (fix 5ccdbc5) *)
(* a palette reader that has read a declared length above the 1<<bits entries its width can index
   fails at once - whatever follows, before any entry is read, so the make([]T, size) of the code is
   never reached with a hostile length; and every accepted palette has as many entries as declared,
   at most 1<<bits of them, in a slice of at most max(cap, 1<<bits) elements.  (The writer never
   emits a longer palette: C12_wire / C12_conformant are unchanged.) *)
Theorem C12_palette_alloc_refused : forall fuel p cap pb s size n0 rest0, indirect p cap pb ->
  run_flat read32 s = FOk (size, n0) rest0 -> 2 ^ pb < size ->
  run_flat (pal_read fuel p) s = FErr eBigPal.
Proof. exact palette_alloc_refused. Qed.
Theorem C12_palette_alloc_bounded : forall fuel p cap pb s p' n rest, indirect p cap pb -> 0 <= pb ->
  run_flat (pal_read fuel p) s = FOk (p', n) rest ->
  exists vs cp, (p' = PLinear vs cp pb \/ p' = PHash vs cp pb) /\ zlen vs <= 2 ^ pb /\ cp = Z.max cap (zlen vs) /\
                cp <= Z.max cap (2 ^ pb).
Proof. exact palette_alloc_bounded. Qed.
(* 04 ff ff ff ff 07 read into any block-state container: an error after 6 bytes, nothing else read *)
Example C12_ex_hostile_length : forall c rest, ccfg c = mkCfg KStates 15 ->
  run_flat (pc_read 100 c) ([4; 255; 255; 255; 255; 7] ++ rest)%N = FErr eBigPal.
Proof. intros c rest E. unfold pc_read. rewrite E. reflexivity. Qed.

Print Assumptions C12_palette_alloc_refused.
Print Assumptions C12_palette_alloc_bounded.

(* ---- last wave: the block-state save constructor *)
(* the translated NewStatesPaletteContainerWithData - calcBitsPerValue, the switch 0 / 1..4 (n = 4,
   withCap(pat, 1<<n)) / 5..8 (withCap, the loop `for i, v := range pat { ids[v] = i }` proved by
   induction to build the last-index view of pat, hashPalette{ids, values, bits}) / default
   (resolveIndirect for more than 1<<8 entries), NewBitStorage(statesCfg{}.bits(n), length, data) with
   its length check - IS pc_with_data, for every length, long array and palette slice of any capacity,
   on every exit (each panic included).  This is the constructor level.ChunkFromSave uses. *)
Theorem C12_states_with_data_translated : forall gs gb n data pat capp,
  C12_skel_set.new_result
    (run_g (cfg_env gs gb) no_set C12gen.pal_NewStatesPaletteContainerWithData VNil [VZ n; VData data; VSlice pat capp])
  = Some (pc_with_data (mkCfg KStates gs) n data pat).
Proof.
  intros. rewrite C12_expected.NewStatesPaletteContainerWithData_skel_ok. apply C12_skel_data.tie_states_with_data.
Qed.

Print Assumptions C12_states_with_data_translated.

(* ---- extra wave: the value loop of linearPalette.ReadFrom *)
From GoMC Require Proofs.C12_skel_pal.
(* the translated loop body of linearPalette.ReadFrom (value.ReadFrom(r), the error exit, n += nn,
   l.values[i] = T(value); C12_skel_pal.lin_body is that part of the recorded body), iterated by the
   interpreter over the remaining indices from any state reached after |acc| values
   (C12_skel_pal.lin_loop_run), IS the model's read_vals on the remaining input: same values, same byte
   count, same rest, same error - by induction over the number of values left.  (The rest of the body -
   size read, the two tests, make / reslice - and hashPalette.ReadFrom are still pinned by *_skel_ok only.) *)
Theorem C12_linear_read_loop_translated : forall size cp pb n0 m acc a nN rest lastv fuel, a = List.length acc ->
  run_flat (read_vals fuel (Z.of_nat m) (rev acc) nN) rest <> FFuel ->
  match run_flat (read_vals fuel (Z.of_nat m) (rev acc) nN) rest with
  | FOk (vs, mN) rest' =>
      exists lastv', C12_skel_pal.lin_loop_run lastv size rest acc m cp pb (Z.of_N n0 + Z.of_N nN) a
                     = SN (C12_skel_pal.lin_env lastv' size rest' vs cp pb (Z.of_N n0 + Z.of_N mN))
  | FErr e => exists env' k, C12_skel_pal.lin_loop_run lastv size rest acc m cp pb (Z.of_N n0 + Z.of_N nN) a
                             = SR env' [VZ k; VErr e]
  | _ => False
  end.
Proof. exact C12_skel_pal.lin_loop. Qed.

Print Assumptions C12_linear_read_loop_translated.

(* ---- palette codecs: the WHOLE translated bodies of linearPalette/hashPalette.ReadFrom and of the four
   palette WriteTo are interpreted (Proofs/C12_skel_pal2.v, Proofs/C12_skel_wr.v, Proofs/C12_tr2.v) *)
From GoMC Require Proofs.C12_skel_pal2 Proofs.C12_skel_wr Proofs.C12_tr2.

(* linearPalette.ReadFrom - size read, negative test, `> 1<<bits` test, make or reslice, value loop, return -
   returns what pal_read returns (palette, count, rest, every error) for every prior palette state and input *)
Theorem C12_linear_readfrom_translated : forall vals cap pb s fuel,
  run_flat (pal_read fuel (PLinear vals cap pb)) s <> FFuel ->
  C12_skel_read.read_result (fst (g_recv C12gen.pal_linearPalette_ReadFrom)) (run_g C12_skel_read.res_env no_set C12gen.pal_linearPalette_ReadFrom
                                       (VPal (PLinear vals cap pb)) [VReader s])
  = Some (C12_skel_read.map_fres VPal (run_flat (pal_read fuel (PLinear vals cap pb)) s)).
Proof. exact C12_tr2.tr_linear_readfrom. Qed.

(* hashPalette.ReadFrom run on a receiver whose map is spelled out (ANY prior map ids0, any prior values): values,
   capacity, count, rest and errors are pal_read's; the map is NOT cleared - afterwards it is the prior map
   overlaid with the bindings of the values read *)
Theorem C12_hash_readfrom_translated : forall ids0 vals cap pb s fuel,
  run_flat (pal_read fuel (PHash vals cap pb)) s <> FFuel ->
  C12_skel_read.read_result (fst (g_recv C12gen.pal_hashPalette_ReadFrom)) (run_g C12_skel_read.res_env no_set C12gen.pal_hashPalette_ReadFrom
                                       (VHashRaw ids0 vals cap pb) [VReader s])
  = Some (C12_skel_read.map_fres (C12_skel_pal2.raw_over ids0) (run_flat (pal_read fuel (PHash vals cap pb)) s)).
Proof. exact C12_tr2.tr_hash_readfrom_raw. Qed.

(* the map after a successful read: key -> last index among the values read, else what the PRIOR map held
   (stale keys survive); from an empty prior map - what create returns - exactly the last-index view of the
   values read, i.e. the model's PHash.  A reused destination is safe because PaletteContainer.ReadFrom
   creates the palette it reads into (C12_readfrom_translated2), not because the palette reader resets it *)
Theorem C12_hash_ids_after_read : forall ids0 vals cap pb s fuel v n rest k,
  run_flat (pal_read fuel (PHash vals cap pb)) s = FOk (v, n) rest ->
  exists vs cp, v = PHash vs cp pb /\
    C12_skel_read.read_result (fst (g_recv C12gen.pal_hashPalette_ReadFrom)) (run_g C12_skel_read.res_env no_set C12gen.pal_hashPalette_ReadFrom
                                         (VHashRaw ids0 vals cap pb) [VReader s])
    = Some (FOk (VHashRaw (push_ids 0 vs ids0) vs cp pb, n) rest) /\
    raw_lookup k (push_ids 0 vs ids0) = match last_index_of k vs 0 with Some j => Some j | None => raw_lookup k ids0 end /\
    (ids0 = [] -> raw_lookup k (push_ids 0 vs ids0) = last_index_of k vs 0).
Proof. exact C12_tr2.hash_ids_after_read. Qed.

(* stale keys, concretely: a hashPalette holding [7; 9] reads the palette [3]; afterwards values = [3] and the
   map still sends 9 to index 1, outside the values *)
Example C12_ex_hash_stale :
  C12_skel_read.read_result (fst (g_recv C12gen.pal_hashPalette_ReadFrom)) (run_g C12_skel_read.res_env no_set C12gen.pal_hashPalette_ReadFrom
                                       (raw_of_pal (PHash [7; 9] 32 5)) [VReader [1; 3]%N])
  = Some (FOk (VHashRaw [(3, 0); (9, 1); (7, 0)] [3] 32 5, 2%N) []) /\
  run_flat (pal_read 1 (PHash [7; 9] 32 5)) [1; 3]%N = FOk (PHash [3] 32 5, 2%N) [] /\
  run_flat (pal_read 1 (PLinear [5] 16 4)) [1; 3]%N <> FFuel.
Proof. split; [vm_compute; reflexivity|]. split; [vm_compute; reflexivity|]. vm_compute. discriminate. Qed.

(* the translated ReadFrom of the palette's own kind (single / linear / hash started from the model's view of its
   map / global) IS pal_read on every palette whose hash map is empty and every input *)
Theorem C12_palette_read_translated : forall fuel p s, C12_tr2.fresh p -> run_flat (pal_read fuel p) s <> FFuel ->
  C12_tr2.tr_pal_read p s = Some (run_flat (pal_read fuel p) s).
Proof. exact C12_tr2.tr_pal_read_is_model. Qed.

(* the translated WriteTo of the palette's own kind (length VarInt, range loop over the values; one VarInt; nothing)
   appends exactly pal_write p to ANY writer content and returns its length, for every palette *)
Theorem C12_palette_write_translated : forall p w0,
  C12_skel_wr.tr_pal_write p w0 = Some ((w0 ++ pal_write p)%list, zlen (pal_write p)).
Proof. exact C12_skel_wr.tr_pal_write_is_model. Qed.

(* PaletteContainer.ReadFrom with the palette read being the INTERPRETED palette reader of the created palette *)
Theorem C12_readfrom_translated2 : forall fuel used s, run_flat (pc_read fuel used) s <> FFuel ->
  C12_tr2.tr_read2 used s = Some (run_flat (pc_read fuel used) s).
Proof. exact C12_tr2.tr_read2_is_pc_read. Qed.
Theorem C12_writeto_translated2 : forall c, C12_tr2.tr_write2 c = Some (fst (pc_write c)).
Proof. exact C12_tr2.tr_write2_is_pc_write. Qed.

(* HEADLINE 2, strengthened: the round trip with the palette written by the translated palette WriteTo and read
   by the translated palette ReadFrom; no fuel parameter is left *)
Theorem C12_wire_roundtrip_translated2 : forall c used rest, Inv c -> ccfg used = ccfg c ->
  blen (cdata used) = blen (cdata c) -> (lenN (data (cdata c)) < 2^31)%N ->
  exists img c', C12_tr2.tr_write2 c = Some img /\
                 C12_tr2.tr_read2 used (img ++ rest) = Some (FOk (c', lenN img) rest) /\
                 Inv c' /\ ccfg c' = ccfg c /\ blen (cdata c') = blen (cdata c) /\ pabs c' = pabs c.
Proof. exact C12_tr2.wire_roundtrip_translated2. Qed.

(* the bodies of the two helpers of New*PaletteContainerWithData (which enter C12_{states,biomes}_with_data_translated
   as the model's with_cap / resolve_indirect) are interpreted as well (Proofs/C12_skel_cap.v): withCap - make with
   length and capacity, max, copy - returns the same values with capacity with_cap, for every slice and size;
   resolveIndirect - bits.Len(uint(len(pat)-1)), both NewBitStorage, the loop direct.Set(i, int(pat[idx.Get(i)]))
   by induction against resolve_loop, Raw() - IS resolve_indirect on every exit, for every non-empty palette
   (uint(len(pat)-1) of an empty one wraps in Go: outside the interpreter; the callers pass more than 8 entries) *)
From GoMC Require Proofs.C12_skel_cap.
Theorem C12_with_cap_translated : forall pat c0 size,
  C12_skel_cap.cap_result (run no_set C12gen.pal_withCap VNil [VSlice pat c0; VZ size]) = Some (pat, with_cap pat size).
Proof. exact C12_skel_cap.tr_with_cap. Qed.
Theorem C12_resolve_indirect_translated : forall n d pat c0 g, pat <> [] ->
  C12_skel_cap.ri_result (run no_set C12gen.pal_resolveIndirect VNil [VZ n; VData d; VSlice pat c0; VZ g])
  = Some (resolve_indirect n d pat g).
Proof. exact C12_skel_cap.tr_resolve_indirect. Qed.
Example C12_ex_resolve_nonempty : [7; 9] <> ([] : list Z) /\ C12_tr2.fresh (cfg_create (mkCfg KStates 15) 6).
Proof. split; [discriminate|reflexivity]. Qed.

Print Assumptions C12_linear_readfrom_translated.
Print Assumptions C12_hash_readfrom_translated.
Print Assumptions C12_hash_ids_after_read.
Print Assumptions C12_palette_read_translated.
Print Assumptions C12_palette_write_translated.
Print Assumptions C12_readfrom_translated2.
Print Assumptions C12_writeto_translated2.
Print Assumptions C12_wire_roundtrip_translated2.
Print Assumptions C12_with_cap_translated.
Print Assumptions C12_resolve_indirect_translated.
