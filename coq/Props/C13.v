(* C13 - chunk wire/save conversions: property theorems only.
   Model: Model/C13.v; proofs: Proofs/C13.v (counter), C13_nbt.v (NBT pieces), C13_wire.v (network form).
   The network-form theorem is parametric in the paletted container (C12's subject): any container codec
   whose ReadFrom after WriteTo returns the same array of ids with exact consumption, for every
   destination of the same geometry, can be plugged in. *)
From Coq Require Import List NArith ZArith Lia Bool ZifyBool.
From GoMC Require Import Base.Bytes Base.Dec Model.C05 Model.C06 Model.C11 Model.C13
  Proofs.C13 Proofs.C13_nbt Proofs.C13_wire Proofs.C13_inst Proofs.C13_save Proofs.C13_registry Proofs.C13_fuel Proofs.C13_vanilla Gen.Registry.
From GoMC Require Model.C01 Model.C12 Proofs.C11 Proofs.C12 Proofs.C12_data Proofs.C01_dec.
Import ListNotations.
Open Scope N_scope.

(* NETWORK FORM.  For every chunk c satisfying chunk_ok (counters are int16, containers satisfy their
   invariant, light arrays and block-entity fields in their protocol ranges, block-entity NBT either
   absent or the payload of a well-formed tag, MOTION_BLOCKING / WORLD_SURFACE well-formed storages of
   the width and length the DESTINATION's section count asks for), EVERY destination chunk d with
   compatible containers - whatever its counters, height maps, block entities (length, spare capacity,
   stale elements), light and status were - and EVERY continuation `rest` of the stream:
   WriteTo succeeds; ReadFrom succeeds, returns the number of bytes written and leaves `rest` untouched;
   every section of the result has the block count, the block states and the biomes of c's section and
   KEEPS the light arrays of d's section; MOTION_BLOCKING and WORLD_SURFACE are c's storages (identical,
   longs and geometry); the other four height maps and the status are d's, unchanged; the block entities
   are exactly c's. *)
Theorem C13_wire :
  forall (cont : Type) (pc_write : cont -> list N) (pc_read : bool -> cont -> dec (cont * N))
         (X : Type) (pc_abs : cont -> X) (pc_good : cont -> Prop) (pc_compat : cont -> cont -> Prop),
  (forall b d, robust (pc_read b d)) ->
  (forall b c d rest, pc_good c -> pc_compat c d ->
     exists c' n, run_flat (pc_read b d) (pc_write c ++ rest) = FOk (c', n) rest /\ pc_abs c' = pc_abs c) ->
  forall (c d : chunk cont) fuel rest,
  chunk_ok cont pc_write pc_good pc_compat c d -> (wire_fuel cont c <= fuel)%nat ->
  exists img c', chunk_write cont pc_write c = Some img /\
    run_flat (chunk_read cont pc_read fuel d) (img ++ rest) = FOk (c', lenN img) rest /\
    Forall3 (sec_rel cont X pc_abs) (c_secs c) (c_secs d) (c_secs c') /\
    hMB (c_hm c') = hMB (c_hm c) /\ hWS (c_hm c') = hWS (c_hm c) /\
    hWSWG (c_hm c') = hWSWG (c_hm d) /\ hOFWG (c_hm c') = hOFWG (c_hm d) /\
    hOF (c_hm c') = hOF (c_hm d) /\ hMBNL (c_hm c') = hMBNL (c_hm d) /\
    c_bes c' = c_bes c /\ c_status c' = c_status d.
Proof. exact wire_roundtrip. Qed.

(* NETWORK FORM, NO CONTAINER HYPOTHESIS LEFT: the same statement over C12's model of PaletteContainer
   (Model/C12.v), the container round trip discharged by C12's wire theorem.  The side conditions on the
   containers, spelled out: every container of the source satisfies C12's invariant Inv, has fewer than
   2^31 longs, and its palette fits the fuel fuelc of the reader's value loop (i_good); every container of
   the destination has the kind/registry width (ccfg) and the length (blen) of the source container it
   receives (i_compat) - whatever its palette kind, width, contents and history.  pabs is the array of
   ids a container denotes. *)
Theorem C13_wire_instantiated :
  forall (fuelc : nat) (c d : chunk Model.C12.pc) fuel rest,
  chunk_ok Model.C12.pc i_write (i_good fuelc) i_compat c d -> (wire_fuel Model.C12.pc c <= fuel)%nat ->
  exists img c', chunk_write Model.C12.pc i_write c = Some img /\
    run_flat (chunk_read Model.C12.pc (i_read fuelc) fuel d) (img ++ rest) = FOk (c', lenN img) rest /\
    Forall3 (sec_rel Model.C12.pc (list Z) Proofs.C12.pabs) (c_secs c) (c_secs d) (c_secs c') /\
    hMB (c_hm c') = hMB (c_hm c) /\ hWS (c_hm c') = hWS (c_hm c) /\
    hWSWG (c_hm c') = hWSWG (c_hm d) /\ hOFWG (c_hm c') = hOFWG (c_hm d) /\
    hOF (c_hm c') = hOF (c_hm d) /\ hMBNL (c_hm c') = hMBNL (c_hm d) /\
    c_bes c' = c_bes c /\ c_status c' = c_status d.
Proof. exact wire_instantiated. Qed.
(* what i_good and i_compat are *)
Theorem C13_wire_side_conditions : forall (fuelc : nat) (c d : Model.C12.pc),
  (i_good fuelc c <-> (Proofs.C12.Inv c /\ (lenN (data (Model.C12.cdata c)) < 2^31) /\
                       (length (Model.C12.pal_export (Model.C12.cpal c)) <= fuelc)%nat)) /\
  (i_compat c d <-> ((Model.C12.ccfg d = Model.C12.ccfg c) /\ (blen (Model.C12.cdata d) = blen (Model.C12.cdata c)))).
Proof. intros. split; reflexivity. Qed.

(* FUEL IS THE INPUT LENGTH.  wire_fuel is bounded by the length of the image plus 68 (every loop of the
   reader consumes bytes the writer produced), so the fuel premise becomes |input| + 68 <= fuel - what
   the driver passes.  Generic and instantiated forms. *)
Theorem C13_wire_input_fuel :
  forall (cont : Type) (pc_write : cont -> list N) (pc_read : bool -> cont -> dec (cont * N))
         (X : Type) (pc_abs : cont -> X) (pc_good : cont -> Prop) (pc_compat : cont -> cont -> Prop),
  (forall b d, robust (pc_read b d)) ->
  (forall b c d rest, pc_good c -> pc_compat c d ->
     exists c' n, run_flat (pc_read b d) (pc_write c ++ rest) = FOk (c', n) rest /\ pc_abs c' = pc_abs c) ->
  forall (c d : chunk cont), chunk_ok cont pc_write pc_good pc_compat c d ->
  exists img, chunk_write cont pc_write c = Some img /\
  forall rest fuel, (length (img ++ rest) + 68 <= fuel)%nat ->
  exists c', run_flat (chunk_read cont pc_read fuel d) (img ++ rest) = FOk (c', lenN img) rest /\
    Forall3 (sec_rel cont X pc_abs) (c_secs c) (c_secs d) (c_secs c') /\
    hMB (c_hm c') = hMB (c_hm c) /\ hWS (c_hm c') = hWS (c_hm c) /\
    hWSWG (c_hm c') = hWSWG (c_hm d) /\ hOFWG (c_hm c') = hOFWG (c_hm d) /\
    hOF (c_hm c') = hOF (c_hm d) /\ hMBNL (c_hm c') = hMBNL (c_hm d) /\
    c_bes c' = c_bes c /\ c_status c' = c_status d.
Proof. exact wire_roundtrip_input. Qed.
Theorem C13_wire_instantiated_input_fuel :
  forall (fuelc : nat) (c d : chunk Model.C12.pc),
  chunk_ok Model.C12.pc i_write (i_good fuelc) i_compat c d ->
  exists img, chunk_write Model.C12.pc i_write c = Some img /\
  forall rest fuel, (length (img ++ rest) + 68 <= fuel)%nat ->
  exists c', run_flat (chunk_read Model.C12.pc (i_read fuelc) fuel d) (img ++ rest) = FOk (c', lenN img) rest /\
    Forall3 (sec_rel Model.C12.pc (list Z) Proofs.C12.pabs) (c_secs c) (c_secs d) (c_secs c') /\
    hMB (c_hm c') = hMB (c_hm c) /\ hWS (c_hm c') = hWS (c_hm c) /\
    hWSWG (c_hm c') = hWSWG (c_hm d) /\ hOFWG (c_hm c') = hOFWG (c_hm d) /\
    hOF (c_hm c') = hOF (c_hm d) /\ hMBNL (c_hm c') = hMBNL (c_hm d) /\
    c_bes c' = c_bes c /\ c_status c' = c_status d.
Proof.
  intros fuelc. exact (wire_roundtrip_input Model.C12.pc i_write (i_read fuelc) (list Z) Proofs.C12.pabs
                         (i_good fuelc) i_compat (i_robust fuelc) (i_rt fuelc)).
Qed.

(* SAVE FORM.  For the concrete container of Model/C13.v (PaletteContainer at field level), any registry
   whose two directions are mutually inverse where defined (C13_registry's subject), any registry widths
   9..32 / 4..32, every chunk whose containers satisfy the field-level invariant wc_inv (kind and storage
   width as the configuration tables give for the logical width, well-formed BitStorage of 4096 / 64
   entries, palette present and within its width, every position resolvable), whose palette values the
   registry names, whose six height maps are well-formed storages of the chunk's geometry, and any
   destination save chunk whose YPos keeps Y inside int8:
   ChunkToSave succeeds, stores EACH of the six height maps under ITS OWN key, leaves every other key of
   the destination's map alone, stores the status; and ChunkFromSave of the result succeeds and returns
   sections that agree with the source at EVERY position of block states and biomes (all palette
   classes: single, 4-bit linear, 5..8-bit hash, direct; 1..3-bit biomes incl. the 3-bit/4-long case,
   direct), the same light arrays, the recounted number of non-air blocks, the six height maps
   identically (each from its own key) and the status. *)
Theorem C13_save :
  forall st_name st_id bio_name bio_id is_air gs gb (c : wchunk) (dst : schunk),
  (forall v x, st_name v = Some x -> st_id x = Some v) ->
  (forall v x, bio_name v = Some x -> bio_id x = Some v) ->
  (9 <= gs <= 32)%Z -> (4 <= gb <= 32)%Z ->
  save_ok st_name bio_name gs gb c dst ->
  exists s secs',
    to_save st_name bio_name c dst = SOk s /\
    hm_lookup kWSWG (sc_hm s) = Some (raw_of (hWSWG (c_hm c))) /\ hm_lookup kWS (sc_hm s) = Some (raw_of (hWS (c_hm c))) /\
    hm_lookup kOFWG (sc_hm s) = Some (raw_of (hOFWG (c_hm c))) /\ hm_lookup kOF (sc_hm s) = Some (raw_of (hOF (c_hm c))) /\
    hm_lookup kMB (sc_hm s) = Some (raw_of (hMB (c_hm c))) /\ hm_lookup kMBNL (sc_hm s) = Some (raw_of (hMBNL (c_hm c))) /\
    (forall k, Forall (fun k' => bytes_eq k k' = false) six_keys -> hm_lookup k (sc_hm s) = hm_lookup k (sc_hm dst)) /\
    sc_status s = c_status c /\ length (sc_secs s) = length (c_secs c) /\
    from_save st_id bio_id is_air gs gb s = SOk (map Some secs', c_hm c, c_status c) /\
    Forall2 (sec_same is_air) (c_secs c) secs'.
Proof. exact save_roundtrip. Qed.
(* the width rule behind it: New*PaletteContainerWithData on the raw longs and the exported palette of any
   container satisfying the invariant rebuilds a container of the same kind, data and palette *)
Theorem C13_width_recovery : forall gs gb c,
  ((9 <= gs <= 32)%Z -> wc_inv false gs 4096 c ->
     exists c', with_data gs gb false 4096 (data (w_data c)) (wc_export c) = SOk c' /\ wc_same c c') /\
  ((4 <= gb <= 32)%Z -> wc_inv true gb 64 c ->
     exists c', with_data gs gb true 64 (data (w_data c)) (wc_export c) = SOk c' /\ wc_same c c').
Proof. intros. split; [apply with_data_states|apply with_data_biomes]. Qed.

(* SAVE DATA IN THE VANILLA LAYOUT, ANY PALETTE SIZE (the resolveIndirect path of fix 6364be8 included).
   The section part of ChunkFromSave is one piece of code, generic in the model of
   New*PaletteContainerWithData and Get (from_save_sec_g); instantiated with the field-level container it
   IS the model the driver runs (C13_from_save_generic), instantiated with C12's pc_with_data / pc_get it
   satisfies: for a save section whose block palette (registry ids after the name lookup) and index
   array are in the vanilla layout - any palette length 1 .. 2^g, width 0 for one entry, else
   max(4, ceil log2 n) for block states and ceil log2 n for biomes, data of exactly the packed length -
   and likewise for its biomes, the section is loaded, both containers satisfy C12's invariant and denote
   exactly the arrays C12's independent reader of the save layout (spec_saved: index j resolved through
   the palette) gives, the counter is the number of non-air entries of that array, the light arrays are
   the saved ones.  (C12_with_data_section does the container work.) *)
Theorem C13_from_save_vanilla :
  forall st_id bio_id is_air gs gb,
  Proofs.C12.wfcfg (cf_of gs gb false) -> Proofs.C12.wfcfg (cf_of gs gb true) ->
  forall (v : ssect) ids bids a b,
  opt_all (map st_id (ss_bpal v)) = Some ids -> opt_all (map bio_id (ss_biopal v)) = Some bids ->
  vanilla_ok (cf_of gs gb false) ids (ss_bdata v) a ->
  vanilla_ok (cf_of gs gb true) bids (ss_biodata v) b ->
  exists s, from_save_sec_g Model.C12.pc (c12_mk gs gb) Model.C12.pc_get st_id bio_id is_air v = SOk s /\
    Proofs.C12.Inv (s_states s) /\ Proofs.C12.Inv (s_biomes s) /\
    Proofs.C12.pabs (s_states s) = a /\ Proofs.C12.pabs (s_biomes s) = b /\
    length a = 4096%nat /\ length b = 64%nat /\
    s_count s = non_air is_air a /\ s_sky s = ss_sky v /\ s_blk s = ss_blk v.
Proof. exact vanilla_section. Qed.
Theorem C13_from_save_generic : forall st_id bio_id is_air gs gb v,
  from_save_sec_g wcont (wc_mk gs gb) wc_get st_id bio_id is_air v = from_save_sec st_id bio_id is_air gs gb v.
Proof. exact from_save_sec_generic_eq. Qed.
(* what vanilla_ok says *)
Theorem C13_vanilla_layout : forall cf pat dat a,
  vanilla_ok cf pat dat a <->
  (pat <> [] /\ Forall (Proofs.C12.inreg cf) pat /\ (Model.C12.zlen pat <= 2 ^ Model.C12.gbits cf)%Z /\
   (let n := Proofs.C12_data.section_len (Model.C12.ckind cf) in
    let w := Model.C12.save_width (Model.C12.ckind cf) (Model.C12.zlen pat) in
    Z.of_nat (length dat) = (if (w =? 0)%Z then 0%Z else Proofs.C11.size_of w n) /\
    Forall (fun l => l < 2^64) dat /\
    Model.C12.spec_saved (Z.to_N w) (Z.to_nat n) pat dat = Some a)).
Proof. intros. reflexivity. Qed.

(* THE REGISTRY, a finite sweep over ALL 26,684 block states re-checked by the kernel (exhaustive
   execution on a finite domain, not an inductive argument).  Gen/Registry.v is dumped on every run by
   running level/block itself: row i holds the compact key of the (name, properties) that the code path
   of writeStatesPalette produces for state i (block index, mixed-radix number of the property values;
   two states get the same key exactly when name and properties are the same) and the id the code path of
   readStatesPalette returns for that palette entry.  For every i < 26,684: the entry of state i is read
   back as i (back o forth = id); the keys are duplicate-free, so forth is injective and forth o back = id
   on its image: the two directions are mutually inverse. *)
Theorem C13_registry :
  reg_count = 26684 /\ lenN reg_rows = 26684 /\
  (forall i, i < 26684 -> reg_back i = i) /\
  NoDup (map fst reg_rows) /\
  (forall i j, i < 26684 -> j < 26684 -> reg_key i = reg_key j -> i = j).
Proof.
  pose proof registry_facts as (H1 & H2 & H3 & H4).
  assert (E: reg_count = 26684) by reflexivity. rewrite E in *.
  split; [reflexivity|]. split; [exact H1|]. split; [exact H2|]. split; [exact H3|exact H4].
Qed.

(* the biome half: row i of bio_rows holds the name Type.MarshalText gives biome i (as a number: 1, then
   its bytes, base 256) and the id Type.UnmarshalText returns for that name; all 63 *)
Theorem C13_registry_biomes :
  bio_count = 63 /\ lenN bio_rows = 63 /\
  (forall i, i < 63 -> bio_back i = i) /\
  NoDup (map fst bio_rows) /\
  (forall i j, i < 63 -> j < 63 -> bio_key i = bio_key j -> i = j).
Proof.
  pose proof biome_facts as (H1 & H2 & H3 & H4).
  assert (E: bio_count = 63) by reflexivity. rewrite E in *.
  split; [reflexivity|]. split; [exact H1|]. split; [exact H2|]. split; [exact H3|exact H4].
Qed.

(* the height maps travel as the network-format NBT compound {MOTION_BLOCKING: [L;..], WORLD_SURFACE: [L;..]}
   (C01's textbook encoding), and reading it back gives both arrays and consumes exactly the image *)
Theorem C13_heightmap_nbt : forall mb ws, longs_ok mb -> longs_ok ws ->
  hm_write mb ws = C01.doc C01.Net []
    (C01.TCompound [(nameMB, C01.TLongArray (map sx64 mb)); (nameWS, C01.TLongArray (map sx64 ws))]).
Proof. exact hm_write_doc. Qed.
Theorem C13_heightmap_read : forall mb ws fuel rest, longs_ok mb -> longs_ok ws ->
  (length mb + length ws + 4 <= fuel)%nat ->
  run_flat (C01.tee (hm_read fuel)) (hm_write mb ws ++ rest) = FOk ((Some mb, Some ws), hm_write mb ws) rest.
Proof. exact hm_tee_rt. Qed.

(* one block entity into ANY prior content of the slot (C06's element condition for Ary) *)
Theorem C13_block_entity : forall fuel b old rest, bent_ok b -> (length (e_data b) < fuel)%nat ->
  run_flat (be_read fuel old) (fst (be_write (bent_val b)) ++ rest)
  = FOk (bent_val b, lenN (fst (be_write (bent_val b)))) rest.
Proof.
  intros fuel b old rest Hb Hf. destruct (be_elem_ok fuel b Hb Hf old rest) as (r & Hr & E).
  subst r. exact Hr.
Qed.

(* no reader of the network form issues a bare Read (feeds C09) *)
Theorem C13_robust_parts : forall fuel o, robust (hm_read fuel) /\ robust (be_read fuel o).
Proof. intros. split; [apply hm_read_robust|apply be_read_robust]. Qed.

(* THE COUNTER.  For any container whose Get/Set are point lookup/update on the array it denotes
   (C12_refines), any section whose counter is right, and EVERY history of in-range SetBlock calls:
   the counter equals the number of non-air blocks, and the section holds exactly what the same
   history of point updates gives (no other position changes). *)
Theorem C13_count :
  forall (cont : Type) (pc_get : cont -> Z -> Z) (pc_set : cont -> Z -> Z -> cont) (is_air : Z -> bool)
         (abs : cont -> list Z),
  (forall c i, (0 <= i < Z.of_nat (length (abs c)))%Z -> pc_get c i = nth (Z.to_nat i) (abs c) 0%Z) ->
  (forall c i v, (0 <= i < Z.of_nat (length (abs c)))%Z -> abs (pc_set c i v) = upd_nth (abs c) (Z.to_nat i) v) ->
  forall ops s, (Z.of_nat (length (abs (snd s))) <= 32767)%Z ->
  fst s = non_air is_air (abs (snd s)) ->
  Forall (fun iv => (0 <= fst iv < Z.of_nat (length (abs (snd s))))%Z) ops ->
  fst (set_blocks cont pc_get pc_set is_air s ops) = non_air is_air (abs (snd (set_blocks cont pc_get pc_set is_air s ops))) /\
  abs (snd (set_blocks cont pc_get pc_set is_air s ops)) =
    fold_left (fun a iv => upd_nth a (Z.to_nat (fst iv)) (snd iv)) ops (abs (snd s)).
Proof.
  intros cont pc_get pc_set is_air abs Hg Hs ops s Hl Hc Hops.
  exact (set_blocks_counted cont pc_get pc_set is_air abs Hg Hs ops s Hl Hc Hops).
Qed.

(* instantiated with the array container, from the empty section: unconditional *)
Theorem C13_count_empty : forall (is_air : Z -> bool) ops, is_air 0%Z = true ->
  Forall (fun iv => (0 <= fst iv < 4096)%Z) ops ->
  fst (arr_set_blocks is_air (0%Z, repeat 0%Z 4096) ops)
  = non_air is_air (snd (arr_set_blocks is_air (0%Z, repeat 0%Z 4096) ops)).
Proof.
  intros is_air ops Hair Hops.
  pose proof (set_blocks_counted (list Z) arr_get arr_set is_air (fun a => a) arr_get_abs arr_set_abs ops
                (0%Z, repeat 0%Z 4096)) as H.
  cbn [fst snd] in H. rewrite repeat_length in H.
  destruct H as [H _]; [lia| |exact Hops|exact H].
  unfold counted. cbn [fst snd]. unfold non_air.
  assert (E: forall n, filter (fun v => negb (is_air v)) (repeat 0%Z n) = []).
  { induction n as [|n IH]; [reflexivity|]. cbn [repeat filter]. rewrite Hair. exact IH. }
  rewrite E. reflexivity.
Qed.

(* ---------- non-vacuity ---------- *)
(* the hypotheses of C13_wire are satisfiable: a one-byte container (ReadFrom = one byte) *)
Definition byte_read (_ : bool) (_ : N) : dec (N * N) := ReadByte (fun b => Ret (b, 1)).
Example C13_ex_container :
  (forall b d, robust (byte_read b d)) /\
  (forall b (c d : N) rest, True -> True ->
     exists c' n, run_flat (byte_read b d) ((fun c => [c]) c ++ rest) = FOk (c', n) rest /\ c' = c).
Proof. split; [repeat constructor|]. intros. exists c, 1. split; reflexivity. Qed.

(* the concrete model on a concrete chunk: one section (a 4-bit linear block palette with three
   states, a single-valued biome palette), sky light, one block entity carrying a compound, read into a
   USED chunk with other contents, a stale block entity and trailing bytes *)
Definition ex_bs (b : Z) (n : Z) (d : list N) : bstore := mkBS d (mk_mask b) b n (Z.quot 64 b).
Definition ex_states : wcont := mkWC 2 kLinear [0; 9; 85]%Z (ex_bs 4 4096 (0x210 :: repeat 0 255)).
Definition ex_biomes : wcont := mkWC 0 kSingle [7]%Z (mkBS [] 0 0 64 0).
Definition ex_hm (v : N) : option bstore := Some (ex_bs 5 256 (repeat v 22)).
Definition ex_src : wchunk :=
  mkChunk [mkSec 2%Z ex_states ex_biomes (Some (repeat 255 2048)) None]
          (mkHM (ex_hm 1) (ex_hm 2) (ex_hm 3) (ex_hm 4) (ex_hm 5) (ex_hm 6))
          [mkBE (-1) 70 5 10 [1; 0; 1; 120; 1; 0]%N] [] [102; 117; 108; 108].
Definition ex_dst : wchunk :=
  mkChunk [mkSec 77%Z (mkWC 0 kSingle [3]%Z (mkBS [] 0 0 4096 0)) (mkWC 0 kSingle [1]%Z (mkBS [] 0 0 64 0))
                 None (Some [9])]
          (mkHM (ex_hm 11) (ex_hm 12) (ex_hm 13) (ex_hm 14) (ex_hm 15) (ex_hm 16))
          [mkBE 1 2 3 8 [0; 1; 65]] [mkBE 4 5 6 0 []] [101].
Example C13_ex_wire :
  match wchunk_write ex_src with
  | Some img =>
      lenN img = 6574 /\
      match run_flat (wchunk_read 300 15 6 ex_dst) (img ++ [1; 2; 3]) with
      | FOk (c', n) rest =>
          n = lenN img /\ rest = [1; 2; 3] /\
          map (fun s => (s_count s, wc_abs 4 (s_states s), wc_abs 2 (s_biomes s), s_sky s, s_blk s)) (c_secs c')
            = [(2%Z, Some [0; 9; 85; 0]%Z, Some [7; 7]%Z, None, Some [9])] /\
          hMB (c_hm c') = ex_hm 5 /\ hWS (c_hm c') = ex_hm 2 /\ hOF (c_hm c') = ex_hm 14 /\
          c_bes c' = c_bes ex_src /\ c_status c' = [101]
      | _ => False
      end
  | None => False
  end.
Proof. vm_compute. repeat split; reflexivity. Qed.

(* the save form on the same chunk, executed: a toy registry (state v <-> one-byte name), the 4-bit linear
   block palette and the single-valued biome palette come back, every height map from its own key *)
Definition ex_st_name (v : Z) : option (list N * (N * list N)) :=
  if ((0 <=? v) && (v <? 256))%Z then Some ([Z.to_N v], (10, [0])) else None.
Definition ex_st_id (k : list N * (N * list N)) : option Z :=
  match fst k with [b] => Some (Z.of_N b) | _ => None end.
Definition ex_bio_name (v : Z) : option (list N) := if ((0 <=? v) && (v <? 64))%Z then Some [98; Z.to_N v] else None.
Definition ex_bio_id (k : list N) : option Z := match k with [_; b] => Some (Z.of_N b) | _ => None end.
Definition ex_save_dst : schunk := mkSC [] [([1], [5]); (kWS, [9])] [] (-4)%Z.
Example C13_ex_save :
  match to_save ex_st_name ex_bio_name ex_src ex_save_dst with
  | SOk s =>
      map ss_y (sc_secs s) = [(-4)%Z] /\ hm_lookup [1] (sc_hm s) = Some [5] /\
      hm_lookup kWS (sc_hm s) = Some (repeat 2 22) /\ hm_lookup kWSWG (sc_hm s) = Some (repeat 1 22) /\
      match from_save ex_st_id ex_bio_id (fun v => Z.eqb v 0) 15 6 s with
      | SOk (secs, hm, st) =>
          hm = c_hm ex_src /\ st = c_status ex_src /\
          map (fun o => match o with
                        | Some x => (s_count x, wc_abs 4 (s_states x), wc_abs 2 (s_biomes x), s_sky x)
                        | None => (0%Z, None, None, None) end) secs
          = [(2%Z, Some [0; 9; 85; 0]%Z, Some [7; 7]%Z, Some (repeat 255 2048))]
      | _ => False
      end
  | _ => False
  end.
Proof. vm_compute. repeat split; reflexivity. Qed.

(* the hypotheses of C13_save are satisfiable: a chunk of one all-air section *)
Definition ex_single (v n : Z) : wcont := mkWC 0 kSingle [v] (mkBS [] 0 0%Z n 0%Z).
Example C13_ex_save_ok : exists h,
  save_ok ex_st_name ex_bio_name 15 6
    (mkChunk [mkSec 0%Z (ex_single 0 4096) (ex_single 7 64) None (Some [1; 2])] (mkHM h h h h h h) [] [] [102])
    ex_save_dst /\
  (forall v x, ex_st_name v = Some x -> ex_st_id x = Some v) /\
  (forall v x, ex_bio_name v = Some x -> ex_bio_id x = Some v).
Proof.
  destruct (Proofs.C11.new_zero 5 256 ltac:(lia) ltac:(lia)) as (st & _ & W & Hb & Hl & _).
  exists (Some st). split; [|split].
  - unfold save_ok. cbn [c_secs c_hm hWSWG hWS hOFWG hOF hMB hMBNL sc_ypos ex_save_dst length].
    assert (HM: hm_ok (lenN [mkSec 0%Z (ex_single 0 4096) (ex_single 7 64) None (Some [1; 2])]) (Some st)).
    { exists st. split; [reflexivity|]. split; [exact W|]. split; [rewrite Hb; reflexivity|rewrite Hl; reflexivity]. }
    split; [|split; [repeat split; exact HM|lia]].
    constructor; [|constructor]. unfold sec_inv. cbn [s_states s_biomes].
    split; [|split; [|split]].
    + constructor; cbn; try reflexivity; try lia; [eexists; reflexivity|]. intros i _. eexists. reflexivity.
    + constructor; cbn; try reflexivity; try lia; [eexists; reflexivity|]. intros i _. eexists. reflexivity.
    + repeat constructor. eexists. reflexivity.
    + repeat constructor. eexists. reflexivity.
  - intros v x H. unfold ex_st_name in H. destruct ((0 <=? v) && (v <? 256))%Z eqn:E; [|discriminate].
    inversion H; subst. unfold ex_st_id. cbn [fst]. f_equal. lia.
  - intros v x H. unfold ex_bio_name in H. destruct ((0 <=? v) && (v <? 64))%Z eqn:E; [|discriminate].
    inversion H; subst. unfold ex_bio_id. f_equal. lia.
Qed.

(* the hypotheses of C13_wire_instantiated are satisfiable: C12 containers as NewStatesPaletteContainer /
   NewBiomesPaletteContainer leave them, a block entity carrying an empty compound, into a destination
   with other defaults *)
Definition ex_pc (k : Model.C12.kind) (g n v : Z) : Model.C12.pc :=
  Model.C12.mkPC 0 (Model.C12.mkCfg k g) (Model.C12.PSingle v) (mkBS [] 0 0%Z n 0%Z).
Example C13_ex_inst : exists (h : option bstore) (c d : chunk Model.C12.pc),
  c = mkChunk [mkSec 4096%Z (ex_pc Model.C12.KStates 15 4096 5) (ex_pc Model.C12.KBiomes 6 64 3) (Some [1; 2]) None]
              (mkHM h h h h h h) [mkBE (-1) 70 5 10 [0]] [] [102] /\
  d = mkChunk [mkSec 7%Z (ex_pc Model.C12.KStates 15 4096 0) (ex_pc Model.C12.KBiomes 6 64 9) None None]
              (mkHM None None None None None None) [] [mkBE 1 2 3 0 []] [] /\
  chunk_ok Model.C12.pc i_write (i_good 4) i_compat c d.
Proof.
  assert (G: forall k g n v, Proofs.C12.wfcfg (Model.C12.mkCfg k g) -> (0 <= n)%Z -> Proofs.C12.inreg (Model.C12.mkCfg k g) v ->
             i_good 4 (ex_pc k g n v)).
  { intros k g n v H1 H2 H3. destruct (Proofs.C12.new_inv _ n v H1 H2 H3) as (c & Hnew & HI & _).
    unfold Model.C12.pc_new in Hnew. rewrite Proofs.C11.b0_new in Hnew. inversion Hnew; subst c.
    split; [exact HI|]. split; [reflexivity|cbn; lia]. }
  assert (G1: i_good 4 (ex_pc Model.C12.KStates 15 4096 5)).
  { apply G; [unfold Proofs.C12.wfcfg; cbn; lia|lia|unfold Proofs.C12.inreg; cbn; lia]. }
  assert (G3: i_good 4 (ex_pc Model.C12.KBiomes 6 64 3)).
  { apply G; [unfold Proofs.C12.wfcfg; cbn; lia|lia|unfold Proofs.C12.inreg; cbn; lia]. }
  destruct (Proofs.C11.new_zero 5 256 ltac:(lia) ltac:(lia)) as (st & _ & W & Hb & Hl & _).
  exists (Some st). eexists. eexists. split; [reflexivity|]. split; [reflexivity|].
  assert (HM: hm_ok 1 (Some st)).
  { exists st. split; [reflexivity|]. split; [exact W|]. split; [rewrite Hb; reflexivity|rewrite Hl; reflexivity]. }
  unfold chunk_ok. cbn [c_secs c_hm c_bes hMB hWS length].
  split; [|split; [lia|split; [|split; [exact HM|split; [exact HM|split; [|split]]]]]].
  - constructor; [|constructor]. unfold sec_ok. cbn [s_count s_states s_biomes].
    split; [lia|]. split; [exact G1|]. split; [exact G3|]. split; split; reflexivity.
  - constructor; [|constructor]. cbn [s_sky s_blk light_ok]. split; [|exact I]. split; [repeat constructor|reflexivity].
  - constructor; [|constructor]. unfold bent_ok. cbn. split; [lia|]. split; [lia|]. split; [lia|].
    right. exists (Model.C01.TCompound []). split; [reflexivity|]. split; [vm_compute; discriminate|]. split; reflexivity.
  - reflexivity.
  - vm_compute. reflexivity.
Qed.

(* a block section with 300 palette entries (9-bit indices, 586 longs) is in the vanilla layout *)
Example C13_ex_vanilla : exists a,
  vanilla_ok (cf_of 15 6 false) (map Z.of_nat (seq 0 300)) (repeat 0x0000000000040201 586) a /\
  firstn 8 a = [1; 1; 1; 0; 0; 0; 0; 1]%Z /\
  Proofs.C12.wfcfg (cf_of 15 6 false) /\ Proofs.C12.wfcfg (cf_of 15 6 true).
Proof.
  eexists. split; [|split; [|split; unfold Proofs.C12.wfcfg; cbn; lia]].
  - unfold vanilla_ok. split; [discriminate|]. split.
    { apply Forall_forall. intros x Hx. apply in_map_iff in Hx. destruct Hx as (k & <- & Hk). apply in_seq in Hk.
      unfold Proofs.C12.inreg. cbn [cf_of Model.C12.gbits]. change (2 ^ 15)%Z with 32768%Z. lia. }
    split; [vm_compute; discriminate|]. cbv zeta.
    split; [vm_compute; reflexivity|]. split; [apply Forall_forall; intros x Hx; apply repeat_spec in Hx; subst x; reflexivity|].
    vm_compute. reflexivity.
  - vm_compute. reflexivity.
Qed.

Example C13_ex_count :
  arr_set_blocks (fun v => Z.eqb v 0) (0%Z, repeat 0%Z 8) [(1, 5); (1, 0); (2, 7); (2, 9); (7, 1)]%Z
  = (2%Z, [0; 0; 9; 0; 0; 0; 0; 1]%Z).
Proof. vm_compute. reflexivity. Qed.

Print Assumptions C13_wire.
Print Assumptions C13_wire_instantiated.
Print Assumptions C13_wire_side_conditions.
Print Assumptions C13_wire_input_fuel.
Print Assumptions C13_wire_instantiated_input_fuel.
Print Assumptions C13_save.
Print Assumptions C13_width_recovery.
Print Assumptions C13_from_save_vanilla.
Print Assumptions C13_from_save_generic.
Print Assumptions C13_vanilla_layout.
Print Assumptions C13_registry.
Print Assumptions C13_registry_biomes.
Print Assumptions C13_heightmap_nbt.
Print Assumptions C13_heightmap_read.
Print Assumptions C13_block_entity.
Print Assumptions C13_robust_parts.
Print Assumptions C13_count.
Print Assumptions C13_count_empty.

(* ==================== PHASE 4: the tie to level/chunk.go by TRANSLATION ====================
   tools/gotrans/c13.go translates level/chunk.go on every run into Gen/C13gen.v: every function body as a
   statement tree, the element lists of the pk.Tuple literals (the wire order), the height-map tables, and
   the integer expressions / conditions as definitions over Z with Go's wrap semantics. *)
From Coq Require Import String.
From GoMC Require Import Base.GoInt Model.C13_syntax Gen.C13gen Proofs.C13_expected Proofs.C13_skel Proofs.C13_tie
  Proofs.C13_skel_interp Proofs.C13_tie_rt.

(* every translated body, element list and table equals the copy recorded when the model was reconciled *)
Theorem C13_skeletons_ok : all_skel_ok.
Proof. exact all_skeletons_ok. Qed.

(* INTERPRETATION: the model's writers and readers ARE the element-by-element interpretation of the
   translated lists, for every value / every destination / every input *)
Theorem C13_section_interpretation :
  forall (cont : Type) (pc_write : cont -> list N) (pc_read : bool -> cont -> dec (cont * N)),
  (forall b d, robust (pc_read b d)) ->
  forall s inp,
  interp_w (sec_wenv cont pc_write s) c13_Section_WriteTo_fields = Some (sec_write cont pc_write s) /\
  run_flat (interp_r (sec_renv cont pc_read) c13_Section_ReadFrom_fields s) inp = run_flat (sec_read cont pc_read s) inp.
Proof. intros. split; [apply sec_write_interp|apply sec_read_interp; assumption]. Qed.
Theorem C13_block_entity_interpretation : forall fuel b oldv inp,
  interp_w (be_wenv b) c13_BlockEntity_WriteTo_fields = Some (fst (be_write (bent_val b))) /\
  run_flat (be_read fuel oldv) inp =
  match run_flat (interp_r (be_renv fuel) c13_BlockEntity_ReadFrom_fields (val_bent oldv, 0)) inp with
  | FOk (b, n) r => FOk (bent_val b, n) r
  | FErr e => FErr e | FPanic w => FPanic w | FFuel => FFuel
  end.
Proof. intros. split; [apply be_write_interp|apply be_read_interp]. Qed.
Theorem C13_light_interpretation : forall sky blk,
  fields_fty light_tenv c13_lightData_WriteTo_fields = Some t_light /\
  fields_fty light_tenv c13_lightData_ReadFrom_fields = Some t_light /\
  fields_val (light_venv sky blk) c13_lightData_WriteTo_fields = Some (light_val sky blk).
Proof. intros. split; [apply light_fields_type|]. split; [apply light_fields_type|apply light_fields_value]. Qed.
Theorem C13_chunk_interpretation :
  forall (cont : Type) (pc_write : cont -> list N) (pc_read : bool -> cont -> dec (cont * N)) (c d : chunk cont) fuel inp,
  chunk_write cont pc_write c =
    (if 4096 <? lenN (c_secs c) then None else interp_w (chunk_wenv cont pc_write c) c13_Chunk_WriteTo_fields) /\
  run_flat (chunk_read cont pc_read fuel d) inp =
    run_flat (s <- interp_r (chunk_renv cont fuel d) c13_Chunk_ReadFrom_fields (mkRS (None, None) VUnit VUnit 0) ;;
              chunk_tail cont pc_read d s) inp.
Proof. intros. split; [apply chunk_write_interp|apply chunk_read_interp]. Qed.
Theorem C13_heightmap_tables_translated :
  map (fun r => (fst (fst (fst r)), bytes_of_string (snd (fst (fst r))))) c13_ChunkFromSave_heightmaps =
    [("WorldSurface", kWS); ("WorldSurfaceWG", kWSWG); ("OceanFloorWG", kOFWG); ("OceanFloor", kOF);
     ("MotionBlocking", kMB); ("MotionBlockingNoLeaves", kMBNL)]%string /\
  map (fun r => (bytes_of_string (fst r), snd r)) c13_ChunkToSave_heightmaps =
    [(kWSWG, "WorldSurfaceWG"); (kWS, "WorldSurface"); (kOFWG, "OceanFloorWG"); (kOF, "OceanFloor");
     (kMB, "MotionBlocking"); (kMBNL, "MotionBlockingNoLeaves")]%string /\
  map (fun r => (fst (fst r), bytes_of_string (snd (fst r)), snd r)) c13_Chunk_ReadFrom_struct =
    [("MotionBlocking", nameMB, "[]uint64"); ("WorldSurface", nameWS, "[]uint64")]%string.
Proof. pose proof heightmap_tables as (H1 & _ & H3 & _ & H5). auto. Qed.

(* EXPRESSIONS: the translated expressions are the model's, for all arguments in the stated ranges *)
Theorem C13_PackXZ_translated : forall x z,
  pack_xz x z = (if c13_BlockEntity_PackXZ_reject x z then None else Some (c13_BlockEntity_PackXZ_value x z)) /\
  unpack_xz x = (c13_BlockEntity_UnpackXZ_X x, c13_BlockEntity_UnpackXZ_Z x).
Proof. intros. split; [apply tie_PackXZ|apply tie_UnpackXZ]. Qed.
(* what PackXZ / UnpackXZ compute: a 4+4 bit packing into an int8, rejected outside 0..15 *)
Theorem C13_PackXZ : forall x z,
  ((0 <= x <= 15)%Z -> (0 <= z <= 15)%Z ->
     exists p, pack_xz x z = Some p /\ unpack_xz p = (x, z) /\ (-128 <= p < 128)%Z) /\
  (~ ((0 <= x <= 15)%Z /\ (0 <= z <= 15)%Z) -> pack_xz x z = None).
Proof. intros. split; [apply pack_unpack_all|apply pack_rejects]. Qed.
Theorem C13_save_index_translated : forall y ypos i secs,
  ((-128 <= y < 128)%Z -> sx32 (u32 (y - ypos)) = c13_ChunkFromSave_index y ypos) /\
  ((0 <= secs < 2^31)%Z -> ((i <? 0) || (secs <=? i))%Z = c13_ChunkFromSave_out_of_bounds i secs) /\
  sx8 (u8 (i + ypos)) = c13_ChunkToSave_Y i ypos.
Proof. intros. split; [apply tie_FromSave_index|]. split; [apply tie_FromSave_bounds|apply tie_ToSave_Y]. Qed.
Theorem C13_heightmap_geometry_translated : forall (n : N) raw want, n < 2^59 ->
  hm_bits n = c13_Chunk_ReadFrom_bitsForHeight (Z.of_N n) /\
  hm_bits n = c13_ChunkFromSave_bitsForHeight (Z.of_N n) /\
  hm_bits n = c13_EmptyChunk_heightmap_bits_0 (Z.of_N n) /\
  ((0 <= hm_bits n <= 64)%Z -> calc_size (hm_bits n) hm_len = Some want ->
   want = c13_Chunk_ReadFrom_wantLen (hm_bits n) /\ want = c13_ChunkFromSave_wantLen (hm_bits n) /\
   hm_len_bad n raw =
     Ret (c13_Chunk_ReadFrom_bad_heightmap (match raw with None => true | Some _ => false end)
            (match raw with None => 0%Z | Some l => Z.of_N (lenN l) end) want)).
Proof.
  intros n raw want Hn. destruct (tie_bitsForHeight n Hn) as (A & B & C).
  split; [exact A|]. split; [exact B|]. split; [exact C|]. intros. apply tie_hm_len_bad; assumption.
Qed.
Theorem C13_constants_translated :
  sec_len = c13_EmptyChunk_NewStatesPaletteContainer_length /\ bio_len = c13_EmptyChunk_NewBiomesPaletteContainer_length /\
  hm_len = c13_EmptyChunk_heightmap_len_0 /\ sec_len = c13_countNoneAirBlocks_bound /\
  c13_Chunk_WriteTo_mask_len_0 = 64%Z /\ c13_Chunk_ReadFrom_mask_len_0 = 64%Z /\
  (forall cnt, sx16 (u16 (cnt - 1)) = c13_Section_SetBlock_dec cnt /\ sx16 (u16 (cnt + 1)) = c13_Section_SetBlock_inc cnt).
Proof.
  pose proof tie_constants as (A & B & C & D & _ & _ & E & _ & F & _).
  repeat split; auto; apply tie_SetBlock.
Qed.

(* THE HEADLINE THEOREMS OVER THE INTERPRETATION of the translated lists *)
Theorem C13_section_translated :
  forall (cont : Type) (pc_write : cont -> list N) (pc_read : bool -> cont -> dec (cont * N))
         (X : Type) (pc_abs : cont -> X) (pc_good : cont -> Prop) (pc_compat : cont -> cont -> Prop),
  (forall b d, robust (pc_read b d)) ->
  (forall b c d rest, pc_good c -> pc_compat c d ->
     exists c' n, run_flat (pc_read b d) (pc_write c ++ rest) = FOk (c', n) rest /\ pc_abs c' = pc_abs c) ->
  forall s d rest, sec_ok cont pc_good pc_compat s d ->
  exists img s', interp_w (sec_wenv cont pc_write s) c13_Section_WriteTo_fields = Some img /\
    run_flat (interp_r (sec_renv cont pc_read) c13_Section_ReadFrom_fields d) (img ++ rest) = FOk s' rest /\
    sec_rel cont X pc_abs s d s'.
Proof. exact section_translated. Qed.
Theorem C13_block_entity_translated : forall fuel b oldv rest, bent_ok b -> (List.length (e_data b) < fuel)%nat ->
  exists img, interp_w (be_wenv b) c13_BlockEntity_WriteTo_fields = Some img /\
    run_flat (interp_r (be_renv fuel) c13_BlockEntity_ReadFrom_fields (val_bent oldv, 0)) (img ++ rest) = FOk (b, lenN img) rest.
Proof. exact block_entity_translated. Qed.
Theorem C13_wire_translated :
  forall (cont : Type) (pc_write : cont -> list N) (pc_read : bool -> cont -> dec (cont * N))
         (X : Type) (pc_abs : cont -> X) (pc_good : cont -> Prop) (pc_compat : cont -> cont -> Prop),
  (forall b d, robust (pc_read b d)) ->
  (forall b c d rest, pc_good c -> pc_compat c d ->
     exists c' n, run_flat (pc_read b d) (pc_write c ++ rest) = FOk (c', n) rest /\ pc_abs c' = pc_abs c) ->
  forall (c d : chunk cont), chunk_ok cont pc_write pc_good pc_compat c d ->
  exists img, (if 4096 <? lenN (c_secs c) then None else interp_w (chunk_wenv cont pc_write c) c13_Chunk_WriteTo_fields) = Some img /\
  forall rest fuel, (List.length (img ++ rest) + 68 <= fuel)%nat ->
  exists c', run_flat (s <- interp_r (chunk_renv cont fuel d) c13_Chunk_ReadFrom_fields (mkRS (None, None) VUnit VUnit 0) ;;
                       chunk_tail cont pc_read d s) (img ++ rest) = FOk (c', lenN img) rest /\
    Forall3 (sec_rel cont X pc_abs) (c_secs c) (c_secs d) (c_secs c') /\
    hMB (c_hm c') = hMB (c_hm c) /\ hWS (c_hm c') = hWS (c_hm c) /\
    hWSWG (c_hm c') = hWSWG (c_hm d) /\ hOFWG (c_hm c') = hOFWG (c_hm d) /\
    hOF (c_hm c') = hOF (c_hm d) /\ hMBNL (c_hm c') = hMBNL (c_hm d) /\
    c_bes c' = c_bes c /\ c_status c' = c_status d.
Proof. exact wire_translated. Qed.

Print Assumptions C13_skeletons_ok.
Print Assumptions C13_section_interpretation.
Print Assumptions C13_block_entity_interpretation.
Print Assumptions C13_light_interpretation.
Print Assumptions C13_chunk_interpretation.
Print Assumptions C13_heightmap_tables_translated.
Print Assumptions C13_PackXZ_translated.
Print Assumptions C13_PackXZ.
Print Assumptions C13_save_index_translated.
Print Assumptions C13_heightmap_geometry_translated.
Print Assumptions C13_constants_translated.
Print Assumptions C13_section_translated.
Print Assumptions C13_block_entity_translated.
Print Assumptions C13_wire_translated.

(* ==================== PHASE 5: loops, block entities of ChunkFromSave ==================== *)
From GoMC Require Import Proofs.C13_entities Proofs.C13_skel_loops Proofs.C13_tie_save.

(* the block-entity loop of ChunkFromSave: an entity whose chunk-relative coordinates are inside 0..15 is
   converted - UnpackXZ of what PackXZ stored gives the coordinates back, Y, type and NBT are kept; any other
   entity, and one whose {id,x,y,z} cannot be decoded, is an error *)
Theorem C13_save_entities :
  forall (be_fields : N * list N -> option (list N * Z * Z * Z)) (entity_type : list N -> Z) xpos zpos v id x y z,
  be_fields v = Some (id, x, y, z) ->
  let lx := be_local x xpos in let lz := be_local z zpos in
  ((0 <= lx <= 15)%Z -> (0 <= lz <= 15)%Z ->
     exists b, from_save_be be_fields entity_type xpos zpos v = SOk b /\
       unpack_xz (e_xz b) = (lx, lz) /\ (-128 <= e_xz b < 128)%Z /\
       e_y b = sx16 (u16 y) /\ ((-32768 <= y < 32768)%Z -> e_y b = y) /\
       e_type b = entity_type id /\ (e_nt b, e_data b) = v) /\
  (~ ((0 <= lx <= 15)%Z /\ (0 <= lz <= 15)%Z) -> from_save_be be_fields entity_type xpos zpos v = SErr).
Proof. exact from_save_be_spec. Qed.
(* its expressions are the translated ones; inside the game's coordinate range the local coordinate is x - 16 * pos *)
Theorem C13_save_entities_translated : forall w pos y,
  be_local w pos = c13_ChunkFromSave_x w pos /\ be_local w pos = c13_ChunkFromSave_z w pos /\
  sx16 (u16 y) = c13_ChunkFromSave_entity_y y /\
  ((-2^30 <= w < 2^30)%Z -> (-2^26 <= pos < 2^26)%Z -> be_local w pos = (w - 16 * pos)%Z).
Proof.
  intros. destruct (tie_be_local w pos) as [A B]. split; [exact A|]. split; [exact B|].
  split; [apply tie_entity_y|apply be_local_plain].
Qed.
(* save -> level -> network -> level: position, height, type and NBT of a block entity are preserved *)
Theorem C13_entity_save_wire :
  forall (be_fields : N * list N -> option (list N * Z * Z * Z)) (entity_type : list N -> Z)
         xpos zpos v id x y z t fuel oldv rest,
  be_fields v = Some (id, x, y, z) ->
  (0 <= be_local x xpos <= 15)%Z -> (0 <= be_local z zpos <= 15)%Z -> (-32768 <= y < 32768)%Z ->
  (-2^31 <= entity_type id < 2^31)%Z ->
  Model.C01.wf t -> Proofs.C01_dec.nest_ok t -> v = (Model.C01.tag_id t, Model.C01.payload t) ->
  (List.length (snd v) < fuel)%nat ->
  exists b, from_save_be be_fields entity_type xpos zpos v = SOk b /\
    run_flat (be_read fuel oldv) (fst (be_write (bent_val b)) ++ rest) = FOk (bent_val b, lenN (fst (be_write (bent_val b)))) rest /\
    unpack_xz (e_xz b) = (be_local x xpos, be_local z zpos) /\ e_y b = y /\ e_type b = entity_type id /\
    (e_nt b, e_data b) = v.
Proof. exact entity_save_wire. Qed.

(* LOOPS: the model's loop steps ARE the statement-by-statement interpretation of the translated loop bodies *)
Theorem C13_from_save_loop_interpretation : forall st_id bio_id is_air gs gb ypos secs v t acc,
  (-128 <= ss_y v < 128)%Z -> (0 <= secs < 2^31)%Z ->
  from_save_secs st_id bio_id is_air gs gb ypos secs (v :: t) acc =
  match fs_iter st_id bio_id is_air gs gb ypos secs v with
  | SOk s => match fs_section s with
             | Some x => from_save_secs st_id bio_id is_air gs gb ypos secs t (upd_at acc (Z.to_nat (fs_i s)) (Some x))
             | None => SPanic 98
             end
  | SErr => SErr
  | SPanic w => SPanic w
  end.
Proof. exact from_save_secs_interp. Qed.
Theorem C13_to_save_loop_interpretation : forall st_name bio_name ypos i v,
  to_save_sec st_name bio_name ypos i v =
  match interp_g (ts_step st_name bio_name i ypos v) (fun _ => None) (loop_body c13_ChunkToSave_body 2)
                 (mkTS 0 [] [] [] [] None None) with
  | SOk s => SOk (ts_section s)
  | SErr => SErr
  | SPanic w => SPanic w
  end.
Proof. exact to_save_sec_interp. Qed.
Theorem C13_data_loops_interpretation :
  forall (cont : Type) (pc_write : cont -> list N) (pc_read : bool -> cont -> dec (cont * N)),
  (forall b d, robust (pc_read b d)) ->
  (forall c : chunk cont, chunk_data cont pc_write c = fold_left (data_iter cont pc_write) (c_secs c) []) /\
  (forall s t inp, run_flat (secs_read cont pc_read (s :: t)) inp =
     run_flat (s' <- interp_d (putdata_step cont pc_read) (loop_body c13_Chunk_PutData_body 1) s ;;
               t' <- secs_read cont pc_read t ;; Ret (s' :: t')) inp).
Proof. intros. split; [apply chunk_data_interp|intros; apply secs_read_interp; assumption]. Qed.

(* THE SAVE ROUND TRIP OF A SECTION OVER THE INTERPRETATION of the translated ChunkToSave and ChunkFromSave
   loop bodies: the first produces a save section, the second, run on it, succeeds, computes slot i and builds
   a section that agrees with the source at every position (all palette classes), light and recount included *)
Theorem C13_save_translated :
  forall st_name st_id bio_name bio_id is_air gs gb,
  (forall v x, st_name v = Some x -> st_id x = Some v) ->
  (forall v x, bio_name v = Some x -> bio_id x = Some v) ->
  (9 <= gs <= 32)%Z -> (4 <= gb <= 32)%Z ->
  forall ypos (n i : nat) s,
  sec_inv st_name bio_name gs gb s -> (i < n)%nat -> (Z.of_nat n < 2^31)%Z ->
  (-128 <= ypos)%Z -> (Z.of_nat n + ypos <= 128)%Z ->
  exists ts fs s',
    interp_g (ts_step st_name bio_name i ypos s) (fun _ => None) (loop_body c13_ChunkToSave_body 2)
             (mkTS 0 [] [] [] [] None None) = SOk ts /\
    fs_iter st_id bio_id is_air gs gb ypos (Z.of_nat n) (ts_section ts) = SOk fs /\
    fs_i fs = Z.of_nat i /\ fs_section fs = Some s' /\ sec_same is_air s s'.
Proof.
  intros st_name st_id bio_name bio_id is_air gs gb H1 H2 H3 H4 ypos n i s Hs Hi Hn Hlo Hhi.
  exact (save_section_translated st_name st_id bio_name bio_id is_air gs gb H1 H2 H3 H4 ypos n i s [] Hs Hi Hn Hlo Hhi).
Qed.

Print Assumptions C13_save_entities.
Print Assumptions C13_save_entities_translated.
Print Assumptions C13_entity_save_wire.
Print Assumptions C13_from_save_loop_interpretation.
Print Assumptions C13_to_save_loop_interpretation.
Print Assumptions C13_data_loops_interpretation.
Print Assumptions C13_save_translated.

(* ==================== PHASE 6: air by name ==================== *)
(* the three air states are rows of the registry table found BY NAME (minecraft:air, cave_air, void_air) by the
   generator on every run; each is a valid id read back as itself; reg_is_air is membership in that set *)
Theorem C13_air_by_name :
  (lenN reg_air = 3)%N /\ NoDup reg_air /\ (forall a, In a reg_air -> (a < 26684)%N /\ reg_back a = a) /\
  (forall v, reg_is_air v = true <-> exists a, In a reg_air /\ Z.of_N a = v).
Proof.
  pose proof air_facts as (A & B & C & _ & E). assert (R: reg_count = 26684%N) by reflexivity. rewrite R in C.
  split; [exact A|]. split; [exact B|]. split; [exact C|exact E].
Qed.
(* the counter theorem with the air set of the running registry: every history of in-range SetBlock calls on
   the empty section, whatever states it places - cave_air and void_air included *)
Theorem C13_count_registry_air : forall ops,
  Forall (fun iv => (0 <= fst iv < 4096)%Z) ops ->
  fst (arr_set_blocks reg_is_air (0%Z, repeat 0%Z 4096) ops)
  = non_air reg_is_air (snd (arr_set_blocks reg_is_air (0%Z, repeat 0%Z 4096) ops)).
Proof.
  intros ops H. apply C13_count_empty; [|exact H]. pose proof air_facts as (_ & _ & _ & D & _). exact D.
Qed.

Print Assumptions C13_air_by_name.
Print Assumptions C13_count_registry_air.

(* ==================== PHASE 7: whole loops, the recount loop, the palette loops ==================== *)
From GoMC Require Import Proofs.C13_skel_count Proofs.C13_skel_palette.

(* ChunkFromSave for WHOLE chunks over the interpretation: the translated section-loop body iterated over the
   section list (fs_loop), then the size test and the six height maps, each loaded from the key the translated
   table gives for its field (from_save_rest) *)
Theorem C13_from_save_translated : forall st_id bio_id is_air gs gb (c : schunk),
  Forall (fun v => (-128 <= ss_y v < 128)%Z) (sc_secs c) -> (Z.of_N (lenN (sc_secs c)) < 2^31)%Z ->
  from_save st_id bio_id is_air gs gb c =
  match fs_loop st_id bio_id is_air gs gb (sc_ypos c) (Z.of_N (lenN (sc_secs c))) (sc_secs c)
                (repeat None (List.length (sc_secs c))) with
  | SOk ss => from_save_rest c ss
  | SErr => SErr
  | SPanic w => SPanic w
  end.
Proof. exact from_save_translated. Qed.
(* ChunkToSave for WHOLE chunks: the translated loop body iterated with its index (ts_loop), then the height-map
   assignments of the translated (key, field) table applied in order *)
Theorem C13_to_save_translated : forall st_name bio_name (c : wchunk) (dst : schunk),
  to_save st_name bio_name c dst =
  match ts_loop st_name bio_name (sc_ypos dst) O (c_secs c), ts_heightmaps (c_hm c) (sc_hm dst) with
  | SOk secs, Some m => SOk (mkSC secs m (c_status c) (sc_ypos dst))
  | SOk _, None => SPanic 99
  | SErr, _ => SErr
  | SPanic w, _ => SPanic w
  end.
Proof. exact to_save_translated. Qed.
(* Chunk.PutData for whole chunks: the translated body once per section, on every input *)
Theorem C13_put_data_translated :
  forall (cont : Type) (pc_read : bool -> cont -> dec (cont * N)), (forall b d, robust (pc_read b d)) ->
  forall ds inp, run_flat (secs_read cont pc_read ds) inp = run_flat (pd_loop cont pc_read ds) inp.
Proof. exact secs_read_whole. Qed.

(* countNoneAirBlocks: the model's recount (any container model, any air set - in particular the by-name set of
   C13_air_by_name) IS the translated loop: positions 0 .. bound-1 through Get, `blockCount++` on the int16 *)
Theorem C13_count_loop_translated : forall (cont : Type) (get : cont -> Z -> outcome) (is_air : Z -> bool) c,
  count_g cont get is_air c = cnt_loop cont get is_air c (seq 0 (Z.to_nat c13_countNoneAirBlocks_bound)) 0%Z.
Proof. exact count_g_interp. Qed.
Theorem C13_count_non_air_translated : forall is_air c,
  count_non_air is_air c = cnt_loop wcont wc_get is_air c (seq 0 (Z.to_nat c13_countNoneAirBlocks_bound)) 0%Z.
Proof. exact count_non_air_interp. Qed.

(* readStatesPalette / readBiomesPalette: per palette entry the registry lookups with their error branches
   (FromID, Unmarshal of the properties when present, ToStateID; UnmarshalText), the first failure wins, then the
   constructor with the translated length *)
Theorem C13_read_states_translated :
  forall (Bk : Type) (from_id : list N -> option Bk) (unmarshal : Bk -> N * list N -> option Bk) (to_state : Bk -> option Z)
         gs gb (pal : list (list N * (N * list N))) (dat : list N),
  match opt_all (map (st_id_of Bk from_id unmarshal to_state) pal) with
  | None => SErr
  | Some ids => with_data gs gb false sec_len dat ids
  end =
  match map_loop (rs_iter Bk from_id unmarshal to_state) pal with
  | SOk ids => with_data gs gb false c13_readStatesPalette_length dat ids
  | SErr => SErr
  | SPanic w => SPanic w
  end.
Proof. exact read_states_interp. Qed.
Theorem C13_read_biomes_translated : forall (bio_id : list N -> option Z) gs gb (pal : list (list N)) (dat : list N),
  match opt_all (map bio_id pal) with
  | None => SErr
  | Some ids => with_data gs gb true bio_len dat ids
  end =
  match map_loop (rb_iter bio_id) pal with
  | SOk ids => with_data gs gb true c13_readBiomesPalette_length dat ids
  | SErr => SErr
  | SPanic w => SPanic w
  end.
Proof. exact read_biomes_interp. Qed.

Print Assumptions C13_from_save_translated.
Print Assumptions C13_to_save_translated.
Print Assumptions C13_put_data_translated.
Print Assumptions C13_count_loop_translated.
Print Assumptions C13_count_non_air_translated.
Print Assumptions C13_read_states_translated.
Print Assumptions C13_read_biomes_translated.

(* THE TWO MODELS OF New{States,Biomes}PaletteContainerWithData AGREE FOR ALL INPUTS (outcome class; on success the C12
   container viewed at field level IS the C13 container) - every length, data and palette, the resolveIndirect branch
   (palettes above 256 block states / 8 biomes) included: the two separately written resolve loops and the two
   bits.Len are proved equal (C13_resolve_same), Get on the two views is one function (C13_get_refines), and so the
   section part of ChunkFromSave over C12's model (the subject of C13_from_save_vanilla) and over the field-level
   model (the subject of C13_save, the model the driver runs) give the same section (C13_from_save_sec_refines) *)
From GoMC Require Import Proofs.C13_refine Proofs.C13_refine_full.
Theorem C13_with_data_refines : forall gs gb biome len dat pat,
  refines (Model.C12.pc_with_data (cf_of gs gb biome) len dat pat) (with_data gs gb biome len dat pat).
Proof. exact with_data_refines_full. Qed.
Theorem C13_resolve_same : forall len dat pat dbits,
  res_same (Model.C12.resolve_indirect len dat pat dbits) (resolve len dat pat dbits).
Proof. exact resolve_same. Qed.
Theorem C13_get_refines : forall (c : Model.C12.pc) i, wc_get (to_w c) i = Model.C12.pc_get c i.
Proof. exact get_same. Qed.
Theorem C13_from_save_sec_refines : forall st_id bio_id is_air gs gb v,
  sec_refines (from_save_sec_g Model.C12.pc (c12_mk gs gb) Model.C12.pc_get st_id bio_id is_air v)
              (from_save_sec st_id bio_id is_air gs gb v).
Proof. exact from_save_sec_refines. Qed.
Print Assumptions C13_with_data_refines.
Print Assumptions C13_resolve_same.
Print Assumptions C13_get_refines.
Print Assumptions C13_from_save_sec_refines.

(* ==================== LAST WAVE: the write-side palette loops ==================== *)
From GoMC Require Import Proofs.C13_skel_palette_w.
(* writeStatesPalette / writeBiomesPalette: per exported palette entry StateList[v] (out of range = panic), ID(),
   Encode then Decode of the properties (which cannot fail on a registry block: hypotheses) / MarshalText (invalid
   type = error); then the copy of the raw longs.  st_name_of is the registry function st_name of the save theorems
   decomposed into these calls. *)
Theorem C13_write_states_translated :
  forall (Bk : Type) (state_list : Z -> option Bk) (id_of : Bk -> list N) (encode : Bk -> option (list N))
         (decode : list N -> option (N * list N)),
  (forall b, exists e, encode b = Some e) -> (forall b e, encode b = Some e -> exists p, decode e = Some p) ->
  forall (pal : list Z) (raw : list N),
  match opt_all (map (st_name_of Bk state_list id_of encode decode) pal) with
  | None => SPanic pOOB
  | Some bp => SOk (bp, raw)
  end =
  match map_loop (ws_iter Bk state_list id_of encode decode) pal with
  | SOk bp => SOk (bp, raw)
  | SErr => SErr
  | SPanic w => SPanic w
  end.
Proof. exact write_states_interp. Qed.
Theorem C13_write_biomes_translated : forall (bio_name : Z -> option (list N)) (pal : list Z) (raw : list N),
  match opt_all (map bio_name pal) with
  | None => SErr
  | Some bp => SOk (bp, raw)
  end =
  match map_loop (wb_iter bio_name) pal with
  | SOk bp => SOk (bp, raw)
  | SErr => SErr
  | SPanic w => SPanic w
  end.
Proof. exact write_biomes_interp. Qed.
Print Assumptions C13_write_states_translated.
Print Assumptions C13_write_biomes_translated.

(* ==================== EXTRA WAVE: the light-collection loop of Chunk.WriteTo ==================== *)
From GoMC Require Import Proofs.C13_skel_light.
(* `for i, v := range c.Sections { if v.SkyLight != nil { mask.Set(i, true); append } ; same for BlockLight }`: the
   translated body (BitSet.Set = b[i/64] |= 1 << (i%64), append) iterated over the sections from the two zeroed
   masks of the translated length and the two empty lists gives EXACTLY the light data the model writes: the sky
   mask and the block mask are mask_longs of the present flags (bit i of word i/64 for section i - the chunked-sum
   argument), the arrays are the present arrays in section order, and light_of the result is light_val *)
Theorem C13_light_collect_translated : forall (cont : Type) (secs : list (sect cont)), (List.length secs <= 4096)%nat ->
  exists s, lc_loop cont 0 secs (mkLC (repeat 0%N (Z.to_nat c13_Chunk_WriteTo_mask_len_0))
                                      (repeat 0%N (Z.to_nat c13_Chunk_WriteTo_mask_len_1)) [] []) = SOk s /\
            lc_skym s = mask_longs (present (map s_sky secs)) /\ lc_blkm s = mask_longs (present (map s_blk secs)) /\
            light_of s = light_val (map s_sky secs) (map s_blk secs).
Proof. exact light_collect_translated. Qed.
(* the arithmetic core: Set calls for the flagged indices, in order, build the packed mask *)
Theorem C13_set_flags_mask : forall p, (List.length p <= 4096)%nat -> set_flags p 0 (repeat 0%N 64) = mask_longs p.
Proof. exact set_flags_all. Qed.
Print Assumptions C13_light_collect_translated.
Print Assumptions C13_set_flags_mask.

(* ==================== FINAL WAVE: ChunkFromSave on ANY save chunk; three more translated bodies ==================== *)
From GoMC Require Import Proofs.C13_from_save_any Proofs.C13_skel_bodies.

(* ChunkFromSave for an ARBITRARY save chunk: any section list (any order, repeated Y, Y outside the chunk), any height-map
   table.  sec_good v: the index int32(Y) - YPos is inside 0..secs-1 and the section converts (from_save_sec).
   SUCCESS (C13_from_save_any): when every section is good and every PRESENT height-map key has the wanted number of longs,
   the result has one slot per save section; slot j is the conversion of the LAST section whose index is j (last_for),
   a slot no section names is the zero Section (None), nothing else is written; each of the six height maps is the
   storage of the chunk's geometry over the longs under ITS OWN key, zero-filled when the key is absent (hm_store);
   the status is kept.  FAILURE: the first section in list order that is not good decides - out of range is an
   error, otherwise the outcome of its conversion (C13_from_save_any_bad_section); a present key of the wrong length is
   an error (C13_from_save_any_bad_heightmap).  These are all the cases (C13_from_save_any_inv). *)
Theorem C13_from_save_any : forall st_id bio_id is_air gs gb (c : schunk) want,
  Forall (sec_good st_id bio_id is_air gs gb (sc_ypos c) (nsecs c)) (sc_secs c) ->
  calc_size (hm_bits (lenN (sc_secs c))) hm_len = Some want -> hm_lens_ok c want ->
  exists ss, from_save st_id bio_id is_air gs gb c =
    SOk (ss, mkHM (hm_store (lenN (sc_secs c)) want (hm_lookup kWSWG (sc_hm c)))
                  (hm_store (lenN (sc_secs c)) want (hm_lookup kWS (sc_hm c)))
                  (hm_store (lenN (sc_secs c)) want (hm_lookup kOFWG (sc_hm c)))
                  (hm_store (lenN (sc_secs c)) want (hm_lookup kOF (sc_hm c)))
                  (hm_store (lenN (sc_secs c)) want (hm_lookup kMB (sc_hm c)))
                  (hm_store (lenN (sc_secs c)) want (hm_lookup kMBNL (sc_hm c))), sc_status c) /\
    List.length ss = List.length (sc_secs c) /\
    forall j, nth j ss None = match last_for (sc_ypos c) j (sc_secs c) with
                              | Some v => conv_opt st_id bio_id is_air gs gb v | None => None end.
Proof. exact from_save_any_ok. Qed.
Theorem C13_from_save_any_bad_section : forall st_id bio_id is_air gs gb (c : schunk) pre v post,
  sc_secs c = (pre ++ v :: post)%list -> Forall (sec_good st_id bio_id is_air gs gb (sc_ypos c) (nsecs c)) pre ->
  ~ sec_good st_id bio_id is_air gs gb (sc_ypos c) (nsecs c) v ->
  from_save st_id bio_id is_air gs gb c = bad_result st_id bio_id is_air gs gb (sc_ypos c) (nsecs c) v.
Proof. exact from_save_any_bad_section. Qed.
Theorem C13_from_save_any_bad_heightmap : forall st_id bio_id is_air gs gb (c : schunk) want k l,
  Forall (sec_good st_id bio_id is_air gs gb (sc_ypos c) (nsecs c)) (sc_secs c) ->
  calc_size (hm_bits (lenN (sc_secs c))) hm_len = Some want ->
  In k six_keys -> hm_lookup k (sc_hm c) = Some l -> Z.of_N (lenN l) <> want ->
  from_save st_id bio_id is_air gs gb c = SErr.
Proof. exact from_save_any_bad_heightmap. Qed.
Theorem C13_from_save_any_inv : forall st_id bio_id is_air gs gb (c : schunk) r,
  from_save st_id bio_id is_air gs gb c = SOk r ->
  Forall (sec_good st_id bio_id is_air gs gb (sc_ypos c) (nsecs c)) (sc_secs c) /\
  exists want, calc_size (hm_bits (lenN (sc_secs c))) hm_len = Some want /\ hm_lens_ok c want.
Proof. exact from_save_any_inv. Qed.
(* what the definitions used above are *)
Theorem C13_from_save_any_terms : forall st_id bio_id is_air gs gb ypos secs v (c : schunk) want (n : N) raw,
  (sec_good st_id bio_id is_air gs gb ypos secs v <->
     (((sx32 (u32 (ss_y v - ypos)) <? 0) || (secs <=? sx32 (u32 (ss_y v - ypos))))%Z = false /\
      exists s, from_save_sec st_id bio_id is_air gs gb v = SOk s)) /\
  (hm_lens_ok c want <-> forall k, In k [kWSWG; kWS; kOFWG; kOF; kMB; kMBNL] ->
     match hm_lookup k (sc_hm c) with Some l => Z.of_N (lenN l) = want | None => True end) /\
  hm_store n want raw =
    Some (mkBS (match raw with Some l => l | None => repeat 0%N (Z.to_nat want) end)
               (mk_mask (hm_bits n)) (hm_bits n) 256%Z (Z.quot 64 (hm_bits n))) /\
  nsecs c = Z.of_N (lenN (sc_secs c)).
Proof. intros. split; [reflexivity|]. split; [reflexivity|]. split; reflexivity. Qed.

(* ... and with the sections in the VANILLA LAYOUT (any palette size, resolveIndirect included): every block state and
   every biome of the LAST section naming slot j is at slot j (Get at every position gives the array C12's independent
   reader of the layout gives for that section), with the recount and its light arrays *)
Theorem C13_from_save_vanilla_chunk : forall st_id bio_id is_air gs gb,
  Proofs.C12.wfcfg (cf_of gs gb false) -> Proofs.C12.wfcfg (cf_of gs gb true) ->
  forall (c : schunk) want,
  (forall v, In v (sc_secs c) -> oob (sc_ypos c) (nsecs c) v = false /\ exists a b, vanilla_sec st_id bio_id gs gb v a b) ->
  calc_size (hm_bits (lenN (sc_secs c))) hm_len = Some want -> hm_lens_ok c want ->
  exists ss, from_save st_id bio_id is_air gs gb c =
    SOk (ss, mkHM (hm_store (lenN (sc_secs c)) want (hm_lookup kWSWG (sc_hm c)))
                  (hm_store (lenN (sc_secs c)) want (hm_lookup kWS (sc_hm c)))
                  (hm_store (lenN (sc_secs c)) want (hm_lookup kOFWG (sc_hm c)))
                  (hm_store (lenN (sc_secs c)) want (hm_lookup kOF (sc_hm c)))
                  (hm_store (lenN (sc_secs c)) want (hm_lookup kMB (sc_hm c)))
                  (hm_store (lenN (sc_secs c)) want (hm_lookup kMBNL (sc_hm c))), sc_status c) /\
    List.length ss = List.length (sc_secs c) /\
    forall j, match last_for (sc_ypos c) j (sc_secs c) with
              | None => nth j ss None = None
              | Some v => sidx (sc_ypos c) v = Z.of_nat j /\ In v (sc_secs c) /\
                          exists s, nth j ss None = Some s /\
                                    forall a b, vanilla_sec st_id bio_id gs gb v a b -> sec_holds is_air v a b s
              end.
Proof. exact from_save_vanilla_chunk. Qed.
Theorem C13_sec_holds_meaning : forall is_air v a b (s : sect wcont),
  sec_holds is_air v a b s <->
  (List.length a = 4096%nat /\ List.length b = 64%nat /\
   (forall i, (i < 4096)%nat -> wc_get (s_states s) (Z.of_nat i) = ORet (nth i a 0%Z)) /\
   (forall i, (i < 64)%nat -> wc_get (s_biomes s) (Z.of_nat i) = ORet (nth i b 0%Z)) /\
   s_count s = non_air is_air a /\ s_sky s = ss_sky v /\ s_blk s = ss_blk v).
Proof. intros. reflexivity. Qed.

(* the hypotheses are satisfiable on a chunk with a REPEATED Y, sections out of order and a slot nobody names: three
   save sections with Y = -4, -3, -4 (YPos -4), single-valued palettes, no height-map key present: ChunkFromSave
   succeeds, slot 0 holds the LAST section with Y = -4, slot 1 the section with Y = -3, slot 2 is the zero Section, the
   height maps are zero-filled storages of 26 longs at 6 bits; by C13_from_save_any_inv the premises of
   C13_from_save_any hold for it *)
Definition ex_dup_chunk : schunk :=
  mkSC [mkSS (-4)%Z [([5%N], (10%N, [0%N]))] [] [[98%N; 7%N]] [] (Some [1%N]) None;
        mkSS (-3)%Z [([9%N], (10%N, [0%N]))] [] [[98%N; 8%N]] [] None None;
        mkSS (-4)%Z [([0%N], (10%N, [0%N]))] [] [[98%N; 9%N]] [] None (Some [7%N])] [] [1%N] (-4)%Z.
Example C13_ex_from_save_dup :
  Forall (sec_good ex_st_id ex_bio_id (fun v => Z.eqb v 0) 15 6 (sc_ypos ex_dup_chunk) (nsecs ex_dup_chunk)) (sc_secs ex_dup_chunk) /\
  (exists want, calc_size (hm_bits (lenN (sc_secs ex_dup_chunk))) hm_len = Some want /\ hm_lens_ok ex_dup_chunk want) /\
  match from_save ex_st_id ex_bio_id (fun v => Z.eqb v 0) 15 6 ex_dup_chunk with
  | SOk (ss, hm, st) =>
      map (fun o => match o with Some x => Some (s_count x, wc_get (s_states x) 17, wc_get (s_biomes x) 3, s_sky x, s_blk x) | None => None end) ss
        = [Some (0%Z, ORet 0%Z, ORet 9%Z, None, Some [7%N]); Some (4096%Z, ORet 9%Z, ORet 8%Z, None, None); None] /\
      match hWS hm with Some b => data b = repeat 0%N 26 /\ bits b = 6%Z | None => False end
  | _ => False
  end.
Proof.
  remember (from_save ex_st_id ex_bio_id (fun v => Z.eqb v 0) 15 6 ex_dup_chunk) as r eqn:E0.
  assert (E: r = from_save ex_st_id ex_bio_id (fun v => Z.eqb v 0) 15 6 ex_dup_chunk) by exact E0.
  vm_compute in E. rewrite E in E0.
  destruct (from_save_any_inv _ _ _ _ _ _ _ (eq_sym E0)) as [G W]. split; [exact G|]. split; [exact W|].
  rewrite E. split; [reflexivity|]. split; reflexivity.
Qed.

(* THREE MORE BODIES INTERPRETED (they were under skeleton comparison only).
   Section.SetBlock: the model's set_block IS the statement-by-statement interpretation of the translated body
   (`if !IsAir(Get(i)) { BlockCount-- }; if !IsAir(v) { BlockCount++ }; States.Set(i, v)`, int16 updates the
   translated expressions), and a whole history is the body run once per call - so C13_count speaks of the translated code *)
Theorem C13_set_block_translated :
  forall (cont : Type) (pc_get : cont -> Z -> Z) (pc_set : cont -> Z -> Z -> cont) (is_air : Z -> bool) ops s iv,
  sb_body cont pc_get pc_set is_air s iv = SOk (set_block cont pc_get pc_set is_air s iv) /\
  sb_run cont pc_get pc_set is_air s ops = SOk (set_blocks cont pc_get pc_set is_air s ops).
Proof. intros. split; [apply set_block_interp|apply set_blocks_interp]. Qed.
(* bitSetRev: `rev := make(pk.BitSet, len(set)); for i := range rev { rev[i] = ^set[i] }; return rev` interpreted over any
   mask gives the model's rev_longs (the inverted light masks of lightData.WriteTo) *)
Theorem C13_bitSetRev_translated : forall set, rv_run set = SOk (rev_longs set).
Proof. exact bitSetRev_interp. Qed.
(* BlockEntity.WriteTo: `data := pk.NBT(b.Data); if b.Data.Type == nbt.TagEnd { data = pk.NBT(nil) }; return pk.Tuple{...,
   data}.WriteTo(w)`: the interpretation of the body (the branch, then the translated tuple with `data` bound to what the
   branch left) is the model's be_write *)
Theorem C13_block_entity_write_body_translated : forall b,
  interp_c 8 (bw_step b) (bw_test b) c13_BlockEntity_WriteTo_body ([], None)
  = SOk (raw_img b, Some (fst (be_write (bent_val b)))).
Proof. exact be_write_body_interp. Qed.

Print Assumptions C13_from_save_any.
Print Assumptions C13_from_save_any_bad_section.
Print Assumptions C13_from_save_any_bad_heightmap.
Print Assumptions C13_from_save_any_inv.
Print Assumptions C13_from_save_any_terms.
Print Assumptions C13_from_save_vanilla_chunk.
Print Assumptions C13_sec_holds_meaning.
Print Assumptions C13_set_block_translated.
Print Assumptions C13_bitSetRev_translated.
Print Assumptions C13_block_entity_write_body_translated.
