(* C13 - chunk wire/save conversions: property theorems only. *)
From Coq Require Import List NArith ZArith.
From GoMC Require Import Base.Bytes Base.Dec Model.C13 Proofs.C13.
Import ListNotations.
Open Scope N_scope.

Theorem C13_hm_bits_24 : hm_bits 24 = 9%Z.
Proof. exact hm_bits_24. Qed.

Print Assumptions C13_hm_bits_24.
