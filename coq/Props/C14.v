(* C14 - the region file is a correct chunk store under any write/read/reopen history.
   Property theorems only.  Model: Model/C14.v; proofs: Proofs/C14_file.v, C14_alloc.v, C14.v, C14_hist.v.
   `R s m` is the representation invariant between a model state (tables + sector map + file as a log of
   physical writes) and the specification, a map `m : chunk index -> option bytes`. *)
From Coq Require Import List NArith ZArith.
From GoMC Require Import Base.Bytes Model.C14 Proofs.C14_file Proofs.C14_alloc Proofs.C14 Proofs.C14_hist.
Import ListNotations.
Open Scope N_scope.

(* a freshly created region represents the empty map *)
Theorem C14_create : R create aempty.
Proof. exact R_create. Qed.

(* ALL histories (induction over the operation list): the invariant is preserved and every observation
   - write accepted/refused, read result, existence, pad, reopen succeeded - is the answer of the map.
   Side conditions: coordinates 0..31; sector numbers stay below 2^23 (hwm + 255 per write). *)
Theorem C14_refines : forall ops s m s' bs,
  R s m -> Forall op_ok ops -> hwm s + 255 * nwrites ops < sector_limit ->
  run s ops = (s', bs) ->
  let '(m', abs) := spec_run m ops in
  R s' m' /\ map abs_obs bs = map Some abs /\ hwm s' <= hwm s + 255 * nwrites ops.
Proof. exact run_correct. Qed.

Theorem C14_refines_fresh : forall ops s' bs,
  Forall op_ok ops -> 2 + 255 * nwrites ops < sector_limit ->
  run create ops = (s', bs) ->
  let '(m', abs) := spec_run aempty ops in
  R s' m' /\ map abs_obs bs = map Some abs.
Proof. exact run_correct_fresh. Qed.

(* at every point of a history the file is a valid Anvil region holding exactly the map *)
Theorem C14_every_point : forall ops s m k,
  R s m -> Forall op_ok ops -> hwm s + 255 * nwrites ops < sector_limit ->
  let sk := fst (run s (firstn k ops)) in
  let mk := fst (spec_run m (firstn k ops)) in
  R sk mk /\ valid_anvil (img sk) /\ (forall i, i < 1024 -> anvil_chunk (img sk) i = spec_read mk i).
Proof. exact run_prefix_valid. Qed.

(* one write, all three outcomes: accepted (map updated, file = old file + exactly the writes reported,
   every write leaves the other chunks' header slots and sector runs alone), too large, outside the range *)
Theorem C14_write : forall s m x z d now s' ws r,
  R s m -> x < 32 -> z < 32 ->
  write_sector s x z d now = (s', ws, r) -> write_post s m (idx x z) d s' ws r.
Proof. exact write_correct. Qed.

(* what must NOT change: every other chunk reads and exists as before; the chunk itself reads back *)
Theorem C14_write_frame : forall s m x z d now s' ws,
  R s m -> x < 32 -> z < 32 -> write_sector s x z d now = (s', ws, WOk) ->
  R s' (aupd m (idx x z) d) /\ img s' = rev ws ++ img s /\
  read_sector s' x z = (if lenN d =? 0 then RNoData else ROk d) /\
  (forall x' z', x' < 32 -> z' < 32 -> (x', z') <> (x, z) ->
     read_sector s' x' z' = read_sector s x' z' /\ exist_sector s' x' z' = exist_sector s x' z').
Proof. exact write_ok_correct. Qed.

Theorem C14_read_back : forall s m x z d now s' ws, R s m -> x < 32 -> z < 32 -> 1 <= lenN d ->
  write_sector s x z d now = (s', ws, WOk) -> read_sector s' x z = ROk d.
Proof. exact read_back. Qed.

Theorem C14_read : forall s m x z, R s m -> x < 32 -> z < 32 ->
  read_sector s x z = spec_read m (idx x z).
Proof. exact read_sector_correct. Qed.

Theorem C14_exist : forall s m x z, R s m -> x < 32 -> z < 32 ->
  exist_sector s x z = is_some (m (idx x z)).
Proof. exact exist_sector_correct. Qed.

(* over the 1 MiB limit (more than 255 sectors with the length word): refused, for EVERY state, with the
   state and the file unchanged and no physical write; and that is the only way to be refused so *)
Theorem C14_too_large : forall s x z d now,
  chunk_limit < lenN d + 4 -> write_sector s x z d now = (s, [], WTooLarge).
Proof. exact too_large_unchanged. Qed.

Theorem C14_too_large_only : forall s x z d now s' ws,
  write_sector s x z d now = (s', ws, WTooLarge) -> chunk_limit < lenN d + 4 /\ s' = s /\ ws = [].
Proof. exact too_large_only. Qed.

(* the file judged from its bytes alone: >= 2 header sectors, every non-zero header word names a run after
   the header that begins with a length fitting the run and the file, runs pairwise disjoint; the chunks an
   independent reader extracts are exactly the map; header word zero iff the chunk was never written *)
Theorem C14_valid_anvil : forall s m, R s m ->
  valid_anvil (img s) /\
  (forall i, i < 1024 -> anvil_chunk (img s) i = spec_read m i) /\
  (forall i, i < 1024 -> (hdr (img s) i = 0 <-> m i = None)).
Proof. exact valid_anvil_correct. Qed.

(* Load of the current file succeeds, yields the same offsets and timestamps as held in memory, the same
   file, and a state that again represents the same map *)
Theorem C14_reload : forall s m, R s m ->
  exists s', load (img s) = LOk s' /\ R s' m /\ img s' = img s /\ hwm s' <= hwm s /\
    (forall j, j < 1024 -> getN (offs s') j = getN (offs s) j /\ getN (tss s') j = getN (tss s) j).
Proof. exact reopen_correct. Qed.

(* padding keeps the map and makes the size a multiple of 4096 *)
Theorem C14_pad : forall s m s' ws, R s m -> pad s = (s', ws) -> R s' m /\ fsize (img s') mod 4096 = 0.
Proof. exact pad_correct. Qed.

(* the allocator: within the fuel it is given it always finds a run free of used sectors *)
Theorem C14_find_space : forall E u need, (forall k, E <= k -> getB u k = false) ->
  forall fuel n i, i <= need -> n <= E -> (forall j, j < i -> getB u (n + j) = false) ->
    (N.to_nat (E + need + 1 - (n + i)) <= fuel)%nat ->
    exists n', find_space fuel u need n i = Some n' /\
               (forall j, j < need -> getB u (n' + j) = false) /\ n <= n' /\ n' <= E.
Proof. exact find_space_spec. Qed.

(* the log-of-writes file means what a byte array means: a range read returns, per position, the byte of
   the newest write covering it (0 in holes) *)
Theorem C14_file_semantics : forall f, log_ok f -> forall p n, read_range f p n = bytes_at f p (N.to_nat n).
Proof. exact read_range_eq. Qed.

(* ---------- non-vacuity: a concrete history with grow, shrink, same-count overwrite, a refused write,
   an empty chunk, pad and reopen satisfies the hypotheses, and the conclusions are not trivial ---------- *)
Definition ex_data (seed : N) (n : nat) : list N := map (fun i => (seed + N.of_nat i * 13) mod 256) (seq 0 n).
Definition ex_ops : list op :=
  [ OWrite 1 2 (ex_data 7 5000) 100;     (* 2 sectors *)
    OWrite 31 31 (ex_data 9 10) 101;
    OWrite 1 2 (ex_data 3 100) 102;      (* shrink: frees a sector *)
    OWrite 0 0 (ex_data 5 4092) 103;     (* exactly one sector: reuses the freed one *)
    OWrite 0 0 (ex_data 6 4000) 104;     (* same count: in place *)
    OWrite 0 0 (ex_data 8 4093) 105;     (* grow *)
    OWrite 5 5 [] 106;                   (* empty chunk *)
    ORead 1 2; ORead 0 0; ORead 5 5; ORead 9 9; OExist 5 5; OExist 9 9;
    OPad; OReopen; ORead 31 31; ORead 0 0 ].

Example C14_ex_hyps : Forall op_ok ex_ops /\ 2 + 255 * nwrites ex_ops < sector_limit.
Proof. split; [repeat constructor|vm_compute; reflexivity]. Qed.

Example C14_ex_run :
  map abs_obs (snd (run create ex_ops)) =
  map Some [ AWrite true; AWrite true; AWrite true; AWrite true; AWrite true; AWrite true; AWrite true;
             ARead (ROk (ex_data 3 100)); ARead (ROk (ex_data 8 4093)); ARead RNoData; ARead RNoSector;
             AExist true; AExist false; APad; AReopen;
             ARead (ROk (ex_data 9 10)); ARead (ROk (ex_data 8 4093)) ]
  /\ snd (spec_run aempty ex_ops) =
     [ AWrite true; AWrite true; AWrite true; AWrite true; AWrite true; AWrite true; AWrite true;
       ARead (ROk (ex_data 3 100)); ARead (ROk (ex_data 8 4093)); ARead RNoData; ARead RNoSector;
       AExist true; AExist false; APad; AReopen;
       ARead (ROk (ex_data 9 10)); ARead (ROk (ex_data 8 4093)) ].
Proof. split; vm_compute; reflexivity. Qed.

(* the allocation behaviour the history exercises: header words (sector, count) after the run *)
Example C14_ex_alloc :
  let s := fst (run create ex_ops) in
  (sec_of (getN (offs s) (idx 1 2)), cnt_of (getN (offs s) (idx 1 2))) = (2, 1) /\
  (sec_of (getN (offs s) (idx 31 31)), cnt_of (getN (offs s) (idx 31 31))) = (4, 1) /\
  (sec_of (getN (offs s) (idx 0 0)), cnt_of (getN (offs s) (idx 0 0))) = (5, 2) /\
  fsize (img s) mod 4096 = 0.
Proof. vm_compute. repeat split; reflexivity. Qed.

Example C14_ex_too_large :
  let d := repeat 0 (255 * 4096 - 3) in
  chunk_limit < lenN d + 4 /\ lenN (repeat 0 (255 * 4096 - 4)) + 4 <= chunk_limit.
Proof. vm_compute. split; [reflexivity|discriminate]. Qed.

(* ---- tie to the source: Gen/Funcs.v is TRANSLATED from the Go code by tools/gotrans on every run:
   the model's sec_of / cnt_of are sectorLoc on the int32 read back from the header word *)
From GoMC Require Gen.Funcs Proofs.C14_tie.
Theorem C14_sectorLoc_translated : forall o : N, (o < 2^32)%N ->
  Funcs.region_sectorLoc (sx32 o) = (Z.of_N (sec_of o), Z.of_N (cnt_of o)).
Proof. exact C14_tie.tie_sectorLoc. Qed.
Theorem C14_need_translated : forall n : N, n < 2 ^ 31 ->
  Funcs.region_Region_WriteSector_need (Z.of_N n) = Z.of_N ((n + 4 + 4095) / 4096).
Proof. exact C14_tie.tie_need. Qed.

Print Assumptions C14_create.
Print Assumptions C14_refines.
Print Assumptions C14_refines_fresh.
Print Assumptions C14_every_point.
Print Assumptions C14_write.
Print Assumptions C14_write_frame.
Print Assumptions C14_read_back.
Print Assumptions C14_read.
Print Assumptions C14_exist.
Print Assumptions C14_too_large.
Print Assumptions C14_too_large_only.
Print Assumptions C14_valid_anvil.
Print Assumptions C14_reload.
Print Assumptions C14_pad.
Print Assumptions C14_find_space.
Print Assumptions C14_file_semantics.
Print Assumptions C14_sectorLoc_translated.
Print Assumptions C14_need_translated.

(* ================= phase 3: the tie to save/region/mca.go by TRANSLATION =================
   Gen/C14gen.v is regenerated from the Go source by tools/gotrans/c14.go on every run: the bodies of Load,
   CreateWriter, ReadSector, WriteSector, ExistSector, PadToFullSector, findSpace and setHead as statement
   skeletons in source order, every integer expression / condition as a named definition over Z with Go's
   wrap-around semantics.  Proofs/C14_skel.v interprets the skeletons (exec); the theorems below say that the
   model IS that interpretation, for every state, coordinate, payload and clock value in the stated ranges
   (which spell out where the int / int32 / int64 / uint32 conversions of the source are exact). *)
From GoMC Require Gen.C14gen Model.C14_syntax Proofs.C14_expected Proofs.C14_tie_expr Proofs.C14_skel Proofs.C14_skel_rw Proofs.C14_skel_c15.

(* the source has the shapes the model was written against (a swapped statement, a dropped check, a changed
   expression text, a transposed table index [x][z] breaks this) *)
Theorem C14_source_skeletons :
  map C14_syntax.shape C14gen.Load = C14_expected.expected_Load /\
  map C14_syntax.shape C14gen.CreateWriter = C14_expected.expected_CreateWriter /\
  map C14_syntax.shape C14gen.ReadSector = C14_expected.expected_ReadSector /\
  map C14_syntax.shape C14gen.WriteSector = C14_expected.expected_WriteSector /\
  map C14_syntax.shape C14gen.ExistSector = C14_expected.expected_ExistSector /\
  map C14_syntax.shape C14gen.PadToFullSector = C14_expected.expected_PadToFullSector /\
  map C14_syntax.shape C14gen.findSpace = C14_expected.expected_findSpace /\
  map C14_syntax.shape C14gen.setHead = C14_expected.expected_setHead /\
  C14gen.Region_fields = C14_expected.expected_Region_fields /\
  map C14_syntax.shape C14gen.writeAt = C14_expected.expected_writeAt.
Proof. exact C14_skel.all_skel_ok. Qed.

(* WriteSector: new Region state, the list of physical writes IN ORDER, and the outcome *)
Theorem C14_WriteSector_translated : forall s x z d now,
  x < 32 -> z < 32 -> lenN d + 4 + 4095 < 2^43 -> hwm s <= sector_limit -> now < 2^63 ->
  C14_skel_rw.interp_write s x z d now = Some (write_sector s x z d now).
Proof. exact C14_skel_rw.interp_write_eq. Qed.

(* findSpace's scan loop is find_space step for step (same fuel, same probes) *)
Theorem C14_findSpace_translated : forall σ need k,
  C14_skel.g_err σ = false -> hwm (C14_skel.g_st σ) + need + 2 < 2^31 - 1 ->
  C14_skel.call1 C14_skel.CFindSpace [Z.of_N need] σ k =
  match find_space (N.to_nat (hwm (C14_skel.g_st σ) + need + 2)) (used (C14_skel.g_st σ)) need 0 0 with
  | Some n' => k (C14_skel.set_vars σ (C14_skel.setv (C14_skel.g_vars σ) C14_syntax.Vn (Z.of_N n')))
  | None => C14_skel.RNoFuel
  end.
Proof. exact C14_skel_rw.call_findSpace. Qed.

(* ReadSector: the four checks in order with their constants, seek offset, LimitReader length *)
Theorem C14_ReadSector_translated : forall s x z,
  x < 32 -> z < 32 -> rd32 (img s) (4096 * sec_of (getN (offs s) (idx x z))) < 2^32 ->
  C14_skel_rw.interp_read s x z = Some (read_sector s x z).
Proof. exact C14_skel_rw.interp_read_eq. Qed.

Theorem C14_ExistSector_translated : forall s x z, x < 32 -> z < 32 -> getN (offs s) (idx x z) < 2^32 ->
  C14_skel_rw.interp_exist s x z = Some (exist_sector s x z).
Proof. exact C14_skel_rw.interp_exist_eq. Qed.

Theorem C14_PadToFullSector_translated : forall s, fsize (img s) < 2^63 ->
  C14_skel_rw.interp_pad s = Some (pad s).
Proof. exact C14_skel_rw.interp_pad_eq. Qed.

Theorem C14_CreateWriter_translated : C14_skel_rw.interp_create = Some create.
Proof. exact C14_skel_rw.interp_create_eq. Qed.

(* Load: the two 4096-byte reads, the occupancy loop over every header entry with its `o != 0` test and the
   bounds of the marking loop; the file position is 0 on entry; hwm (ghost) recomputed by the model *)
Theorem C14_Load_translated : forall f, C14_skel_rw.interp_load f = Some (load f).
Proof. exact C14_skel_rw.interp_load_eq. Qed.

(* the property theorem of one write, restated for the interpretation of the translated body *)
Theorem C14_write_translated : forall s m x z d now s' ws r,
  R s m -> x < 32 -> z < 32 -> lenN d + 4 + 4095 < 2^43 -> now < 2^63 ->
  C14_skel_rw.interp_write s x z d now = Some (s', ws, r) -> write_post s m (idx x z) d s' ws r.
Proof. exact C14_skel_c15.write_translated_correct. Qed.

Print Assumptions C14_source_skeletons.
Print Assumptions C14_WriteSector_translated.
Print Assumptions C14_findSpace_translated.
Print Assumptions C14_ReadSector_translated.
Print Assumptions C14_ExistSector_translated.
Print Assumptions C14_PadToFullSector_translated.
Print Assumptions C14_CreateWriter_translated.
Print Assumptions C14_Load_translated.
Print Assumptions C14_write_translated.

(* ================= phase 4: a failing medium =================
   Proofs/C14_skel_fail.v: (1) a syntactic obligation on the translated skeletons - every statement that does
   I/O is immediately followed by its error test; (2) the interpreter on a medium whose k-th I/O call fails. *)
From GoMC Require Proofs.C14_skel_fail.

(* no I/O error can be swallowed: in every translated body each Seek / Read / Write / WriteAt / setHead call is
   directly followed by `if err != nil { ...return... }` (or by the bare return of the named err) *)
Theorem C14_io_errors_checked :
  C14_skel_fail.io_checked C14gen.Load = true /\ C14_skel_fail.io_checked C14gen.CreateWriter = true /\
  C14_skel_fail.io_checked C14gen.ReadSector = true /\ C14_skel_fail.io_checked C14gen.WriteSector = true /\
  C14_skel_fail.io_checked C14gen.PadToFullSector = true /\ C14_skel_fail.io_checked C14gen.setHead = true /\
  C14_skel_fail.io_checked C14gen.findSpace = true /\ C14_skel_fail.io_checked C14gen.ExistSector = true.
Proof. exact C14_skel_fail.all_io_checked. Qed.

Print Assumptions C14_io_errors_checked.

(* ================= phase 5: ALL histories with failed writes =================
   Rd s m D T (Proofs/C14_dirty.v) weakens R: D = the chunks whose last write FAILED (no content claim), T = the
   chunks whose timestamp slot may be newer in the file than in memory; the tables alone (M) keep every run
   marked used and pairwise disjoint, and the file header always equals the in-memory table.  frun runs a
   history of reads and of writes on a medium that fails the fa-th I/O call of that write (any fa, any
   short-write length sh; fa beyond the last call = a successful write) next to the specification: a map,
   updated by writes that succeeded, and the set of chunks whose last write failed. *)
From GoMC Require Proofs.C14_dirty.
Theorem C14_refinement_failing_medium : forall ops s m D T s' m' D' T' l,
  C14_dirty.Rd s m D T -> Forall C14_dirty.fop_ok ops -> C14_dirty.frun s m D T ops = (s', m', D', T', l) ->
  C14_dirty.Rd s' m' D' T' /\
  Forall (fun p => match p with Some (got, want) => got = want | None => True end) l.
Proof. exact C14_dirty.frun_correct. Qed.

Theorem C14_failing_medium_fresh : C14_dirty.Rd create aempty C14_dirty.nnone C14_dirty.nnone.
Proof. exact C14_dirty.Rd_create. Qed.

(* one write, any failing call: the chunk is clean again after a success, dirty after an error *)
Theorem C14_write_failing_medium : forall fa sh s m D T x z d now sF wsF r,
  C14_dirty.Rd s m D T -> x < 32 -> z < 32 -> write_sector_fail fa sh s x z d now = (sF, wsF, r) ->
  C14_dirty.Rd sF (C14_dirty.upd_m m (idx x z) d r) (C14_dirty.upd_D D (idx x z) r) (C14_dirty.upd_T T (idx x z) r).
Proof. exact C14_dirty.write_fail_Rd. Qed.

(* Load + ReadSector are total on ANY file: the interpretation of the translated Load never gets stuck *)
Theorem C14_load_total : forall f, exists r, C14_skel_rw.interp_load f = Some r.
Proof. intros f. exists (load f). exact (C14_skel_rw.interp_load_eq f). Qed.

Print Assumptions C14_refinement_failing_medium.
Print Assumptions C14_failing_medium_fresh.
Print Assumptions C14_write_failing_medium.
Print Assumptions C14_load_total.

(* ================= last wave: totality over ARBITRARY files of bytes =================
   (four bytes always give a 32-bit word: the hypothesis of C14_ReadSector_translated on the length word is
   discharged from `every stored value is a byte`) *)
From GoMC Require Proofs.C14_total.
Theorem C14_read_total : forall s x z, x < 32 -> z < 32 -> log_ok (img s) -> C14_total.bytes_file (img s) ->
  C14_skel_rw.interp_read s x z = Some (read_sector s x z).
Proof. exact C14_total.read_total. Qed.

(* Load + ReadSector of every slot on ANY file of bytes, whatever its 8 KiB header says: defined, i.e. a value
   or one of the named errors, never a stuck state (panic) of the translated bodies *)
Theorem C14_load_read_total : forall f, log_ok f -> C14_total.bytes_file f ->
  C14_skel_rw.interp_load f = Some (load f) /\
  forall s, load f = LOk s -> forall x z, x < 32 -> z < 32 ->
    C14_skel_rw.interp_read s x z = Some (read_sector s x z).
Proof. exact C14_total.load_read_total. Qed.

Print Assumptions C14_read_total.
Print Assumptions C14_load_read_total.

(* writeAt: structured skeleton (the text tie is gone; C14_source_skeletons compares its shape) and interpretation:
   on a medium that does not fail during the call the translated body makes ONE physical write of the buffer at
   off - one WriteAt call leaving the position alone when the medium is an io.WriterAt, otherwise Seek + Write
   leaving the position behind the bytes.  setHead reaches the medium only through this body (execF). *)
Theorem C14_writeAt_translated : forall fa sh wat st0 vs pos lim buf dat dlen ws nw c off k,
  Nat.eqb c fa = false -> Nat.eqb (S c) fa = false ->
  C14_skel_fail.callW fa sh wat C14_skel.CWriteAt [Z.of_N off]
    (C14_skel.mkist st0 vs pos lim buf dat dlen ws false nw, c) k =
  k (C14_skel.mkist (C14_skel.st_img st0 (mkwr off buf :: img st0)) vs (if wat then pos else Some (off + flen buf))
       lim buf dat dlen (ws ++ [mkwr off buf]) false nw, if wat then S c else S (S c)).
Proof. exact C14_skel_fail.writeAt_interp. Qed.

Print Assumptions C14_writeAt_translated.
