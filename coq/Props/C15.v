(* C15 - region crash isolation: an interrupted WriteSector never damages other chunks.
   Property theorems only.  Model: Model/C14.v (torn_image, load, read_sector); proofs: Proofs/C15.v on top of
   the C14 invariant `R s m` (state s represents the map m) and `safe_writes_isolate`.
   Crash model: some part of the physical writes ONE WriteSector issued reached the medium. *)
From Coq Require Import List NArith ZArith.
From GoMC Require Import Base.Bytes Model.C14 Proofs.C14_file Proofs.C14_alloc Proofs.C14 Proofs.C14_hist Proofs.C15.
Import ListNotations.
Open Scope N_scope.

(* the statement of the property: for EVERY state representing a map, every accepted write, every number
   k of complete physical writes and every tear point t (in bytes, not only 512-byte boundaries) of the
   next one: Load of the image succeeds, and every chunk other than (x,z) reads exactly what the map holds
   (data, ErrNoData for an empty chunk, ErrNoSector if never written) and exists iff it was written *)
Theorem C15_isolation : forall s m x z d now s' ws,
  R s m -> x < 32 -> z < 32 -> write_sector s x z d now = (s', ws, WOk) ->
  forall k t, exists sl,
    load (torn_image (img s) ws k t) = LOk sl /\ img sl = torn_image (img s) ws k t /\
    forall x' z', x' < 32 -> z' < 32 -> (x', z') <> (x, z) ->
      read_sector sl x' z' = spec_read m (idx x' z') /\
      exist_sector sl x' z' = is_some (m (idx x' z')).
Proof. exact crash_isolation. Qed.

(* the same against the in-memory view just before the write: what must NOT change does not *)
Theorem C15_isolation_view : forall s m x z d now s' ws,
  R s m -> x < 32 -> z < 32 -> write_sector s x z d now = (s', ws, WOk) ->
  forall k t, exists sl,
    load (torn_image (img s) ws k t) = LOk sl /\
    forall x' z', x' < 32 -> z' < 32 -> (x', z') <> (x, z) ->
      read_sector sl x' z' = read_sector s x' z' /\ exist_sector sl x' z' = exist_sector s x' z'.
Proof. exact crash_isolation_view. Qed.

(* stronger crash model: ANY collection of pieces of the issued writes, in any order, any subset, with any
   content inside the pieces' ranges (covers reordering within one WriteSector and garbage in torn blocks) *)
Theorem C15_isolation_any_parts : forall s m x z d now s' ws g,
  R s m -> x < 32 -> z < 32 -> write_sector s x z d now = (s', ws, WOk) ->
  Forall (part_of ws) g ->
  exists sl, load (g ++ img s) = LOk sl /\ img sl = g ++ img s /\ others_intact sl m (idx x z).
Proof. exact crash_isolation_parts. Qed.

(* the mechanism, stated alone: writes that avoid the other chunks' header slots and sector runs cannot
   change what a fresh Load reads for them *)
Theorem C15_core : forall s m i g, R s m -> Forall (safe_for s i) g -> log_ok g ->
  exists sl, load (g ++ img s) = LOk sl /\ img sl = g ++ img s /\ others_intact sl m i.
Proof. exact crash_core. Qed.

Theorem C15_reload_ok : forall s m x z d now s' ws,
  R s m -> x < 32 -> z < 32 -> write_sector s x z d now = (s', ws, WOk) ->
  forall k t, exists sl, load (torn_image (img s) ws k t) = LOk sl.
Proof. exact crash_reload_ok. Qed.

(* over every REACHABLE state: any history from a fresh file (hence any fragmentation and any reuse of
   freed sectors), then a write interrupted anywhere *)
Theorem C15_isolation_reachable : forall ops s bs x z d now s' ws,
  Forall op_ok ops -> 2 + 255 * nwrites ops < sector_limit -> run create ops = (s, bs) ->
  x < 32 -> z < 32 -> write_sector s x z d now = (s', ws, WOk) ->
  let m := fst (spec_run aempty ops) in
  forall k t, exists sl,
    load (torn_image (img s) ws k t) = LOk sl /\
    forall x' z', x' < 32 -> z' < 32 -> (x', z') <> (x, z) ->
      read_sector sl x' z' = spec_read m (idx x' z') /\
      exist_sector sl x' z' = is_some (m (idx x' z')).
Proof. exact crash_isolation_reachable. Qed.

(* the written chunk, end case: once every write reached the medium the image is the post-state's file,
   it re-opens into a state representing the updated map *)
Theorem C15_complete : forall s m x z d now s' ws k t,
  R s m -> x < 32 -> z < 32 -> write_sector s x z d now = (s', ws, WOk) -> (length ws <= k)%nat ->
  torn_image (img s) ws k t = img s' /\
  exists sl, load (img s') = LOk sl /\ R sl (aupd m (idx x z) d).
Proof. exact crash_complete. Qed.

(* the written chunk, in between: NOT protected, and not only "old, new, absent or unreadable": the format
   has no checksum and the header entry goes out before the data, so the chunk can read back without error
   as (A) a mixture of new and old bytes, (B) the stale bytes of a sector another chunk freed earlier *)
Theorem C15_written_chunk_can_mix :
  unprotected_witness [OWrite 0 0 (fill 1 100) 7] 0 0 (fill 2 100) 8 1 50 (fill 2 50 ++ fill 1 50).
Proof. exact written_chunk_can_mix. Qed.

Theorem C15_written_chunk_can_be_stale :
  unprotected_witness [OWrite 0 0 (fill 1 100) 7; OWrite 1 0 (fill 3 100) 7; OWrite 0 0 (fill 4 5000) 8]
                      2 0 (fill 6 90) 9 2 0 (fill 1 100).
Proof. exact written_chunk_can_be_stale. Qed.

(* ---------- non-vacuity: a fragmented state with reuse; the write moves a chunk into freed sectors; every
   prefix / tear point of its four writes leaves the other two chunks readable ---------- *)
Definition ex_ops : list op :=
  [ OWrite 0 0 (fill 1 4200) 7;     (* sectors 2-3 *)
    OWrite 1 0 (fill 2 100) 7;      (* sector 4 *)
    OWrite 0 0 (fill 3 100) 8;      (* shrinks to sector 2, frees 3 *)
    OWrite 2 0 (fill 4 4500) 8 ].   (* 2 sectors: 5-6 *)
Definition ex_state : st := fst (run create ex_ops).
Definition ex_write := write_sector ex_state 1 0 (fill 5 4093) 9.   (* grows to 2 sectors: its own sector 4 is freed first, first fit = 3-4 (freed by (0,0) + its own) *)
Definition ex_others_ok (k : nat) (t : N) : bool :=
  match load (torn_image (img ex_state) (snd (fst ex_write)) k t) with
  | LOk sl =>
      match read_sector sl 0 0, read_sector sl 2 0, read_sector sl 3 3 with
      | ROk a, ROk b, RNoSector => (lenN a =? 100) && (lenN b =? 4500) && forallb (N.eqb 3) a && forallb (N.eqb 4) b
      | _, _, _ => false
      end
  | LErrShort => false
  end.

Example C15_ex_hyps : Forall op_ok ex_ops /\ 2 + 255 * nwrites ex_ops < sector_limit /\ snd ex_write = WOk
  /\ map wpos (snd (fst ex_write)) = [4096 + 4; 4; 4096 * 3; 4096 * 3 + 4].
Proof. split; [repeat constructor|]. vm_compute. repeat split; reflexivity. Qed.

Example C15_ex_points :
  forallb (fun kt => ex_others_ok (fst kt) (snd kt))
    [ (0%nat, 0); (0%nat, 1); (0%nat, 3); (1%nat, 0); (1%nat, 2); (2%nat, 0); (2%nat, 3); (3%nat, 0);
      (3%nat, 512); (3%nat, 2048); (3%nat, 4092); (3%nat, 4093); (4%nat, 0) ] = true.
Proof. vm_compute. reflexivity. Qed.

Print Assumptions C15_isolation.
Print Assumptions C15_isolation_view.
Print Assumptions C15_isolation_any_parts.
Print Assumptions C15_core.
Print Assumptions C15_reload_ok.
Print Assumptions C15_isolation_reachable.
Print Assumptions C15_complete.
Print Assumptions C15_written_chunk_can_mix.
Print Assumptions C15_written_chunk_can_be_stale.

(* ================= phase 3: over the TRANSLATED WriteSector =================
   C14_skel_rw.interp_write interprets the statement skeleton tools/gotrans renders from save/region/mca.go on
   every run; its write list is in SOURCE ORDER (C15_write_order_translated: timestamp, then header entry, BEFORE
   length and data when sectors are reallocated; length then data in place). *)
From GoMC Require Proofs.C14_skel_rw Proofs.C14_skel_c15.

Theorem C15_write_order_translated : forall s x z d now s' ws,
  x < 32 -> z < 32 -> lenN d + 4 + 4095 < 2^43 -> hwm s <= sector_limit -> now < 2^63 ->
  C14_skel_rw.interp_write s x z d now = Some (s', ws, WOk) ->
  (exists n, map wpos ws = [4096 * n; 4096 * n + 4] /\ map wdat ws = [be 4 (flen d); d]) \/
  (exists n o', map wpos ws = [4096 + 4 * idx x z; 4 * idx x z; 4096 * n; 4096 * n + 4] /\
                map wdat ws = [be 4 (now mod 2^32); be 4 o'; be 4 (flen d); d]).
Proof. exact C14_skel_c15.write_order_translated. Qed.

Theorem C15_isolation_translated : forall s m x z d now s' ws,
  R s m -> x < 32 -> z < 32 -> lenN d + 4 + 4095 < 2^43 -> now < 2^63 ->
  C14_skel_rw.interp_write s x z d now = Some (s', ws, WOk) ->
  forall k t, exists sl,
    load (torn_image (img s) ws k t) = LOk sl /\ img sl = torn_image (img s) ws k t /\
    forall x' z', x' < 32 -> z' < 32 -> (x', z') <> (x, z) ->
      read_sector sl x' z' = spec_read m (idx x' z') /\
      exist_sector sl x' z' = is_some (m (idx x' z')).
Proof. exact C14_skel_c15.crash_isolation_translated. Qed.

Theorem C15_isolation_any_parts_translated : forall s m x z d now s' ws g,
  R s m -> x < 32 -> z < 32 -> lenN d + 4 + 4095 < 2^43 -> now < 2^63 ->
  C14_skel_rw.interp_write s x z d now = Some (s', ws, WOk) -> Forall (part_of ws) g ->
  exists sl, load (g ++ img s) = LOk sl /\ img sl = g ++ img s /\ others_intact sl m (idx x z).
Proof. exact C14_skel_c15.crash_isolation_parts_translated. Qed.

Print Assumptions C15_write_order_translated.
Print Assumptions C15_isolation_translated.
Print Assumptions C15_isolation_any_parts_translated.

(* ================= phase 4: a FAILED write (I/O error returned, the object used further) =================
   Scenario: chunks c and d exist; a write of c that needs new sectors fails in its HEADER write; chunk e is
   then written through the same object.  C15_failed_header_write_before_fix_refuted: for the translated body
   WITHOUT the repair (fix db6a924 in /repo) the file then names sector 2 for both c and e and, after a reopen,
   rewriting c makes e read back c's bytes - a chunk OTHER than the interrupted one is damaged.
   C15_failed_header_write_fixed: with the translated body as it is now the old sector stays reserved, e is
   placed elsewhere, and every chunk but c reads back its bytes, also after the reopen and the rewrite of c. *)
From GoMC Require Proofs.C14_skel_fail.

Theorem C15_failed_header_write_before_fix_refuted :
  exists s, C14_skel_fail.sc_after C14_skel_fail.WriteSector_before_fix = Some s /\
    C14_skel_fail.sc_disk_runs s = ((2, 1), (2, 1)) /\
    read_sector s 2 0 = ROk (C14_skel_fail.fill 5 100) /\
    C14_skel_fail.sc_e_after_reopen s = ROk (C14_skel_fail.fill 9 100).
Proof. exact C14_skel_fail.failed_header_write_before_fix_refuted. Qed.

Theorem C15_failed_header_write_fixed :
  exists s, C14_skel_fail.sc_after C14gen.WriteSector = Some s /\
    C14_skel_fail.sc_disk_runs s = ((2, 1), (4, 1)) /\
    read_sector s 2 0 = ROk (C14_skel_fail.fill 5 100) /\ read_sector s 1 0 = ROk (C14_skel_fail.fill 3 100) /\
    C14_skel_fail.sc_e_after_reopen s = ROk (C14_skel_fail.fill 5 100).
Proof. exact C14_skel_fail.failed_header_write_fixed. Qed.

Print Assumptions C15_failed_header_write_before_fix_refuted.
Print Assumptions C15_failed_header_write_fixed.

(* the general statement (Model.C14.write_sector_fail = WriteSector of the repaired code on a medium whose fa-th
   I/O call fails, a failing write of more than 4 bytes storing sh bytes first): for EVERY state representing a
   map, every failing call, every short-write length - all OTHER chunks read and exist exactly as before through
   the same Region object, and the file re-opens with all of them intact *)
From GoMC Require Proofs.C15_fail.
Theorem C15_failed_write_isolation : forall fa sh s m x z d now sF wsF rF,
  R s m -> x < 32 -> z < 32 -> write_sector_fail fa sh s x z d now = (sF, wsF, rF) ->
  (forall x' z', x' < 32 -> z' < 32 -> (x', z') <> (x, z) ->
     read_sector sF x' z' = spec_read m (idx x' z') /\ exist_sector sF x' z' = is_some (m (idx x' z'))) /\
  (exists sl, load (img sF) = LOk sl /\ others_intact sl m (idx x z)).
Proof. exact C15_fail.failed_write_isolation. Qed.

(* the hand model of the failing write IS the interpretation of the translated WriteSector on the failing
   medium - by computation, for every failing call index 0..8 on the allocating path (two short-write lengths) *)
Theorem C15_failing_write_model_is_interpretation :
  Forall (C14_skel_fail.tie_at C14_skel_fail.sc_state0 0 0 (C14_skel_fail.fill 4 4200) 8 0) (seq 0 9) /\
  Forall (C14_skel_fail.tie_at C14_skel_fail.sc_state0 0 0 (C14_skel_fail.fill 4 4200) 8 100) (seq 0 9) /\
  Forall (C14_skel_fail.tie_at C14_skel_fail.sc_state0 1 0 (C14_skel_fail.fill 6 90) 8 3) (seq 0 9) /\
  Forall (C14_skel_fail.tie_at C14_skel_fail.sc_state0 7 7 (C14_skel_fail.fill 6 4093) 8 5) (seq 0 9).
Proof.
  exact (conj C14_skel_fail.fail_tie_alloc_0 (conj C14_skel_fail.fail_tie_alloc_100
        (conj C14_skel_fail.fail_tie_inplace_3 C14_skel_fail.fail_tie_fresh_5))).
Qed.

Print Assumptions C15_failed_write_isolation.
Print Assumptions C15_failing_write_model_is_interpretation.

(* ================= phase 5: isolation over ALL histories with failed writes =================
   In every state reached by any history of successful and failing writes (C14_refinement_failing_medium): the
   header runs named by the FILE never overlap; every chunk whose last write succeeded reads back through the
   same object AND after a reopen (also when an earlier write of it failed). *)
From GoMC Require Proofs.C14_dirty.
Theorem C15_isolation_failing_history : forall s m D T, C14_dirty.Rd s m D T ->
  (forall i j k, i < 1024 -> j < 1024 -> i <> j -> hdr (img s) i <> 0 -> hdr (img s) j <> 0 ->
     run_of (hdr (img s) i) k -> run_of (hdr (img s) j) k -> False) /\
  (forall x z, x < 32 -> z < 32 -> D (idx x z) = false -> read_sector s x z = spec_read m (idx x z)) /\
  (exists sl, load (img s) = LOk sl /\ img sl = img s /\
     forall x z, x < 32 -> z < 32 -> D (idx x z) = false -> read_sector sl x z = spec_read m (idx x z)).
Proof. exact C14_dirty.Rd_gives. Qed.

Print Assumptions C15_isolation_failing_history.
