(* C16 - RCON: property theorems only.  Model: Model/C16.v; proofs: Proofs/C16.v, Proofs/C16_proto.v *)
From Coq Require Import List NArith ZArith.
From GoMC Require Import Base.Bytes Base.Dec Gen.Consts Model.C16 Proofs.C16 Proofs.C16_proto.
Import ListNotations.
Open Scope N_scope.

(* `fits pl` (the payload fits one frame) is  |pl| + 10 <= net.MaxRCONPackageSize, i.e. |pl| <= 4086
   with the constant the source has now *)
Theorem C16_limit : forall pl, fits pl <-> lenN pl <= 4086.
Proof. exact fits_4086. Qed.

(* ---- layout: length (everything after the length field), id, type as little-endian int32, the
   payload bytes unchanged, two zero bytes; 14 + |payload| bytes in all *)
Theorem C16_layout : forall id ty pl, fits pl ->
  rcon_write id ty pl = le 4 (lenN pl + 10) ++ le 4 (u32 id) ++ le 4 (u32 ty) ++ pl ++ [0; 0]
  /\ lenN (rcon_write id ty pl) = 14 + lenN pl.
Proof. exact layout. Qed.

(* ---- round trip, exact consumption: every int32 id and type, every payload within the limit
   (any bytes, including 0x00 and non-UTF-8), whatever follows on the wire stays untouched *)
Theorem C16_roundtrip : forall id ty pl rest, in_sw 32 id -> in_sw 32 ty -> fits pl ->
  run_flat rcon_read (rcon_write id ty pl ++ rest) = FOk (id, ty, pl) rest.
Proof. exact read_write. Qed.

(* ---- what the reader accepts, for ALL byte strings: exactly the frames of the layout above with a
   payload within the limit - except that the two pad bytes are not inspected *)
Theorem C16_reader_accepts : forall s i t p r, all_bytes s ->
  run_flat rcon_read s = FOk (i, t, p) r ->
  fits p /\ in_sw 32 i /\ in_sw 32 t /\
  exists a b, s = le32 (Z.of_N (lenN p) + 10) ++ le32 i ++ le32 t ++ p ++ [a; b] ++ r.
Proof. exact read_accepts. Qed.

(* ---- rejection: every declared length below 10 or above the limit, whatever follows *)
Theorem C16_reject : forall L rest, in_sw 32 L -> (L < 10 \/ net_MaxRCONPackageSize < L)%Z ->
  run_flat rcon_read (le32 L ++ rest) = FErr (if (L <? 10)%Z then eShort else eLarge).
Proof. exact read_rejects. Qed.
(* the writer itself has no size check: a payload above the limit is written, and rejected by the reader *)
Theorem C16_oversize_written_is_rejected : forall id ty pl rest,
  ~ fits pl -> (Z.of_N (lenN pl) + 10 < 2 ^ 31)%Z ->
  run_flat rcon_read (rcon_write id ty pl ++ rest) = FErr eLarge.
Proof. exact read_write_oversize. Qed.
(* a strict prefix of a frame is never accepted *)
Theorem C16_truncated : forall id ty pl k, in_sw 32 id -> in_sw 32 ty -> fits pl ->
  (k < length (rcon_write id ty pl))%nat ->
  is_ok (run_flat rcon_read (firstn k (rcon_write id ty pl))) = false.
Proof. exact read_truncated. Qed.
(* the reader never panics, on any input, and never issues a bare Read (fragmentation-proof, feeds C09) *)
Theorem C16_total : forall s, ok_or_err (run_flat rcon_read s).
Proof. exact rcon_read_total. Qed.
Theorem C16_robust : robust rcon_read.
Proof. exact rcon_read_robust. Qed.

(* ---- self-delimitation: any concatenation of frames is read back frame by frame; reading to the
   end of the stream returns exactly the list; two frame lists with the same bytes are equal *)
Theorem C16_self_delimiting : forall fs rest, Forall valid_frame fs ->
  run_flat (read_n (length fs)) (concat (map write_frame fs) ++ rest) = FOk fs rest.
Proof. intros fs rest H. apply read_n_concat. exact H. Qed.
Theorem C16_stream : forall fs, Forall valid_frame fs ->
  read_stream (concat (map write_frame fs)) = Some fs.
Proof. exact read_stream_concat. Qed.
Theorem C16_unique_parse : forall fs gs, Forall valid_frame fs -> Forall valid_frame gs ->
  concat (map write_frame fs) = concat (map write_frame gs) -> fs = gs.
Proof. exact unique_parse. Qed.

(* ---- login: DialRCON (request id drawn by rand.Int31) against AcceptLogin on a fresh connection,
   for every pair of passwords (the client's fitting one frame) and every prior server state:
   both sides succeed iff the passwords are equal; otherwise BOTH report an error; nothing is left on
   the wire and the server has recorded the client's request id *)
Theorem C16_login : forall id sid0 pwc pws, int31 id -> fits pwc ->
  let o := login_run id sid0 pwc pws in
  (lo_client o = true <-> pwc = pws) /\
  (lo_server o = true <-> pwc = pws) /\
  (pwc <> pws -> lo_client o = false /\ lo_server o = false) /\
  lo_conn o = {| c2s := []; s2c := []; sid := id |}.
Proof. exact login_iff. Qed.
(* a password that does not fit one frame cannot be transmitted: both sides report an error, also when
   the passwords are equal (the frame limit of the protocol; the hypothesis `fits pwc` above is needed) *)
Theorem C16_login_oversize : forall id sid0 pwc pws,
  ~ fits pwc -> (Z.of_N (lenN pwc) + 10 < 2 ^ 31)%Z ->
  let o := login_run id sid0 pwc pws in
  lo_client o = false /\ lo_server o = false /\ sid (lo_conn o) = sid0.
Proof. exact login_oversize. Qed.
(* the server's decision on ANY frame it is sent, and its answer *)
Theorem C16_accept_login : forall pws id ty pw rest, in_sw 32 id -> in_sw 32 ty -> fits pw ->
  run_flat (accept_login pws) (rcon_write id ty pw ++ rest) =
  FOk (if negb (ty =? 3)%Z then (id, [], false)
       else if negb (bytes_eqb pw pws) then (id, rcon_write (-1) 2 [], false)
       else (id, rcon_write id 2 [], true)) rest.
Proof. exact accept_login_frame. Qed.
(* the client's decision on ANY answer frame: success iff it echoes the request id *)
Theorem C16_dial_answer : forall id rid ty pl rest, in_sw 32 rid -> in_sw 32 ty -> fits pl ->
  run_flat (dial_recv id) (rcon_write rid ty pl ++ rest) =
  if (rid =? id)%Z then FOk tt rest
  else if (rid =? -1)%Z then FErr eLoginFail else FErr eIdMismatch.
Proof. exact dial_recv_frame. Qed.

(* ---- commands reach the server verbatim (and the server takes over the request id) *)
Theorem C16_cmd_verbatim : forall id c rest, in_sw 32 id -> fits c ->
  run_flat accept_cmd (cmd_send id c ++ rest) = FOk (id, c, true) rest.
Proof. exact cmd_verbatim. Qed.

(* ---- a response is accepted only under the request id in use (and type 0) *)
Theorem C16_resp_iff : forall id rid ty pl rest, in_sw 32 rid -> in_sw 32 ty -> fits pl ->
  (rid = id /\ ty = 0%Z -> run_flat (resp_recv id) (rcon_write rid ty pl ++ rest) = FOk pl rest) /\
  (~ (rid = id /\ ty = 0%Z) -> is_err (run_flat (resp_recv id) (rcon_write rid ty pl ++ rest)) = true).
Proof. exact resp_recv_iff. Qed.
(* ... whatever bytes arrive: if Resp succeeds they were a frame with exactly that id and type 0 *)
Theorem C16_resp_only_id : forall id s p r, all_bytes s -> run_flat (resp_recv id) s = FOk p r ->
  exists a b, s = le32 (Z.of_N (lenN p) + 10) ++ le32 id ++ le32 0 ++ p ++ [a; b] ++ r.
Proof. exact resp_recv_only_id. Qed.

(* ---- sessions: after a successful login, for EVERY schedule of Cmd / AcceptCmd / RespCmd / Resp
   calls (payloads within the limit) the observations of the byte-level machines are those of two
   FIFO queues of messages: commands and responses arrive verbatim, in order, none is invented, and a
   read on an empty queue is the only error *)
Theorem C16_session : forall id evs, int31 id -> Forall proto_ev evs ->
  fst (run_session id evs {| c2s := []; s2c := []; sid := id |}) =
  fst (spec_session evs {| q_cmd := []; q_resp := [] |}).
Proof. exact session_after_login. Qed.
(* ... composed with the login: equal passwords, then any schedule, on the connection the login leaves *)
Theorem C16_login_session : forall id sid0 pw evs, int31 id -> fits pw -> Forall proto_ev evs ->
  let o := login_run id sid0 pw pw in
  lo_client o = true /\ lo_server o = true /\
  fst (run_session id evs (lo_conn o)) = fst (spec_session evs {| q_cmd := []; q_resp := [] |}).
Proof. exact login_then_session. Qed.
(* the invariant behind it, from any related pair of states: wire = frames of the queued messages,
   server id = client id *)
Theorem C16_session_invariant : forall id evs k a, in_sw 32 id -> Forall proto_ev evs -> rel id k a ->
  fst (run_session id evs k) = fst (spec_session evs a) /\
  rel id (snd (run_session id evs k)) (snd (spec_session evs a)).
Proof. intros id evs k a H. apply session_refines. exact H. Qed.
(* two instances spelled out: lock-step use and fully pipelined use *)
Theorem C16_lockstep : forall id ps, int31 id -> Forall (fun p => fits (fst p) /\ fits (snd p)) ps ->
  run_session id (lockstep ps) {| c2s := []; s2c := []; sid := id |} =
  (lockstep_obs ps, {| c2s := []; s2c := []; sid := id |}).
Proof. exact session_lockstep. Qed.
Theorem C16_pipelined : forall id cs rs, int31 id -> Forall fits cs -> Forall fits rs ->
  fst (run_session id (pipelined cs rs) {| c2s := []; s2c := []; sid := id |}) = pipelined_obs cs rs.
Proof. exact session_pipelined. Qed.

(* ---- non-vacuity and sharpness of the hypotheses *)
Example C16_ex_frame : rcon_write 1 3 [112; 119] = [12;0;0;0; 1;0;0;0; 3;0;0;0; 112;119; 0;0] /\ fits [112; 119].
Proof. split; [vm_compute; reflexivity | apply fits_4086; vm_compute; discriminate]. Qed.
Example C16_ex_neg_id : rcon_write (-1) (-2147483648) [] = [10;0;0;0; 255;255;255;255; 0;0;0;128; 0;0].
Proof. vm_compute. reflexivity. Qed.
Example C16_ex_max : fits (repeat 255 (N.to_nat 4086)) /\ ~ fits (repeat 255 (N.to_nat 4087)).
Proof. split; [apply fits_4086 | rewrite fits_4086]; vm_compute; [discriminate | intros H; apply H; reflexivity]. Qed.
Example C16_ex_login_ok : int31 1804289383 /\
  lo_client (login_run 1804289383 0 [112; 119] [112; 119]) = true.
Proof. split; [unfold int31; split; [discriminate | reflexivity] | vm_compute; reflexivity]. Qed.
Example C16_ex_login_prefix : lo_client (login_run 7 0 [112] [112; 119]) = false
  /\ lo_server (login_run 7 0 [112] [112; 119]) = false.
Proof. vm_compute. split; reflexivity. Qed.
(* the hypothesis `int31 id` of C16_login is needed: a client using request id -1 would take the
   server's rejection for success (DialRCON cannot produce it: rand.Int31 is never negative) *)
Example C16_ex_login_needs_int31 : lo_client (login_run (-1) 0 [1] [2]) = true
  /\ lo_server (login_run (-1) 0 [1] [2]) = false.
Proof. vm_compute. split; reflexivity. Qed.
(* a foreign frame in a session: a response under another id is refused *)
Example C16_ex_foreign_resp :
  fst (run_session 7 [ECmd [1]; EAccept; EXS (rcon_write 8 0 [2]); ERecv] {| c2s := []; s2c := []; sid := 7 |})
  = [OSent; OCmd [1]; OSent; OErr].
Proof. vm_compute. reflexivity. Qed.
Example C16_ex_schedule : Forall proto_ev [ECmd [1]; ECmd []; EAccept; EResp [9]; EAccept; ERecv; ERecv]
  /\ fst (run_session 7 [ECmd [1]; ECmd []; EAccept; EResp [9]; EAccept; ERecv; ERecv] {| c2s := []; s2c := []; sid := 7 |})
     = [OSent; OSent; OCmd [1]; OSent; OCmd []; OResp [9]; OErr].
Proof.
  split; [|vm_compute; reflexivity].
  repeat constructor; cbn [proto_ev]; try exact I; apply fits_4086; vm_compute; discriminate.
Qed.

Print Assumptions C16_limit.
Print Assumptions C16_layout.
Print Assumptions C16_roundtrip.
Print Assumptions C16_reader_accepts.
Print Assumptions C16_reject.
Print Assumptions C16_oversize_written_is_rejected.
Print Assumptions C16_truncated.
Print Assumptions C16_total.
Print Assumptions C16_robust.
Print Assumptions C16_self_delimiting.
Print Assumptions C16_stream.
Print Assumptions C16_unique_parse.
Print Assumptions C16_login.
Print Assumptions C16_login_oversize.
Print Assumptions C16_accept_login.
Print Assumptions C16_dial_answer.
Print Assumptions C16_cmd_verbatim.
Print Assumptions C16_resp_iff.
Print Assumptions C16_resp_only_id.
Print Assumptions C16_session.
Print Assumptions C16_login_session.
Print Assumptions C16_session_invariant.
Print Assumptions C16_lockstep.
Print Assumptions C16_pipelined.


(* ======================================================================================================
   Extension: the tie by TRANSLATION (Gen/C16gen.v is regenerated from net/rcon.go by tools/gotrans/c16.go
   on every run) and the parts of net/rcon.go that were outside the model.
   Proofs: Proofs/C16_skel.v (interpreter), C16_skel_sem.v, C16_tie.v, C16_ext.v *)
From GoMC Require Import Base.GoInt Gen.C16gen Model.C16_syntax Model.C16_ext
  Proofs.C16_skel_expected Proofs.C16_skel Proofs.C16_skel_sem Proofs.C16_tie Proofs.C16_ext.

(* ---- the ten function bodies of net/rcon.go (and the fields of RCONConn), statement by statement, are
   the ones the model was written from *)
Theorem C16_skeletons_from_source :
  rcon_ReadPacket = expected_ReadPacket /\ rcon_WritePacket = expected_WritePacket /\
  rcon_Cmd = expected_Cmd /\ rcon_Resp = expected_Resp /\ rcon_AcceptLogin = expected_AcceptLogin /\
  rcon_AcceptCmd = expected_AcceptCmd /\ rcon_RespCmd = expected_RespCmd /\ rcon_DialRCON = expected_DialRCON /\
  rcon_ListenRCON = expected_ListenRCON /\ rcon_Accept = expected_Accept /\
  rcon_conn_fields = expected_conn_fields.
Proof.
  exact (conj ReadPacket_skel_ok (conj WritePacket_skel_ok (conj Cmd_skel_ok (conj Resp_skel_ok
        (conj AcceptLogin_skel_ok (conj AcceptCmd_skel_ok (conj RespCmd_skel_ok (conj DialRCON_skel_ok
        (conj ListenRCON_skel_ok (conj Accept_skel_ok conn_fields_ok)))))))))).
Qed.
(* every transport operation in them is followed at once by its error check *)
Theorem C16_transport_errors_checked :
  forallb (fun f => guarded (f_body f))
    [rcon_ReadPacket; rcon_WritePacket; rcon_Cmd; rcon_Resp; rcon_AcceptLogin; rcon_AcceptCmd; rcon_RespCmd;
     rcon_DialRCON; rcon_ListenRCON; rcon_Accept] = true.
Proof. exact transport_errors_checked. Qed.

(* ---- the model's functions ARE the interpretation of the translated bodies.
   WritePacket: for every id, type and payload (no size hypothesis) *)
Theorem C16_WritePacket_translated : forall id ty pl, sem_WritePacket id ty pl = Some (rcon_write id ty pl).
Proof. exact sem_WritePacket_is_model. Qed.
(* ReadPacket: on every byte string; the interpretation (which has Go's slice, make and Uint32 panics)
   never panics *)
Theorem C16_ReadPacket_translated : forall s, all_bytes s ->
  run_flat (as_dec (bind sem_ReadPacket (fun r => Ret (frame3 r)))) s = run_flat rcon_read s.
Proof. exact ReadPacket_translated. Qed.
Theorem C16_ReadPacket_interpretation_total : forall s, all_bytes s -> ok_or_err (run_flat sem_ReadPacket s).
Proof. exact ReadPacket_interp_total. Qed.
(* the callers, interpreted with the interpretations of ReadPacket / WritePacket as callees *)
Theorem C16_Cmd_translated : forall id c,
  sem 0 rcon_Cmd [VB c] id = Ret {| r_vals := [VE None]; r_reqid := id; r_out := cmd_send id c |}.
Proof. exact sem_Cmd_is_model. Qed.
Theorem C16_RespCmd_translated : forall sid r,
  sem 0 rcon_RespCmd [VB r] sid = Ret {| r_vals := [VE None]; r_reqid := sid; r_out := resp_cmd sid r |}.
Proof. exact sem_RespCmd_is_model. Qed.
Theorem C16_Resp_translated : forall id s, all_bytes s ->
  run_flat (bind (sem 0 rcon_Resp [] id) (view_resp id)) s = run_flat (resp_recv id) s.
Proof. exact sem_Resp_is_model. Qed.
Theorem C16_AcceptLogin_translated : forall pw sid0 s, all_bytes s ->
  run_flat (bind (sem 0 rcon_AcceptLogin [VB pw] sid0) (view_login sid0)) s = run_flat (accept_login pw) s.
Proof. exact sem_AcceptLogin_is_model. Qed.
Theorem C16_AcceptCmd_translated : forall sid0 s, all_bytes s ->
  run_flat (bind (sem 0 rcon_AcceptCmd [] sid0) (view_acmd sid0)) s = run_flat accept_cmd s.
Proof. exact sem_AcceptCmd_is_model. Qed.
Theorem C16_DialRCON_translated : forall id addr pw s, all_bytes s ->
  erase (run_flat (bind (sem id rcon_DialRCON [VB addr; VB pw] 0) (view_dial id pw)) s) =
  erase (run_flat (dial_recv id) s).
Proof. exact sem_DialRCON_is_model. Qed.

(* ---- the integer expressions, translated as in Gen/Funcs.v: the two length checks in source order
   against the translated constant, the payload's upper slice bound, the length WritePacket declares *)
Theorem C16_length_checks_translated : forall L,
  rcon_ReadPacket_cond0 L = (L <? rcon_overhead)%Z /\ rcon_ReadPacket_cond1 L = (rcon_max <? L)%Z /\
  rcon_ReadPacket_make0 L = L /\
  ((rcon_overhead <= L <= rcon_max)%Z ->
   rcon_ReadPacket_bound0 L = (L - 2)%Z /\ Z.to_N (rcon_ReadPacket_bound0 L) - Z.to_N 8 = Z.to_N L - 2 - 8).
Proof.
  intros L. split; [apply tie_read_short|]. split; [apply tie_read_large|]. split; [apply tie_read_make|].
  apply tie_read_payload_end.
Qed.
Theorem C16_declared_length_translated : forall id ty pl,
  takeN 4 (rcon_write id ty pl) = le32 (rcon_WritePacket_item0 (Z.of_N (lenN pl))) /\
  (fits pl -> rcon_WritePacket_item0 (Z.of_N (lenN pl)) = (Z.of_N (lenN pl) + 10)%Z).
Proof. intros id ty pl. split; [apply tie_write_len_prefix | apply tie_write_len_fits]. Qed.

(* ---- the writer has no size check: for every payload below 4 GiB the frame it writes is read back
   iff the payload fits the limit; above it the reader answers "too large", and from 2^31 - 10 bytes on
   "too short" (the declared length has wrapped to a negative int32) *)
Theorem C16_write_then_read_any_length : forall id ty pl rest,
  in_sw 32 id -> in_sw 32 ty -> (Z.of_N (lenN pl) + 10 < 2 ^ 32)%Z ->
  run_flat rcon_read (rcon_write id ty pl ++ rest) =
  if (Z.of_N (lenN pl) + 10 <=? net_MaxRCONPackageSize)%Z then FOk (id, ty, pl) rest
  else if (Z.of_N (lenN pl) + 10 <? 2 ^ 31)%Z then FErr eLarge else FErr eShort.
Proof. exact write_read_any. Qed.
Theorem C16_written_frame_accepted_iff : forall id ty pl rest,
  in_sw 32 id -> in_sw 32 ty -> (Z.of_N (lenN pl) + 10 < 2 ^ 32)%Z ->
  (is_ok (run_flat rcon_read (rcon_write id ty pl ++ rest)) = true <-> fits pl).
Proof. exact write_accepted_iff. Qed.

(* ---- responses of any length: one RespCmd per piece of at most MaxRCONPackageSize - 10 bytes, as many
   Resp calls; the pieces arrive in order and put together are the response.  One RespCmd with a
   response above the limit is refused by the client *)
Theorem C16_multi_packet_response : forall id resp rest, in_sw 32 id ->
  run_flat (recv_n id (List.length (split_resp resp))) (resp_multi id resp ++ rest) = FOk (split_resp resp) rest
  /\ concat (split_resp resp) = resp /\ Forall fits (split_resp resp) /\ split_resp resp <> [].
Proof. exact multi_response. Qed.
Theorem C16_single_long_response_refused : forall id resp rest,
  ~ fits resp -> (Z.of_N (lenN resp) + 10 < 2 ^ 31)%Z ->
  run_flat (resp_recv id) (resp_cmd id resp ++ rest) = FErr eLarge.
Proof. exact single_long_response_refused. Qed.

(* ---- request ids at and across the int32 boundary: an exchange works under ANY int32 id (negative ones
   included) whatever id the server held before; a client that advances its id for every command stays in
   step with the server across 2^31 - 1 -> -2^31 *)
Theorem C16_exchange_any_id : forall id sid0 c r, in_sw 32 id -> fits c -> fits r ->
  run_session id [ECmd c; EAccept; EResp r; ERecv] {| c2s := []; s2c := []; sid := sid0 |} =
  ([OSent; OCmd c; OSent; OResp r], {| c2s := []; s2c := []; sid := id |}).
Proof. exact exchange. Qed.
Theorem C16_request_id_wraps : forall id sid0 ps, in_sw 32 id ->
  Forall (fun p => fits (fst p) /\ fits (snd p)) ps ->
  in_sw 32 (next_id id) /\ next_id 2147483647 = (-2147483648)%Z /\
  fst (incr_lockstep id ps {| c2s := []; s2c := []; sid := sid0 |}) = lockstep_obs ps.
Proof.
  intros id sid0 ps Hi F. split; [apply next_id_range|]. split; [apply next_id_wraps|].
  apply incr_lockstep_ok; assumption.
Qed.

(* ---- several connections accepted from one listener: what is observed on connection i is the run of
   connection i's own events, whatever happens on the others in between; used as the protocol says, every
   connection is the two message queues of the specification *)
Theorem C16_connections_isolated : forall i evs ks k, nth_error ks i = Some k -> m_alive k = true ->
  proj_obs i (run_multi evs ks) = fst (run_session (m_id k) (proj i evs) (m_conn k)).
Proof. intros i evs ks k. apply run_multi_proj. Qed.
Theorem C16_connections_sessions : forall evs ks i k,
  nth_error ks i = Some k -> m_alive k = true -> int31 (m_id k) ->
  m_conn k = {| c2s := []; s2c := []; sid := m_id k |} -> Forall proto_ev (proj i evs) ->
  proj_obs i (run_multi evs ks) = fst (spec_session (proj i evs) {| q_cmd := []; q_resp := [] |}).
Proof. exact multi_sessions. Qed.

(* ---- instances *)
Example C16_ex_interp_write : sem_WritePacket 1 3 [112; 119] = Some [12;0;0;0; 1;0;0;0; 3;0;0;0; 112;119; 0;0].
Proof. vm_compute. reflexivity. Qed.
Example C16_ex_interp_read :
  run_flat sem_ReadPacket [12;0;0;0; 1;0;0;0; 3;0;0;0; 112;119; 0;0; 7] = FOk (1%Z, 3%Z, [112; 119], None) [7].
Proof. vm_compute. reflexivity. Qed.
Example C16_ex_interp_read_short :
  run_flat sem_ReadPacket [9;0;0;0; 1;0;0;0; 3] = FOk (0%Z, 0%Z, [], Some eShort) [1;0;0;0; 3].
Proof. vm_compute. reflexivity. Qed.
Example C16_ex_interp_login_wrong :
  run_flat (sem 0 rcon_AcceptLogin [VB [120]] 5) [12;0;0;0; 1;0;0;0; 3;0;0;0; 112;119; 0;0] =
  FOk {| r_vals := [VE (Some ePassword)]; r_reqid := 1; r_out := rcon_write (-1) 2 [] |} [].
Proof. vm_compute. reflexivity. Qed.
Example C16_ex_declared_wraps : rcon_WritePacket_item0 (2 ^ 31 - 10) = (- 2 ^ 31)%Z.
Proof. exact tie_write_len_wraps. Qed.
Example C16_ex_split : split_resp (fill 10000 7) = [fill 4086 7; fill 4086 7; fill 1828 7]
  /\ split_resp [] = [[]].
Proof. split; vm_compute; reflexivity. Qed.
Example C16_ex_incr :
  fst (incr_lockstep 2147483647 [([1], [2]); ([3], [4])] accepted) = [OSent; OCmd [1]; OSent; OResp [2]; OSent; OCmd [3]; OSent; OResp [4]]
  /\ sid (snd (incr_lockstep 2147483647 [([1], [2]); ([3], [4])] accepted)) = (-2147483648)%Z.
Proof. split; vm_compute; reflexivity. Qed.
Example C16_ex_multi :
  run_multi [(0%nat, ECmd [1]); (1%nat, ECmd [9]); (1%nat, EAccept); (0%nat, EAccept); (1%nat, EResp [8]);
             (0%nat, ERecv); (1%nat, ERecv)]
    [ {| m_id := 5; m_conn := accepted; m_alive := true |}; {| m_id := 6; m_conn := accepted; m_alive := true |} ] =
  [(0%nat, OSent); (1%nat, OSent); (1%nat, OCmd [9]); (0%nat, OCmd [1]); (1%nat, OSent); (0%nat, OErr);
   (1%nat, OResp [8])].
Proof. vm_compute. reflexivity. Qed.

Print Assumptions C16_skeletons_from_source.
Print Assumptions C16_transport_errors_checked.
Print Assumptions C16_WritePacket_translated.
Print Assumptions C16_ReadPacket_translated.
Print Assumptions C16_ReadPacket_interpretation_total.
Print Assumptions C16_Cmd_translated.
Print Assumptions C16_RespCmd_translated.
Print Assumptions C16_Resp_translated.
Print Assumptions C16_AcceptLogin_translated.
Print Assumptions C16_AcceptCmd_translated.
Print Assumptions C16_DialRCON_translated.
Print Assumptions C16_length_checks_translated.
Print Assumptions C16_declared_length_translated.
Print Assumptions C16_write_then_read_any_length.
Print Assumptions C16_written_frame_accepted_iff.
Print Assumptions C16_multi_packet_response.
Print Assumptions C16_single_long_response_refused.
Print Assumptions C16_exchange_any_id.
Print Assumptions C16_request_id_wraps.
Print Assumptions C16_connections_isolated.
Print Assumptions C16_connections_sessions.


(* ======================================================================================================
   Phase 2: ListenRCON / Accept as structured skeletons with their own interpretation *)
From Coq Require Import String.   (* for the string literals below only; List.length is not used from here on *)
(* the struct RCONListener is what was modelled (RCONConn's field list is in C16_skeletons_from_source);
   tools/gotrans/c16.go refuses any other struct type, any package-level variable declared in net/rcon.go
   and any use of a package-level variable inside a translated body *)
Theorem C16_listener_fields_from_source : rcon_listener_fields = expected_listener_fields.
Proof. exact listener_fields_ok. Qed.
(* (RCONListener).Accept, interpreted: an RCONConn around exactly the accepted net.Conn (handle h) with
   ReqID 0 - for every handle; ListenRCON: an RCONListener around exactly the net.Listener *)
Theorem C16_Accept_translated : forall h,
  sem_ctor rcon_Accept h = Some ("RCONConn"%string, [("Conn"%string, FHandle h); ("ReqID"%string, FInt zero_reqid)]).
Proof. exact sem_Accept_is_model. Qed.
Theorem C16_ListenRCON_translated : forall h,
  sem_ctor rcon_ListenRCON h = Some ("RCONListener"%string, [("Listener"%string, FHandle h)]).
Proof. exact sem_ListenRCON_is_model. Qed.
(* as a connection of the model: the `accepted` state; two Accept calls give two different records *)
Theorem C16_accepted_connection : forall h, accept_conn h = Some (h, accepted).
Proof. exact accept_conn_is_model. Qed.
Theorem C16_accepted_own_record : forall h1 h2, h1 <> h2 -> accept_conn h1 <> accept_conn h2.
Proof. exact accept_conn_own_record. Qed.
(* isolation, from the records the translated Accept builds: connection i of a listener (i-th Accept, client
   request id id) shows the run of its own events from the accepted state, whatever the others do *)
Theorem C16_accepted_connections_isolated : forall hids evs i h id, nth_error hids i = Some (h, id) ->
  proj_obs i (run_multi evs (map accepted_mc hids)) = fst (run_session id (proj i evs) accepted).
Proof. exact accepted_isolated. Qed.

Print Assumptions C16_listener_fields_from_source.
Print Assumptions C16_Accept_translated.
Print Assumptions C16_ListenRCON_translated.
Print Assumptions C16_accepted_connection.
Print Assumptions C16_accepted_own_record.
Print Assumptions C16_accepted_connections_isolated.
