(* C17 - text components: property theorems only.  Model: Model/C17.v; proofs: Proofs/C17*.v *)
From Coq Require Import List NArith ZArith.
From GoMC Require Import Base.Bytes Base.Dec Gen.Consts Model.C05 Model.C17
  Proofs.C17 Proofs.C17_rt Proofs.C17_wire Proofs.C17_top.
Import ListNotations.
Open Scope N_scope.

(* tie to the translated tag ids of package nbt *)
Theorem C17_tag_ids :
  (idByte, idShort, idInt, idLong, idFloat, idDouble, idByteArray, idString, idList, idCompound,
   idIntArray, idLongArray, idEnd) = (1, 2, 3, 4, 5, 6, 7, 8, 9, 10, 11, 12, 0).
Proof. exact tag_ids. Qed.

(* ---- round trips on the tree level: EVERY component, both forms.  norm identifies a bare string
   argument with the text-only component it decodes to and is the identity otherwise. *)
Theorem C17_nbt_rt : forall m, of_nbt (to_nbt m) = Some (norm m).
Proof. intros m. apply nbt_tree_rt. Qed.
Theorem C17_json_rt : forall m, of_json (to_json m) = Some (norm m).
Proof. exact json_tree_rt. Qed.
Theorem C17_norm_id : forall m, no_bare m = true -> norm m = m.
Proof. exact norm_id. Qed.
Theorem C17_norm_no_bare : forall m, no_bare (norm m) = true.
Proof. exact norm_no_bare. Qed.

(* ---- the binary layer: the reader written from the NBT grammar inverts the textbook encoder on
   every well-formed tree, consumes exactly the encoding and leaves what follows untouched *)
Theorem C17_reader_inverts_encoder : forall t rest, wf_tag t = true ->
  dec_net (enc_net t ++ rest) = Some (t, rest).
Proof. exact dec_net_enc. Qed.

(* ---- the wire image of Message.WriteTo is ONE well-formed network-format value, a compound with
   exactly the expected keys; Message.ReadFrom of it returns the component and leaves the rest.
   Guard msg_ok: strings < 2^15 bytes (the int16 length prefix), lists < 2^31 (the int32 count) - nothing
   else: an argument list mixing strings and components (the former finding C17.nbt.mixed-args, repaired
   in /repo) is inside the guard. *)
Theorem C17_wire_wellformed : forall m rest, msg_ok m = true ->
  wf_tag (to_nbt m) = true /\
  dec_net (wire m ++ rest) = Some (TComp (fields_of (is_nil (m_translate m)) m), rest) /\
  map fst (fields_of (is_nil (m_translate m)) m) = expected_keys (is_nil (m_translate m)) m.
Proof.
  intros m rest H. split; [apply wf_to_nbt; exact H|]. split; [apply wire_wf; exact H | apply wire_keys].
Qed.
Theorem C17_wire_rt : forall m rest, msg_ok m = true ->
  msg_read (wire m ++ rest) = Some (norm m, rest).
Proof. exact wire_rt. Qed.
Theorem C17_wire_encodes : forall m, msg_ok m = true -> wire_opt m = Some (wire m).
Proof. exact wire_opt_ok. Qed.
(* a mixed argument list is written as a list of compounds: the components as they are, a bare string z
   as the text-only component {text: z} (what vanilla writes, and what norm identifies z with) *)
Theorem C17_wire_mixed_args : forall ft t s h tr w e, mixed_args w = true ->
  In (k_with, TList idCompound (map arg_comp_tag w)) (fields_of ft (Msg t s h tr w e)).
Proof. exact wire_mixed_image. Qed.
Theorem C17_forms_agree : forall m, msg_ok m = true ->
  match msg_read (wire m) with Some (x, _) => Some x | None => None end = of_json (to_json m).
Proof. exact forms_agree. Qed.

(* ---- accepted shapes: bare string, list (of strings, of components), compound (the round trips) *)
Theorem C17_accepts_nbt : forall s l ms rest, str_ok s = true ->
  msg_read (enc_net (TStr s) ++ rest) = Some (text_msg s, rest) /\
  of_nbt (TList idString (map TStr l)) = Some (Msg [] style0 None [] [] (map text_msg l)) /\
  of_nbt (TList idCompound (map (fun m => TComp (fields_of true m)) ms))
    = Some (Msg [] style0 None [] [] (map norm ms)).
Proof.
  intros s l ms rest H. split; [apply accepts_nbt_string_wire; exact H|].
  split; [apply accepts_nbt_strings | apply accepts_nbt_list].
Qed.
Theorem C17_accepts_json : forall s l ms,
  of_json (JStr s) = Some (text_msg s) /\
  of_json (JArr (map JStr l)) = Some (Msg [] style0 None [] [] (map text_msg l)) /\
  of_json (JArr (map to_json ms)) = Some (Msg [] style0 None [] [] (map norm ms)).
Proof.
  intros s l ms. split; [apply accepts_json_string|].
  split; [apply accepts_json_strings | apply accepts_json_list].
Qed.

(* ---- chat.Type header: VarInt id, sender, flag, optional target; any following bytes untouched *)
Theorem C17_type_rt : forall id sender target rest, in_sw 32 id -> msg_ok sender = true ->
  match target with Some t => msg_ok t = true | None => True end ->
  type_read (type_write id sender target ++ rest)
  = Some (id, norm sender, match target with Some t => Some (norm t) | None => None end, rest).
Proof. exact type_rt. Qed.
Theorem C17_type_encodes : forall id sender target, msg_ok sender = true ->
  match target with Some t => msg_ok t = true | None => True end ->
  type_write_opt id sender target = Some (type_write id sender target).
Proof. exact type_write_opt_ok. Qed.

(* ---- plain rendering: one left-to-right pass that deletes every occurrence of a code of the
   library's table and nothing else *)
Theorem C17_strip_removes : forall a c bb, code_lookup c fmt_code <> None ->
  strip (a ++ [sect1; sect2; c] ++ bb) = strip a ++ strip bb.
Proof. exact strip_removes. Qed.
Theorem C17_strip_keeps : forall s, code_free s = true -> strip s = s.
Proof. exact strip_keeps. Qed.
Theorem C17_strip_length : forall s, (length (strip s) + 3 * count_codes s = length s)%nat.
Proof. exact strip_length. Qed.
(* the pass is single: a code can be formed by juxtaposition (as in the vanilla client's own
   stripFormatting); "no code survives" is NOT claimed *)
Theorem C17_strip_code_free_refuted : exists s, code_free (strip s) = false.
Proof. exact strip_survivor. Qed.

(* ---- translation arguments are substituted in order *)
Theorem C17_sprintf_subst : forall ps (args : list farg), lit_clean ps = true ->
  count_args ps = length args -> sprintf (render_fmt ps) args = ROk (subst ps (map snd args)).
Proof. exact sprintf_subst. Qed.
Theorem C17_clear_translate : forall tbl t st h key args ps outs,
  key <> [] -> assoc key tbl = render_fmt ps -> lit_clean ps = true ->
  count_args ps = length args -> Forall2 (arg_plain tbl) args outs ->
  clear_string tbl (Msg t st h key args []) = ROk (strip t ++ subst ps outs).
Proof. exact clear_translate. Qed.
Theorem C17_clear_text_extra : forall tbl t st h e outs,
  Forall2 (fun m s => clear_string tbl m = ROk s) e outs ->
  clear_string tbl (Msg t st h [] [] e) = ROk (strip t ++ concat outs).
Proof. exact clear_extra. Qed.

(* ---- rendering never panics: every component, every translation table *)
Theorem C17_clear_total : forall tbl m, clear_string tbl m <> RCrash.
Proof. exact clear_string_nc. Qed.
Theorem C17_ansi_total : forall tbl m, ansi_string tbl m <> RCrash.
Proof. exact ansi_string_nc. Qed.

(* ---- non-vacuity *)
Definition ex_msg : msg :=
  Msg [104;105] (mkStyle true false false false false [] [114;101;100] [] (Some ([97], [98])))
      (Some ([115], text_msg [104])) [107;50] [AM (text_msg [120]); AM (text_msg [121])]
      [Msg [] style0 None [107;48] [] []].
Example C17_ex_ok : msg_ok ex_msg = true /\ no_bare ex_msg = true.
Proof. split; vm_compute; reflexivity. Qed.
(* the counter-example of the former finding (With: {"x", Text("y")}): inside the guard, written, read
   back to the normalised component, and in agreement with the JSON form *)
Example C17_ex_mixed :
  mixed_args (m_with mixed_witness) = true /\ msg_ok mixed_witness = true /\
  wire_opt mixed_witness = Some (wire mixed_witness) /\
  msg_read (wire mixed_witness) = Some (norm mixed_witness, []) /\
  of_json (to_json mixed_witness) = Some (norm mixed_witness).
Proof. exact wire_mixed_witness. Qed.
Example C17_ex_type : in_sw 32 300 /\ type_read (type_write 300 ex_msg (Some (text_msg [116])))
                                      = Some (300%Z, ex_msg, Some (text_msg [116]), []).
Proof. split; [unfold in_sw; simpl; split; [discriminate|reflexivity] | vm_compute; reflexivity]. Qed.
Example C17_ex_clear :
  clear_string [([107;50], [97;32;37;115;32;98;32;37;115])] ex_msg
  = ROk [104;105; 97;32;120;32;98;32;121].
Proof. vm_compute. reflexivity. Qed.
Example C17_ex_fmt : lit_clean [PLit [97;32]; PArg; PLit [32;98;32]; PArg] = true
  /\ render_fmt [PLit [97;32]; PArg; PLit [32;98;32]; PArg] = [97;32;37;115;32;98;32;37;115].
Proof. split; reflexivity. Qed.

Print Assumptions C17_tag_ids.
Print Assumptions C17_nbt_rt.
Print Assumptions C17_json_rt.
Print Assumptions C17_norm_id.
Print Assumptions C17_norm_no_bare.
Print Assumptions C17_reader_inverts_encoder.
Print Assumptions C17_wire_wellformed.
Print Assumptions C17_wire_rt.
Print Assumptions C17_wire_encodes.
Print Assumptions C17_wire_mixed_args.
Print Assumptions C17_forms_agree.
Print Assumptions C17_accepts_nbt.
Print Assumptions C17_accepts_json.
Print Assumptions C17_type_rt.
Print Assumptions C17_type_encodes.
Print Assumptions C17_strip_removes.
Print Assumptions C17_strip_keeps.
Print Assumptions C17_strip_length.
Print Assumptions C17_strip_code_free_refuted.
Print Assumptions C17_sprintf_subst.
Print Assumptions C17_clear_translate.
Print Assumptions C17_clear_text_extra.
Print Assumptions C17_clear_total.
Print Assumptions C17_ansi_total.

(* ================================================================================================
   The tie by TRANSLATION (tools/gotrans/c17.go -> Gen/C17gen.v, regenerated from /repo on every run).
   Proofs: Proofs/C17_tie.v (tables), Proofs/C17_skel.v (skeletons); recorded copy Proofs/C17_expected.v.
   ================================================================================================ *)
From GoMC Require Import Gen.C17gen Model.C17_syntax Proofs.C17_expected Proofs.C17_tie Proofs.C17_skel.

(* ---- what the translator renders from package chat is what was recorded when the model was written:
   8 struct tag tables (ordered rows: Go field, json key, json omitempty, nbt key, nbt omitempty, Go type), the
   defined types, the fmtCode / colors literals, the fmtPat pattern, 18 function bodies with their signatures *)
Theorem C17_source_is_recorded :
  (chat_Message_fields, chat_translateMsg_fields, chat_ClickEvent_fields, chat_HoverEvent_fields, chat_HoverSub_fields,
   chat_Decoration_Style_fields, chat_Decoration_fields, chat_Type_fields, chat_type_defs)
  = (expected_Message_fields, expected_translateMsg_fields, expected_ClickEvent_fields, expected_HoverEvent_fields,
     expected_HoverSub_fields, expected_Decoration_Style_fields, expected_Decoration_fields, expected_Type_fields,
     expected_type_defs)
  /\ (chat_fmtCode, chat_colors, chat_fmtPat) = (expected_fmtCode, expected_colors, expected_fmtPat)
  /\ [chat_Text; chat_Message_ClearString; chat_Message_String; chat_TransCtrlSeq; chat_Message_ReadFrom;
      chat_Message_WriteTo; chat_Message_TagType; chat_Message_MarshalNBT; chat_nbtArgs; chat_Message_UnmarshalNBT;
      chat_TranslateArgs_UnmarshalNBT; chat_JsonMessage_ReadFrom; chat_JsonMessage_WriteTo; chat_Message_MarshalJSON;
      chat_Message_UnmarshalJSON; chat_TranslateArgs_UnmarshalJSON; chat_Type_ReadFrom; chat_Type_WriteTo]
     = [expected_Text; expected_Message_ClearString; expected_Message_String; expected_TransCtrlSeq;
        expected_Message_ReadFrom; expected_Message_WriteTo; expected_Message_TagType; expected_Message_MarshalNBT;
        expected_nbtArgs; expected_Message_UnmarshalNBT; expected_TranslateArgs_UnmarshalNBT;
        expected_JsonMessage_ReadFrom; expected_JsonMessage_WriteTo; expected_Message_MarshalJSON;
        expected_Message_UnmarshalJSON; expected_TranslateArgs_UnmarshalJSON; expected_Type_ReadFrom;
        expected_Type_WriteTo].
Proof. exact all_skel_ok. Qed.

(* ---- the rendering tables of the model ARE the translated literals (source order); every code of fmtCode
   lies in the character class of the translated fmtPat, whose matches are the section sign and one byte *)
Theorem C17_tables_translated :
  fmt_code = chat_fmtCode /\ colors = chat_colors
  /\ forallb (fun kv => class_matches chat_fmtPat (fst kv)) fmt_code = true
  /\ firstn 7 chat_fmtPat = [40; 63; 105; 41; sect1; sect2; 91].
Proof. exact tables_translated. Qed.

(* ---- the struct tag tables: the model's field list of EVERY component is the table-driven encoding of the
   translated rows, in row order (nbt key, nbt omitempty, Go type of each row; Message for rawMsgStruct,
   translateMsg when Translate is set), after nbtArgs normalised the copy's argument list; likewise the JSON
   form with the json key / json omitempty of the same rows *)
Theorem C17_struct_table_nbt : forall (ft : bool) (m : msg),
  nbt_rows self_fields chat_ClickEvent_fields chat_HoverEvent_fields
    (if ft then chat_Message_fields else chat_translateMsg_fields)
    (msg_field (set_with (nbt_args (m_with m)) m))
  = Some (fields_of ft m).
Proof. exact fields_of_is_table. Qed.
Theorem C17_struct_table_json : forall m,
  option_map JObj
    (json_rows to_json chat_ClickEvent_fields chat_HoverEvent_fields
       (if is_nil (m_translate m) then chat_Message_fields else chat_translateMsg_fields) (msg_field m))
  = Some (to_json m).
Proof. exact to_json_is_table. Qed.
Theorem C17_struct_keys :
  map (fun r => bs (f_nbt r)) chat_Message_fields
  = [k_text; k_bold; k_italic; k_underlined; k_strike; k_obf; k_font; k_color; k_insertion; k_click; k_hover;
     k_translate; k_with; k_extra]
  /\ map (fun r => bs (f_nbt r)) chat_ClickEvent_fields = [k_action; k_value]
  /\ map (fun r => bs (f_nbt r)) chat_HoverEvent_fields = [k_action; k_contents; k_value].
Proof. exact nbt_keys_translated. Qed.

(* ---- interpretation of the translated bodies: the model's functions ARE what the skeletons say *)
(* Message.UnmarshalJSON: dispatch on the first byte (double quote: string, brace: object, bracket: array, anything
   else: an error) *)
Theorem C17_json_dispatch_skeleton : forall m0 j c, In c (first_bytes j) ->
  of_json_into m0 j = apply_jtarget (jd_run (snd chat_Message_UnmarshalJSON) c) m0 j.
Proof. exact json_dispatch_is_skel. Qed.
(* Message.UnmarshalNBT: dispatch on the tag type (TagString, TagCompound, TagList, anything else an error) *)
Theorem C17_nbt_dispatch_skeleton : forall m0 t, head_ok t ->
  of_tag_into m0 t = apply_ntarget (nd_run (snd chat_Message_UnmarshalNBT) (tag_id t)) m0 t.
Proof. exact nbt_dispatch_is_skel. Qed.
(* TranslateArgs.UnmarshalNBT / UnmarshalJSON: what the "with" key appends *)
Theorem C17_with_decode_skeleton : forall rec m v r, head_ok v ->
  msg_fields rec m ((k_with, v) :: r)
  = match apply_akind rec (ad_run (snd chat_TranslateArgs_UnmarshalNBT) (tag_id v)) v with
    | Some l => msg_fields rec (set_with (m_with m ++ l) m) r
    | None => None
    end.
Proof. exact with_decode_is_skel. Qed.
Theorem C17_with_json_skeleton : forall rec m v r,
  jmsg_fields rec m ((k_with, v) :: r)
  = match apply_jargs (aj_run (snd chat_TranslateArgs_UnmarshalJSON)) rec v with
    | Some l => jmsg_fields rec (set_with (m_with m ++ l) m) r
    | None => None
    end.
Proof. exact with_json_is_skel. Qed.
(* nbtArgs: the loop, its type switch, the counter and the final test compute the model's normalisation *)
Theorem C17_nbt_args_skeleton : forall w, na_run (snd chat_nbtArgs) w = Some (nbt_args w).
Proof. exact nbt_args_is_skel. Qed.
(* Message.MarshalNBT: normalise the copy's arguments, choose the struct by Translate, encode its rows *)
Theorem C17_marshal_nbt_skeleton : forall m,
  mn_run (snd chat_Message_MarshalNBT) m None = Some (fields_of (is_nil (m_translate m)) m).
Proof. exact marshal_nbt_is_skel. Qed.
Theorem C17_marshal_json_skeleton : forall m, mj_run (snd chat_Message_MarshalJSON) m = Some (to_json m).
Proof. exact marshal_json_is_skel. Qed.
(* Message.WriteTo = pk.NBT(&m): the TagType byte, then the MarshalNBT payload *)
Theorem C17_wire_skeleton : forall m, wire_run m = Some (wire m).
Proof. exact wire_is_skel. Qed.
(* Type.WriteTo / ReadFrom: the order of the four fields, the flag, and the byte counts every return reports *)
Theorem C17_type_write_skeleton : forall id sender target,
  tw_run id sender target 20 (snd chat_Type_WriteTo) [] [] = Some (type_write id sender target).
Proof. exact type_write_is_skel. Qed.
Theorem C17_type_read_skeleton : forall s,
  tr_result (tr_run 20 (snd chat_Type_ReadFrom) []
               {| r_in := s; r_id := None; r_sender := None; r_flag := None; r_target := None |})
  = type_read s.
Proof. exact type_read_is_skel. Qed.
(* TransCtrlSeq's callback: str[2] looked up in fmtCode; ANSI sequence / nothing / the match itself *)
Theorem C17_trans_ctrl_skeleton : forall ansi e r2,
  match cb_run (snd chat_TransCtrlSeq) ansi e with
  | Some (rep, chg) =>
      (code_lookup e fmt_code <> None ->
         trans_ctrl ansi (sect1 :: sect2 :: e :: r2)
         = (rep ++ fst (trans_ctrl ansi r2), chg || snd (trans_ctrl ansi r2))%bool)
      /\ (code_lookup e fmt_code = None -> rep = [sect1; sect2; e] /\ chg = false)
  | None => False
  end.
Proof. exact trans_ctrl_is_skel. Qed.
(* Message.ClearString: the writes to the builder in statement order: text, translate with its arguments
   (each rendered by the clause of its dynamic type), extra *)
Theorem C17_clear_string_skeleton : forall tbl m,
  option_map rconcat
    (cs_run tbl (clear_string tbl) (snd chat_Message_ClearString) m {| c_text := None; c_pieces := [] |})
  = Some (clear_string tbl m).
Proof. exact clear_string_is_skel. Qed.

Print Assumptions C17_source_is_recorded.
Print Assumptions C17_tables_translated.
Print Assumptions C17_struct_table_nbt.
Print Assumptions C17_struct_table_json.
Print Assumptions C17_struct_keys.
Print Assumptions C17_json_dispatch_skeleton.
Print Assumptions C17_nbt_dispatch_skeleton.
Print Assumptions C17_with_decode_skeleton.
Print Assumptions C17_with_json_skeleton.
Print Assumptions C17_nbt_args_skeleton.
Print Assumptions C17_marshal_nbt_skeleton.
Print Assumptions C17_marshal_json_skeleton.
Print Assumptions C17_wire_skeleton.
Print Assumptions C17_type_write_skeleton.
Print Assumptions C17_type_read_skeleton.
Print Assumptions C17_trans_ctrl_skeleton.
Print Assumptions C17_clear_string_skeleton.

(* ---- explicit argument indexes (%[n]s: what the library's language files carry where vanilla has %1$s):
   the named argument is substituted, a following %s continues behind it; left-over arguments are reported
   only when no index was used.  Guards: literals free of %, every named argument exists, one-digit indexes. *)
From GoMC Require Import Proofs.C17_fmt.
Theorem C17_sprintf_index : forall ps (args : list farg), lit_clean2 ps = true ->
  refs_ok ps (length args) 0 = true ->
  sprintf (render_fmt2 ps) args
  = ROk (subst2 ps (map snd args) 0 ++ end_tail args (final_k ps 0) (uses_idx ps)).
Proof. exact sprintf_index0. Qed.
(* an index outside the argument list, %d of a string, a lone % at the end are reported in the output *)
Theorem C17_sprintf_reports :
  sprintf [37;91;51;93;115;33] [(false, [97])] = ROk ([37;33;115;40;66;65;68;73;78;68;69;88;41] ++ [33])
  /\ sprintf [37;100] [(false, [97])] = ROk ([37;33;100;40;115;116;114;105;110;103;61;97;41])
  /\ sprintf [104;105;32;37] [] = ROk ([104;105;32] ++ [37;33;40;78;79;86;69;82;66;41]).
Proof. exact sprintf_reports. Qed.
(* "%[2]s hit %[1]s" with two arguments: the second, then the first, nothing reported as left over *)
Example C17_ex_index :
  lit_clean2 [QIdx 1; QLit [32;104;105;116;32]; QIdx 0] = true
  /\ refs_ok [QIdx 1; QLit [32;104;105;116;32]; QIdx 0] 2 0 = true
  /\ render_fmt2 [QIdx 1; QLit [32;104;105;116;32]; QIdx 0] = [37;91;50;93;115;32;104;105;116;32;37;91;49;93;115]
  /\ sprintf [37;91;50;93;115;32;104;105;116;32;37;91;49;93;115] [(false, [97]); (true, [98])]
     = ROk [98;32;104;105;116;32;97].
Proof. repeat split; reflexivity. Qed.

Print Assumptions C17_sprintf_index.
Print Assumptions C17_sprintf_reports.

(* ================================================================================================
   Phase 5: Message.String, the bounds guard of its slice, totality of the translated renderers
   ================================================================================================ *)
(* Message.String: the format builder (the four flag tests in order, the colour looked up in the TRANSLATED colors
   table), the `format.Len() > 0` guard and the [:format.Len()-1] slice (a panic outcome when the builder is empty),
   text, translate with its arguments, extra, the closing reset - the writes to the builder in statement order
   are the model's ANSI renderer, for every component and table *)
Theorem C17_string_skeleton : forall tbl m,
  option_map rconcat
    (as_run tbl (ansi_string tbl) (snd chat_Message_String) m {| a_fmt := []; a_text := None; a_pieces := [] |})
  = Some (ansi_string tbl m).
Proof. exact ansi_string_is_skel. Qed.
(* the index / slice expressions of ClearString, String and TransCtrlSeq with their enclosing conditions are the
   recorded ones; String has exactly one slice, of the whole builder, inside a guard under which its high bound
   lies in 0 .. len; every other site is a map lookup, an index inside a range over the indexed operand, or
   str[2] inside the callback of a three-byte match *)
Theorem C17_render_sites_recorded : chat_render_sites = expected_render_sites.
Proof. exact render_sites_skel_ok. Qed.
From Coq Require Import String.
Theorem C17_string_slice_guarded :
  exists st, string_slices = [st] /\ st_x st = "format.String()"%string /\ st_lo st = ""%string /\ st_guards st <> []
    /\ forallb (fun g => match guard_len g 0 with Some _ => true | None => false end) (st_guards st) = true
    /\ forall len, (0 <= len)%Z ->
         forallb (fun g => match guard_len g len with Some b => b | None => false end) (st_guards st) = true ->
         exists hi, hi_len (st_hi st) len = Some hi /\ (0 <= hi <= len)%Z.
Proof. exact string_slice_guarded. Qed.
Theorem C17_render_sites_classified :
  forallb (fun s => match site_class s with Some _ => true | None => false end) chat_render_sites = true.
Proof. exact render_sites_classified. Qed.
(* rendering never panics, for the TRANSLATED bodies: their interpretation is defined and is not a panic, for
   every component and every translation table *)
Theorem C17_render_total_translated : forall tbl m,
  option_map rconcat
    (as_run tbl (ansi_string tbl) (snd chat_Message_String) m {| a_fmt := []; a_text := None; a_pieces := [] |})
  <> Some RCrash
  /\ option_map rconcat
       (cs_run tbl (clear_string tbl) (snd chat_Message_ClearString) m {| c_text := None; c_pieces := [] |})
     <> Some RCrash
  /\ option_map rconcat
       (as_run tbl (ansi_string tbl) (snd chat_Message_String) m {| a_fmt := []; a_text := None; a_pieces := [] |})
     <> None
  /\ option_map rconcat
       (cs_run tbl (clear_string tbl) (snd chat_Message_ClearString) m {| c_text := None; c_pieces := [] |})
     <> None.
Proof. exact render_total_translated. Qed.

Print Assumptions C17_string_skeleton.
Print Assumptions C17_render_sites_recorded.
Print Assumptions C17_string_slice_guarded.
Print Assumptions C17_render_sites_classified.
Print Assumptions C17_render_total_translated.

(* ---- HoverEvent.Contents non-nil, JSON form (separate small model Model/C17_hover.v): every Go value of the
   universe encoding/json decodes an interface into (nil, bool, integral float64, string, []any, map[string]any;
   a map represented by its sorted duplicate-free association list: canon) survives Marshal / Unmarshal, and so
   does the hover event carrying it (action, contents, value normalised like every component) *)
From GoMC Require Import Model.C17_hover Proofs.C17_hover.
Theorem C17_any_rt : forall c, canon c = true -> dec_any (enc_any c) = c.
Proof. exact any_rt. Qed.
Theorem C17_hover_contents_rt : forall a c v, canon c = true ->
  hover_of_json (hover_to_json a c v) = Some (a, c, norm v).
Proof. exact hover_json_rt. Qed.
Example C17_ex_contents :
  canon (CObj [([97], CArr [CNum 1; CNull]); ([98], CStr [120])]) = true
  /\ dec_any (JObj [([98], JNum 1); ([97], JNull); ([98], JStr [120])]) = CObj [([97], CNull); ([98], CStr [120])].
Proof. split; reflexivity. Qed.

Print Assumptions C17_any_rt.
Print Assumptions C17_hover_contents_rt.

(* ================================================================================================
   Last wave: the remaining bodies, and the closing theorem
   ================================================================================================ *)
(* Text(str) is the text-only component *)
Theorem C17_text_skeleton : forall s, text_run (snd chat_Text) s = Some (text_msg s).
Proof. exact (fun s => proj1 (text_is_skel s)). Qed.
(* JsonMessage.WriteTo / ReadFrom: pk.String of the JSON text.  For ANY text layer and string codec that round-trip
   (encoding/json is trusted; pk.String is property C06's subject), the interpretation of the translated WriteTo
   writes the string of the text of to_json m, and the interpretation of the translated ReadFrom gives the
   component back and leaves the following bytes *)
Theorem C17_json_wire_skeleton :
  forall (text_of : json -> list N) (parse : list N -> option json)
         (str_write : list N -> list N) (str_read : list N -> option (list N * list N)),
  (forall j, parse (text_of j) = Some j) ->
  (forall s rest, str_read (str_write s ++ rest) = Some (s, rest)) ->
  forall m rest,
  jw_run text_of str_write (snd chat_JsonMessage_WriteTo) m = Some (str_write (text_of (to_json m)))
  /\ jr_run parse str_read (snd chat_JsonMessage_ReadFrom) (str_write (text_of (to_json m)) ++ rest)
     = Some (norm m, rest).
Proof.
  intros text_of parse str_write str_read H1 H2 m rest. split.
  - exact (json_write_is_skel text_of str_write m).
  - exact (json_wire_rt text_of parse str_write str_read H1 H2 m rest _ (json_write_is_skel text_of str_write m)).
Qed.
(* every function of chat/message.go, nbtmessage.go, jsonmessage.go and decoration.go (the list is regenerated from
   the source on every run) is one of five named helpers outside the property's text (Append, SetColor,
   TranslateMsg, SetLanguage, Decorate) or is, in source order, the name of an entry of `covered`, whose entries
   carry the PROOF of the function's interpretation lemma: a function added without a lemma breaks this *)
Theorem C17_every_body_interpreted :
  filter (fun n => negb (mem_str n helpers)) chat_all_funcs = map c_name covered
  /\ forallb (fun h => mem_str h chat_all_funcs) helpers = true.
Proof. exact every_body_interpreted. Qed.
Example C17_ex_covered : List.length covered = 18%nat /\ List.length chat_all_funcs = 23%nat /\ Forall (fun c => c_stmt c) covered.
Proof. split; [reflexivity|split; [reflexivity|]]. apply Forall_forall. intros c _. exact (c_proof c). Qed.

Print Assumptions C17_text_skeleton.
Print Assumptions C17_json_wire_skeleton.
Print Assumptions C17_every_body_interpreted.

(* ================================================================================================
   Extra wave (Proofs/C17_scan.v): TransCtrlSeq's scan over every position, what strip deletes by position and
   at the boundaries, ClearString through with / extra, Text and Translate together
   ================================================================================================ *)
From GoMC Require Import Proofs.C17_scan.
(* TransCtrlSeq, the WHOLE translated body: ReplaceAllStringFunc over the translated fmtPat (section sign + one byte
   of the class parsed from the pattern; leftmost non-overlapping matches) with the translated callback, `change`
   the disjunction over the callback runs - for every string and both modes it is the model's trans_ctrl *)
Theorem C17_trans_ctrl_scan_skeleton : forall ansi s,
  tcs_run (snd chat_TransCtrlSeq) ansi s = Some (trans_ctrl ansi s).
Proof. exact trans_ctrl_is_scan. Qed.
(* every position: the byte at position i is deleted iff a code of the table starts at position i-2, i-1 or i *)
Theorem C17_strip_positions : forall s,
  strip s = select (map (deleted s) (seq 0 (List.length s))) s.
Proof. exact strip_positions. Qed.
(* boundaries: a string that is just a code; a code as the last three bytes; a run of consecutive codes anywhere
   (a = [] : at the start, b = [] : at the end); a lone or truncated section sign at the end is kept *)
Theorem C17_strip_boundaries : forall a b c cs, code_lookup c fmt_code <> None ->
  Forall (fun x => code_lookup x fmt_code <> None) cs ->
  strip [sect1; sect2; c] = []
  /\ strip (a ++ [sect1; sect2; c]) = strip a
  /\ strip (a ++ flat_map code_bytes (c :: cs) ++ b) = strip a ++ strip b
  /\ strip (a ++ [sect1; sect2]) = strip a ++ [sect1; sect2]
  /\ strip (a ++ [sect1]) = strip a ++ [sect1]
  /\ strip [sect1; sect2] = [sect1; sect2].
Proof.
  intros a b c cs Hc Hcs. split; [exact (strip_only_code c Hc)|]. split; [exact (strip_code_last a c Hc)|].
  split; [exact (strip_code_run cs Hcs c a b Hc) | exact (strip_lone_sign a)].
Qed.
(* a suffix whose first byte can complete no code does not interact with the prefix *)
Theorem C17_strip_app_safe : forall a b, safe_head b -> strip (a ++ b) = strip a ++ strip b.
Proof. exact strip_app_safe. Qed.
(* the class of fmtPat is larger than fmtCode: section sign + k, K, A-F, L-O, R is matched by the pattern, has no
   entry in the table and is KEPT by the plain renderer (the reading fixed in DESIGN 3/C17: formatting codes are
   those of the library's own table; recorded here so that the gap is a theorem, not a comment) *)
Theorem C17_strip_class_larger_than_table :
  forallb (fun e => (class_matches chat_fmtPat e
                     && match code_lookup e fmt_code with None => true | Some _ => false end
                     && str_eqb (strip [120; sect1; sect2; e; 121]) [120; sect1; sect2; e; 121])%bool)
          [107; 75; 65; 66; 67; 68; 69; 70; 76; 77; 78; 79; 82] = true.
Proof. exact strip_class_survivor. Qed.
(* the plain rendering of ANY component is the code-free renderer applied to the component whose every rendered
   string - Text and bare string arguments, through with and extra, at any depth - went through strip *)
Theorem C17_clear_strips_every_string : forall tbl m, clear_string tbl m = raw_string tbl (strip_msg m).
Proof. exact clear_is_raw_of_stripped. Qed.
(* Message.ClearString with its recursion closed: the interpreter of the translated body, calling ITSELF for
   v.ClearString() and m.Extra[i].ClearString(), is the model's renderer once the fuel covers the nesting depth *)
Theorem C17_clear_string_deep_skeleton : forall tbl fuel m, (rdepth m <= fuel)%nat ->
  clear_deep tbl fuel m = clear_string tbl m.
Proof. exact clear_deep_is_model. Qed.
(* a component with BOTH Text and Translate: the interpretation of the translated MarshalNBT / MarshalJSON writes
   both keys with both values, and both survive the tree round trips and the wire *)
Theorem C17_text_and_translate : forall m, m_text m <> [] -> m_translate m <> [] ->
  (exists fs, mn_run (snd chat_Message_MarshalNBT) m None = Some fs
     /\ In (k_text, TStr (m_text m)) fs /\ In (k_translate, TStr (m_translate m)) fs)
  /\ (exists fs, mj_run (snd chat_Message_MarshalJSON) m = Some (JObj fs)
     /\ In (k_text, JStr (m_text m)) fs /\ In (k_translate, JStr (m_translate m)) fs)
  /\ (exists m', of_nbt (to_nbt m) = Some m' /\ m_text m' = m_text m /\ m_translate m' = m_translate m)
  /\ (exists m', of_json (to_json m) = Some m' /\ m_text m' = m_text m /\ m_translate m' = m_translate m)
  /\ (msg_ok m = true -> forall rest, exists m',
        msg_read (wire m ++ rest) = Some (m', rest) /\ m_text m' = m_text m /\ m_translate m' = m_translate m).
Proof. exact text_and_translate. Qed.
(* the conversions rawMsgStruct(m) / translateMsg(m) / Message(JsonMessage) name, through the TRANSLATED type
   definitions, the structs whose tag tables the marshal interpreters use *)
Theorem C17_conversions_resolved :
  encode_table "err = enc.Encode(rawMsgStruct(m), """")"%string = conv_table "rawMsgStruct"%string
  /\ encode_table "err = enc.Encode(translateMsg(m), """")"%string = conv_table "translateMsg"%string
  /\ json_table "json.Marshal(rawMsgStruct(m))"%string = conv_table "rawMsgStruct"%string
  /\ json_table "json.Marshal(translateMsg(m))"%string = conv_table "translateMsg"%string
  /\ conv_table "JsonMessage"%string = Some chat_Message_fields
  /\ conv_table "rawMsgStruct"%string = Some chat_Message_fields.
Proof. exact conversions_resolved. Qed.
Example C17_ex_scan :
  safe_head [sect1; sect2] /\ rdepth ex_msg = 2%nat
  /\ m_text ex_msg <> [] /\ m_translate ex_msg <> [] /\ msg_ok ex_msg = true
  /\ Forall (fun x => code_lookup x fmt_code <> None) [114; 108; 48]
  /\ strip ([120] ++ flat_map code_bytes [114; 108; 48] ++ [121]) = [120; 121]
  /\ tcs_run (snd chat_TransCtrlSeq) false [sect1; sect2; 97; sect1; sect2; 75; sect1; sect2] = Some ([sect1; sect2; 75; sect1; sect2], false).
Proof.
  split; [split; [discriminate | reflexivity]|]. split; [reflexivity|]. split; [discriminate|]. split; [discriminate|].
  split; [vm_compute; reflexivity|]. split; [repeat constructor; discriminate|]. split; vm_compute; reflexivity.
Qed.

Print Assumptions C17_trans_ctrl_scan_skeleton.
Print Assumptions C17_strip_positions.
Print Assumptions C17_strip_boundaries.
Print Assumptions C17_strip_app_safe.
Print Assumptions C17_strip_class_larger_than_table.
Print Assumptions C17_clear_strips_every_string.
Print Assumptions C17_clear_string_deep_skeleton.
Print Assumptions C17_text_and_translate.
Print Assumptions C17_conversions_resolved.
