(* C17 - text components: property theorems only.  Model: Model/C17.v; proofs: Proofs/C17*.v *)
From Coq Require Import List NArith ZArith.
From GoMC Require Import Base.Bytes Base.Dec Gen.Consts Model.C05 Model.C17 Proofs.C17.
Import ListNotations.
Open Scope N_scope.

Theorem C17_accepts_nbt_string : forall s, of_nbt (TStr s) = Some (text_msg s).
Proof. exact accepts_string. Qed.

Print Assumptions C17_accepts_nbt_string.
