(* C17 - text components: property theorems only.  Model: Model/C17.v; proofs: Proofs/C17*.v *)
From Coq Require Import List NArith ZArith.
From GoMC Require Import Base.Bytes Base.Dec Gen.Consts Model.C05 Model.C17
  Proofs.C17 Proofs.C17_rt Proofs.C17_wire Proofs.C17_top.
Import ListNotations.
Open Scope N_scope.

(* tie to the translated tag ids of package nbt *)
Theorem C17_tag_ids :
  (idByte, idShort, idInt, idLong, idFloat, idDouble, idByteArray, idString, idList, idCompound,
   idIntArray, idLongArray, idEnd) = (1, 2, 3, 4, 5, 6, 7, 8, 9, 10, 11, 12, 0).
Proof. exact tag_ids. Qed.

(* ---- round trips on the tree level: EVERY component, both forms.  norm identifies a bare string
   argument with the text-only component it decodes to and is the identity otherwise. *)
Theorem C17_nbt_rt : forall m, of_nbt (to_nbt m) = Some (norm m).
Proof. intros m. apply nbt_tree_rt. Qed.
Theorem C17_json_rt : forall m, of_json (to_json m) = Some (norm m).
Proof. exact json_tree_rt. Qed.
Theorem C17_norm_id : forall m, no_bare m = true -> norm m = m.
Proof. exact norm_id. Qed.
Theorem C17_norm_no_bare : forall m, no_bare (norm m) = true.
Proof. exact norm_no_bare. Qed.

(* ---- the binary layer: the reader written from the NBT grammar inverts the textbook encoder on
   every well-formed tree, consumes exactly the encoding and leaves what follows untouched *)
Theorem C17_reader_inverts_encoder : forall t rest, wf_tag t = true ->
  dec_net (enc_net t ++ rest) = Some (t, rest).
Proof. exact dec_net_enc. Qed.

(* ---- the wire image of Message.WriteTo is ONE well-formed network-format value, a compound with
   exactly the expected keys; Message.ReadFrom of it returns the component and leaves the rest.
   Guard msg_ok: strings < 2^15 bytes (the int16 length prefix), lists < 2^31 (the int32 count) - nothing
   else: an argument list mixing strings and components (the former finding C17.nbt.mixed-args, repaired
   in /repo) is inside the guard. *)
Theorem C17_wire_wellformed : forall m rest, msg_ok m = true ->
  wf_tag (to_nbt m) = true /\
  dec_net (wire m ++ rest) = Some (TComp (fields_of (is_nil (m_translate m)) m), rest) /\
  map fst (fields_of (is_nil (m_translate m)) m) = expected_keys (is_nil (m_translate m)) m.
Proof.
  intros m rest H. split; [apply wf_to_nbt; exact H|]. split; [apply wire_wf; exact H | apply wire_keys].
Qed.
Theorem C17_wire_rt : forall m rest, msg_ok m = true ->
  msg_read (wire m ++ rest) = Some (norm m, rest).
Proof. exact wire_rt. Qed.
Theorem C17_wire_encodes : forall m, msg_ok m = true -> wire_opt m = Some (wire m).
Proof. exact wire_opt_ok. Qed.
(* a mixed argument list is written as a list of compounds: the components as they are, a bare string z
   as the text-only component {text: z} (what vanilla writes, and what norm identifies z with) *)
Theorem C17_wire_mixed_args : forall ft t s h tr w e, mixed_args w = true ->
  In (k_with, TList idCompound (map arg_comp_tag w)) (fields_of ft (Msg t s h tr w e)).
Proof. exact wire_mixed_image. Qed.
Theorem C17_forms_agree : forall m, msg_ok m = true ->
  match msg_read (wire m) with Some (x, _) => Some x | None => None end = of_json (to_json m).
Proof. exact forms_agree. Qed.

(* ---- accepted shapes: bare string, list (of strings, of components), compound (the round trips) *)
Theorem C17_accepts_nbt : forall s l ms rest, str_ok s = true ->
  msg_read (enc_net (TStr s) ++ rest) = Some (text_msg s, rest) /\
  of_nbt (TList idString (map TStr l)) = Some (Msg [] style0 None [] [] (map text_msg l)) /\
  of_nbt (TList idCompound (map (fun m => TComp (fields_of true m)) ms))
    = Some (Msg [] style0 None [] [] (map norm ms)).
Proof.
  intros s l ms rest H. split; [apply accepts_nbt_string_wire; exact H|].
  split; [apply accepts_nbt_strings | apply accepts_nbt_list].
Qed.
Theorem C17_accepts_json : forall s l ms,
  of_json (JStr s) = Some (text_msg s) /\
  of_json (JArr (map JStr l)) = Some (Msg [] style0 None [] [] (map text_msg l)) /\
  of_json (JArr (map to_json ms)) = Some (Msg [] style0 None [] [] (map norm ms)).
Proof.
  intros s l ms. split; [apply accepts_json_string|].
  split; [apply accepts_json_strings | apply accepts_json_list].
Qed.

(* ---- chat.Type header: VarInt id, sender, flag, optional target; any following bytes untouched *)
Theorem C17_type_rt : forall id sender target rest, in_sw 32 id -> msg_ok sender = true ->
  match target with Some t => msg_ok t = true | None => True end ->
  type_read (type_write id sender target ++ rest)
  = Some (id, norm sender, match target with Some t => Some (norm t) | None => None end, rest).
Proof. exact type_rt. Qed.
Theorem C17_type_encodes : forall id sender target, msg_ok sender = true ->
  match target with Some t => msg_ok t = true | None => True end ->
  type_write_opt id sender target = Some (type_write id sender target).
Proof. exact type_write_opt_ok. Qed.

(* ---- plain rendering: one left-to-right pass that deletes every occurrence of a code of the
   library's table and nothing else *)
Theorem C17_strip_removes : forall a c bb, code_lookup c fmt_code <> None ->
  strip (a ++ [sect1; sect2; c] ++ bb) = strip a ++ strip bb.
Proof. exact strip_removes. Qed.
Theorem C17_strip_keeps : forall s, code_free s = true -> strip s = s.
Proof. exact strip_keeps. Qed.
Theorem C17_strip_length : forall s, (length (strip s) + 3 * count_codes s = length s)%nat.
Proof. exact strip_length. Qed.
(* the pass is single: a code can be formed by juxtaposition (as in the vanilla client's own
   stripFormatting); "no code survives" is NOT claimed *)
Theorem C17_strip_code_free_refuted : exists s, code_free (strip s) = false.
Proof. exact strip_survivor. Qed.

(* ---- translation arguments are substituted in order *)
Theorem C17_sprintf_subst : forall ps (args : list farg), lit_clean ps = true ->
  count_args ps = length args -> sprintf (render_fmt ps) args = ROk (subst ps (map snd args)).
Proof. exact sprintf_subst. Qed.
Theorem C17_clear_translate : forall tbl t st h key args ps outs,
  key <> [] -> assoc key tbl = render_fmt ps -> lit_clean ps = true ->
  count_args ps = length args -> Forall2 (arg_plain tbl) args outs ->
  clear_string tbl (Msg t st h key args []) = ROk (strip t ++ subst ps outs).
Proof. exact clear_translate. Qed.
Theorem C17_clear_text_extra : forall tbl t st h e outs,
  Forall2 (fun m s => clear_string tbl m = ROk s) e outs ->
  clear_string tbl (Msg t st h [] [] e) = ROk (strip t ++ concat outs).
Proof. exact clear_extra. Qed.

(* ---- rendering never panics: every component, every translation table *)
Theorem C17_clear_total : forall tbl m, clear_string tbl m <> RCrash.
Proof. exact clear_string_nc. Qed.
Theorem C17_ansi_total : forall tbl m, ansi_string tbl m <> RCrash.
Proof. exact ansi_string_nc. Qed.

(* ---- non-vacuity *)
Definition ex_msg : msg :=
  Msg [104;105] (mkStyle true false false false false [] [114;101;100] [] (Some ([97], [98])))
      (Some ([115], text_msg [104])) [107;50] [AM (text_msg [120]); AM (text_msg [121])]
      [Msg [] style0 None [107;48] [] []].
Example C17_ex_ok : msg_ok ex_msg = true /\ no_bare ex_msg = true.
Proof. split; vm_compute; reflexivity. Qed.
(* the counter-example of the former finding (With: {"x", Text("y")}): inside the guard, written, read
   back to the normalised component, and in agreement with the JSON form *)
Example C17_ex_mixed :
  mixed_args (m_with mixed_witness) = true /\ msg_ok mixed_witness = true /\
  wire_opt mixed_witness = Some (wire mixed_witness) /\
  msg_read (wire mixed_witness) = Some (norm mixed_witness, []) /\
  of_json (to_json mixed_witness) = Some (norm mixed_witness).
Proof. exact wire_mixed_witness. Qed.
Example C17_ex_type : in_sw 32 300 /\ type_read (type_write 300 ex_msg (Some (text_msg [116])))
                                      = Some (300%Z, ex_msg, Some (text_msg [116]), []).
Proof. split; [unfold in_sw; simpl; split; [discriminate|reflexivity] | vm_compute; reflexivity]. Qed.
Example C17_ex_clear :
  clear_string [([107;50], [97;32;37;115;32;98;32;37;115])] ex_msg
  = ROk [104;105; 97;32;120;32;98;32;121].
Proof. vm_compute. reflexivity. Qed.
Example C17_ex_fmt : lit_clean [PLit [97;32]; PArg; PLit [32;98;32]; PArg] = true
  /\ render_fmt [PLit [97;32]; PArg; PLit [32;98;32]; PArg] = [97;32;37;115;32;98;32;37;115].
Proof. split; reflexivity. Qed.

Print Assumptions C17_tag_ids.
Print Assumptions C17_nbt_rt.
Print Assumptions C17_json_rt.
Print Assumptions C17_norm_id.
Print Assumptions C17_norm_no_bare.
Print Assumptions C17_reader_inverts_encoder.
Print Assumptions C17_wire_wellformed.
Print Assumptions C17_wire_rt.
Print Assumptions C17_wire_encodes.
Print Assumptions C17_wire_mixed_args.
Print Assumptions C17_forms_agree.
Print Assumptions C17_accepts_nbt.
Print Assumptions C17_accepts_json.
Print Assumptions C17_type_rt.
Print Assumptions C17_type_encodes.
Print Assumptions C17_strip_removes.
Print Assumptions C17_strip_keeps.
Print Assumptions C17_strip_length.
Print Assumptions C17_strip_code_free_refuted.
Print Assumptions C17_sprintf_subst.
Print Assumptions C17_clear_translate.
Print Assumptions C17_clear_text_extra.
Print Assumptions C17_clear_total.
Print Assumptions C17_ansi_total.
