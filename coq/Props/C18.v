(* C18 - login crypto primitives: property theorems only.
   Models: Model/C18.v; proofs: Proofs/C18_uuid.v, Proofs/C18_digest.v, Proofs/C18_pem.v *)
From Coq Require Import List NArith ZArith.
From GoMC Require Import Base.Bytes Model.C18 Proofs.C18_uuid Proofs.C18_digest Proofs.C18_pem.
Import ListNotations.
Open Scope N_scope.

(* ---- offline UUID: for every MD5 function and every name, NameToUUID is Java's
        UUID.nameUUIDFromBytes("OfflinePlayer:"+name) ---- *)
Theorem C18_uuid : forall (md5 : list N -> list N) (name : list N),
  length (md5 (offline_prefix ++ name)) = 16%nat -> all_bytes (md5 (offline_prefix ++ name)) ->
  name_to_uuid md5 name = java_name_uuid md5 (offline_prefix ++ name).
Proof. exact name_to_uuid_spec. Qed.
(* what the specification fixes: version field 3, variant field binary 10, every other bit the digest's *)
Theorem C18_uuid_fields : forall d : list N,
  let m := unbe (firstn 8 d) in let l := unbe (skipn 8 d) in
  (java_msb d / 2 ^ 12) mod 16 = 3 /\ java_msb d / 2 ^ 16 = m / 2 ^ 16 /\ java_msb d mod 2 ^ 12 = m mod 2 ^ 12 /\
  java_lsb d / 2 ^ 62 = 2 /\ java_lsb d mod 2 ^ 62 = l mod 2 ^ 62.
Proof. exact java_uuid_fields. Qed.

(* ---- session hash: for every non-empty digest other than all-zero (any length, so in particular every
        20-byte SHA-1 output) the rendering equals Java's new BigInteger(digest).toString(16) ---- *)
Theorem C18_digest : forall h : list N, h <> [] -> all_bytes h -> h <> repeat 0 (length h) ->
  render h = Ok (java_hex (signed_be h)).
Proof. exact render_java. Qed.
(* the single exception: an all-zero digest renders as the empty string where Java prints "0" *)
Theorem C18_digest_zero : forall n : nat, (0 < n)%nat ->
  render (repeat 0 n) = Ok [] /\ java_hex (signed_be (repeat 0 n)) = [48].
Proof. exact render_all_zero. Qed.
(* both copies, with SHA-1 as an arbitrary function *)
Theorem C18_auth_digest : forall (sha1 : list N -> list N) (sid secret key : list N),
  let h := sha1 (sid ++ secret ++ key) in
  h <> [] -> all_bytes h -> h <> repeat 0 (length h) ->
  bot_auth_digest sha1 sid secret key = Ok (java_hex (signed_be h)) /\
  server_auth_digest sha1 sid secret key = Ok (java_hex (signed_be h)).
Proof. exact auth_digest_spec. Qed.
Theorem C18_same : forall (sha1 : list N -> list N) (sid secret key : list N),
  bot_auth_digest sha1 sid secret key = server_auth_digest sha1 sid secret key.
Proof. exact digest_same. Qed.
(* key lemma: in-place twosComplement is negation modulo 256^n, keeps the length and stays in bytes *)
Theorem C18_twos : forall p : list N, all_bytes p ->
  unbe (twos p) = (if unbe p =? 0 then 0 else 256 ^ lenN p - unbe p) /\
  length (twos p) = length p /\ all_bytes (twos p).
Proof. exact twos_spec. Qed.
(* the specification is the canonical numeral: it denotes the number, has no leading zero, and
   signed_be is the two's-complement reading *)
Theorem C18_java_hex_value : forall x : N, hexval (digits16 x) = Some x.
Proof. exact digits16_value. Qed.
Theorem C18_java_hex_canonical : forall x : N, x <> 0 -> hd 0 (digits16 x) <> 48.
Proof. exact digits16_no_leading_zero. Qed.
Theorem C18_signed_be : forall h : list N, h <> [] -> all_bytes h ->
  (- Z.of_N (2 ^ (8 * lenN h - 1)) <= signed_be h < Z.of_N (2 ^ (8 * lenN h - 1)))%Z /\
  (signed_be h mod Z.of_N (2 ^ (8 * lenN h)) = Z.of_N (unbe h))%Z.
Proof. exact signed_be_range. Qed.

(* ---- profile key signature ---- *)
(* the lineBreaker frames the text in 76-character lines for EVERY sequence of Write calls; never panics *)
Theorem C18_linebreaker : forall chunks : list (list N),
  exists ns, lb_run chunks = Ok (pem_lines (concat chunks), ns) /\ length ns = length chunks.
Proof. exact lb_run_spec. Qed.
Theorem C18_pem_lines_text : forall s : list N, Forall (fun c => c <> 10) s ->
  filter (fun c => negb (c =? 10)) (pem_lines s) = s.
Proof. exact pem_lines_filter. Qed.
(* VerifySignature returns exactly the verdict of RSA verification under the embedded key on the SHA-256
   of header ++ framed base64 ++ footer, whatever the hash, the verifier, the base64 cutting and the key *)
Theorem C18_verify_exact : forall (K : Type) (b64_writes : list N -> list (list N)) (sha256 : list N -> list N)
    (rsa_verify : K -> list N -> list N -> bool) (mojang : K) (key sig : list N),
  verify_signature K b64_writes sha256 rsa_verify mojang key sig
  = Ok (rsa_verify mojang (sha256 (payload_spec b64_writes key)) sig).
Proof. exact verify_signature_spec. Qed.
(* never accepts a signature that does not verify under the embedded key *)
Theorem C18_verify : forall (K : Type) (b64_writes : list N -> list (list N)) (sha256 : list N -> list N)
    (rsa_verify : K -> list N -> list N -> bool) (mojang : K) (key sig : list N),
  verify_signature K b64_writes sha256 rsa_verify mojang key sig = Ok true ->
  rsa_verify mojang (sha256 (payload_spec b64_writes key)) sig = true.
Proof. exact verify_accepts_only_verified. Qed.
Theorem C18_verify_refuses : forall (K : Type) (b64_writes : list N -> list (list N)) (sha256 : list N -> list N)
    (rsa_verify : K -> list N -> list N -> bool) (mojang : K) (key sig : list N),
  rsa_verify mojang (sha256 (payload_spec b64_writes key)) sig = false ->
  verify_signature K b64_writes sha256 rsa_verify mojang key sig = Ok false.
Proof. exact verify_refuses_forgery. Qed.
(* PublicKey.Verify accepts only an unexpired key whose encoding carries a verifying signature *)
Theorem C18_pk_verify : forall (K PK : Type) (b64_writes : list N -> list (list N)) (sha256 : list N -> list N)
    (rsa_verify : K -> list N -> list N -> bool) (mojang : K) (marshal : PK -> option (list N))
    (now expires : Z) (pub : PK) (sig : list N),
  pk_verify K PK b64_writes sha256 rsa_verify mojang marshal now expires pub sig = Ok true ->
  (now <= expires)%Z /\
  exists enc, marshal pub = Some enc /\ rsa_verify mojang (sha256 (payload_spec b64_writes enc)) sig = true.
Proof. exact pk_verify_spec. Qed.
Theorem C18_pk_verify_total : forall (K PK : Type) (b64_writes : list N -> list (list N)) (sha256 : list N -> list N)
    (rsa_verify : K -> list N -> list N -> bool) (mojang : K) (marshal : PK -> option (list N))
    (now expires : Z) (pub : PK) (sig : list N),
  exists b, pk_verify K PK b64_writes sha256 rsa_verify mojang marshal now expires pub sig = Ok b.
Proof. exact pk_verify_total. Qed.

(* ---- non-vacuity: concrete instances inside the hypotheses ---- *)
(* SHA-1("jeb_") is negative: published session hash -7c9d5b0044c130109a5d7b5fb5c317c02b4e28c1 *)
Definition ex_jeb : list N := [131;98;164;255;187;62;207;239;101;162;132;160;74;60;232;63;212;177;215;63].
Example C18_ex_jeb : all_bytes ex_jeb /\ ex_jeb <> repeat 0 (length ex_jeb) /\
  render ex_jeb = Ok [45;55;99;57;100;53;98;48;48;52;52;99;49;51;48;49;48;57;97;53;100;55;98;53;102;98;53;99;51;49;55;99;48;50;98;52;101;50;56;99;49]
  /\ java_hex (signed_be ex_jeb) = [45;55;99;57;100;53;98;48;48;52;52;99;49;51;48;49;48;57;97;53;100;55;98;53;102;98;53;99;51;49;55;99;48;50;98;52;101;50;56;99;49].
Proof.
  split; [apply all_bytesb_spec; vm_compute; reflexivity|].
  split; [discriminate|]. split; vm_compute; reflexivity.
Qed.
(* SHA-1("simon") has a leading zero nibble: 88e16a1019277b15d58faf0541e11910eb756f6 *)
Example C18_ex_simon :
  render [8;142;22;161;1;146;119;177;93;88;250;240;84;30;17;145;14;183;86;246]
  = Ok [56;56;101;49;54;97;49;48;49;57;50;55;55;98;49;53;100;53;56;102;97;102;48;53;52;49;101;49;49;57;49;48;101;98;55;53;54;102;54].
Proof. vm_compute. reflexivity. Qed.
(* carry chain through trailing zero bytes *)
Example C18_ex_carry : twos [255; 0; 0] = [1; 0; 0] /\ twos [128; 0] = [128; 0] /\ twos [0; 0] = [0; 0]
  /\ render [255; 0; 0] = Ok [45; 49; 48; 48; 48; 48].
Proof. vm_compute. repeat split; reflexivity. Qed.
(* MD5("OfflinePlayer:Tnze") -> c7b9eece-2f2e-325c-8da8-6fc8f3d0edb0 (the repository's example) *)
Example C18_ex_uuid :
  let md5 := fun _ : list N => [199;185;238;206;47;46;98;92;141;168;111;200;243;208;237;176] in
  name_to_uuid md5 [84;110;122;101] = [199;185;238;206;47;46;50;92;141;168;111;200;243;208;237;176]
  /\ java_name_uuid md5 (offline_prefix ++ [84;110;122;101]) = [199;185;238;206;47;46;50;92;141;168;111;200;243;208;237;176].
Proof. vm_compute. split; reflexivity. Qed.
(* the verifier's verdict is passed through in both directions *)
Example C18_ex_verify :
  verify_signature unit (fun k => [k]) (fun m => m) (fun _ _ s => match s with [1] => true | _ => false end) tt [65;66] [1] = Ok true
  /\ verify_signature unit (fun k => [k]) (fun m => m) (fun _ _ s => match s with [1] => true | _ => false end) tt [65;66] [2] = Ok false.
Proof. vm_compute. split; reflexivity. Qed.

(* ---- tie to the source: both copies of twosComplement are TRANSLATED from the Go code (Gen/Funcs.v: a
   descending loop over a byte slice read and written in place); the array they leave is the model's twos *)
From GoMC Require Base.GoInt Gen.Funcs Proofs.C18_tie.
Theorem C18_twos_bot_translated : forall p : list N, Forall (fun b => b < 256) p -> (Z.of_nat (length p) < 2 ^ 62)%Z ->
  forall j, (j < length p)%nat ->
    GoInt.read_buf (Funcs.bot_twosComplement (Z.of_nat (length p)) (C18_tie.basef p)) (C18_tie.basef p) (Z.of_nat j)
    = Z.of_N (nth j (twos p) 0).
Proof. exact C18_tie.tie_twos_bot. Qed.
Theorem C18_twos_auth_translated : forall p : list N, Forall (fun b => b < 256) p -> (Z.of_nat (length p) < 2 ^ 62)%Z ->
  forall j, (j < length p)%nat ->
    GoInt.read_buf (Funcs.auth_twosComplement (Z.of_nat (length p)) (C18_tie.basef p)) (C18_tie.basef p) (Z.of_nat j)
    = Z.of_N (nth j (twos p) 0).
Proof. exact C18_tie.tie_twos_auth. Qed.

Print Assumptions C18_uuid.
Print Assumptions C18_uuid_fields.
Print Assumptions C18_digest.
Print Assumptions C18_digest_zero.
Print Assumptions C18_auth_digest.
Print Assumptions C18_same.
Print Assumptions C18_twos.
Print Assumptions C18_java_hex_value.
Print Assumptions C18_java_hex_canonical.
Print Assumptions C18_signed_be.
Print Assumptions C18_linebreaker.
Print Assumptions C18_pem_lines_text.
Print Assumptions C18_verify_exact.
Print Assumptions C18_verify.
Print Assumptions C18_verify_refuses.
Print Assumptions C18_pk_verify.
Print Assumptions C18_pk_verify_total.
Print Assumptions C18_twos_bot_translated.
Print Assumptions C18_twos_auth_translated.
