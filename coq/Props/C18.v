(* C18 - login crypto primitives: property theorems only.
   Models: Model/C18.v; proofs: Proofs/C18_uuid.v, Proofs/C18_digest.v, Proofs/C18_pem.v *)
From Coq Require Import List NArith ZArith.
From GoMC Require Import Base.Bytes Model.C18 Proofs.C18_uuid Proofs.C18_digest Proofs.C18_pem.
Import ListNotations.
Open Scope N_scope.

(* ---- offline UUID: for every MD5 function and every name, NameToUUID is Java's
        UUID.nameUUIDFromBytes("OfflinePlayer:"+name) ---- *)
Theorem C18_uuid : forall (md5 : list N -> list N) (name : list N),
  length (md5 (offline_prefix ++ name)) = 16%nat -> all_bytes (md5 (offline_prefix ++ name)) ->
  name_to_uuid md5 name = java_name_uuid md5 (offline_prefix ++ name).
Proof. exact name_to_uuid_spec. Qed.
(* what the specification fixes: version field 3, variant field binary 10, every other bit the digest's *)
Theorem C18_uuid_fields : forall d : list N,
  let m := unbe (firstn 8 d) in let l := unbe (skipn 8 d) in
  (java_msb d / 2 ^ 12) mod 16 = 3 /\ java_msb d / 2 ^ 16 = m / 2 ^ 16 /\ java_msb d mod 2 ^ 12 = m mod 2 ^ 12 /\
  java_lsb d / 2 ^ 62 = 2 /\ java_lsb d mod 2 ^ 62 = l mod 2 ^ 62.
Proof. exact java_uuid_fields. Qed.

(* ---- session hash: for every non-empty digest other than all-zero (any length, so in particular every
        20-byte SHA-1 output) the rendering equals Java's new BigInteger(digest).toString(16) ---- *)
Theorem C18_digest : forall h : list N, h <> [] -> all_bytes h -> h <> repeat 0 (length h) ->
  render h = Ok (java_hex (signed_be h)).
Proof. exact render_java. Qed.
(* the single exception: an all-zero digest renders as the empty string where Java prints "0" *)
Theorem C18_digest_zero : forall n : nat, (0 < n)%nat ->
  render (repeat 0 n) = Ok [] /\ java_hex (signed_be (repeat 0 n)) = [48].
Proof. exact render_all_zero. Qed.
(* both copies, with SHA-1 as an arbitrary function *)
Theorem C18_auth_digest : forall (sha1 : list N -> list N) (sid secret key : list N),
  let h := sha1 (sid ++ secret ++ key) in
  h <> [] -> all_bytes h -> h <> repeat 0 (length h) ->
  bot_auth_digest sha1 sid secret key = Ok (java_hex (signed_be h)) /\
  server_auth_digest sha1 sid secret key = Ok (java_hex (signed_be h)).
Proof. exact auth_digest_spec. Qed.
Theorem C18_same : forall (sha1 : list N -> list N) (sid secret key : list N),
  bot_auth_digest sha1 sid secret key = server_auth_digest sha1 sid secret key.
Proof. exact digest_same. Qed.
(* key lemma: in-place twosComplement is negation modulo 256^n, keeps the length and stays in bytes *)
Theorem C18_twos : forall p : list N, all_bytes p ->
  unbe (twos p) = (if unbe p =? 0 then 0 else 256 ^ lenN p - unbe p) /\
  length (twos p) = length p /\ all_bytes (twos p).
Proof. exact twos_spec. Qed.
(* the specification is the canonical numeral: it denotes the number, has no leading zero, and
   signed_be is the two's-complement reading *)
Theorem C18_java_hex_value : forall x : N, hexval (digits16 x) = Some x.
Proof. exact digits16_value. Qed.
Theorem C18_java_hex_canonical : forall x : N, x <> 0 -> hd 0 (digits16 x) <> 48.
Proof. exact digits16_no_leading_zero. Qed.
Theorem C18_signed_be : forall h : list N, h <> [] -> all_bytes h ->
  (- Z.of_N (2 ^ (8 * lenN h - 1)) <= signed_be h < Z.of_N (2 ^ (8 * lenN h - 1)))%Z /\
  (signed_be h mod Z.of_N (2 ^ (8 * lenN h)) = Z.of_N (unbe h))%Z.
Proof. exact signed_be_range. Qed.

(* ---- profile key signature ---- *)
(* the lineBreaker frames the text in 76-character lines for EVERY sequence of Write calls; never panics *)
Theorem C18_linebreaker : forall chunks : list (list N),
  exists ns, lb_run chunks = Ok (pem_lines (concat chunks), ns) /\ length ns = length chunks.
Proof. exact lb_run_spec. Qed.
Theorem C18_pem_lines_text : forall s : list N, Forall (fun c => c <> 10) s ->
  filter (fun c => negb (c =? 10)) (pem_lines s) = s.
Proof. exact pem_lines_filter. Qed.
(* VerifySignature returns exactly the verdict of RSA verification under the embedded key on the SHA-256
   of header ++ framed base64 ++ footer, whatever the hash, the verifier, the base64 cutting and the key *)
Theorem C18_verify_exact : forall (K : Type) (b64_writes : list N -> list (list N)) (sha256 : list N -> list N)
    (rsa_verify : K -> list N -> list N -> bool) (mojang : K) (key sig : list N),
  verify_signature K b64_writes sha256 rsa_verify mojang key sig
  = Ok (rsa_verify mojang (sha256 (payload_spec b64_writes key)) sig).
Proof. exact verify_signature_spec. Qed.
(* never accepts a signature that does not verify under the embedded key *)
Theorem C18_verify : forall (K : Type) (b64_writes : list N -> list (list N)) (sha256 : list N -> list N)
    (rsa_verify : K -> list N -> list N -> bool) (mojang : K) (key sig : list N),
  verify_signature K b64_writes sha256 rsa_verify mojang key sig = Ok true ->
  rsa_verify mojang (sha256 (payload_spec b64_writes key)) sig = true.
Proof. exact verify_accepts_only_verified. Qed.
Theorem C18_verify_refuses : forall (K : Type) (b64_writes : list N -> list (list N)) (sha256 : list N -> list N)
    (rsa_verify : K -> list N -> list N -> bool) (mojang : K) (key sig : list N),
  rsa_verify mojang (sha256 (payload_spec b64_writes key)) sig = false ->
  verify_signature K b64_writes sha256 rsa_verify mojang key sig = Ok false.
Proof. exact verify_refuses_forgery. Qed.
(* PublicKey.Verify accepts only an unexpired key whose encoding carries a verifying signature *)
Theorem C18_pk_verify : forall (K PK : Type) (b64_writes : list N -> list (list N)) (sha256 : list N -> list N)
    (rsa_verify : K -> list N -> list N -> bool) (mojang : K) (marshal : PK -> option (list N))
    (now expires : Z) (pub : PK) (sig : list N),
  pk_verify K PK b64_writes sha256 rsa_verify mojang marshal now expires pub sig = Ok true ->
  (now <= expires)%Z /\
  exists enc, marshal pub = Some enc /\ rsa_verify mojang (sha256 (payload_spec b64_writes enc)) sig = true.
Proof. exact pk_verify_spec. Qed.
Theorem C18_pk_verify_total : forall (K PK : Type) (b64_writes : list N -> list (list N)) (sha256 : list N -> list N)
    (rsa_verify : K -> list N -> list N -> bool) (mojang : K) (marshal : PK -> option (list N))
    (now expires : Z) (pub : PK) (sig : list N),
  exists b, pk_verify K PK b64_writes sha256 rsa_verify mojang marshal now expires pub sig = Ok b.
Proof. exact pk_verify_total. Qed.

(* ---- non-vacuity: concrete instances inside the hypotheses ---- *)
(* SHA-1("jeb_") is negative: published session hash -7c9d5b0044c130109a5d7b5fb5c317c02b4e28c1 *)
Definition ex_jeb : list N := [131;98;164;255;187;62;207;239;101;162;132;160;74;60;232;63;212;177;215;63].
Example C18_ex_jeb : all_bytes ex_jeb /\ ex_jeb <> repeat 0 (length ex_jeb) /\
  render ex_jeb = Ok [45;55;99;57;100;53;98;48;48;52;52;99;49;51;48;49;48;57;97;53;100;55;98;53;102;98;53;99;51;49;55;99;48;50;98;52;101;50;56;99;49]
  /\ java_hex (signed_be ex_jeb) = [45;55;99;57;100;53;98;48;48;52;52;99;49;51;48;49;48;57;97;53;100;55;98;53;102;98;53;99;51;49;55;99;48;50;98;52;101;50;56;99;49].
Proof.
  split; [apply all_bytesb_spec; vm_compute; reflexivity|].
  split; [discriminate|]. split; vm_compute; reflexivity.
Qed.
(* SHA-1("simon") has a leading zero nibble: 88e16a1019277b15d58faf0541e11910eb756f6 *)
Example C18_ex_simon :
  render [8;142;22;161;1;146;119;177;93;88;250;240;84;30;17;145;14;183;86;246]
  = Ok [56;56;101;49;54;97;49;48;49;57;50;55;55;98;49;53;100;53;56;102;97;102;48;53;52;49;101;49;49;57;49;48;101;98;55;53;54;102;54].
Proof. vm_compute. reflexivity. Qed.
(* carry chain through trailing zero bytes *)
Example C18_ex_carry : twos [255; 0; 0] = [1; 0; 0] /\ twos [128; 0] = [128; 0] /\ twos [0; 0] = [0; 0]
  /\ render [255; 0; 0] = Ok [45; 49; 48; 48; 48; 48].
Proof. vm_compute. repeat split; reflexivity. Qed.
(* MD5("OfflinePlayer:Tnze") -> c7b9eece-2f2e-325c-8da8-6fc8f3d0edb0 (the repository's example) *)
Example C18_ex_uuid :
  let md5 := fun _ : list N => [199;185;238;206;47;46;98;92;141;168;111;200;243;208;237;176] in
  name_to_uuid md5 [84;110;122;101] = [199;185;238;206;47;46;50;92;141;168;111;200;243;208;237;176]
  /\ java_name_uuid md5 (offline_prefix ++ [84;110;122;101]) = [199;185;238;206;47;46;50;92;141;168;111;200;243;208;237;176].
Proof. vm_compute. split; reflexivity. Qed.
(* the verifier's verdict is passed through in both directions *)
Example C18_ex_verify :
  verify_signature unit (fun k => [k]) (fun m => m) (fun _ _ s => match s with [1] => true | _ => false end) tt [65;66] [1] = Ok true
  /\ verify_signature unit (fun k => [k]) (fun m => m) (fun _ _ s => match s with [1] => true | _ => false end) tt [65;66] [2] = Ok false.
Proof. vm_compute. split; reflexivity. Qed.

(* ---- tie to the source: both copies of twosComplement are TRANSLATED from the Go code (Gen/Funcs.v: a
   descending loop over a byte slice read and written in place); the array they leave is the model's twos *)
From GoMC Require Base.GoInt Gen.Funcs Proofs.C18_tie.
Theorem C18_twos_bot_translated : forall p : list N, Forall (fun b => b < 256) p -> (Z.of_nat (length p) < 2 ^ 62)%Z ->
  forall j, (j < length p)%nat ->
    GoInt.read_buf (Funcs.bot_twosComplement (Z.of_nat (length p)) (C18_tie.basef p)) (C18_tie.basef p) (Z.of_nat j)
    = Z.of_N (nth j (twos p) 0).
Proof. exact C18_tie.tie_twos_bot. Qed.
Theorem C18_twos_auth_translated : forall p : list N, Forall (fun b => b < 256) p -> (Z.of_nat (length p) < 2 ^ 62)%Z ->
  forall j, (j < length p)%nat ->
    GoInt.read_buf (Funcs.auth_twosComplement (Z.of_nat (length p)) (C18_tie.basef p)) (C18_tie.basef p) (Z.of_nat j)
    = Z.of_N (nth j (twos p) 0).
Proof. exact C18_tie.tie_twos_auth. Qed.

Print Assumptions C18_uuid.
Print Assumptions C18_uuid_fields.
Print Assumptions C18_digest.
Print Assumptions C18_digest_zero.
Print Assumptions C18_auth_digest.
Print Assumptions C18_same.
Print Assumptions C18_twos.
Print Assumptions C18_java_hex_value.
Print Assumptions C18_java_hex_canonical.
Print Assumptions C18_signed_be.
Print Assumptions C18_linebreaker.
Print Assumptions C18_pem_lines_text.
Print Assumptions C18_verify_exact.
Print Assumptions C18_verify.
Print Assumptions C18_verify_refuses.
Print Assumptions C18_pk_verify.
Print Assumptions C18_pk_verify_total.
Print Assumptions C18_twos_bot_translated.
Print Assumptions C18_twos_auth_translated.

(* ======================================================================================================
   Phase 4: tie by TRANSLATION.  tools/gotrans/c18.go translates NameToUUID, both authDigest copies,
   lineBreaker.Write / Close, VerifySignature, PublicKey.Verify and server/auth encryptionResponse statement by
   statement into Gallina functions (Gen/C18gen.v, regenerated from the Go source on every run; the meaning of
   the Go operations and library calls is Model/C18_syntax.v).  The theorems below state, for ALL arguments and
   ALL oracles, that the translated functions are the model's functions, and restate the property about the
   translated functions themselves.
   ====================================================================================================== *)
From GoMC Require Gen.C18gen Model.C18_syntax Model.C18_enc Proofs.C18_skel Proofs.C18_tie_top Proofs.C18_enc Proofs.C18_expected.
Import Model.C18_syntax Model.C18_enc.

(* ---- offline/uuid.go NameToUUID, for every MD5 function (also one with a wrong digest length) and every name ---- *)
Theorem C18_NameToUUID_translated : forall (md5 : list N -> list N) (name : list N),
  C18gen.offline_NameToUUID md5 name = Ok (name_to_uuid md5 name).
Proof. exact C18_skel.tie_NameToUUID. Qed.
Theorem C18_NameToUUID_translated_java : forall (md5 : list N -> list N) (name : list N),
  length (md5 (offline_prefix ++ name)) = 16%nat -> all_bytes (md5 (offline_prefix ++ name)) ->
  C18gen.offline_NameToUUID md5 name = Ok (java_name_uuid md5 (offline_prefix ++ name)).
Proof. exact C18_tie_top.translated_uuid_java. Qed.

(* ---- both authDigest copies: order of the three hash writes, sign test, twosComplement (Gen/Funcs.v), hex,
        TrimLeft "0", "-" prefix ---- *)
Theorem C18_authDigest_bot_translated : forall (sha1 : list N -> list N) (sid secret key : list N),
  let h := sha1 (sid ++ secret ++ key) in
  all_bytes h -> (Z.of_nat (length h) < 2 ^ 62)%Z ->
  C18gen.bot_authDigest sha1 sid secret key = bot_auth_digest sha1 sid secret key.
Proof. exact C18_skel.tie_bot_authDigest. Qed.
Theorem C18_authDigest_auth_translated : forall (sha1 : list N -> list N) (sid secret key : list N),
  let h := sha1 (sid ++ secret ++ key) in
  all_bytes h -> (Z.of_nat (length h) < 2 ^ 62)%Z ->
  C18gen.auth_authDigest sha1 sid secret key = server_auth_digest sha1 sid secret key.
Proof. exact C18_skel.tie_auth_authDigest. Qed.
Theorem C18_authDigest_translated_java : forall (sha1 : list N -> list N) (sid secret key : list N),
  let h := sha1 (sid ++ secret ++ key) in
  h <> [] -> all_bytes h -> h <> repeat 0 (length h) -> (Z.of_nat (length h) < 2 ^ 62)%Z ->
  C18gen.bot_authDigest sha1 sid secret key = Ok (java_hex (signed_be h)) /\
  C18gen.auth_authDigest sha1 sid secret key = Ok (java_hex (signed_be h)).
Proof. exact C18_tie_top.translated_digest_java. Qed.

(* ---- yggdrasil/user lineBreaker: one Write call, Close, and every sequence of Write calls + Close ---- *)
Theorem C18_lineBreaker_Write_translated : forall (fuel : nat) (line : list N) (used : Z) (out b : list N),
  length line = 76%nat -> (0 <= used < 76)%Z -> (lenZ b < 2 ^ 60)%Z ->
  C18gen.user_lineBreaker_Write (list N) hash_writer fuel line used out b
  = C18_skel.lift_lbw line out (lb_write fuel (firstn (Z.to_nat used) line) b).
Proof. exact C18_tie_top.lbw_tie1. Qed.
Theorem C18_lineBreaker_Close_translated : forall (line : list N) (used : Z) (out : list N),
  length line = 76%nat -> (0 <= used <= 76)%Z ->
  C18gen.user_lineBreaker_Close (list N) hash_writer line used out
  = Ok (line, used, out ++ lb_close (firstn (Z.to_nat used) line), false).
Proof. exact C18_skel.lbc_tie. Qed.
Theorem C18_lineBreaker_run_translated : forall (chunks : list (list N)) (line : list N) (used : Z) (out : list N),
  length line = 76%nat -> (0 <= used < 76)%Z -> C18_skel.small_chunks chunks ->
  kwrites (C18gen.user_lineBreaker_Write (list N) hash_writer) chunks line used out
    (fun l u o => kmust (C18gen.user_lineBreaker_Close (list N) hash_writer l u o) (fun _ _ o' => Ok o'))
  = match lb_run_from (firstn (Z.to_nat used) line) chunks with
    | Ok (body, _) => Ok (out ++ body)
    | Panic => Panic
    | OutOfFuel => OutOfFuel
    end.
Proof. exact C18_tie_top.run_tie_ok. Qed.
Theorem C18_lineBreaker_translated_frames : forall chunks : list (list N), C18_skel.small_chunks chunks ->
  kwrites (C18gen.user_lineBreaker_Write (list N) hash_writer) chunks (repeat 0 76) 0%Z []
    (fun l u o => kmust (C18gen.user_lineBreaker_Close (list N) hash_writer l u o) (fun _ _ o' => Ok o'))
  = Ok (pem_lines (concat chunks)).
Proof. exact C18_skel.translated_linebreaker_frames. Qed.

(* ---- VerifySignature and PublicKey.Verify ---- *)
Theorem C18_VerifySignature_translated : forall (K : Type) (b64_write : list N -> list N -> list (list N))
    (b64_close : list N -> list (list N)) (sha256 : list N -> list N) (rsa_verify : K -> list N -> list N -> bool)
    (pubKey : K) (key sig : list N),
  C18_skel.small_chunks (C18_skel.b64_all b64_write b64_close key) ->
  C18gen.user_VerifySignature b64_write b64_close K rsa_verify pubKey sha256 key sig
  = verify_signature K (C18_skel.b64_all b64_write b64_close) sha256 rsa_verify pubKey key sig.
Proof. exact C18_skel.tie_VerifySignature. Qed.
Theorem C18_VerifySignature_translated_exact : forall (K : Type) (b64_write : list N -> list N -> list (list N))
    (b64_close : list N -> list (list N)) (sha256 : list N -> list N) (rsa_verify : K -> list N -> list N -> bool)
    (pubKey : K) (key sig : list N),
  C18_skel.small_chunks (C18_skel.b64_all b64_write b64_close key) ->
  C18gen.user_VerifySignature b64_write b64_close K rsa_verify pubKey sha256 key sig
  = Ok (rsa_verify pubKey (sha256 (payload_spec (C18_skel.b64_all b64_write b64_close) key)) sig).
Proof. exact C18_tie_top.translated_verify_exact. Qed.
Theorem C18_VerifySignature_translated_refuses : forall (K : Type) (b64_write : list N -> list N -> list (list N))
    (b64_close : list N -> list (list N)) (sha256 : list N -> list N) (rsa_verify : K -> list N -> list N -> bool)
    (pubKey : K) (key sig : list N),
  C18_skel.small_chunks (C18_skel.b64_all b64_write b64_close key) ->
  rsa_verify pubKey (sha256 (payload_spec (C18_skel.b64_all b64_write b64_close) key)) sig = false ->
  C18gen.user_VerifySignature b64_write b64_close K rsa_verify pubKey sha256 key sig = Ok false.
Proof. exact C18_tie_top.translated_verify_refuses. Qed.
Theorem C18_PublicKey_Verify_translated : forall (K PK : Type) (b64_write : list N -> list N -> list (list N))
    (b64_close : list N -> list (list N)) (sha256 : list N -> list N) (rsa_verify : K -> list N -> list N -> bool)
    (pubKey : K) (marshal : PK -> option (list N)) (now expires : Z) (pub : PK) (sig : list N),
  (forall enc, marshal pub = Some enc -> C18_skel.small_chunks (C18_skel.b64_all b64_write b64_close enc)) ->
  C18gen.user_PublicKey_Verify PK now marshal b64_write b64_close K rsa_verify pubKey sha256 expires pub sig
  = pk_verify K PK (C18_skel.b64_all b64_write b64_close) sha256 rsa_verify pubKey marshal now expires pub sig.
Proof. exact C18_skel.tie_PublicKey_Verify. Qed.
Theorem C18_PublicKey_Verify_translated_sound : forall (K PK : Type) (b64_write : list N -> list N -> list (list N))
    (b64_close : list N -> list (list N)) (sha256 : list N -> list N) (rsa_verify : K -> list N -> list N -> bool)
    (pubKey : K) (marshal : PK -> option (list N)) (now expires : Z) (pub : PK) (sig : list N),
  (forall enc, marshal pub = Some enc -> C18_skel.small_chunks (C18_skel.b64_all b64_write b64_close enc)) ->
  C18gen.user_PublicKey_Verify PK now marshal b64_write b64_close K rsa_verify pubKey sha256 expires pub sig = Ok true ->
  (now <= expires)%Z /\
  exists enc, marshal pub = Some enc /\
    rsa_verify pubKey (sha256 (payload_spec (C18_skel.b64_all b64_write b64_close) enc)) sig = true.
Proof. exact C18_tie_top.translated_pk_verify. Qed.

(* ---- server/auth encryptionResponse (model extension): order of the checks, token comparison, secret ---- *)
Theorem C18_encryptionResponse_translated : forall (read_packet : option (Z * list N)) (login_key_id : Z)
    (scan2 : list N -> option (list N * list N)) (decrypt : list N -> option (list N)) (token : list N),
  C18gen.auth_encryptionResponse read_packet login_key_id scan2 decrypt token
  = C18_skel.lift_enc (enc_response read_packet login_key_id scan2 decrypt token).
Proof. exact C18_skel.tie_encryptionResponse. Qed.
Theorem C18_enc_response_sound : forall (read_packet : option (Z * list N)) (login_key_id : Z)
    (scan2 : list N -> option (list N * list N)) (decrypt : list N -> option (list N)) (token s : list N),
  enc_response read_packet login_key_id scan2 decrypt token = Some s ->
  exists data kb et, read_packet = Some (login_key_id, data) /\ scan2 data = Some (kb, et) /\
                     decrypt et = Some token /\ decrypt kb = Some s.
Proof. exact Proofs.C18_enc.enc_response_sound. Qed.
Theorem C18_enc_response_complete : forall (read_packet : option (Z * list N)) (login_key_id : Z)
    (scan2 : list N -> option (list N * list N)) (decrypt : list N -> option (list N)) (token s data kb et : list N),
  read_packet = Some (login_key_id, data) -> scan2 data = Some (kb, et) ->
  decrypt et = Some token -> decrypt kb = Some s ->
  enc_response read_packet login_key_id scan2 decrypt token = Some s.
Proof. exact Proofs.C18_enc.enc_response_complete. Qed.
Theorem C18_enc_response_refuses : forall (read_packet : option (Z * list N)) (login_key_id : Z)
    (scan2 : list N -> option (list N * list N)) (decrypt : list N -> option (list N)) (token data kb et tok : list N),
  read_packet = Some (login_key_id, data) -> scan2 data = Some (kb, et) ->
  decrypt et = Some tok -> tok <> token ->
  enc_response read_packet login_key_id scan2 decrypt token = None.
Proof. exact Proofs.C18_enc.enc_response_refuses. Qed.
Theorem C18_encrypt_secret_len : forall (read_packet : option (Z * list N)) (login_key_id : Z)
    (scan2 : list N -> option (list N * list N)) (decrypt : list N -> option (list N)) (token s : list N),
  encrypt_secret read_packet login_key_id scan2 decrypt token = Some s ->
  (length s = 16 \/ length s = 24 \/ length s = 32)%nat /\
  enc_response read_packet login_key_id scan2 decrypt token = Some s.
Proof. exact Proofs.C18_enc.encrypt_secret_len. Qed.

(* ---- the rendered statements of every translated / pinned body are the recorded ones ---- *)
Theorem C18_source_texts :
  C18gen.offline_NameToUUID_text = C18_expected.expected_offline_NameToUUID_text /\
  C18gen.bot_authDigest_text = C18_expected.expected_bot_authDigest_text /\
  C18gen.auth_authDigest_text = C18_expected.expected_auth_authDigest_text /\
  C18gen.user_lineBreaker_Write_text = C18_expected.expected_user_lineBreaker_Write_text /\
  C18gen.user_lineBreaker_Close_text = C18_expected.expected_user_lineBreaker_Close_text /\
  C18gen.user_VerifySignature_text = C18_expected.expected_user_VerifySignature_text /\
  C18gen.user_PublicKey_Verify_text = C18_expected.expected_user_PublicKey_Verify_text /\
  C18gen.auth_encryptionResponse_text = C18_expected.expected_auth_encryptionResponse_text /\
  C18gen.auth_Encrypt_text = C18_expected.expected_auth_Encrypt_text /\
  C18gen.auth_encryptionRequest_text = C18_expected.expected_auth_encryptionRequest_text /\
  C18gen.bot_genEncryptionKeyResponse_text = C18_expected.expected_bot_genEncryptionKeyResponse_text /\
  C18gen.bot_newSymmetricEncryption_text = C18_expected.expected_bot_newSymmetricEncryption_text /\
  C18gen.bot_loginAuth_text = C18_expected.expected_bot_loginAuth_text /\
  C18gen.user_PublicKey_WriteTo_text = C18_expected.expected_user_PublicKey_WriteTo_text /\
  C18gen.user_PublicKey_ReadFrom_text = C18_expected.expected_user_PublicKey_ReadFrom_text /\
  C18gen.user_PublicKey_VerifyMessage_text = C18_expected.expected_user_PublicKey_VerifyMessage_text /\
  C18gen.user_Property_WriteTo_text = C18_expected.expected_user_Property_WriteTo_text /\
  C18gen.user_Property_ReadFrom_text = C18_expected.expected_user_Property_ReadFrom_text /\
  C18gen.user_validator_decls = C18_expected.expected_user_validator_decls /\
  C18gen.user_pubkey_decls = C18_expected.expected_user_pubkey_decls /\
  C18gen.auth_auth_decls = C18_expected.expected_auth_auth_decls.
Proof. exact C18_tie_top.all_texts_ok. Qed.

(* ---- non-vacuity of the new hypotheses: the translated functions run on concrete inputs ---- *)
Example C18_ex_translated_jeb :
  C18gen.bot_authDigest (fun _ => ex_jeb) [] [] [] = Ok (java_hex (signed_be ex_jeb)) /\
  C18gen.auth_authDigest (fun _ => ex_jeb) [] [] [] = Ok (java_hex (signed_be ex_jeb)) /\
  (Z.of_nat (length ex_jeb) < 2 ^ 62)%Z.
Proof. vm_compute. repeat split; reflexivity. Qed.
Example C18_ex_translated_uuid :
  C18gen.offline_NameToUUID (fun _ => [199;185;238;206;47;46;98;92;141;168;111;200;243;208;237;176]) [84;110;122;101]
  = Ok [199;185;238;206;47;46;50;92;141;168;111;200;243;208;237;176].
Proof. vm_compute. reflexivity. Qed.
(* 100 characters written as 30 + 70: one full line, the rest closed by Close; chunks are small *)
Example C18_ex_translated_lines :
  C18_skel.small_chunks [repeat 65 30; repeat 66 70] /\
  kwrites (C18gen.user_lineBreaker_Write (list N) hash_writer) [repeat 65 30; repeat 66 70] (repeat 0 76) 0%Z []
    (fun l u o => kmust (C18gen.user_lineBreaker_Close (list N) hash_writer l u o) (fun _ _ o' => Ok o'))
  = Ok (repeat 65 30 ++ repeat 66 46 ++ [10] ++ repeat 66 24 ++ [10]).
Proof. split; [repeat constructor|vm_compute; reflexivity]. Qed.
Example C18_ex_translated_verify :
  let rsa := fun (_ : unit) (_ : list N) (s : list N) => match s with [1] => true | _ => false end in
  C18gen.user_VerifySignature (fun _ k => [k]) (fun _ => [[61]]) unit rsa tt (fun m => m) [65;66] [1] = Ok true /\
  C18gen.user_VerifySignature (fun _ k => [k]) (fun _ => [[61]]) unit rsa tt (fun m => m) [65;66] [2] = Ok false.
Proof. vm_compute. split; reflexivity. Qed.
Example C18_ex_enc_response :
  let dec := fun c : list N => match c with [1] => Some [7;7] | [2] => Some (repeat 9 16) | _ => None end in
  let scan := fun d : list N => match d with [a; b] => Some ([a], [b]) | _ => None end in
  encrypt_secret (Some (1%Z, [2; 1])) 1%Z scan dec [7;7] = Some (repeat 9 16) /\
  encrypt_secret (Some (1%Z, [2; 1])) 1%Z scan dec [7;8] = None /\
  C18gen.auth_encryptionResponse (Some (1%Z, [2; 1])) 1%Z scan dec [7;7] = Ok (repeat 9 16, false) /\
  C18gen.auth_encryptionResponse (Some (0%Z, [2; 1])) 1%Z scan dec [7;7] = Ok ([], true).
Proof. vm_compute. repeat split; reflexivity. Qed.

Print Assumptions C18_NameToUUID_translated.
Print Assumptions C18_NameToUUID_translated_java.
Print Assumptions C18_authDigest_bot_translated.
Print Assumptions C18_authDigest_auth_translated.
Print Assumptions C18_authDigest_translated_java.
Print Assumptions C18_lineBreaker_Write_translated.
Print Assumptions C18_lineBreaker_Close_translated.
Print Assumptions C18_lineBreaker_run_translated.
Print Assumptions C18_lineBreaker_translated_frames.
Print Assumptions C18_VerifySignature_translated.
Print Assumptions C18_VerifySignature_translated_exact.
Print Assumptions C18_VerifySignature_translated_refuses.
Print Assumptions C18_PublicKey_Verify_translated.
Print Assumptions C18_PublicKey_Verify_translated_sound.
Print Assumptions C18_encryptionResponse_translated.
Print Assumptions C18_enc_response_sound.
Print Assumptions C18_enc_response_complete.
Print Assumptions C18_enc_response_refuses.
Print Assumptions C18_encrypt_secret_len.
Print Assumptions C18_source_texts.

(* ======================================================================================================
   Phase 5: the encryption handshake and the wire layout of PublicKey / Property.
   Encrypt, encryptionRequest (server/auth), handleEncryptionRequest, loginAuth, genEncryptionKeyResponse,
   newSymmetricEncryption (bot) and PublicKey.VerifyMessage are TRANSLATED statement by statement (Gen/C18gen.v);
   what they do to the connection and to the outside world is an event trace in program order
   (Model/C18_enc.v: EWrite, EReadResponse, ESetCipher, EAuth, EJoin).
   ====================================================================================================== *)
From GoMC Require Model.C06 Proofs.C18_skel_hs Proofs.C18_tie_wire.

Theorem C18_encryptionRequest_translated : forall conn_write hello_id tr pub token,
  C18gen.auth_encryptionRequest conn_write hello_id tr pub token
  = let tr1 := tr ++ [EWrite (hello_id, PFields [FString []; FByteArray pub; FByteArray token])] in Ok (tr1, conn_write tr1).
Proof. exact C18_skel_hs.tie_encryptionRequest. Qed.
Theorem C18_Encrypt_translated : forall (RESP : Type) conn_write rand_read hello_id login_key_id sha1 marshal_pub read_packet scan2 decrypt
    (authentication : list N -> list N -> option RESP) tr name,
  C18gen.auth_Encrypt RESP marshal_pub rand_read conn_write hello_id read_packet login_key_id scan2 decrypt sha1 authentication tr name
  = srv_encrypt RESP conn_write rand_read hello_id login_key_id (C18gen.auth_authDigest sha1)
      marshal_pub read_packet scan2 decrypt authentication tr name.
Proof. exact C18_skel_hs.tie_Encrypt. Qed.
Theorem C18_newSymmetricEncryption_translated : forall rand_read,
  C18gen.bot_newSymmetricEncryption rand_read
  = match rand_read 16%Z with
    | None => Panic
    | Some key => if negb (aes_key_ok key) then Panic else Ok (key, SEnc key key, SDec key key)
    end.
Proof. exact C18_skel_hs.tie_newSymmetricEncryption. Qed.
Theorem C18_genEncryptionKeyResponse_translated : forall (PUB : Type) login_key_id (parse_pub : list N -> option PUB) is_rsa rsa_encrypt secret pub token,
  C18gen.bot_genEncryptionKeyResponse PUB parse_pub is_rsa rsa_encrypt login_key_id secret pub token
  = bot_key_response PUB login_key_id parse_pub is_rsa rsa_encrypt secret pub token.
Proof. exact C18_skel_hs.tie_genEncryptionKeyResponse. Qed.
Theorem C18_loginAuth_translated : forall sha1 session_join tr secret sid pub token,
  C18gen.bot_loginAuth sha1 session_join tr secret sid pub token
  = match C18gen.bot_authDigest sha1 sid secret pub with
    | Ok d => Ok (tr ++ [EJoin d], session_join d)
    | Panic => Panic
    | OutOfFuel => OutOfFuel
    end.
Proof. exact C18_skel_hs.tie_loginAuth. Qed.
Theorem C18_handleEncryptionRequest_translated : forall (PUB : Type) conn_write rand_read login_key_id sha1 scan_er session_join
    (parse_pub : list N -> option PUB) is_rsa rsa_encrypt tr p,
  C18gen.bot_handleEncryptionRequest rand_read scan_er sha1 session_join PUB parse_pub is_rsa rsa_encrypt login_key_id conn_write tr p
  = bot_handle PUB conn_write rand_read login_key_id (C18gen.bot_authDigest sha1)
      scan_er session_join parse_pub is_rsa rsa_encrypt tr p.
Proof. exact C18_skel_hs.tie_handleEncryptionRequest. Qed.
Theorem C18_VerifyMessage_translated : forall (PK : Type) (rsa_verify_pk : PK -> list N -> list N -> bool) (expires : Z) (pub : PK)
    (sig hash signature : list N),
  C18gen.user_PublicKey_VerifyMessage PK rsa_verify_pk expires pub sig hash signature = Ok (negb (rsa_verify_pk pub hash signature)).
Proof. exact C18_skel_hs.tie_VerifyMessage. Qed.

(* server: the response is read, THEN the cipher is enabled; key = IV = the secret that came with the echoed token,
   the same for both directions; stated about the translated Encrypt for EVERY run that returns *)
Theorem C18_server_cipher_order : forall (RESP : Type) marshal_pub rand_read conn_write hello_id read_packet login_key_id scan2 decrypt sha1
    (authentication : list N -> list N -> option RESP) tr0 name tr r pre a b post,
  C18gen.auth_Encrypt RESP marshal_pub rand_read conn_write hello_id read_packet login_key_id scan2 decrypt sha1 authentication tr0 name = Ok (tr, r) ->
  tr = tr0 ++ pre ++ ESetCipher a b :: post ->
  exists pub token s, pre = [EWrite (hello_id, PFields [FString []; FByteArray pub; FByteArray token]); EReadResponse] /\
    a = SEnc s s /\ b = SDec s s /\ encrypt_secret read_packet login_key_id scan2 decrypt token = Some s.
Proof. exact C18_skel_hs.srv_cipher_order_translated. Qed.
(* bot: the response is sent, THEN the cipher is enabled (and nothing follows); key = IV = the fresh key, both directions *)
Theorem C18_bot_cipher_order : forall (PUB : Type) rand_read scan_er sha1 session_join (parse_pub : list N -> option PUB) is_rsa rsa_encrypt
    login_key_id conn_write tr0 p tr e pre a b post,
  C18gen.bot_handleEncryptionRequest rand_read scan_er sha1 session_join PUB parse_pub is_rsa rsa_encrypt login_key_id conn_write tr0 p = Ok (tr, e) ->
  tr = tr0 ++ pre ++ ESetCipher a b :: post ->
  exists d resp key, pre = [EJoin d; EWrite resp] /\ post = [] /\ a = SEnc key key /\ b = SDec key key /\ rand_read 16%Z = Some key.
Proof. exact C18_skel_hs.bot_cipher_order_translated. Qed.

(* the two sides agree.  Packet level: for every secret and token the packet built by the bot's translated
   genEncryptionKeyResponse is accepted by the server's translated encryptionResponse, which returns that secret *)
Theorem C18_encryption_handshake_packet : forall (PUB : Type) login_key_id (parse_pub : list N -> option PUB) is_rsa rsa_encrypt decrypt
    (wire : list field -> list N) scan2 pubb pk,
  parse_pub pubb = Some pk -> is_rsa pk = true ->
  (forall i m c, rsa_encrypt i pk m = Some c -> decrypt c = Some m) ->
  (forall a b, scan2 (wire [FByteArray a; FByteArray b]) = Some (a, b)) ->
  forall secret token c1 c2, rsa_encrypt 0%Z pk secret = Some c1 -> rsa_encrypt 1%Z pk token = Some c2 ->
  exists fs,
    C18gen.bot_genEncryptionKeyResponse PUB parse_pub is_rsa rsa_encrypt login_key_id secret pubb token
      = Ok ((login_key_id, PFields fs), false) /\
    C18gen.auth_encryptionResponse (Some (login_key_id, wire fs)) login_key_id scan2 decrypt token = Ok (secret, false).
Proof. exact C18_skel_hs.handshake_packet. Qed.
(* whole exchange: both sides enable AES/CFB8 with the SAME key (= IV), after the response went out / came in, and ask the
   session server with the SAME digest *)
Theorem C18_encryption_handshake_agrees : forall (RESP PUB : Type) sha1 hello_id login_key_id (parse_pub : list N -> option PUB) is_rsa
    rsa_encrypt decrypt (wire : list field -> list N) scan2 scan_er pubb pk,
  parse_pub pubb = Some pk -> is_rsa pk = true ->
  (forall i m c, rsa_encrypt i pk m = Some c -> decrypt c = Some m) ->
  (forall a b, scan2 (wire [FByteArray a; FByteArray b]) = Some (a, b)) ->
  (forall s a b, scan_er (PRaw (wire [FString s; FByteArray a; FByteArray b])) = Some (s, a, b)) ->
  forall rand_s rand_b conn_write_s conn_write_b (authentication : list N -> list N -> option RESP) session_join,
  (forall m, all_bytes (sha1 m)) -> (forall m, length (sha1 m) = 20%nat) ->
  forall (name token key c1 c2 : list N) (resp : RESP),
  rand_s 16%Z = Some token -> rand_b 16%Z = Some key -> length key = 16%nat ->
  rsa_encrypt 0%Z pk key = Some c1 -> rsa_encrypt 1%Z pk token = Some c2 ->
  (forall tr, conn_write_s tr = false) -> (forall tr, conn_write_b tr = false) ->
  (forall d, session_join d = false) -> (forall h, authentication name h = Some resp) ->
  let request := (hello_id, PFields [FString []; FByteArray pubb; FByteArray token]) in
  let response := (login_key_id, PFields [FByteArray c1; FByteArray c2]) in
  exists d,
    C18gen.bot_handleEncryptionRequest rand_b scan_er sha1 session_join PUB parse_pub is_rsa rsa_encrypt login_key_id conn_write_b []
      (hello_id, PRaw (wire [FString []; FByteArray pubb; FByteArray token]))
    = Ok ([EJoin d; EWrite response; ESetCipher (SEnc key key) (SDec key key)], false) /\
    C18gen.auth_Encrypt RESP (Some pubb) rand_s conn_write_s hello_id (Some (login_key_id, wire [FByteArray c1; FByteArray c2]))
      login_key_id scan2 decrypt sha1 authentication [] name
    = Ok ([EWrite request; EReadResponse; ESetCipher (SEnc key key) (SDec key key); EAuth name d], (Some resp, false)).
Proof. exact C18_skel_hs.handshake_agrees. Qed.

(* ---- wire layout of user.PublicKey and user.Property (field lists translated from their pk.Tuple literals) ---- *)
Theorem C18_pk_wire_order : forall ms enc sig,
  map snd (C18gen.user_PublicKey_WriteTo_fields ms sig enc) = [C06.VZ ms; C06.VBytes enc []; C06.VBytes sig []] /\
  map fst (C18gen.user_PublicKey_WriteTo_fields ms sig enc) = map fst C18gen.user_PublicKey_ReadFrom_fields /\
  map snd C18gen.user_PublicKey_ReadFrom_fields = C18_tie_wire.pk_dest_names.
Proof. exact C18_tie_wire.pk_wire_order. Qed.
Theorem C18_property_wire_order : forall name value sig,
  map snd (C18gen.user_Property_WriteTo_fields name sig value)
    = [C06.VBytes name []; C06.VBytes value []; C06.VOpt (negb (bytes_eqb sig [])) (C06.VBytes sig [])] /\
  map fst (C18gen.user_Property_WriteTo_fields name sig value) = map fst C18gen.user_Property_ReadFrom_fields /\
  map snd C18gen.user_Property_ReadFrom_fields = C18_tie_wire.property_dest_names.
Proof. exact C18_tie_wire.property_wire_order. Qed.
Theorem C18_pk_wire_roundtrip : forall (ms : Z) (enc sig : list N) (fuel : nat) (extra : list N),
  (- 2 ^ 63 <= ms < 2 ^ 63)%Z -> all_bytes enc -> lenN enc < 2 ^ 31 -> all_bytes sig -> lenN sig < 2 ^ 31 ->
  exists rs, Dec.run_flat (C06.scan fuel (C18_tie_wire.dests C18gen.user_PublicKey_ReadFrom_fields))
                          (C06.marshal (C18gen.user_PublicKey_WriteTo_fields ms sig enc) ++ extra) = Dec.FOk rs extra
    /\ Forall2 (fun tv r => C06.view (fst tv) r = C06.view (fst tv) (snd tv)) (C18gen.user_PublicKey_WriteTo_fields ms sig enc) rs.
Proof. exact C18_tie_wire.pk_wire_roundtrip. Qed.
Theorem C18_property_wire_roundtrip : forall (name value sig : list N) (fuel : nat) (extra : list N),
  all_bytes name -> lenN name < 2 ^ 31 -> all_bytes value -> lenN value < 2 ^ 31 -> all_bytes sig -> lenN sig < 2 ^ 31 ->
  exists rs, Dec.run_flat (C06.scan fuel (C18_tie_wire.dests C18gen.user_Property_ReadFrom_fields))
                          (C06.marshal (C18gen.user_Property_WriteTo_fields name sig value) ++ extra) = Dec.FOk rs extra
    /\ Forall2 (fun tv r => C06.view (fst tv) r = C06.view (fst tv) (snd tv)) (C18gen.user_Property_WriteTo_fields name sig value) rs.
Proof. exact C18_tie_wire.property_wire_roundtrip. Qed.
Theorem C18_handshake_texts :
  C18gen.bot_handleEncryptionRequest_text = C18_expected.expected_bot_handleEncryptionRequest_text.
Proof. exact C18_skel.bot_handleEncryptionRequest_text_ok. Qed.

(* ---- non-vacuity: the hypotheses of the agreement theorem hold for a toy RSA (tag the message) and a length-prefixed wire form;
        the translated functions run on it ---- *)
Example C18_ex_handshake :
  let sha1 := fun _ : list N => ex_jeb in
  exists d,
    C18gen.bot_handleEncryptionRequest (fun _ => Some (repeat 7 16)) C18_skel_hs.Toy.scan_er sha1 (fun _ => false) unit (fun _ => Some tt)
      (fun _ => true) C18_skel_hs.Toy.enc 1%Z (fun _ => false) []
      (0%Z, PRaw (C18_skel_hs.Toy.wire [FString []; FByteArray [1;2;3]; FByteArray (repeat 9 16)]))
    = Ok ([EJoin d; EWrite (1%Z, PFields [FByteArray (0 :: repeat 7 16); FByteArray (1 :: repeat 9 16)]);
           ESetCipher (SEnc (repeat 7 16) (repeat 7 16)) (SDec (repeat 7 16) (repeat 7 16))], false) /\
    C18gen.auth_Encrypt unit (Some [1;2;3]) (fun _ => Some (repeat 9 16)) (fun _ => false) 0%Z
      (Some (1%Z, C18_skel_hs.Toy.wire [FByteArray (0 :: repeat 7 16); FByteArray (1 :: repeat 9 16)]))
      1%Z C18_skel_hs.Toy.scan2 C18_skel_hs.Toy.dec sha1 (fun _ _ => Some tt) [] [78]
    = Ok ([EWrite (0%Z, PFields [FString []; FByteArray [1;2;3]; FByteArray (repeat 9 16)]); EReadResponse;
           ESetCipher (SEnc (repeat 7 16) (repeat 7 16)) (SDec (repeat 7 16) (repeat 7 16)); EAuth [78] d], (Some tt, false)).
Proof.
  apply (C18_skel_hs.handshake_agrees unit unit (fun _ => ex_jeb) 0%Z 1%Z (fun _ => Some tt) (fun _ => true) C18_skel_hs.Toy.enc
           C18_skel_hs.Toy.dec C18_skel_hs.Toy.wire C18_skel_hs.Toy.scan2 C18_skel_hs.Toy.scan_er [1;2;3] tt);
    try reflexivity; try (intros; reflexivity).
  - intros i m c E. injection E as <-. reflexivity.
  - exact C18_skel_hs.Toy.scan2_wire.
  - exact C18_skel_hs.Toy.scan_er_wire.
  - intros m. apply all_bytesb_spec. vm_compute. reflexivity.
Qed.

Print Assumptions C18_encryptionRequest_translated.
Print Assumptions C18_Encrypt_translated.
Print Assumptions C18_newSymmetricEncryption_translated.
Print Assumptions C18_genEncryptionKeyResponse_translated.
Print Assumptions C18_loginAuth_translated.
Print Assumptions C18_handleEncryptionRequest_translated.
Print Assumptions C18_VerifyMessage_translated.
Print Assumptions C18_server_cipher_order.
Print Assumptions C18_bot_cipher_order.
Print Assumptions C18_encryption_handshake_packet.
Print Assumptions C18_encryption_handshake_agrees.
Print Assumptions C18_pk_wire_order.
Print Assumptions C18_property_wire_order.
Print Assumptions C18_pk_wire_roundtrip.
Print Assumptions C18_property_wire_roundtrip.
Print Assumptions C18_handshake_texts.
