(* C19 - bot and server gate interoperate: property theorems only.
   Model: Model/C19.v (two sequential machines over FIFO frame channels; play-phase queues; event
   dispatcher).  Proofs: Proofs/C19_net.v (confluence of two deterministic processes over FIFO channels),
   Proofs/C19_gate.v (reference runs), Proofs/C19_play.v, Proofs/C19_disp.v.
   offline.NameToUUID, the LoginChecker, the status handler, the handlers' verdicts and zlib are
   explicit parameters of the statements; nothing is assumed globally. *)
From Coq Require Import List String NArith ZArith Bool Permutation.
From GoMC Require Model.C20 Proofs.C20 Proofs.C20_ll Proofs.C20_term Proofs.C20_order Proofs.C20_top.
From GoMC Require Import Base.Bytes Base.Dec Gen.Consts Gen.Gate Model.C05 Model.C07 Model.C19_syntax Model.C19
  Proofs.C07 Proofs.C19_net Proofs.C19_gate Proofs.C19_play Proofs.C19_disp Proofs.C19_expected Proofs.C19_skel Proofs.C19_reg Proofs.C19_skel_disp Proofs.C19_close Proofs.C19_conn Proofs.C19_closei Proofs.C19_accept Proofs.C19_refine.
Import ListNotations.
Open Scope Z_scope.

(* ------------------------------------------------------------------ join *)
(* For EVERY player name, claimed UUID, address, MojangLoginHandler.Threshold (any Go int), LoginChecker
   that lets the player in (or none), EVERY ConfigHandler of the two kinds - the stock
   server.Configurations with ANY list of registries the bot knows and can read (regs_readable; one
   RegistryData packet per registry, Finish, wait for the acknowledgement) or a handler that only
   sends Finish and reads the acknowledgement (regs_of = []) - and EVERY interleaving `sch` of the two
   goroutines (a scheduled goroutine that is blocked or has returned stays put):
   there is ONE final state f - bot joined, AcceptPlayer called, both hold the name the bot sent and
   offline_uuid(name), the server holds the bot's protocol number, both net.Conn hold the same
   threshold, nothing is in flight, the transcripts are exactly join_c2s / join_s2c (with every
   registry packet, in struct order, between the profile and Finish) - such that the run makes at
   most n effective steps, has decoded every frame so far under the threshold it was encoded with
   (clean), can only come to rest in f, can always be completed to f, and a side that has returned has
   returned in its final state (so join() never returns an error and AcceptConn never returns without
   calling AcceptPlayer). *)
Theorem C19_join :
  forall (offline_uuid : list N -> list N) (bc : bcfg) (sc : scfg),
  accepts offline_uuid sc (bc_name bc) -> regs_readable bc (regs_of sc) ->
  exists (f : sys bot srv) (n : nat),
    joined_state offline_uuid bc sc f /\
    every_interleaving offline_uuid bc sc (join_init bc) f n.
Proof. exact join_all. Qed.

(* refusal: when the LoginChecker refuses (name, offline uuid, the bot's protocol number) with `reason`,
   every interleaving ends with the bot returning DisconnectErr(reason) from the login stage and the
   server closed WITHOUT AcceptPlayer; the reason travels as a JSON text component under the threshold
   in force (set-compression is sent before the verdict).  Any ConfigHandler. *)
Theorem C19_refuse :
  forall (offline_uuid : list N -> list N) (bc : bcfg) (sc : scfg) (reason : list N),
  refuses offline_uuid sc (bc_name bc) reason ->
  exists (f : sys bot srv) (n : nat),
    refused_state offline_uuid bc sc reason f /\
    every_interleaving offline_uuid bc sc (join_init bc) f n.
Proof. exact refuse_all. Qed.

(* ------------------------------------------------------------------ status ping *)
(* PingAndList against the same gate: for every interleaving the bot returns exactly the JSON produced
   by the status handler for the bot's protocol number, the pong echoes the bot's time stamp, both
   ends stay uncompressed, the server's loop has used its two rounds. *)
Theorem C19_status :
  forall (offline_uuid : list N -> list N) (bc : bcfg) (sc : scfg) (json : list N),
  sc_status sc bot_ProtocolVersion = Some json ->
  exists (f : sys bot srv) (n : nat),
    status_state bc json f /\ every_interleaving offline_uuid bc sc (ping_init bc) f n.
Proof. exact status_all. Qed.

(* ------------------------------------------------------------------ play phase *)
(* For EVERY pair of thresholds and EVERY sequence of events (application writes on either side, the
   bot's writer / reader goroutines, reads on either side, in any order and number), at every moment:
   what the bot wrote = what the server received ++ what is on the wire ++ what is in the send queue
   (and symmetrically) - nothing lost, duplicated, reordered or altered; frames in flight carry the
   sender's threshold; with equal thresholds no frame was decoded under another one; once the stages
   are empty each side has received exactly what the other wrote. *)
Theorem C19_play :
  forall (tb ts : Z) (es : list pev),
  let x := prun tb ts es in
  bot_writes es = p_srv_got x ++ map snd (p_c2s x) ++ p_sendq x /\
  srv_writes es = p_bot_got x ++ p_recvq x ++ map snd (p_s2c x) /\
  tagged tb (p_c2s x) /\ tagged ts (p_s2c x) /\
  (tb = ts -> p_bad x = false) /\
  (pdrained x -> p_srv_got x = bot_writes es /\ p_bot_got x = srv_writes es).
Proof. exact play_conservation. Qed.

(* whatever has happened, the stages can be emptied without any further write *)
Theorem C19_play_drainable :
  forall (tb ts : Z) (es : list pev), exists es', no_writes es' /\ pdrained (prun tb ts (es ++ es')).
Proof. exact play_drainable. Qed.

(* byte level: the frames in flight in either direction, each packed by Packet.Pack under the
   threshold it is tagged with, are recovered by a receiver holding that threshold packet by packet,
   in order, intact, for packets of any size in the protocol's domain (C07) *)
Theorem C19_play_wire :
  forall (deflate : list N -> list N) (inflate : list N -> option (list N)) (t : Z) (q : list (Z * ppkt)),
  zlib_inverse deflate inflate -> zlib_fits deflate -> tagged t q ->
  forall (upools : list (list N)) (old : rstate) (rest : list N),
  Forall in_domain (map snd q) -> List.length upools = List.length q ->
  run_flat (unpack_seq inflate t upools old) (wire deflate q ++ rest) = FOk (thread old (map snd q)) rest.
Proof. exact wire_decodes. Qed.

(* ------------------------------------------------------------------ dispatcher *)
(* sortPacketHandlers: descending priority, registration order inside one priority, a permutation;
   and ANY list with the first two properties is this list (the result does not depend on the sort
   algorithm as long as it is stable) *)
Theorem C19_dispatch_order :
  forall l : list handler,
  stable_desc_sort_of l (ssort l) /\ Permutation (ssort l) l /\
  forall r, stable_desc_sort_of l r -> r = ssort l.
Proof. exact ssort_all. Qed.

(* after ANY sequence of AddListener / AddGeneric calls: the generic table is the stable descending
   sort of everything registered as generic, handlers[i] that of the listeners with id i, both in
   registration order; the sequence panics exactly when some listener id is outside [0, guard) *)
Theorem C19_dispatch_tables :
  forall rs : list reg,
  if regs_valid rs then
    exists e, register events_init rs = Some e /\
              e_generic e = ssort (gen_of rs) /\
              forall i, e_handlers e i = ssort (of_id i (lis_all rs))
  else register events_init rs = None.
Proof. exact register_tables. Qed.

(* handlePacket: ONE pass over generic ++ handlers[id]; the calls made are the handlers up to and
   including the first one that fails, and that handler's error is what is returned *)
Theorem C19_dispatch_packet :
  forall (fails : N -> N -> bool) (e : events) (p : pkt), valid_id (p_id p) = true ->
  let hs := e_generic e ++ e_handlers e (p_id p) in
  match snd (handle_packet fails e p) with
  | None => fst (handle_packet fails e p) = map (mk p) hs /\ forall h, In h hs -> hfails fails p h = false
  | Some o => exists pre h post, hs = pre ++ h :: post /\ (forall g, In g pre -> hfails fails p g = false) /\
                hfails fails p h = true /\ o = OHandler (p_id p) (h_tag h) /\
                fst (handle_packet fails e p) = map (mk p) (pre ++ [h])
  end.
Proof. exact packet_spec. Qed.

(* HandleGame: every stream has a reading under the bundle grammar (stream_spec: singles, closed
   bundles of fewer than 4096 packets, an unclosed tail, the 4096 limit), and for every such reading
   the calls made are those of dispatching the packets d one after the other - singles as they come,
   a bundle's packets contiguously and in order when its closing delimiter arrives - stopping at the
   first handler error, which is the returned error *)
Theorem C19_dispatch_game :
  forall (fails : N -> N -> bool) (e : events) (ps : list pkt),
  (exists d o, stream_spec ps d o) /\
  forall d o, stream_spec ps d o -> handle_game fails e ps = finish (handle_all fails e d) o.
Proof. exact game_all. Qed.

(* nothing of a bundle is dispatched while it is open *)
Theorem C19_dispatch_bundle_atomic :
  forall (fails : N -> N -> bool) (e : events) (o1 : pkt) (b : list pkt) (o2 : pkt),
  is_delim o1 = true -> is_delim o2 = true -> no_delim b -> Z.of_nat (List.length b) < bundle_cap ->
  handle_game fails e (o1 :: b) = ([], OEnd) /\
  handle_game fails e (o1 :: b ++ [o2]) = finish (handle_all fails e b) TEnd.
Proof. exact bundle_atomic. Qed.

(* ------------------------------------------------------------------ the peer stops *)
(* The bot (join or ping, from ANY state b) against a peer that delivers ANY frames and then closes the
   connection or fails (a cut inside a frame is the same event: a strict prefix of a frame makes
   ReadPacket fail, C07): it always returns - at most bdepth b + 2 per frame + 1 steps - and it is then
   in a state that does not wait for a packet (joined, done, a disconnect, or an error naming the
   stage: bot_eof gives stLoginRead / stConfigRead / stStatusRead).  No hang at any cut point. *)
Theorem C19_close_bot :
  forall (c : bcfg) (b : bot) (inc : list frame), exists fuel : nat,
  (fuel <= bdepth b + 2 * List.length inc + 1)%nat /\
  bot_act c (snd (bot_feed c fuel b inc)) = AHalt.
Proof. exact bot_always_returns. Qed.
(* The server gate likewise, for every configuration (any registries), from any state: AcceptConn
   returns (the connection is dropped; AcceptPlayer is not called on a read error in handshake, login
   or configuration: srv_eof) after a bounded number of steps.  Other connections are other machines. *)
Theorem C19_close_server :
  forall (offline_uuid : list N -> list N) (c : scfg) (s : srv) (inc : list frame), exists fuel : nat,
  (fuel <= srvdepth s + (List.length (sc_registries c) + 3) * List.length inc + 1)%nat /\
  srv_act offline_uuid c (snd (srv_feed offline_uuid c fuel s inc)) = AHalt.
Proof. exact srv_always_returns. Qed.
(* [abstract view: the coarse machine qstate/qstep; the guarantees for the real queue are C19_close_conn_c20*,
   obtained from C20's theorems - a refinement proof between the two machines is not given]
   The bot's queue-backed Conn when the connection fails after the packets `wire`: for EVERY scheduling of
   the reader goroutine and of the calls of Conn.ReadPacket, what has been returned ++ what is queued ++
   what is still to arrive = wire (order kept, nothing lost), and an error is returned only after every
   packet that arrived has been returned (no lost tail) ... *)
Theorem C19_close_conn :
  forall (wire : list ppkt) (es : list qev),
  let x := qrun wire es in
  q_got x ++ q_recvq x ++ q_wire x = wire /\ ((q_errs x > 0)%nat -> q_got x = wire).
Proof. exact conn_failure_delivers_all. Qed.
(* ... and the error does arrive (no hang): once the reader has met the failure and the queue is drained
   the next ReadPacket returns it, so HandleGame - which returns the first error of ReadPacket
   (C19_dispatch_game: outcome OEnd after everything before it was dispatched) - returns *)
Theorem C19_close_conn_reported :
  forall (wire : list ppkt),
  let es := repeat QReader (Datatypes.S (List.length wire)) ++ repeat QRead (Datatypes.S (List.length wire)) in
  q_errs (qrun wire es) = 1%nat /\ q_got (qrun wire es) = wire.
Proof. exact conn_failure_reported. Qed.
(* Close in the TWO-machine interleaving model (Model/C19.v Part 6: either side may stop at any step;
   the transport delivers what was written before and then end-of-stream; the server also stops by
   returning).  From ANY state y - in particular every reachable state of every interleaving - when the
   server stops and the turns are then scheduled in any way (es: bot turns, server turns, further stop
   events of the server side), the bot's state is the single-machine run on the frames still in flight
   followed by end-of-stream, and after at most bdepth + 2 * in-flight + 1 bot turns the bot has returned
   and stays in that state; symmetrically for the gate when the bot side stops.  So every partial run
   can be completed, with end-of-stream, to a state where the survivor has returned. *)
Theorem C19_close_interleaved :
  forall (offl : list N -> list N) (bc : bcfg) (sc : scfg),
  (forall (y : csys) (es : list cev), c_bstop y = false -> count_ev CStopB es = 0%nat ->
     let b0 := x_b (c_x y) in let inflight := x_s2c (c_x y) in
     let y' := crun offl bc sc (CStopS :: es) y in
     x_b (c_x y') = snd (bot_feed bc (count_ev CB es) b0 inflight) /\
     exists bound, (bound <= bdepth b0 + 2 * List.length inflight + 1)%nat /\
       ((bound <= count_ev CB es)%nat ->
        bot_act bc (x_b (c_x y')) = AHalt /\ x_b (c_x y') = snd (bot_feed bc bound b0 inflight))) /\
  (forall (y : csys) (es : list cev), c_sstop y = false -> count_ev CStopS es = 0%nat ->
     let s0 := x_s (c_x y) in let inflight := x_c2s (c_x y) in
     let y' := crun offl bc sc (CStopB :: es) y in
     x_s (c_x y') = snd (srv_feed offl sc (count_ev CS es) s0 inflight) /\
     exists bound, (bound <= srvdepth s0 + (List.length (sc_registries sc) + 3) * List.length inflight + 1)%nat /\
       ((bound <= count_ev CS es)%nat ->
        srv_act offl sc (x_s (c_x y')) = AHalt /\ x_s (c_x y') = snd (srv_feed offl sc bound s0 inflight))).
Proof. exact close_interleaved. Qed.
(* the read that meets the end of the stream names the stage *)
Theorem C19_close_eof_stage :
  forall (bc : bcfg) (x : sys bot srv), x_s2c x = [] ->
  (b_ph (x_b x) = BLogin -> b_ph (x_b (bot_turn bc true x)) = BFailed stLoginRead) /\
  (b_ph (x_b x) = BConfig -> b_ph (x_b (bot_turn bc true x)) = BFailed stConfigRead) /\
  (b_ph (x_b x) = BStatusList -> b_ph (x_b (bot_turn bc true x)) = BFailed stStatusRead).
Proof. exact eof_names_stage. Qed.
(* the cut cases against the reference transcript of C19_join (finish-only handler): for EVERY prefix
   length k the outcome cut_outcome_bot computes - the function the correspondence run's `cut` cases
   compare with the implementation - is a login-stage error, a configuration-stage error, or joined *)
Theorem C19_cut_outcome :
  forall (offl : list N -> list N) (bc : bcfg) (sc : scfg) (k : nat),
  sc_cfg sc = CfgFinishOnly ->
  let p := (if compress_on (sc_threshold sc) then 1 else 0)%nat in
  (k <= p + 2)%nat ->
  b_ph (cut_outcome_bot bc k (join_s2c offl bc sc)) =
    if (k <=? p)%nat then BFailed stLoginRead else if (k <=? p + 1)%nat then BFailed stConfigRead else BJoined.
Proof. exact cut_outcome_finish_only. Qed.

(* The gate calls AcceptPlayer iff it has read the ServerboundConfigFinishConfiguration frame: in EVERY
   state reached from the initial state (any bot state b0) by ANY sequence of bot turns, server turns and
   stops of either side (crun: every interleaving, every stop point), the server is in SJoined exactly
   when, among the frames it read in the configuration stage (after handshake, login start, login
   acknowledged; x_sseen logs every read), one has that id and was decoded under the threshold it was
   packed with.  In particular a connection that ends before the acknowledgement never leads to
   AcceptPlayer - the negation of what AcceptConn did before 40328f2 (C19_accept_iff_refuted_before_fix). *)
Theorem C19_accept_iff_configured :
  forall (offl : list N -> list N) (bc : bcfg) (sc : scfg) (es : list cev) (b0 : bot),
  let y := crun offl bc sc es (cinit (sys_init b0)) in
  s_ph (x_s (c_x y)) = SJoined <-> fin_read (x_sseen (c_x y)) = true.
Proof. exact accept_iff_configured. Qed.
(* the same for every prefix length of the STOCK transcript, with ANY registries the bot can read *)
Theorem C19_cut_outcome_stock :
  forall (offl : list N -> list N) (bc : bcfg) (sc : scfg) (k : nat),
  sc_cfg sc = CfgStock -> regs_readable bc (sc_registries sc) ->
  let p := (if compress_on (sc_threshold sc) then 1 else 0)%nat in
  let n := List.length (sc_registries sc) in
  (k <= p + n + 2)%nat ->
  b_ph (cut_outcome_bot bc k (join_s2c offl bc sc)) =
    if (k <=? p)%nat then BFailed stLoginRead else if (k <=? p + n + 1)%nat then BFailed stConfigRead else BJoined.
Proof. exact cut_outcome_stock. Qed.

(* The coarse queue machine refines the C20 instance: for ANY numbering enc of the packets, every state of
   every run of qstate/qstep is the image (Rel: same queue, same closed flag, same packets handed out,
   same number of error reports, both goroutines between two calls) of a state that C20's machine -
   running the LinkedListQueue programs translated from net/queue/queue.go on the scripts
   [Push per packet ++ Close; Pull per ReadPacket] - reaches by executing every Push / Close / Pull
   statement by statement (forward simulation; a ReadPacket blocked on the empty open queue is the
   consumer not being scheduled). *)
Theorem C19_qrun_refines_c20 :
  forall (enc : ppkt -> N) (wire : list ppkt) (es : list qev),
  exists (s : C20.state) (k : nat), conn_reachable (map enc wire) (nreads es) s /\ Rel enc k (qrun wire es) s.
Proof. exact qrun_refines_c20. Qed.
(* ... hence, as a corollary of C20's theorems (FIFO, exactly-once, push-then-close program order) instead
   of a second hand proof: under any numbering, what Conn.ReadPacket has returned is a prefix of what
   arrived, and once the error has been returned it is all of it; with an injective numbering this is
   the second clause of C19_close_conn literally *)
Theorem C19_close_conn_from_c20 :
  forall (enc : ppkt -> N) (wire : list ppkt) (es : list qev),
  let x := qrun wire es in
  ((exists a, map enc (q_got x) = firstn a (map enc wire)) /\
   ((q_errs x > 0)%nat -> map enc (q_got x) = map enc wire)) /\
  ((forall p p', enc p = enc p' -> p = p') -> (q_errs x > 0)%nat -> q_got x = wire).
Proof.
  intros enc wire es. split; [exact (close_conn_from_c20 enc wire es)|].
  intros Hinj. exact (close_conn_from_c20_inj enc Hinj wire es).
Qed.

(* The same guarantees obtained from C20 instead of a second model: the queue under warpConn IS C20's
   machine running the programs translated from net/queue/queue.go, with the reader goroutine as the
   producer (one Push per packet received, Close at the first read error - the shape is read off the
   rendered bot/client.go: C19_skeleton_conn) and Conn.ReadPacket as Pull (closure reported = the
   error).  For every interleaving: FIFO, no race, exactly-once, the error only when closed AND empty
   with everything pushed handed out, nobody parked for ever after the Close, and a finite bound. *)
Theorem C19_close_conn_c20 :
  forall (wire : list N) (m : nat) (s : C20.state), conn_reachable wire m s ->
  C20.delivered s ++ C20.q s = C20.pushed s /\
  (C20.race s = false /\ C20.fatal s = false) /\
  (forall a, C20.sumf (C20_ll.ga a) (C20.thr s) = C20_ll.cN a (C20.delivered s)) /\
  (forall t, nth_error (C20.thr s) 1 = Some t -> In (C20.RPull None false) (C20.out t) ->
     C20.closed s = true /\ C20.q s = [] /\ C20.delivered s = C20.pushed s) /\
  (C20.stuck C20.ll_progs s -> C20.closed s = true ->
   forall i t, nth_error (C20.thr s) i = Some t -> C20.finished t = true \/ C20.isP t = true).
Proof. exact conn_is_c20_instance. Qed.
(* with the reader's program order (C20_ll_push_then_close_single): what Conn.ReadPacket has returned is a
   prefix of the packets that arrived, in order, then the error reports; an error only after ALL of them;
   the queue is closed only after every packet that arrived was pushed *)
Theorem C19_close_conn_c20_order :
  forall (wire : list N) (m : nat) (s : C20.state) (t : C20.thread),
  conn_reachable wire m s -> nth_error (C20.thr s) 1 = Some t ->
  (exists a b, C20.out t = map C20_order.some_res (firstn a wire) ++ repeat C20_order.clo b /\
               (a <= List.length wire)%nat /\ ((b > 0)%nat -> a = List.length wire)) /\
  (C20.closed s = true -> C20.pushed s = wire).
Proof. exact conn_all_then_error. Qed.
Theorem C19_close_conn_c20_terminates :
  forall (wire : list N) (m k : nat) (s : C20.state),
  C20_term.reachN C20.ll_progs (C20.init 0 (conn_scripts wire m)) k s ->
  (k + C20_term.phi s <= C20_term.step_bound (conn_scripts wire m))%nat.
Proof. exact conn_terminates. Qed.
(* bot/client.go (warpConn with both goroutines, Conn.ReadPacket / WritePacket / Close) rendered from the
   repository equals the recorded bodies, and has the shape the instance relies on (recv.Close() after the
   reader's loop; `if !ok { return c.rerr }` after the Pull) *)
Theorem C19_skeleton_conn :
  Gate.bot_warp_conn = expected_bot_warp_conn /\ Gate.bot_conn_read_packet = expected_bot_conn_read_packet /\
  Gate.bot_conn_write_packet = expected_bot_conn_write_packet /\ Gate.bot_conn_close = expected_bot_conn_close /\
  reader_shape Gate.bot_warp_conn = true /\ read_shape Gate.bot_conn_read_packet = true.
Proof. exact conn_skel_ok. Qed.

(* in the source every ReadPacket of the gate and of the dispatcher is followed by `if err != nil { return
   <error> }` with these results (rendered from the repository on every run) *)
Theorem C19_close_error_returns :
  read_error_return Gate.bot_join_login = Some "LoginErr{receiving,err}"%string /\
  read_error_return Gate.bot_join_configuration = Some "ConfigErr{'config custom payload',err}"%string /\
  read_error_return Gate.bot_ping_and_list = Some "nil,0,fmt.Errorf('bot: recv list packect fail: %v',err)"%string /\
  read_error_return Gate.server_handshake = Some "0,0,err"%string /\
  read_error_return Gate.server_accept_login = Some ""%string /\
  read_error_return Gate.server_accept_list_ping = Some ""%string /\
  read_error_return Gate.server_accept_config = Some "err"%string /\
  read_error_return Gate.bot_handle_game = Some "err"%string /\
  read_error_return Gate.bot_handle_bundle_packets = Some "err"%string.
Proof. exact error_returns_in_source. Qed.

(* ------------------------------------------------------------------ the registry packets *)
(* Registry.WriteTo then Registry.ReadFrom: the same keys in the same id order with the same values,
   exactly the bytes written are consumed and what follows is left untouched - for any number of
   entries, any keys (below 2^31 bytes) and ANY value type whose network-NBT reader inverts its writer
   (explicit hypothesis; the NBT codec is the subject of C01/C02).  reg_write is the image the model's
   server sends in every RegistryData packet (compared with the real WriteTo on every stock session). *)
Theorem C19_registry_roundtrip :
  forall (V : Type) (nbt_enc : V -> list N) (nbt_dec : dec V),
  robust nbt_dec -> (forall v rest, run_flat nbt_dec (nbt_enc v ++ rest) = FOk v rest) ->
  forall (es : list (list N * V)) (rest : list N), keys_fit V es -> (lenN es < 2^31)%N ->
  run_flat (reg_read V nbt_dec) (reg_write (images V nbt_enc es) ++ rest) = FOk es rest.
Proof. exact registry_roundtrip. Qed.

(* After the join against the stock handler the bot holds the server's registries: if the server's
   Configurations.Registries are rs (any number of registries and entries, any value type whose NBT reader
   inverts its writer), AcceptConfig puts wire_of rs on the wire (one reg_write image per registry),
   and the bot reads the registries it knows with Registry.ReadFrom (bot_reads), then for EVERY
   interleaving the join completes as in C19_join and the bot's c.Registries are exactly rs (held_of:
   same ids in the same order, same keys in the same id order, same values as NBT images).  The
   model's b_regs is compared with the implementation's client.Registries on every stock session. *)
Theorem C19_join_registries :
  forall (offline_uuid : list N -> list N) (V : Type) (nbt_enc : V -> list N) (nbt_dec : dec V),
  robust nbt_dec -> (forall v rest, run_flat nbt_dec (nbt_enc v ++ rest) = FOk v rest) ->
  forall (bc : bcfg) (sc : scfg) (known : list N -> bool) (rs : server_regs V),
  sc_cfg sc = CfgStock -> sc_registries sc = wire_of V nbt_enc rs -> bot_reads V nbt_enc nbt_dec bc known ->
  regs_ok V known rs -> accepts offline_uuid sc (bc_name bc) ->
  exists (f : sys bot srv) (n : nat),
    joined_state offline_uuid bc sc f /\ every_interleaving offline_uuid bc sc (join_init bc) f n /\
    b_regs (x_b f) = held_of V nbt_enc rs.
Proof. exact join_registries. Qed.

(* ------------------------------------------------------------------ the machines are the source's *)
(* Gen/Gate.v is rendered from the repository on every run by tools/gotrans/gate.go: the bodies of
   join, joinLogin, joinConfiguration, pingAndList, AcceptConn, handshake, AcceptLogin, acceptListPing,
   AcceptConfig statement by statement in source order (protocol calls structured, the rest as text),
   and every constant of data/packetid.  The rendered bodies are the ones the model was written
   against (any edit, e.g. swapping the set-compression write and SetThreshold, breaks this). *)
Theorem C19_skeleton_source :
  Gate.bot_join = expected_bot_join /\ Gate.bot_join_login = expected_bot_join_login /\
  Gate.bot_join_configuration = expected_bot_join_configuration /\
  Gate.bot_ping_and_list = expected_bot_ping_and_list /\
  Gate.server_accept_conn = expected_server_accept_conn /\ Gate.server_handshake = expected_server_handshake /\
  Gate.server_accept_login = expected_server_accept_login /\
  Gate.server_accept_list_ping = expected_server_accept_list_ping /\
  Gate.server_accept_config = expected_server_accept_config.
Proof. exact all_skel_ok. Qed.

(* the 30 packet ids / guards the model writes by hand are the values of the source's constants, and the
   joinConfiguration cases left opaque are exactly the ids 8..15 the model maps to `unmodelled` *)
Theorem C19_skeleton_ids :
  map snd (firstn 30 id_table) = map pid id_names /\ opaque_config_ids = [8; 9; 10; 11; 12; 13; 14; 15].
Proof. exact ids_all_from_source. Qed.

(* the bot's two receive switches: on EVERY configuration, state and frame the model's step function is
   the interpretation (run_cases: case by packet id, Scan by field kinds, SetThreshold, at most one
   write, return nil / disconnect / next iteration) of the cases rendered from the source *)
Theorem C19_skeleton_bot_login :
  forall (c : bcfg) (b : bot) (f : frame),
  bot_login c b f = run_cases c b f BLogin BConfig stLogin (loop_cases Gate.bot_join_login).
Proof. exact bot_login_is_source. Qed.
Theorem C19_skeleton_bot_config :
  forall (c : bcfg) (b : bot) (f : frame), b_ph b = BConfig ->
  bot_config c b f = run_cases c b f BConfig BJoined stConfig (loop_cases Gate.bot_join_configuration).
Proof. exact bot_config_is_source. Qed.

(* the server after the login-start packet: the frames written until the next read / return, each with
   the threshold it is written under, and the final threshold, are those of interpreting AcceptLogin's
   statements after its Scan in SOURCE ORDER (run_seg: a write is tagged with the threshold in force,
   SetThreshold changes it) - for every Threshold, checker verdict, name; refusal continues in the error
   branch of AcceptConn.  This is where the order `write set-compression; SetThreshold` enters C19_join. *)
Theorem C19_skeleton_server_login :
  forall (offline_uuid : list N -> list N) (sc : scfg) (s0 : srv) (f : frame) (n u : list N) (more : list field),
  f_id f = sbLoginHello -> f_fields f = FString n :: FUUID u :: more ->
  let s1 := srv_login_start offline_uuid sc s0 f in
  let sn := {| s_ph := s_ph s0; s_thr := s_thr s0; s_proto := s_proto s0; s_name := n; s_uuid := offline_uuid n |} in
  let '(w, thr, st) := run_seg fuel0 (srv_sem sc sn) (s_thr s0) (after_scan Gate.server_accept_login) in
  match st with
  | StRead _ => verdict sc sn = None /\
                drain (srv_act offline_uuid sc) 6 s1 = (w, with_thr sn thr SAwaitAck)
  | StReturn _ =>
      exists r, verdict sc sn = Some r /\
      let '(w2, thr2, st2) := run_seg fuel0 (srv_sem sc sn) thr (login_error_branch Gate.server_accept_conn) in
      st2 = StReturn ""%string /\
      drain (srv_act offline_uuid sc) 6 s1 = (w ++ w2, with_thr sn thr2 (SClosed scRefused))
  | _ => False
  end.
Proof. exact srv_login_is_source. Qed.

(* the stock AcceptConfig after the repair: the body of its `for` over the tagged fields writes one
   RegistryData frame (Identifier(tag), the registry) per field, the statements after the loop write
   Finish and enter the wait loop, whose exit condition is the ServerboundConfigFinishConfiguration id;
   the model's cfg_phase writes exactly these frames and then waits *)
Theorem C19_skeleton_server_config :
  forall (offline_uuid : list N -> list N) (sc : scfg) (s : srv), sc_cfg sc = CfgStock ->
  exists body rest,
    config_parts Gate.server_accept_config = Some (body, rest) /\
    (forall r, run_seg fuel0 (srv_sem_reg sc s r) (s_thr s) body
               = ([{| f_thr := s_thr s; f_id := cbConfigRegistryData; f_fields := [FString (fst r); FRaw (snd r)] |}], s_thr s, StEnd)) /\
    (exists w lb, run_seg fuel0 (srv_sem sc s) (s_thr s) rest = (w, s_thr s, StLoop lb) /\
       drain (srv_act offline_uuid sc) (List.length (sc_registries sc) + 3) (s_set s (cfg_phase sc))
       = (map (fun r => {| f_thr := s_thr s; f_id := cbConfigRegistryData; f_fields := [FString (fst r); FRaw (snd r)] |})
              (sc_registries sc) ++ w, s_set s SConfWait)) /\
    wait_cond rest (srv_sem sc s) (s_thr s)
      = Some "packetid.ServerboundPacketID(p.ID) == packetid.ServerboundConfigFinishConfiguration"%string /\
    sbConfigFinish = pid "packetid.ServerboundConfigFinishConfiguration".
Proof. exact srv_config_is_source. Qed.

(* the bot's writes before its reads: join (handshake; joinLogin: login start; loop; after both calls
   return nil nothing more is written) and pingAndList (handshake with next state 1, status request;
   after the response the ping with the time stamp) *)
Theorem C19_skeleton_bot_join_writes :
  forall c : bcfg,
  exists w1 r1 w2 body r2,
    run_seg fuel0 (bot_sem c [] frame0) (-1) Gate.bot_join
      = (w1, -1, StCall "err := c.joinLogin(conn); err != nil"%string r1) /\
    run_seg fuel0 (bot_sem c [] frame0) (-1) Gate.bot_join_login = (w2, -1, StLoop body) /\
    drain (bot_act c) 5 (bot_join_init c)
      = (w1 ++ w2, {| b_ph := BLogin; b_thr := -1; b_name := []; b_uuid := bc_claim c; b_regs := [] |}) /\
    run_seg fuel0 (bot_sem c [] frame0) (-1) r1
      = ([], -1, StCall "err := c.joinConfiguration(conn); err != nil"%string r2) /\
    run_seg fuel0 (bot_sem c [] frame0) (-1) r2 = ([], -1, StReturn "nil"%string).
Proof. exact bot_join_prelude_is_source. Qed.
Theorem C19_skeleton_bot_ping_writes :
  forall c : bcfg,
  exists w1 r1,
    run_seg fuel0 (bot_sem c [] frame0) (-1) Gate.bot_ping_and_list = (w1, -1, StRead r1) /\
    drain (bot_act c) 5 (bot_ping_init c)
      = (w1, {| b_ph := BStatusList; b_thr := -1; b_name := []; b_uuid := bc_claim c; b_regs := [] |}) /\
    forall (b : bot) (json : list N), exists w2 r2,
       run_seg fuel0 (bot_sem c [("s"%string, FString json)] frame0) (b_thr b) (snd (split_scan (tl r1)))
         = (w2, b_thr b, StRead r2) /\
       drain (bot_act c) 5 (b_set b (BSend sbStatusPing [FLong (bc_time c)] (BStatusPong json (bc_time c))))
         = (w2, b_set b (BStatusPong json (bc_time c))).
Proof. exact bot_ping_prelude_is_source. Qed.

(* the dispatcher: bot/event.go (AddListener, AddGeneric, sortPacketHandlers) and bot/ingame.go (HandleGame,
   handleBundlePackets, handlePacket) rendered from the repository are the recorded bodies ... *)
Theorem C19_skeleton_dispatch_source :
  Gate.bot_add_listener = expected_bot_add_listener /\ Gate.bot_add_generic = expected_bot_add_generic /\
  Gate.bot_sort_packet_handlers = expected_bot_sort_packet_handlers /\
  Gate.bot_handle_game = expected_bot_handle_game /\
  Gate.bot_handle_bundle_packets = expected_bot_handle_bundle_packets /\
  Gate.bot_handle_packet = expected_bot_handle_packet.
Proof. exact dispatch_skel_ok. Qed.
(* ... and the model's dispatcher makes the decisions they prescribe: the sort call is the STABLE sort
   with the descending-priority comparator (whose specification ssort meets and which determines its
   result); add_listener1 / add_generic are the statements of AddListener's range body / AddGeneric ... *)
Theorem C19_skeleton_dispatch_register :
  (exists spec, sort_sem Gate.bot_sort_packet_handlers = Some spec /\
     forall l, spec l (ssort l) /\ forall r, spec l r -> r = ssort l) /\
  (forall (e : events) (l : handler),
     same_events (add_listener1 e l) (run_reg 10 (range_body Gate.bot_add_listener) e l)) /\
  (forall e ls, run_generic Gate.bot_add_generic e ls = Some (add_generic e ls)).
Proof. exact register_is_source. Qed.
(* ... handle_packet is handlePacket's two range loops in source order, each returning the
   PacketHandlerError of its first failing handler ... *)
Theorem C19_skeleton_dispatch_packet :
  forall (fails : N -> N -> bool) (e : events) (p : pkt),
  run_loops fails 10 Gate.bot_handle_packet e p = Some (handle_packet fails e p).
Proof. exact handle_packet_is_source. Qed.
(* ... and every step of the model's HandleGame machine is the decision of the corresponding source
   loop: delimiter -> handleBundlePackets, else handlePacket and `return err`; inside a bundle:
   delimiter -> goto the dispatch of the collected packets (handle_all = the range loop with
   `return err` on the first failure, `return nil` at the end), else append, bounded by the literal
   of the for header = bundle_cap *)
Theorem C19_skeleton_dispatch_game :
  forall (fails : N -> N -> bool),
  (forall (e : events) (p : pkt) (t : list pkt),
     game fails e MNormal (p :: t) =
     match top_decision Gate.bot_handle_game p with
     | DBundle => game fails e (MBundle 0 []) t
     | DPacket =>
         let '(cs, r) := handle_packet fails e p in
         match r with
         | Some o => (cs, o)
         | None => let '(cs', o) := game fails e MNormal t in (cs ++ cs', o)
         end
     | _ => ([], OPanic)
     end) /\
  exists body tail,
    bundle_loop Gate.bot_handle_bundle_packets = Some (bundle_cap, body, tail) /\
    (forall e ps, run_tail fails tail e ps = Some (handle_all fails e ps)) /\
    forall (e : events) (i : Z) (acc : list pkt) (p : pkt) (t : list pkt),
      game fails e (MBundle i acc) (p :: t) =
      match bundle_decision body p with
      | DGoto =>
          let '(cs, r) := handle_all fails e (rev acc) in
          match r with
          | Some o => (cs, o)
          | None => let '(cs', o) := game fails e MNormal t in (cs ++ cs', o)
          end
      | DAppend =>
          if bundle_cap <=? i + 1 then ([], OBundleLimit) else game fails e (MBundle (i + 1) (p :: acc)) t
      | _ => ([], OPanic)
      end.
Proof. exact game_is_source. Qed.

(* ------------------------------------------------------------------ the hypotheses are satisfiable *)
Definition ex_uuid (n : list N) : list N := rev n ++ [7%N].
Definition ex_bc : bcfg :=
  {| bc_name := [83;116;101;118;101]%N; bc_claim := []; bc_host := [104]%N; bc_port := 25565%N;
     bc_plugin := fun _ _ => None; bc_cookie := fun _ => None; bc_registry := fun rid content => if N.eqb (lenN rid) 2 then Some (Some [(content, rid)]) else None;
     bc_time := 1700000000 |}.
Definition ex_sc (thr : Z) (refuse : bool) (cfg : cfgmode) : scfg :=
  {| sc_threshold := thr;
     sc_checker := Some (fun _ _ p => if refuse then Some [110;111]%N else if p =? bot_ProtocolVersion then None else Some []);
     sc_cfg := cfg; sc_registries := [([109;99], [0]); ([109;100], [1;1;97;1;10;0])]%N; sc_status := fun p => Some [123; Z.to_N p mod 256; 125]%N |}.

Example C19_join_hyp_ok : accepts ex_uuid (ex_sc 256 false CfgStock) (bc_name ex_bc) /\
  regs_readable ex_bc (regs_of (ex_sc 256 false CfgStock)).
Proof. split; [reflexivity|]. repeat constructor; eexists; reflexivity. Qed.
Example C19_refuse_hyp_ok : refuses ex_uuid (ex_sc 0 true CfgStock) (bc_name ex_bc) [110;111]%N.
Proof. eexists. split; reflexivity. Qed.
(* the machines really run: greedy schedule, threshold 256, the stock configuration with two registries *)
Example C19_join_runs :
  let f := grun_greedy ex_uuid ex_bc (ex_sc 256 false CfgStock) 100 (join_init ex_bc) in
  b_ph (x_b f) = BJoined /\ s_ph (x_s f) = SJoined /\ b_uuid (x_b f) = [101;118;101;116;83;7]%N /\
  b_thr (x_b f) = 256 /\ s_thr (x_s f) = 256 /\ List.length (x_s2c_hist f) = 5%nat.
Proof. vm_compute. repeat split; reflexivity. Qed.
(* a server that switched its threshold BEFORE sending set-compression would be caught by `clean`:
   a frame tagged 256 read by a bot still at -1 *)
Example C19_clean_is_sensitive :
  seen_ok [(cbLoginCompression, 256, -1)] = false.
Proof. reflexivity. Qed.
Example C19_play_mismatch_detected :
  p_bad (prun (-1) 256 [EBotWrite (5, [1%N]); EBotWriter; ESrvRead]) = true.
Proof. reflexivity. Qed.
Example C19_dispatch_runs :
  let hs := [RGeneric [{| h_id := 0; h_prio := 0; h_tag := 1 |}];
             RListener [{| h_id := 5; h_prio := 1; h_tag := 2 |}; {| h_id := 5; h_prio := 7; h_tag := 3 |};
                        {| h_id := 5; h_prio := 1; h_tag := 4 |}];
             RGeneric [{| h_id := 9; h_prio := 3; h_tag := 5 |}]] in
  let ps := [{| p_id := 5; p_uid := 0 |}; {| p_id := 0; p_uid := 1 |}; {| p_id := 6; p_uid := 2 |};
             {| p_id := 5; p_uid := 3 |}; {| p_id := 0; p_uid := 4 |}; {| p_id := 0; p_uid := 5 |};
             {| p_id := 5; p_uid := 6 |}]%N in
  match register events_init hs with
  | Some e => handle_game (fun tag uid => (tag =? 4)%N && (uid =? 3)%N) e ps
  | None => ([], OPanic)
  end = ([(5,0);(1,0);(3,0);(2,0);(4,0); (5,2);(1,2); (5,3);(1,3);(3,3);(2,3);(4,3)]%N, OHandler 5 4%N).
Proof. vm_compute. reflexivity. Qed.
Example C19_stream_spec_inhabited :
  stream_spec [{| p_id := 0; p_uid := 0 |}; {| p_id := 4; p_uid := 1 |}; {| p_id := 0; p_uid := 2 |}; {| p_id := 3; p_uid := 3 |}]%N
              [{| p_id := 4; p_uid := 1 |}; {| p_id := 3; p_uid := 3 |}]%N TEnd.
Proof.
  apply (SBundle _ [{| p_id := 4; p_uid := 1%N |}] _ [{| p_id := 3; p_uid := 3%N |}] [{| p_id := 3; p_uid := 3%N |}] TEnd);
    try reflexivity.
  - repeat constructor.
  - apply SSingle; [reflexivity|constructor].
Qed.

(* the hypotheses of C19_join_registries hold for a one-byte value codec and two registries *)
Definition ex_vdec : dec N := ReadByte (fun b => Ret b).
Definition ex_venc (v : N) : list N := [v].
Definition ex_rs : server_regs N := [([109;99], [([97;98], 7); ([99], 9)]); ([109;100], [])]%N.
Definition ex_bc2 : bcfg :=
  {| bc_name := bc_name ex_bc; bc_claim := []; bc_host := []; bc_port := 1%N;
     bc_plugin := fun _ _ => None; bc_cookie := fun _ => None;
     bc_registry := fun rid content =>
       Some match run_flat (reg_read N ex_vdec) content with
            | FOk es [] => Some (images N ex_venc es)
            | _ => None
            end;
     bc_time := 0 |}.
Example C19_join_registries_hyp_ok :
  robust ex_vdec /\ (forall v rest, run_flat ex_vdec (ex_venc v ++ rest) = FOk v rest) /\
  bot_reads N ex_venc ex_vdec ex_bc2 (fun _ => true) /\ regs_ok N (fun _ => true) ex_rs /\
  b_regs (x_b (grun_greedy ex_uuid ex_bc2
                 {| sc_threshold := 64; sc_checker := None; sc_cfg := CfgStock;
                    sc_registries := wire_of N ex_venc ex_rs; sc_status := fun _ => None |}
                 100 (join_init ex_bc2))) = held_of N ex_venc ex_rs.
Proof.
  split; [repeat constructor|]. split; [reflexivity|]. split; [intros rid content; reflexivity|].
  split; [|vm_compute; reflexivity].
  repeat constructor; cbn; reflexivity.
Qed.

(* with the step function AcceptConn had before 40328f2 (the ConfigHandler's error dropped) the invariant
   behind C19_accept_iff_configured fails at the first end-of-stream in the configuration stage *)
Example C19_accept_iff_refuted_before_fix :
  let s := {| s_ph := SConfWait; s_thr := -1; s_proto := 767; s_name := []; s_uuid := [] |} in
  let seen := [(0, -1, -1); (0, -1, -1); (3, -1, -1)] in
  ok (s_ph s) seen /\ s_ph (srv_eof_before_fix s) = SJoined /\ fin_read seen = false /\
  ~ ok (s_ph (srv_eof_before_fix s)) seen /\ ok (s_ph (srv_eof s)) seen.
Proof. exact accept_iff_refuted_before_fix. Qed.

Print Assumptions C19_join.
Print Assumptions C19_refuse.
Print Assumptions C19_status.
Print Assumptions C19_play.
Print Assumptions C19_play_drainable.
Print Assumptions C19_play_wire.
Print Assumptions C19_dispatch_order.
Print Assumptions C19_dispatch_tables.
Print Assumptions C19_dispatch_packet.
Print Assumptions C19_dispatch_game.
Print Assumptions C19_dispatch_bundle_atomic.
Print Assumptions C19_close_bot.
Print Assumptions C19_close_server.
Print Assumptions C19_close_conn.
Print Assumptions C19_close_conn_reported.
Print Assumptions C19_close_interleaved.
Print Assumptions C19_close_eof_stage.
Print Assumptions C19_cut_outcome.
Print Assumptions C19_accept_iff_configured.
Print Assumptions C19_cut_outcome_stock.
Print Assumptions C19_qrun_refines_c20.
Print Assumptions C19_close_conn_from_c20.
Print Assumptions C19_close_conn_c20.
Print Assumptions C19_close_conn_c20_order.
Print Assumptions C19_close_conn_c20_terminates.
Print Assumptions C19_skeleton_conn.
Print Assumptions C19_close_error_returns.
Print Assumptions C19_registry_roundtrip.
Print Assumptions C19_join_registries.
Print Assumptions C19_skeleton_source.
Print Assumptions C19_skeleton_ids.
Print Assumptions C19_skeleton_bot_login.
Print Assumptions C19_skeleton_bot_config.
Print Assumptions C19_skeleton_server_login.
Print Assumptions C19_skeleton_server_config.
Print Assumptions C19_skeleton_bot_join_writes.
Print Assumptions C19_skeleton_bot_ping_writes.
Print Assumptions C19_skeleton_dispatch_source.
Print Assumptions C19_skeleton_dispatch_register.
Print Assumptions C19_skeleton_dispatch_packet.
Print Assumptions C19_skeleton_dispatch_game.
