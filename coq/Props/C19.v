(* C19 - property theorems only (placeholder while the proofs are being written) *)
From Coq Require Import List NArith ZArith.
From GoMC Require Import Model.C19.
Theorem C19_placeholder : cbGuard = 124%Z.
Proof. reflexivity. Qed.
Print Assumptions C19_placeholder.
