(* C20 - concurrent use: property theorems only. *)
From Coq Require Import List NArith ZArith.
From GoMC Require Import Model.C20_syntax Gen.Queue Model.C20 Proofs.C20.
Import ListNotations.

Theorem C20_skeleton_ll : ll_progs = expected_ll.
Proof. exact ll_progs_ok. Qed.

Print Assumptions C20_skeleton_ll.
