(* C20 - concurrent use: property theorems only.
   Models: Model/C20_syntax.v, Model/C20.v (machine interpreting the statement lists of Gen/Queue.v, which
   tools/gotrans regenerates from net/queue/queue.go and server/playerlist.go on every run).
   Proofs: Proofs/C20.v (skeleton obligations), C20_fifo.v, C20_ll.v, C20_ch.v, C20_plist.v, C20_pool.v, C20_top.v.
   `reachable P cap scripts s`: s is reached from the initial state by ANY finite interleaving of steps of ANY
   threads (one per script; scripts are arbitrary lists of Push v / Pull / Close) with ANY choice of the
   parked thread a Signal / channel send wakes. *)
From Coq Require Import List Arith NArith ZArith Bool.
From GoMC Require Import Model.C20_syntax Gen.Queue Model.C20 Proofs.C20 Proofs.C20_fifo Proofs.C20_ll Proofs.C20_ch
  Proofs.C20_plist Proofs.C20_pool Proofs.C20_term Proofs.C20_top.
Import ListNotations.

(* ---------------------------------------------------------------- the translated skeletons are the proved ones *)
Theorem C20_skeleton_ll : ll_progs = expected_ll.
Proof. exact ll_progs_ok. Qed.
Theorem C20_skeleton_ch : ch_progs = expected_ch.
Proof. exact ch_progs_ok. Qed.
Theorem C20_skeleton_pl : pl_progs = expected_pl.
Proof. exact pl_progs_ok. Qed.

(* ---------------------------------------------------------------- FIFO, for any programs at all *)
(* delivered ++ queue = pushed in every reachable state: nothing invented, nothing lost, nothing duplicated,
   removal order = insertion order *)
Theorem C20_fifo : forall P n sc s, reachable P n sc s -> delivered s ++ q s = pushed s.
Proof. exact top_fifo. Qed.
(* both histories only ever grow at the end, so their order is the temporal order of the insertions /
   removals - in particular the program order of each single producer *)
Theorem C20_history_order : forall P s0 s, reach P s0 s ->
  (exists l, pushed s = pushed s0 ++ l) /\ (exists l, delivered s = delivered s0 ++ l).
Proof. exact top_order. Qed.

(* ---------------------------------------------------------------- LinkedListQueue *)
(* every access to the list / the closed flag is made under the mutex; never Unlock of a free mutex,
   Wait without the mutex, or Remove(nil) *)
Theorem C20_ll_protected : forall n sc s, reachable ll_progs n sc s -> race s = false /\ fatal s = false.
Proof. exact top_ll_protected. Qed.
(* exactly once: each value was handed to callers exactly as many times as it was removed from the queue *)
Theorem C20_ll_exactly_once : forall n sc s a, reachable ll_progs n sc s ->
  sumf (ga a) (thr s) = cN a (delivered s).
Proof. exact top_ll_exactly_once. Qed.
(* a Pull reports closure only when the queue is closed AND empty: every item ever accepted was handed out first *)
Theorem C20_ll_close : forall n sc s i t, reachable ll_progs n sc s -> nth_error (thr s) i = Some t ->
  In (RPull None false) (out t) -> closed s = true /\ q s = [] /\ delivered s = pushed s.
Proof. exact top_ll_close. Qed.
Theorem C20_ll_results : forall n sc s i t r, reachable ll_progs n sc s -> nth_error (thr s) i = Some t -> In r (out t) ->
  r = RPush true \/ (exists v, r = RPull (Some v) true) \/ r = RPull None false \/ r = RClose.
Proof. exact top_ll_results. Qed.
(* no lost wake-up: while a consumer is parked, the queue is open (or the closer holds the mutex just before
   its Broadcast) and every queued item is matched by a thread that must look at the queue before parking *)
Theorem C20_no_lost_wakeup : forall n sc s, reachable ll_progs n sc s -> existsb isW (thr s) = true ->
  Nat.b2n (closed s) <= sumf bc (thr s) /\ length (q s) <= sumf cr (thr s).
Proof. exact top_ll_no_lost_wakeup. Qed.
(* no deadlock: if nobody can move, the mutex is free and every thread finished its script, or panicked in Push
   (push on a closed queue, the documented panic), or is a consumer parked on an EMPTY and OPEN queue *)
Theorem C20_no_deadlock : forall n sc s, reachable ll_progs n sc s -> stuck ll_progs s ->
  owner s = None /\
  (forall i t, nth_error (thr s) i = Some t ->
     finished t = true \/ (isP t = true /\ exists v, cur t = Some (OPush v)) \/ (isW t = true /\ cur t = Some OPull)) /\
  (existsb isW (thr s) = true -> q s = [] /\ closed s = false).
Proof. exact top_ll_no_deadlock. Qed.
(* after Close nobody waits forever *)
Theorem C20_closed_terminates : forall n sc s, reachable ll_progs n sc s -> stuck ll_progs s -> closed s = true ->
  forall i t, nth_error (thr s) i = Some t -> finished t = true \/ isP t = true.
Proof. exact top_ll_closed_terminates. Qed.

(* no livelock either: every interleaving is finite, with an explicit bound on the number of steps
   (15 per Push, 9 per Pull, 6 + 8 * #threads per Close); so a state where nobody can move IS reached *)
Theorem C20_terminates : forall n sc k s, reachN ll_progs (init n sc) k s -> k + phi s <= step_bound sc.
Proof. exact top_ll_terminates. Qed.
Theorem C20_reach_counted : forall n sc s, reachable ll_progs n sc s -> exists k, reachN ll_progs (init n sc) k s.
Proof. exact top_ll_counted. Qed.

(* ---------------------------------------------------------------- ChannelQueue *)
Theorem C20_ch_exactly_once : forall n sc s a, reachable ch_progs n sc s ->
  sumf (ga a) (thr s) = cN a (delivered s).
Proof. exact top_ch_exactly_once. Qed.
Theorem C20_ch_close : forall n sc s i t, reachable ch_progs n sc s -> nth_error (thr s) i = Some t ->
  In (RPull None false) (out t) -> closed s = true /\ q s = [] /\ delivered s = pushed s.
Proof. exact top_ch_close. Qed.
Theorem C20_ch_results : forall n sc s i t r, reachable ch_progs n sc s -> nth_error (thr s) i = Some t -> In r (out t) ->
  (exists b, r = RPush b) \/ (exists v, r = RPull (Some v) true) \/ r = RPull None false \/ r = RClose.
Proof. exact top_ch_results. Qed.
Theorem C20_ch_no_deadlock : forall n sc s, reachable ch_progs n sc s -> stuck ch_progs s ->
  (forall i t, nth_error (thr s) i = Some t ->
     finished t = true \/ isP t = true \/ (isW t = true /\ cur t = Some OPull)) /\
  (existsb isW (thr s) = true -> q s = [] /\ closed s = false).
Proof. exact top_ch_no_deadlock. Qed.
Theorem C20_ch_within_capacity : forall n sc s, reachable ch_progs n sc s -> length (q s) <= cap s.
Proof. exact top_ch_within_capacity. Qed.
(* the bounded queue refuses rather than blocks *)
Theorem C20_bounded : forall n scr s i sc v o c c', reachable ch_progs n scr s ->
  nth_error (thr s) i = Some (mkT sc (Some (OPush v)) (p_push ch_progs) Run None false o) ->
  closed s = false -> existsb isW (thr s) = false -> cap s <= length (q s) ->
  exists s1 s2, exec ch_progs i c s = Some s1 /\ exec ch_progs i c' s1 = Some s2 /\
    q s2 = q s /\ pushed s2 = pushed s /\ delivered s2 = delivered s /\ closed s2 = false /\
    nth_error (thr s2) i = Some (mkT sc None [] Run None false (o ++ [RPush false])).
Proof. exact top_ch_bounded. Qed.
Theorem C20_ch_full_no_waiter : forall n sc s, reachable ch_progs n sc s -> 0 < length (q s) ->
  existsb isW (thr s) = false.
Proof. exact top_ch_full_no_waiter. Qed.
Theorem C20_ch_push_never_blocks : forall n scr s i sc v o, reachable ch_progs n scr s ->
  nth_error (thr s) i = Some (mkT sc (Some (OPush v)) (p_push ch_progs) Run None false o) ->
  exists c s', exec ch_progs i c s = Some s'.
Proof. exact top_ch_push_never_blocks. Qed.

(* ---------------------------------------------------------------- PlayerList *)
(* the translated sections ARE the specification (check and insert in one critical section) *)
Theorem C20_plist_spec : forall o p, papply pl_progs o p = pspec o p.
Proof. exact top_pl_spec. Qed.
(* never more players than the capacity, after any sequence (= any interleaving) of join/left/check/len *)
Theorem C20_capacity : forall ops p, cap_ok p -> cap_ok (fst (prun pl_progs ops p)).
Proof. exact top_pl_capacity. Qed.
Theorem C20_capacity_fresh : forall ops m, cap_ok (fst (prun pl_progs ops (mkPL m []))).
Proof. exact top_pl_capacity_fresh. Qed.
Theorem C20_plist_nodup : forall o p, NoDup (players p) -> NoDup (players (fst (papply pl_progs o p))).
Proof. exact top_pl_nodup. Qed.

(* ---------------------------------------------------------------- pooled buffers and zlib writers *)
(* any number of threads, each making any sequence of pack/unpack calls, any interleaving, any object the
   pool chooses to hand out: no pooled object is touched by a thread that does not hold it (no use after Put,
   no sharing) and no result aliases one *)
Theorem C20_pool_isolation : forall calls p,
  Forall (Forall (fun c => In c packet_seqs)) calls -> preach (pool_init calls) p -> perr p = false.
Proof. exact top_pool_isolation. Qed.
Theorem C20_pool_discipline : forall calls p,
  Forall (Forall (fun c => disciplined [] c = true)) calls -> preach (pool_init calls) p -> perr p = false.
Proof. exact pool_isolation. Qed.

(* ---------------------------------------------------------------- the hypotheses are satisfiable *)
(* a consumer parks, a producer wakes it, the consumer parks again, Close releases it: final state is stuck,
   everybody finished, closure reported after the item *)
Definition ex_scripts : list (list op) := [[OPull; OPull]; [OPush 7%N]; [OClose]].
Definition ex_final : state := drives ll_progs [(50,0,0);(50,1,0);(50,0,0);(50,2,0);(50,0,0)] (init 0 ex_scripts).
Example C20_ex_run : reachable ll_progs 0 ex_scripts ex_final /\ stuck ll_progs ex_final /\
  map out (thr ex_final) = [[RPull (Some 7%N) true; RPull None false]; [RPush true]; [RClose]] /\
  closed ex_final = true /\ pushed ex_final = [7%N] /\ delivered ex_final = [7%N].
Proof.
  split; [apply drives_reachable|]. split; [|vm_compute; auto].
  intros i c. destruct i as [|[|[|[|i]]]]; vm_compute; reflexivity.
Qed.
Example C20_ex_bound : step_bound ex_scripts = 63.
Proof. reflexivity. Qed.
(* a stuck state with a parked consumer: the queue is empty and open *)
Definition ex_parked : state := drives ll_progs [(50,0,0)] (init 0 [[OPull]]).
Example C20_ex_parked : reachable ll_progs 0 [[OPull]] ex_parked /\ stuck ll_progs ex_parked /\
  existsb isW (thr ex_parked) = true /\ q ex_parked = [] /\ closed ex_parked = false.
Proof.
  split; [apply drives_reachable|]. split; [|vm_compute; auto].
  intros i c. destruct i as [|[|i]]; vm_compute; reflexivity.
Qed.
(* Push after Close panics AFTER releasing the mutex: the others go on (the state before the fix of
   LinkedListQueue.Push kept the mutex and this Pull could never start) *)
Definition ex_pac : state := drives ll_progs [(50,0,0);(50,1,0);(50,2,0)] (init 0 [[OClose]; [OPush 1%N]; [OPull]]).
Example C20_ex_push_after_close : reachable ll_progs 0 [[OClose]; [OPush 1%N]; [OPull]] ex_pac /\
  map out (thr ex_pac) = [[RClose]; []; [RPull None false]] /\ map isP (thr ex_pac) = [false; true; false] /\
  owner ex_pac = None /\ q ex_pac = [].
Proof. split; [apply drives_reachable|]. vm_compute; auto. Qed.
(* the bounded queue with capacity 1 holding one item: the hypotheses of C20_bounded hold for the next Push *)
Definition ex_full : state := drives ch_progs [(4,0,0)] (init 1 [[OPush 1%N; OPush 2%N]]).
Example C20_ex_bounded : reachable ch_progs 1 [[OPush 1%N; OPush 2%N]] ex_full /\
  nth_error (thr ex_full) 0 = Some (mkT [] (Some (OPush 2%N)) (p_push ch_progs) Run None false [RPush true]) /\
  closed ex_full = false /\ existsb isW (thr ex_full) = false /\ cap ex_full <= length (q ex_full).
Proof. split; [apply drives_reachable|]. vm_compute; auto. Qed.
(* the pool machine is not vacuous: a use after Put is flagged; the packet sequences are admissible calls *)
Example C20_ex_pool_detects : perr (pdrives [(0,0);(0,0);(0,0);(0,0)] (pool_init [[[EGet 0; EPut 0; EUse 0]]])) = true.
Proof. reflexivity. Qed.
Example C20_ex_pool_calls : Forall (Forall (fun c => In c packet_seqs)) [[seq_pack_zlib; seq_unpack]; [seq_pack_plain; seq_unpack_err]].
Proof. repeat constructor; cbn; tauto. Qed.
Example C20_ex_plist : prun pl_progs [PJoin 1%N; PJoin 2%N; PJoin 3%N; PLen; PLeft 1%N; PJoin 3%N; PCheck] (mkPL 2 []) =
  (mkPL 2 [2%N; 3%N], [PRDone false; PRDone false; PRDone true; PRLen 2; PRDone false; PRDone false; PRBool false]).
Proof. reflexivity. Qed.

Print Assumptions C20_skeleton_ll.
Print Assumptions C20_skeleton_ch.
Print Assumptions C20_skeleton_pl.
Print Assumptions C20_fifo.
Print Assumptions C20_history_order.
Print Assumptions C20_ll_protected.
Print Assumptions C20_ll_exactly_once.
Print Assumptions C20_ll_close.
Print Assumptions C20_ll_results.
Print Assumptions C20_no_lost_wakeup.
Print Assumptions C20_no_deadlock.
Print Assumptions C20_closed_terminates.
Print Assumptions C20_terminates.
Print Assumptions C20_reach_counted.
Print Assumptions C20_ch_exactly_once.
Print Assumptions C20_ch_close.
Print Assumptions C20_ch_results.
Print Assumptions C20_ch_no_deadlock.
Print Assumptions C20_ch_within_capacity.
Print Assumptions C20_bounded.
Print Assumptions C20_ch_full_no_waiter.
Print Assumptions C20_ch_push_never_blocks.
Print Assumptions C20_plist_spec.
Print Assumptions C20_capacity.
Print Assumptions C20_capacity_fresh.
Print Assumptions C20_plist_nodup.
Print Assumptions C20_pool_isolation.
Print Assumptions C20_pool_discipline.
