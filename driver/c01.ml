(* C01 / C03 driver: one case per line on stdin, one result line on stdout, same format as the
   harnesses harness/cmd/c01 and harness/cmd/c03.

   case lines (tokens separated by one space):
     T <idx> <file|net> <target> <namehex> <trailhex> <tree...>   document = extracted spec encoder of the tree
     R <idx> <file|net> <target> <hex>                            raw input bytes
     S <idx> <type> <hex>                                         RawMessage{Type,Data}.String()
     E <idx> <file|net> <namehex> <gval...>                       Encoder.Encode
   targets: any map raw dyn snbt skip ty:<type>
   result lines:  <op> <idx> ok <namehex> <value> <left>  |  <op> <idx> err  |  panic  |  fuel *)

let rec nat_of_int (i : int) : nat = if i <= 0 then O else S (nat_of_int (i - 1))
let nat_of_int i = let r = ref O in for _ = 1 to i do r := S !r done; !r

(* ---- parsing ---- *)
let rec take_n f n toks = if n = 0 then ([], toks) else
  let (x, r) = f toks in let (xs, r') = take_n f (n - 1) r in (x :: xs, r')

let rec parse_tree (toks : string list) : tag * string list =
  match toks with
  | "b" :: v :: r -> (TByte (z_of_dec v), r)
  | "s" :: v :: r -> (TShort (z_of_dec v), r)
  | "i" :: v :: r -> (TInt (z_of_dec v), r)
  | "l" :: v :: r -> (TLong (z_of_dec v), r)
  | "f" :: v :: r -> (TFloat (n_of_dec v), r)
  | "d" :: v :: r -> (TDouble (n_of_dec v), r)
  | "B" :: h :: r -> (TByteArray (bytes_of_hex h), r)
  | "S" :: h :: r -> (TString (bytes_of_hex h), r)
  | "I" :: n :: r -> let (xs, r') = take_n (function v :: r -> (z_of_dec v, r) | [] -> failwith "I") (int_of_string n) r in (TIntArray xs, r')
  | "L" :: n :: r -> let (xs, r') = take_n (function v :: r -> (z_of_dec v, r) | [] -> failwith "L") (int_of_string n) r in (TLongArray xs, r')
  | "[" :: eid :: n :: r -> let (xs, r') = take_n parse_tree (int_of_string n) r in (TList (n_of_int (int_of_string eid), xs), r')
  | "{" :: n :: r ->
      let entry = function k :: r -> let (t, r') = parse_tree r in ((bytes_of_hex k, t), r') | [] -> failwith "{" in
      let (xs, r') = take_n entry (int_of_string n) r in (TCompound xs, r')
  | _ -> failwith "tree"

let rec parse_ty (s : string) : gty =
  match s with
  | "bool" -> GBool | "i8" -> GI8 | "u8" -> GU8 | "i16" -> GI16 | "u16" -> GU16 | "i32" -> GI32 | "u32" -> GU32
  | "i64" -> GI64 | "u64" -> GU64 | "int" -> GInt | "uint" -> GUint | "f32" -> GF32 | "f64" -> GF64
  | "str" -> GStr | "any" -> GAny | "map" -> GMapAny
  | _ when String.length s > 3 && String.sub s 0 3 = "sl:" -> GSl (parse_ty (String.sub s 3 (String.length s - 3)))
  | _ -> failwith ("type " ^ s)

let rec parse_gval (toks : string list) : gval * string list =
  match toks with
  | "vb" :: v :: r -> (VBool (v = "1"), r)
  | "vi" :: t :: v :: r -> (VInt (parse_ty t, z_of_dec v), r)
  | "vf" :: v :: r -> (VF32 (n_of_dec v), r)
  | "vd" :: v :: r -> (VF64 (n_of_dec v), r)
  | "vs" :: h :: r -> (VStr (bytes_of_hex h), r)
  | "v[" :: t :: n :: r -> let (xs, r') = take_n parse_gval (int_of_string n) r in (VSlice (parse_ty t, xs), r')
  | "v{" :: n :: r ->
      let entry = function k :: r -> let (t, r') = parse_gval r in ((bytes_of_hex k, t), r') | [] -> failwith "v{" in
      let (xs, r') = take_n entry (int_of_string n) r in (VMap xs, r')
  | "vn" :: r -> (VNil, r)
  | _ -> failwith "gval"

(* ---- printing ---- *)
let hexs (b : Buffer.t) (l : n list) =
  if l = [] then Buffer.add_char b '-' else
  List.iter (fun x -> Buffer.add_string b (Printf.sprintf "%02x" (int_of_n x land 255))) l

let sep_iter b sep f l =
  let first = ref true in
  List.iter (fun x -> if !first then first := false else Buffer.add_string b sep; f x) l

let rec pr_aval (b : Buffer.t) (a : aval) : unit =
  let add = Buffer.add_string b in
  match a with
  | AByte v -> add "b:"; add (dec_of_z v)
  | AShort v -> add "s:"; add (dec_of_z v)
  | AInt v -> add "i:"; add (dec_of_z v)
  | ALong v -> add "l:"; add (dec_of_z v)
  | AFloat v -> add "f:"; add (dec_of_n v)
  | ADouble v -> add "d:"; add (dec_of_n v)
  | ABytes l -> add "B:"; hexs b l
  | AString l -> add "S:"; hexs b l
  | AList l -> add "["; sep_iter b "," (pr_aval b) l; add "]"
  | AMap m ->
      let es = List.map (fun (k, v) -> let kb = Buffer.create 16 in hexs kb k; (Buffer.contents kb, v)) m in
      let es = List.sort (fun (k1, _) (k2, _) -> compare k1 k2) es in
      add "{"; sep_iter b "," (fun (k, v) -> add k; add "="; pr_aval b v) es; add "}"
  | AInts l -> add "I("; sep_iter b "," (fun v -> add (dec_of_z v)) l; add ")"
  | ALongs l -> add "L("; sep_iter b "," (fun v -> add (dec_of_z v)) l; add ")"

let rec pr_tval b (x : tval) : unit =
  let add = Buffer.add_string b in
  match x with
  | XBool v -> add (if v then "z:1" else "z:0")
  | XInt v -> add "n:"; add (dec_of_z v)
  | XF32 v -> add "f:"; add (dec_of_n v)
  | XF64 v -> add "d:"; add (dec_of_n v)
  | XStr l -> add "S:"; hexs b l
  | XSlice l -> add "<"; sep_iter b "," (pr_tval b) l; add ">"
  | XAny a -> pr_aval b a

let rec pr_dval b (x : dval) : unit =
  let add = Buffer.add_string b in
  match x with
  | DData (id, data) -> add "D"; add (dec_of_n id); add ":"; hexs b data
  | DList l -> add "["; sep_iter b "," (pr_dval b) l; add "]"
  | DComp l -> add "{"; sep_iter b "," (fun (k, v) -> hexs b k; add "="; pr_dval b v) l; add "}"

let show (hd : string) (pr : Buffer.t -> 'a -> unit) (r : (n list * 'a) fres) : unit =
  match r with
  | FOk ((name, v), rest) ->
      let b = Buffer.create 256 in
      Buffer.add_string b hd; Buffer.add_string b " ok "; hexs b name; Buffer.add_char b ' ';
      pr b v; Buffer.add_char b ' '; Buffer.add_string b (string_of_int (List.length rest));
      print_endline (Buffer.contents b)
  | FErr _ -> print_endline (hd ^ " err")
  | FPanic _ -> print_endline (hd ^ " panic")
  | FFuel -> print_endline (hd ^ " fuel")

let fmt_of = function "file" -> File | "net" -> Net | s -> failwith ("fmt " ^ s)

let run_target (hd : string) (f : fmt) (target : string) (bytes : n list) : unit =
  let fuel = nat_of_int (List.length bytes + 2) in
  match target with
  | "any" -> show hd pr_aval (run_fast (decode f (dec_any fuel)) bytes)
  | "map" -> show hd pr_aval (run_fast (decode f (dec_map fuel)) bytes)
  | "raw" -> show hd (fun b (id, data) -> Buffer.add_string b ("R" ^ dec_of_n id ^ ":"); hexs b data) (decode_raw_fast f fuel bytes)   (* = run_flat (Decode f (dec_raw fuel)): decode_raw_fast_eq *)
  | "dyn" -> show hd pr_dval (run_fast (decode f (dec_dyn fuel)) bytes)
  | "snbt" -> show hd (fun b () -> Buffer.add_char b '-') (run_fast (decode f (dec_snbt fuel)) bytes)
  | "skip" -> show hd (fun b () -> Buffer.add_char b '-') (run_fast (decode f (dec_struct0 fuel)) bytes)
  | _ when String.length target > 3 && String.sub target 0 3 = "ty:" ->
      let ty = parse_ty (String.sub target 3 (String.length target - 3)) in
      show hd pr_tval (run_fast (decode f (dec_ty fuel ty)) bytes)
  | _ -> print_endline (hd ^ " ?target")

let () = iter_lines (fun line ->
  try
    match split_ws line with
    | "T" :: idx :: f :: target :: name :: trail :: tree ->
        let (t, _) = parse_tree tree in
        let f = fmt_of f in
        let bytes = doc f (bytes_of_hex name) t @ bytes_of_hex trail in
        run_target ("T " ^ idx) f target bytes
    | ["R"; idx; f; target; h] -> run_target ("R " ^ idx) (fmt_of f) target (bytes_of_hex h)
    | ["S"; idx; ty; h] ->
        let data = bytes_of_hex h in
        (match raw_string (nat_of_int (List.length data + 2)) (n_of_int (int_of_string ty)) data with
         | FOk (true, _) -> Printf.printf "S %s text\n" idx
         | FOk (false, _) -> Printf.printf "S %s invalid\n" idx
         | FErr _ -> Printf.printf "S %s err\n" idx
         | FPanic _ -> Printf.printf "S %s panic\n" idx
         | FFuel -> Printf.printf "S %s fuel\n" idx)
    | "E" :: idx :: f :: name :: gv ->
        let (v, _) = parse_gval gv in
        (match marshal (fmt_of f) (bytes_of_hex name) v with
         | MOk bs -> let b = Buffer.create 256 in hexs b bs; Printf.printf "E %s ok %s\n" idx (Buffer.contents b)
         | MErr -> Printf.printf "E %s err\n" idx
         | MPanic -> Printf.printf "E %s panic\n" idx)
    | _ -> Printf.printf "?? %s\n" (if String.length line > 60 then String.sub line 0 60 else line)
  with Failure m -> Printf.printf "?? parse %s\n" m)
