(* C02 driver: one case per line on stdin, one result line on stdout, same format as harness/cmd/c02.

   case lines (tokens separated by one space):
     M <idx> <file|net> <val|ptr> <namehex> <type...> ; <value...>     Marshal then Unmarshal into a fresh variable
     K <idx> <file|net> <ctx> <namehex> <type...> ; <tree...>          decode the document into the carrier type, encode again
   types : bool i8 u8 i16 u16 i32 u32 i64 u64 f32 f64 str | sl T | ar n T | map T | ptr T | any | raw | dyn
           | st k (namehex flags T)*          flags: letters o(mitempty) l(ist) s(kip) or -
   values: z 0|1 | n dec | f bits | d bits | s hex | [ n v* | { n (keyhex v)* | ( n v* | & v | nil | a <any> | r <tree> | y <tree>
   any   : b v | s v | i v | l v | f bits | d bits | B hex | S hex | I n v* | L n v* | [ n a* | { n (keyhex a)*
   tree  : as driver/c01.ml
     B <idx> <file|net> <val|ptr> <namehex> <decl...> ; <dvalue...>    struct with embedded structs (typeFields)
   decl  : DL n d*   with d = DF namehex flags(t o l s -) T | DE <v|p> n d*   (T lines: SE <v|p> tid n d* instead of DE)
   dvalue: VL n x*   with x = VF v | VE n x* | VN
   result lines:  M <idx> ok <hex> <namehex> <left> <value...> | M <idx> ok <hex> derr | M <idx> err | M <idx> panic *)

let take_n f n toks =
  let rec go n toks acc = if n = 0 then (List.rev acc, toks) else
    let (x, r) = f toks in go (n - 1) r (x :: acc) in go n toks []

let zs n r = take_n (function v :: r -> (z_of_dec v, r) | [] -> failwith "ints") (int_of_string n) r

let rec parse_tree (toks : string list) : tag * string list =
  match toks with
  | "b" :: v :: r -> (TByte (z_of_dec v), r)
  | "s" :: v :: r -> (TShort (z_of_dec v), r)
  | "i" :: v :: r -> (TInt (z_of_dec v), r)
  | "l" :: v :: r -> (TLong (z_of_dec v), r)
  | "f" :: v :: r -> (TFloat (n_of_dec v), r)
  | "d" :: v :: r -> (TDouble (n_of_dec v), r)
  | "B" :: h :: r -> (TByteArray (bytes_of_hex h), r)
  | "S" :: h :: r -> (TString (bytes_of_hex h), r)
  | "I" :: n :: r -> let (xs, r') = zs n r in (TIntArray xs, r')
  | "L" :: n :: r -> let (xs, r') = zs n r in (TLongArray xs, r')
  | "[" :: eid :: n :: r -> let (xs, r') = take_n parse_tree (int_of_string n) r in (TList (n_of_int (int_of_string eid), xs), r')
  | "{" :: n :: r ->
      let entry = function k :: r -> let (t, r') = parse_tree r in ((bytes_of_hex k, t), r') | [] -> failwith "{" in
      let (xs, r') = take_n entry (int_of_string n) r in (TCompound xs, r')
  | _ -> failwith "tree"

let rec parse_any (toks : string list) : aval * string list =
  match toks with
  | "b" :: v :: r -> (AByte (z_of_dec v), r)
  | "s" :: v :: r -> (AShort (z_of_dec v), r)
  | "i" :: v :: r -> (AInt (z_of_dec v), r)
  | "l" :: v :: r -> (ALong (z_of_dec v), r)
  | "f" :: v :: r -> (AFloat (n_of_dec v), r)
  | "d" :: v :: r -> (ADouble (n_of_dec v), r)
  | "B" :: h :: r -> (ABytes (bytes_of_hex h), r)
  | "S" :: h :: r -> (AString (bytes_of_hex h), r)
  | "I" :: n :: r -> let (xs, r') = zs n r in (AInts xs, r')
  | "L" :: n :: r -> let (xs, r') = zs n r in (ALongs xs, r')
  | "[" :: n :: r -> let (xs, r') = take_n parse_any (int_of_string n) r in (AList xs, r')
  | "{" :: n :: r ->
      let entry = function k :: r -> let (t, r') = parse_any r in ((bytes_of_hex k, t), r') | [] -> failwith "a{" in
      let (xs, r') = take_n entry (int_of_string n) r in (AMap xs, r')
  | _ -> failwith "any"

let nat_of_int i = let r = ref O in for _ = 1 to i do r := S !r done; !r

let rec parse_ty (toks : string list) : gtype * string list =
  match toks with
  | "bool" :: r -> (YBool, r)
  | "i8" :: r -> (YInt (true, n_of_int 8), r) | "u8" :: r -> (YInt (false, n_of_int 8), r)
  | "i16" :: r -> (YInt (true, n_of_int 16), r) | "u16" :: r -> (YInt (false, n_of_int 16), r)
  | "i32" :: r -> (YInt (true, n_of_int 32), r) | "u32" :: r -> (YInt (false, n_of_int 32), r)
  | "i64" :: r -> (YInt (true, n_of_int 64), r) | "u64" :: r -> (YInt (false, n_of_int 64), r)
  | "f32" :: r -> (YF32, r) | "f64" :: r -> (YF64, r) | "str" :: r -> (YStr, r)
  | "sl" :: r -> let (e, r') = parse_ty r in (YSlice e, r')
  | "ar" :: n :: r -> let (e, r') = parse_ty r in (YArray (nat_of_int (int_of_string n), e), r')
  | "map" :: r -> let (e, r') = parse_ty r in (YMap e, r')
  | "ptr" :: r -> let (e, r') = parse_ty r in (YPtr e, r')
  | "any" :: r -> (YIface, r) | "raw" :: r -> (YRaw, r) | "dyn" :: r -> (YDyn, r)
  | "st" :: n :: r ->
      let field = function
        | nm :: fl :: r ->
            let (t, r') = parse_ty r in
            let has c = String.contains fl c in
            (({ f_name = bytes_of_hex nm; f_omit = has 'o'; f_list = has 'l'; f_skip = has 's' }, t), r')
        | _ -> failwith "field" in
      let (fs, r') = take_n field (int_of_string n) r in (YStruct fs, r')
  | t :: _ -> failwith ("type " ^ t)
  | [] -> failwith "type"

let rec parse_val (toks : string list) : gv * string list =
  match toks with
  | "z" :: v :: r -> (GvBool (v = "1"), r)
  | "n" :: v :: r -> (GvInt (z_of_dec v), r)
  | "f" :: v :: r -> (GvF32 (n_of_dec v), r)
  | "d" :: v :: r -> (GvF64 (n_of_dec v), r)
  | "s" :: h :: r -> (GvStr (bytes_of_hex h), r)
  | "[" :: n :: r -> let (xs, r') = take_n parse_val (int_of_string n) r in (GvList xs, r')
  | "(" :: n :: r -> let (xs, r') = take_n parse_val (int_of_string n) r in (GvStruct xs, r')
  | "{" :: n :: r ->
      let entry = function k :: r -> let (t, r') = parse_val r in ((bytes_of_hex k, t), r') | [] -> failwith "v{" in
      let (xs, r') = take_n entry (int_of_string n) r in (GvMap xs, r')
  | "&" :: r -> let (x, r') = parse_val r in (GvPtr (Some x), r')
  | "a" :: r -> let (a, r') = parse_any r in (GvIface (Some a), r')
  | "r" :: r -> let (t, r') = parse_tree r in (GvRaw (Some t), r')
  | "y" :: r -> let (t, r') = parse_tree r in (GvDyn (Some t), r')
  | _ -> failwith "value"

(* `nil` depends on the type: pointer, interface, RawMessage (zero), *dynbt.Value *)
let rec parse_tval (t : gtype) (toks : string list) : gv * string list =
  match t, toks with
  | YPtr _, "nil" :: r -> (GvPtr None, r)
  | YIface, "nil" :: r -> (GvIface None, r)
  | YRaw, "nil" :: r -> (GvRaw None, r)
  | YDyn, "nil" :: r -> (GvDyn None, r)
  | YPtr e, "&" :: r -> let (x, r') = parse_tval e r in (GvPtr (Some x), r')
  | (YSlice e | YArray (_, e)), "[" :: n :: r ->
      let (xs, r') = take_n (parse_tval e) (int_of_string n) r in (GvList xs, r')
  | YMap e, "{" :: n :: r ->
      let entry = function k :: r -> let (x, r') = parse_tval e r in ((bytes_of_hex k, x), r') | [] -> failwith "v{" in
      let (xs, r') = take_n entry (int_of_string n) r in (GvMap xs, r')
  | YStruct fs, "(" :: _ :: r ->
      let rec go fs r acc = match fs with
        | [] -> (List.rev acc, r)
        | (_, ft) :: fr -> let (x, r') = parse_tval ft r in go fr r' (x :: acc) in
      let (xs, r') = go fs r [] in (GvStruct xs, r')
  | _, _ -> parse_val toks

(* ---- printing ---- *)
let hexs (b : Buffer.t) (l : n list) =
  if l = [] then Buffer.add_char b '-' else
  List.iter (fun x -> Buffer.add_string b (Printf.sprintf "%02x" (int_of_n x land 255))) l
let hex_str l = let b = Buffer.create 16 in hexs b l; Buffer.contents b

let rec pr_tree b (t : tag) : unit =
  let add = Buffer.add_string b in
  match t with
  | TByte v -> add " b "; add (dec_of_z v)
  | TShort v -> add " s "; add (dec_of_z v)
  | TInt v -> add " i "; add (dec_of_z v)
  | TLong v -> add " l "; add (dec_of_z v)
  | TFloat v -> add " f "; add (dec_of_n v)
  | TDouble v -> add " d "; add (dec_of_n v)
  | TByteArray l -> add " B "; hexs b l
  | TString l -> add " S "; hexs b l
  | TIntArray l -> add " I "; add (string_of_int (List.length l)); List.iter (fun v -> add " "; add (dec_of_z v)) l
  | TLongArray l -> add " L "; add (string_of_int (List.length l)); List.iter (fun v -> add " "; add (dec_of_z v)) l
  | TList (eid, l) -> add " [ "; add (dec_of_n eid); add " "; add (string_of_int (List.length l)); List.iter (pr_tree b) l
  | TCompound l -> add " { "; add (string_of_int (List.length l));
      List.iter (fun (k, v) -> add " "; hexs b k; pr_tree b v) l

let sort_entries l = List.stable_sort (fun (k1, _) (k2, _) -> compare (hex_str k1) (hex_str k2)) l

let rec pr_any b (a : aval) : unit =
  let add = Buffer.add_string b in
  match a with
  | AByte v -> add " b "; add (dec_of_z v)
  | AShort v -> add " s "; add (dec_of_z v)
  | AInt v -> add " i "; add (dec_of_z v)
  | ALong v -> add " l "; add (dec_of_z v)
  | AFloat v -> add " f "; add (dec_of_n v)
  | ADouble v -> add " d "; add (dec_of_n v)
  | ABytes l -> add " B "; hexs b l
  | AString l -> add " S "; hexs b l
  | AInts l -> add " I "; add (string_of_int (List.length l)); List.iter (fun v -> add " "; add (dec_of_z v)) l
  | ALongs l -> add " L "; add (string_of_int (List.length l)); List.iter (fun v -> add " "; add (dec_of_z v)) l
  | AList l -> add " [ "; add (string_of_int (List.length l)); List.iter (pr_any b) l
  | AMap m -> add " { "; add (string_of_int (List.length m));
      List.iter (fun (k, v) -> add " "; hexs b k; pr_any b v) (sort_entries m)

let rec pr_val b (v : gv) : unit =
  let add = Buffer.add_string b in
  match v with
  | GvBool x -> add (if x then " z 1" else " z 0")
  | GvInt z -> add " n "; add (dec_of_z z)
  | GvF32 x -> add " f "; add (dec_of_n x)
  | GvF64 x -> add " d "; add (dec_of_n x)
  | GvStr s -> add " s "; hexs b s
  | GvList l -> add " [ "; add (string_of_int (List.length l)); List.iter (pr_val b) l
  | GvStruct l -> add " ( "; add (string_of_int (List.length l)); List.iter (pr_val b) l
  | GvMap m -> add " { "; add (string_of_int (List.length m));
      List.iter (fun (k, x) -> add " "; hexs b k; pr_val b x) (sort_entries m)
  | GvPtr None | GvIface None | GvRaw None | GvDyn None -> add " nil"
  | GvPtr (Some x) -> add " &"; pr_val b x
  | GvIface (Some a) -> add " a"; pr_any b a
  | GvRaw (Some t) -> add " r"; pr_tree b t
  | GvDyn (Some t) -> add " y"; pr_tree b t

let rec parse_decls (toks : string list) : dfield list * string list =
  match toks with
  | "DL" :: n :: r -> take_n parse_decl (int_of_string n) r
  | _ -> failwith "decls"
and parse_decl (toks : string list) : dfield * string list =
  match toks with
  | "DF" :: nm :: fl :: r ->
      let (t, r') = parse_ty r in
      let has c = String.contains fl c in
      (DF ({ f_name = bytes_of_hex nm; f_omit = has 'o'; f_list = has 'l'; f_skip = has 's' }, has 't', t), r')
  | "DE" :: p :: n :: r -> let (ds, r') = take_n parse_decl (int_of_string n) r in (DE (p = "p", ds), r')
  | _ -> failwith "decl"

let rec parse_dvs (ds : dfield list) (toks : string list) : dv list * string list =
  match toks with
  | "VL" :: _ :: r ->
      let rec go ds r acc = match ds with
        | [] -> (List.rev acc, r)
        | d :: dr -> let (x, r') = parse_dv d r in go dr r' (x :: acc) in
      go ds r []
  | _ -> failwith "dvs"
and parse_dv (d : dfield) (toks : string list) : dv * string list =
  match d, toks with
  | DF (_, _, t), "VF" :: r -> let (v, r') = parse_tval t r in (VF v, r')
  | DE (_, _), "VN" :: r -> (VE None, r)
  | DE (_, ds), "VE" :: _ :: r ->
      let rec go ds r acc = match ds with
        | [] -> (List.rev acc, r)
        | d :: dr -> let (x, r') = parse_dv d r in go dr r' (x :: acc) in
      let (xs, r') = go ds r [] in (VE (Some xs), r')
  | _ -> failwith "dv"

let rec pr_dvs b (l : dv list) : unit =
  Buffer.add_string b " VL "; Buffer.add_string b (string_of_int (List.length l)); List.iter (pr_dv b) l
and pr_dv b (x : dv) : unit =
  match x with
  | VF v -> Buffer.add_string b " VF"; pr_val b v
  | VE None -> Buffer.add_string b " VN"
  | VE (Some l) -> Buffer.add_string b " VE "; Buffer.add_string b (string_of_int (List.length l)); List.iter (pr_dv b) l

let fmt_of = function "file" -> File | "net" -> Net | s -> failwith ("fmt " ^ s)

let split_semi toks =
  let rec go acc = function
    | ";" :: r -> (List.rev acc, r)
    | x :: r -> go (x :: acc) r
    | [] -> failwith "no ;" in
  go [] toks

let () = iter_lines (fun line ->
  try
    match split_ws line with
    | "M" :: idx :: f :: mode :: name :: rest ->
        let f = fmt_of f in
        let (tt, vt) = split_semi rest in
        let (ty, _) = parse_ty tt in
        let (v, _) = parse_tval ty vt in
        (match marshal f (mode = "val") (bytes_of_hex name) ty v with
         | MErr -> Printf.printf "M %s err\n" idx
         | MPanic -> Printf.printf "M %s panic\n" idx
         | MOk bs ->
             let b = Buffer.create 256 in
             Buffer.add_string b ("M " ^ idx ^ " ok "); hexs b bs;
             (match unmarshal f ty bs with
              | DOk (nm, v', left) ->
                  Buffer.add_char b ' '; hexs b nm; Buffer.add_char b ' ';
                  Buffer.add_string b (string_of_int (List.length left)); pr_val b v'
              | DErr -> Buffer.add_string b " derr"
              | DPanic -> Buffer.add_string b " dpanic"
              | DFuel -> Buffer.add_string b " dfuel"
              | DOut -> Buffer.add_string b " dout");
             print_endline (Buffer.contents b))
    | "B" :: idx :: f :: _mode :: name :: rest ->
        let f = fmt_of f in
        let (tt, vt) = split_semi rest in
        let (ds, _) = parse_decls tt in
        let (vs, _) = parse_dvs ds vt in
        (match marshal_emb f (bytes_of_hex name) ds vs with
         | MErr -> Printf.printf "B %s err\n" idx
         | MPanic -> Printf.printf "B %s panic\n" idx
         | MOk bs ->
             let b = Buffer.create 256 in
             Buffer.add_string b ("B " ^ idx ^ " ok "); hexs b bs;
             (match unmarshal_emb f ds bs with
              | EDOk (nm, vs', left) ->
                  Buffer.add_char b ' '; hexs b nm; Buffer.add_char b ' ';
                  Buffer.add_string b (string_of_int (List.length left)); pr_dvs b vs'
              | EDErr -> Buffer.add_string b " derr"
              | EDPanic -> Buffer.add_string b " dpanic"
              | EDFuel -> Buffer.add_string b " dfuel"
              | EDOut -> Buffer.add_string b " dout");
             print_endline (Buffer.contents b))
    | "K" :: idx :: f :: ctx :: name :: rest ->
        let f = fmt_of f in
        let name = bytes_of_hex name in
        let (tt, vt) = split_semi rest in
        let (ty, _) = parse_ty tt in
        let (tr, _) = parse_tree vt in
        (match unmarshal f ty (doc f name tr) with
         | DOk (_, v, []) ->
             if ctx = "map" then
               (match enc ty v with
                | TOk (TCompound es) ->
                    let b = Buffer.create 256 in
                    Buffer.add_string b ("K " ^ idx ^ " ok"); pr_tree b (TCompound (sort_entries es));
                    print_endline (Buffer.contents b)
                | TOk _ -> Printf.printf "K %s ok ?\n" idx
                | TErr -> Printf.printf "K %s err\n" idx
                | TPanic -> Printf.printf "K %s panic\n" idx)
             else
               (match marshal f false name ty v with
                | MOk bs -> Printf.printf "K %s ok %s\n" idx (hex_str bs)
                | MErr -> Printf.printf "K %s err\n" idx
                | MPanic -> Printf.printf "K %s panic\n" idx)
         | DOk _ | DErr -> Printf.printf "K %s derr\n" idx
         | DPanic -> Printf.printf "K %s dpanic\n" idx
         | DFuel -> Printf.printf "K %s dfuel\n" idx
         | DOut -> Printf.printf "K %s dout\n" idx)
    | "T" :: idx :: root :: rest ->
        let rec parse_sdecl (toks : string list) : sfield * string list =
          match toks with
          | "SE" :: p :: tid :: n :: r ->
              let (ds, r') = take_n parse_sdecl (int_of_string n) r in (SE (p = "p", nat_of_int (int_of_string tid), ds), r')
          | _ -> (match parse_decl toks with
                  | (DF (fi, tg, t), r') -> (SF (fi, tg, t), r')
                  | _ -> failwith "sdecl") in
        let ds = (match rest with
                  | "DL" :: n :: r -> fst (take_n parse_sdecl (int_of_string n) r)
                  | _ -> failwith "sdecls") in
        let rec int_of_nat = function O -> 0 | S k -> 1 + int_of_nat k in
        let tbl = tf_table (nat_of_int (int_of_string root)) ds in
        let b = Buffer.create 256 in
        Buffer.add_string b ("T " ^ idx ^ " " ^ string_of_int (List.length tbl));
        List.iter (fun tf ->
          Buffer.add_char b ' ';
          Buffer.add_string b (String.concat "." (List.map (fun k -> string_of_int (int_of_nat k)) tf.tf_path));
          Buffer.add_char b ':'; hexs b tf.tf_fi.f_name; Buffer.add_char b ':';
          let fl = (if tf.tf_tagged then "t" else "") ^ (if tf.tf_fi.f_omit then "o" else "") ^ (if tf.tf_fi.f_list then "l" else "") in
          Buffer.add_string b (if fl = "" then "-" else fl)) tbl;
        print_endline (Buffer.contents b)
    | _ -> Printf.printf "?? %s\n" (if String.length line > 60 then String.sub line 0 60 else line)
  with Failure m -> Printf.printf "?? parse %s\n" m)
