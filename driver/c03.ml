(* C03 driver: one case per line on stdin, one result line on stdout (format of harness/cmd/c03).

   case lines (tokens separated by one space):
     R <idx> <file|net> <target> <hex>      Decoder.Decode of the raw input bytes into the target
     U <idx> <type> <target> <hex>          RawMessage{Type,Data}.Unmarshal(&target)
     S <idx> <type> <hex>                   RawMessage{Type,Data}.String()
     D <idx> <file|net> st:<shape> <hex1> <hex2>   Decode hex1 into a fresh value (must succeed), then hex2 into the SAME value
   targets: any map raw dyn snbt skip ty:<type> st:<shape>
   shapes (prefix notation, no spaces):
     b:<type>  any  map  raw  p(<shape>)  l(<shape>)  a<n>:<type>  s{<namehex>=<shape>;...}
   result lines:  R <idx> ok <namehex> <value> <left>  |  U <idx> ok <value>  |  S <idx> text|invalid  |  <op> <idx> err | panic | fuel *)

let nat_of_int i = let r = ref O in for _ = 1 to i do r := S !r done; !r

let rec parse_ty (s : string) : gty =
  match s with
  | "bool" -> GBool | "i8" -> GI8 | "u8" -> GU8 | "i16" -> GI16 | "u16" -> GU16 | "i32" -> GI32 | "u32" -> GU32
  | "i64" -> GI64 | "u64" -> GU64 | "int" -> GInt | "uint" -> GUint | "f32" -> GF32 | "f64" -> GF64
  | "str" -> GStr | "any" -> GAny | "map" -> GMapAny
  | _ when String.length s > 3 && String.sub s 0 3 = "sl:" -> GSl (parse_ty (String.sub s 3 (String.length s - 3)))
  | _ -> failwith ("type " ^ s)

(* shape parser over a string with a cursor *)
let parse_shape (s : string) : sty =
  let n = String.length s in
  let pos = ref 0 in
  let peek () = if !pos < n then s.[!pos] else '\000' in
  let eat c = if peek () = c then incr pos else failwith (Printf.sprintf "shape: expected %c at %d in %s" c !pos s) in
  let until stops =
    let st = !pos in
    while !pos < n && not (List.mem s.[!pos] stops) do incr pos done;
    String.sub s st (!pos - st) in
  let rec go () : sty =
    match peek () with
    | 'b' -> eat 'b'; eat ':'; SB (parse_ty (until [';'; ')'; '}']))
    | 'p' -> eat 'p'; eat '('; let t = go () in eat ')'; SPtr t
    | 'l' -> eat 'l'; eat '('; let t = go () in eat ')'; SList t
    | 'a' ->
        if !pos + 2 < n && String.sub s !pos 3 = "any" then (pos := !pos + 3; SAny)
        else begin
          eat 'a'; let k = until [':'] in eat ':';
          let t = parse_ty (until [';'; ')'; '}']) in SArr (n_of_int (int_of_string k), t)
        end
    | 'm' -> pos := !pos + 3; SMap
    | 'r' -> pos := !pos + 3; SRaw
    | 's' ->
        eat 's'; eat '{';
        let fs = ref [] in
        while peek () <> '}' do
          let name = until ['='] in eat '=';
          let t = go () in
          fs := (bytes_of_hex name, t) :: !fs;
          if peek () = ';' then eat ';'
        done;
        eat '}'; SStruct (List.rev !fs)
    | c -> failwith (Printf.sprintf "shape: unexpected %c at %d in %s" c !pos s)
  in
  let t = go () in
  if !pos <> n then failwith ("shape: trailing " ^ s); t

(* ---- printing ---- *)
let hexs (b : Buffer.t) (l : n list) =
  if l = [] then Buffer.add_char b '-' else
  List.iter (fun x -> Buffer.add_string b (Printf.sprintf "%02x" (int_of_n x land 255))) l

let sep_iter b sep f l =
  let first = ref true in
  List.iter (fun x -> if !first then first := false else Buffer.add_string b sep; f x) l

let rec pr_aval (b : Buffer.t) (a : aval) : unit =
  let add = Buffer.add_string b in
  match a with
  | AByte v -> add "b:"; add (dec_of_z v)
  | AShort v -> add "s:"; add (dec_of_z v)
  | AInt v -> add "i:"; add (dec_of_z v)
  | ALong v -> add "l:"; add (dec_of_z v)
  | AFloat v -> add "f:"; add (dec_of_n v)
  | ADouble v -> add "d:"; add (dec_of_n v)
  | ABytes l -> add "B:"; hexs b l
  | AString l -> add "S:"; hexs b l
  | AList l -> add "["; sep_iter b "," (pr_aval b) l; add "]"
  | AMap m ->
      let es = List.map (fun (k, v) -> let kb = Buffer.create 16 in hexs kb k; (Buffer.contents kb, v)) m in
      let es = List.sort (fun (k1, _) (k2, _) -> compare k1 k2) es in
      add "{"; sep_iter b "," (fun (k, v) -> add k; add "="; pr_aval b v) es; add "}"
  | AInts l -> add "I("; sep_iter b "," (fun v -> add (dec_of_z v)) l; add ")"
  | ALongs l -> add "L("; sep_iter b "," (fun v -> add (dec_of_z v)) l; add ")"

let rec pr_tval b (x : tval) : unit =
  let add = Buffer.add_string b in
  match x with
  | XBool v -> add (if v then "z:1" else "z:0")
  | XInt v -> add "n:"; add (dec_of_z v)
  | XF32 v -> add "f:"; add (dec_of_n v)
  | XF64 v -> add "d:"; add (dec_of_n v)
  | XStr l -> add "S:"; hexs b l
  | XSlice l -> add "<"; sep_iter b "," (pr_tval b) l; add ">"
  | XAny a -> pr_aval b a

let rec pr_dval b (x : dval) : unit =
  let add = Buffer.add_string b in
  match x with
  | DData (id, data) -> add "D"; add (dec_of_n id); add ":"; hexs b data
  | DList l -> add "["; sep_iter b "," (pr_dval b) l; add "]"
  | DComp l -> add "{"; sep_iter b "," (fun (k, v) -> hexs b k; add "="; pr_dval b v) l; add "}"

let rec pr_sval b (x : sval) : unit =
  let add = Buffer.add_string b in
  match x with
  | YB v -> pr_tval b v
  | YAny None -> add "?nil"
  | YAny (Some a) -> pr_aval b a
  | YMap None -> add "?nil"
  | YMap (Some m) -> pr_aval b (AMap m)
  | YRaw (id, data) -> add "R"; add (dec_of_n id); add ":"; hexs b data
  | YPtr None -> add "*nil"
  | YPtr (Some v) -> add "*"; pr_sval b v
  | YList l -> add "<"; sep_iter b "," (pr_sval b) l; add ">"
  | YArr l -> add "("; sep_iter b "," (pr_tval b) l; add ")"
  | YStruct l -> add "{|"; sep_iter b ";" (pr_sval b) l; add "|}"

(* Decode reports the root name and leaves the rest in the reader; RawMessage.Unmarshal reports neither *)
let show_gen (hd : string) (named : bool) (name : n list) (pr : Buffer.t -> unit) (rest : n list) : unit =
  let b = Buffer.create 256 in
  Buffer.add_string b hd; Buffer.add_string b " ok ";
  if named then (hexs b name; Buffer.add_char b ' ');
  pr b;
  if named then (Buffer.add_char b ' '; Buffer.add_string b (string_of_int (List.length rest)));
  print_endline (Buffer.contents b)

let show (hd : string) (pr : Buffer.t -> 'a -> unit) (r : (n list * 'a) fres) : unit =
  match r with
  | FOk ((name, v), rest) -> show_gen hd true name (fun b -> pr b v) rest
  | FErr _ -> print_endline (hd ^ " err")
  | FPanic _ -> print_endline (hd ^ " panic")
  | FFuel -> print_endline (hd ^ " fuel")

let show_body (hd : string) (pr : Buffer.t -> 'a -> unit) (r : 'a fres) : unit =
  match r with
  | FOk (v, rest) -> show_gen hd false [] (fun b -> pr b v) rest
  | FErr _ -> print_endline (hd ^ " err")
  | FPanic _ -> print_endline (hd ^ " panic")
  | FFuel -> print_endline (hd ^ " fuel")

let fmt_of = function "file" -> File | "net" -> Net | s -> failwith ("fmt " ^ s)
let has_prefix p s = String.length s > String.length p && String.sub s 0 (String.length p) = p
let after p s = String.sub s (String.length p) (String.length s - String.length p)
let rec nat_add (a : nat) (b : nat) : nat = match a with O -> b | S a' -> S (nat_add a' b)

let pr_unit b () = Buffer.add_char b '-'
let pr_raw b (id, data) = Buffer.add_string b ("R" ^ dec_of_n id ^ ":"); hexs b data

(* run: `wrap` turns a body decoder into the decoder to run (Decode with a header, or the body itself) *)
let run_target (hd : string) (f : fmt option) (id : n) (target : string) (bytes : n list) : unit =
  let fuel = nat_of_int (List.length bytes + 2) in
  let go : 'a. (Buffer.t -> 'a -> unit) -> (n -> 'a dec) -> unit = fun pr body ->
    match f with
    | Some f -> show hd pr (run_fast (decode f body) bytes)
    | None -> show_body hd pr (run_fast (body id) bytes) in
  match target with
  | "any" -> go pr_aval (dec_any fuel)
  | "map" -> go pr_aval (dec_map fuel)
  | "raw" -> (match f with
              | Some f -> show hd pr_raw (decode_raw_fast f fuel bytes)   (* = run_flat (Decode f (dec_raw fuel)): decode_raw_fast_eq *)
              | None -> go pr_raw (dec_raw fuel))
  | "dyn" -> go pr_dval (dec_dyn fuel)
  | "snbt" -> go pr_unit (dec_snbt fuel)
  | "skip" -> go pr_unit (dec_struct0 fuel)
  | _ when has_prefix "ty:" target -> go pr_tval (dec_ty fuel (parse_ty (after "ty:" target)))
  | _ when has_prefix "st:" target ->
      let sh = parse_shape (after "st:" target) in
      go pr_sval (dec_st (nat_add (sdepth sh) fuel) sh (zero sh))
  | _ -> print_endline (hd ^ " ?target")

let () = iter_lines (fun line ->
  try
    match split_ws line with
    | ["R"; idx; f; target; h] -> run_target ("R " ^ idx) (Some (fmt_of f)) (n_of_int 0) target (bytes_of_hex h)
    | ["U"; idx; ty; target; h] -> run_target ("U " ^ idx) None (n_of_int (int_of_string ty)) target (bytes_of_hex h)
    | ["D"; idx; f; target; h1; h2] when has_prefix "st:" target ->
        (* a second document decoded into the destination the first one left *)
        let sh = parse_shape (after "st:" target) in
        let f = fmt_of f in
        let b1 = bytes_of_hex h1 and b2 = bytes_of_hex h2 in
        let fuel b = nat_add (sdepth sh) (nat_of_int (List.length b + 2)) in
        (match run_fast (decode f (dec_st (fuel b1) sh (zero sh))) b1 with
         | FOk ((_, v1), _) -> show ("D " ^ idx) pr_sval (run_fast (decode f (dec_st (fuel b2) sh v1)) b2)
         | _ -> Printf.printf "D %s first-err\n" idx)
    | ["S"; idx; ty; h] ->
        let data = bytes_of_hex h in
        (match raw_string (nat_of_int (List.length data + 2)) (n_of_int (int_of_string ty)) data with
         | FOk (true, _) -> Printf.printf "S %s text\n" idx
         | FOk (false, _) -> Printf.printf "S %s invalid\n" idx
         | FErr _ -> Printf.printf "S %s err\n" idx
         | FPanic _ -> Printf.printf "S %s panic\n" idx
         | FFuel -> Printf.printf "S %s fuel\n" idx)
    | _ -> Printf.printf "?? %s\n" (if String.length line > 60 then String.sub line 0 60 else line)
  with Failure m -> Printf.printf "?? parse %s\n" m)
