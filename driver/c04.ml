(* C04 driver.  Cases (one per line):
     w <tree>                                   -> w <hex of to_text tree>         (model of the Go writer)
     p <hextext> <k> {<32|64> <lit> <bits>}*k <tree>
                                                -> p ok <hex of doc (parse text)> tt=<root id> same=<parse = tree>
                                                 | p err                           (spec parser + NBT grammar)
     q <hextext>                                -> q ok <hex of doc (parse text)> tt=<root id> | q err
   tree tokens: b z | s z | i z | l z | f bits lit | d bits lit | S hex | B n z* | I n z* | L n z*
                | T n tree* | C n (hexkey tree)*
   The float oracles are tables filled from the case line: the harness computes the decimal text / the
   bits with strconv outside the code under test. *)
let bytes_of_string (s : string) : n list = List.init (String.length s) (fun i -> n_of_int (Char.code s.[i]))
let string_of_bytes (l : n list) : string =
  let b = Buffer.create 16 in List.iter (fun x -> Buffer.add_char b (Char.chr (int_of_n x land 255))) l; Buffer.contents b

(* "-12.5" -> ((true, "12"), "5");  "NaN" -> ((false,"NaN"),"") *)
let flit_of_string (s : string) =
  let neg = String.length s > 0 && s.[0] = '-' in
  let body = if neg then String.sub s 1 (String.length s - 1) else s in
  let i, fr = match String.index_opt body '.' with
    | Some k -> String.sub body 0 k, String.sub body (k + 1) (String.length body - k - 1)
    | None -> body, "" in
  ((neg, bytes_of_string i), bytes_of_string fr)
let string_of_flit ((neg, i), fr) =
  (if neg then "-" else "") ^ string_of_bytes i ^ (if fr = [] then "" else "." ^ string_of_bytes fr)

let fm32_tbl : (string, string) Hashtbl.t = Hashtbl.create 64
let fm64_tbl : (string, string) Hashtbl.t = Hashtbl.create 64
let pf32_tbl : (string, string) Hashtbl.t = Hashtbl.create 64
let pf64_tbl : (string, string) Hashtbl.t = Hashtbl.create 64
let fm tbl (b : n) = match Hashtbl.find_opt tbl (dec_of_n b) with
  | Some s -> flit_of_string s | None -> flit_of_string "?"
let pf tbl f = match Hashtbl.find_opt tbl (string_of_flit f) with
  | Some b -> Some (n_of_dec b) | None -> None

let rec take_z k toks acc = if k = 0 then (List.rev acc, toks) else
  match toks with x :: r -> take_z (k - 1) r (z_of_dec x :: acc) | [] -> failwith "short"
let rec ptree (toks : string list) : tag * string list =
  match toks with
  | "b" :: v :: r -> (TByte (z_of_dec v), r)
  | "s" :: v :: r -> (TShort (z_of_dec v), r)
  | "i" :: v :: r -> (TInt (z_of_dec v), r)
  | "l" :: v :: r -> (TLong (z_of_dec v), r)
  | "f" :: b :: lit :: r -> Hashtbl.replace fm32_tbl b lit; (TFloat (n_of_dec b), r)
  | "d" :: b :: lit :: r -> Hashtbl.replace fm64_tbl b lit; (TDouble (n_of_dec b), r)
  | "S" :: h :: r -> (TString (bytes_of_hex h), r)
  | "B" :: k :: r -> let (l, r') = take_z (int_of_string k) r [] in (TByteArray l, r')
  | "I" :: k :: r -> let (l, r') = take_z (int_of_string k) r [] in (TIntArray l, r')
  | "L" :: k :: r -> let (l, r') = take_z (int_of_string k) r [] in (TLongArray l, r')
  | "T" :: k :: r -> let (l, r') = plist (int_of_string k) r in (TList l, r')
  | "C" :: k :: r -> let (c, r') = pcomp (int_of_string k) r in (TCompound c, r')
  | _ -> failwith "bad tree"
and plist k toks = if k = 0 then (LNil, toks) else
  let (t, r) = ptree toks in let (l, r') = plist (k - 1) r in (LCons (t, l), r')
and pcomp k toks = if k = 0 then (CNil, toks) else
  match toks with
  | h :: r -> let (t, r1) = ptree r in let (c, r2) = pcomp (k - 1) r1 in (CCons (bytes_of_hex h, t, c), r2)
  | [] -> failwith "short"

let rec take_tbl k toks = if k = 0 then toks else
  match toks with
  | w :: lit :: bits :: r ->
      Hashtbl.replace (if w = "32" then pf32_tbl else pf64_tbl) lit bits; take_tbl (k - 1) r
  | _ -> failwith "short table"

(* ---------------------------------------------------------------- the TRANSLATED scanner (Gen/Scanner.v)
     s <hextext>                 -> s <ops> <state> <eof-op> <state>      one letter per opcode (a = 0 ..), "-" = none;
                                    state = <step function>:<parse stack, one digit per entry, "-" = empty>:<endTop><err>
                                    taken after the last byte and again after eof(); P = the model reached a Go panic
     X <hexalphabet> <hexprefix> <k>
                                 -> X <count> <fnv32 of the result lines (without the leading "s ") of the prefix and of
                                    every extension by up to k symbols of the alphabet, depth first, in alphabet order>  *)
let zbyte_tab : z array = Array.init 256 z_of_int
let zbytes_of_hex (h : string) : z list = List.map (fun x -> zbyte_tab.(int_of_n x land 255)) (bytes_of_hex h)
let opch (o : z) : char = Char.chr (97 + int_of_z o)
let sc_state (s : scanner) : string =
  let b = Buffer.create 48 in
  List.iter (fun c -> Buffer.add_char b (Char.chr (int_of_z c))) (sstate_name s.step);
  Buffer.add_char b ':';
  if s.parseState = [] then Buffer.add_char b '-'
  else List.iter (fun v -> Buffer.add_char b (Char.chr (48 + int_of_z v))) s.parseState;
  Buffer.add_char b ':';
  Buffer.add_char b (if s.endTop then '1' else '0');
  Buffer.add_char b (if s.errContext then '1' else '0');
  Buffer.contents b
(* ops: the opcode letters of the bytes scanned so far (no panic among them) *)
let sc_finish (s : scanner) (ops : string) : string =
  let ops = if ops = "" then "-" else ops in
  let pre = sc_state s in
  let (s2, op) = scan_eof s in
  if s2.crashed then ops ^ " " ^ pre ^ " P"
  else Printf.sprintf "%s %s %c %s" ops pre (opch op) (sc_state s2)
let sc_text (text : z list) : string =
  let ops = Buffer.create 32 in
  let rec go s = function
    | [] -> sc_finish s (Buffer.contents ops)
    | c :: r ->
        let (s1, op) = scan_step s c in
        if s1.crashed then (if Buffer.length ops = 0 then "-" else Buffer.contents ops) ^ " P"
        else (Buffer.add_char ops (opch op); go s1 r) in
  go scan_init text
let fnv (h : int) (str : string) : int =
  let h = ref h in
  String.iter (fun ch -> h := ((!h lxor Char.code ch) * 16777619) land 0xFFFFFFFF) str;
  ((!h lxor 10) * 16777619) land 0xFFFFFFFF
let sc_batch (alpha : z list) (prefix : z list) (k : int) : int * int =
  let h = ref 2166136261 and n = ref 0 in
  (* the state after the prefix, then depth first; a panic ends a branch (its extensions repeat the line) *)
  let rec walk (s : scanner) (ops : string) (dead : string option) (k : int) =
    let line = match dead with Some l -> l | None -> sc_finish s ops in
    h := fnv !h line; incr n;
    if k > 0 then
      List.iter (fun c ->
        match dead with
        | Some _ -> walk s ops dead (k - 1)
        | None ->
            let (s1, op) = scan_step s c in
            if s1.crashed then walk s1 ops (Some ((if ops = "" then "-" else ops) ^ " P")) (k - 1)
            else walk s1 (ops ^ String.make 1 (opch op)) None (k - 1)) alpha in
  let rec pre s ops = function
    | [] -> walk s ops None k
    | c :: r ->
        let (s1, op) = scan_step s c in
        if s1.crashed then walk s1 ops (Some ((if ops = "" then "-" else ops) ^ " P")) k
        else pre s1 (ops ^ String.make 1 (opch op)) r in
  pre scan_init "" prefix;
  (!n, !h)

(* ---------------------------------------------------------------- the TRANSLATED literal classifier (Gen/Literal.v)
     L <hextoken>   -> L <tag> <conv> <cast> <value | err | ->    conv 0 the token itself, 1 ParseInt, 2 ParseFloat, 3 panic
                       (printed 0 3 0 -); for conv = 1 the driver evaluates strconv.ParseInt(token[:strlen], 10, bits) with
                       the model's strlen and bits: optional sign, decimal digits only, range of a signed `bits`-bit integer
     Y <hexalphabet> <hexprefix> <k>  -> Y <count> <fnv32 of the result lines>   (as X above) *)
let parse_int (s : string) (bits : int) : string =
  let n = String.length s in
  if n = 0 then "err" else
  let neg = s.[0] = '-' in
  let start = if s.[0] = '-' || s.[0] = '+' then 1 else 0 in
  if start >= n then "err" else begin
    let ok = ref true in
    for i = start to n - 1 do if s.[i] < '0' || s.[i] > '9' then ok := false done;
    if not !ok then "err" else begin
      let k = ref start in
      while !k < n - 1 && s.[!k] = '0' do incr k done;
      let d = String.sub s !k (n - !k) in
      let lim = match bits with 8 -> "128" | 16 -> "32768" | 32 -> "2147483648" | _ -> "9223372036854775808" in
      let le a b = String.length a < String.length b || (String.length a = String.length b && a <= b) in
      let fits = if neg then le d lim else (le d lim && d <> lim) in
      if not fits then "err" else if neg && d <> "0" then "-" ^ d else d
    end
  end
let lit_line (tok : z list) : string =
  let ((((tag, conv), bits), cast), strlen) = nbt_parseLiteral_unquoted tok in
  let conv = int_of_z conv in
  if conv = 3 then "0 3 0 -" else
  let rest =
    if conv = 1 then begin
      let n = int_of_z strlen in
      let b = Buffer.create 16 in
      List.iteri (fun i c -> if i < n then Buffer.add_char b (Char.chr (int_of_z c land 255))) tok;
      parse_int (Buffer.contents b) (int_of_z bits)
    end else "-" in
  Printf.sprintf "%d %d %d %s" (int_of_z tag) conv (int_of_z cast) rest
let lit_batch (alpha : z list) (prefix : z list) (k : int) : int * int =
  let h = ref 2166136261 and n = ref 0 in
  let rec walk (t : z list) (k : int) =
    h := fnv !h (lit_line t); incr n;
    if k > 0 then List.iter (fun c -> walk (t @ [c]) (k - 1)) alpha in
  walk prefix k; (!n, !h)

(* ---------------------------------------------------------------- the TRANSLATED decoder (Gen/Decoder.v) under the
   interpreter of Model/C04_dec.v
     D <hextext> <k> {<bits> <hextoken> <decimal IEEE bits | err>}*k
                    -> D ok <hex of the payload written> | D err | D panic | D stuck <code> | D nofuel | D oracle-miss
   the table is strconv.ParseFloat(token, bits), computed by the harness for every run of unquoted-string characters
   of the text, whole and without its last character *)
let pf_tbl : (string, string) Hashtbl.t = Hashtbl.create 64
let pf_miss = ref false
let str_of_zs (l : z list) : string =
  let b = Buffer.create 16 in List.iter (fun c -> Buffer.add_char b (Char.chr (int_of_z c land 255))) l; Buffer.contents b
let pf_oracle (txt : z list) (bits : z) : z option =
  match Hashtbl.find_opt pf_tbl (string_of_int (int_of_z bits) ^ ":" ^ str_of_zs txt) with
  | Some "err" -> None
  | Some d -> Some (z_of_dec d)
  | None -> pf_miss := true; None
let rec take_pf k toks = if k = 0 then () else
  match toks with
  | bits :: tok :: v :: r ->
      Hashtbl.replace pf_tbl (bits ^ ":" ^ str_of_zs (zbytes_of_hex tok)) v; take_pf (k - 1) r
  | _ -> failwith "short float table"
let hex_of_zs (l : z list) : string =
  let b = Buffer.create 64 in
  List.iter (fun x -> Buffer.add_string b (Printf.sprintf "%02x" (int_of_z x land 255))) l;
  if Buffer.length b = 0 then "-" else Buffer.contents b
let dec_line (text : z list) : string =
  pf_miss := false;
  let r = decode_text pf_oracle decoder_prog text in
  if !pf_miss then "oracle-miss" else
  match r with
  | DOk o -> "ok " ^ hex_of_zs o
  | DErr -> "err"
  | DPanic -> "panic"
  | DStuck w -> "stuck " ^ string_of_int (int_of_z w)
  | DNoFuel -> "nofuel"

let () = iter_lines (fun line ->
  Hashtbl.reset fm32_tbl; Hashtbl.reset fm64_tbl; Hashtbl.reset pf32_tbl; Hashtbl.reset pf64_tbl;
  match split_ws line with
  | "w" :: toks ->
      let (t, _) = ptree toks in
      Printf.printf "w %s\n" (hex_of_bytes (to_text (fm fm32_tbl) (fm fm64_tbl) t))
  | "p" :: h :: k :: toks ->
      let toks = take_tbl (int_of_string k) toks in
      let (t, _) = ptree toks in
      (match parse_doc (pf pf32_tbl) (pf pf64_tbl) (bytes_of_hex h) with
       | Some (t', d) -> Printf.printf "p ok %s tt=%d same=%d\n" (hex_of_bytes d) (int_of_n (kind t')) (if t' = t then 1 else 0)
       | None -> print_string "p err\n")
  | ["q"; h] ->
      (match parse_doc (pf pf32_tbl) (pf pf64_tbl) (bytes_of_hex h) with
       | Some (t', d) -> Printf.printf "q ok %s tt=%d\n" (hex_of_bytes d) (int_of_n (kind t'))
       | None -> print_string "q err\n")
  | ["s"; h] -> Printf.printf "s %s\n" (sc_text (zbytes_of_hex h))
  | ["X"; a; p; k] ->
      let (n, h) = sc_batch (zbytes_of_hex a) (zbytes_of_hex p) (int_of_string k) in
      Printf.printf "X %d %08x\n" n h
  | ["L"; h] -> Printf.printf "L %s\n" (lit_line (zbytes_of_hex h))
  | ["Y"; a; p; k] ->
      let (n, h) = lit_batch (zbytes_of_hex a) (zbytes_of_hex p) (int_of_string k) in
      Printf.printf "Y %d %08x\n" n h
  | "D" :: h :: k :: toks ->
      Hashtbl.reset pf_tbl; take_pf (int_of_string k) toks;
      Printf.printf "D %s\n" (dec_line (zbytes_of_hex h))
  | _ -> Printf.printf "?? %s\n" line)
