(* C05 driver: one case per line on stdin, one result line on stdout, same format as the harness *)
let show_dec h = function
  | FOk ((v, nn), rest) -> Printf.printf "%s ok %s %s %d\n" h (dec_of_z v) (dec_of_n nn) (List.length rest)
  | FErr _ -> Printf.printf "%s err\n" h
  | FPanic _ -> Printf.printf "%s panic\n" h
  | FFuel -> Printf.printf "%s fuel\n" h

(* results of the translated readers: both components are Z *)
let show_tdec h = function
  | FOk ((a, b), rest) -> Printf.printf "%s ok %s %s %d\n" h (dec_of_z a) (dec_of_z b) (List.length rest)
  | FErr _ -> Printf.printf "%s err\n" h
  | FPanic _ -> Printf.printf "%s panic\n" h
  | FFuel -> Printf.printf "%s fuel\n" h
let n_of_z = function Zpos p -> Npos p | _ -> N0
let show_tenc h = function
  | GoRet ((nn, e), o) ->
      if e = N0 then Printf.printf "%s %s %s\n" h (hex_of_bytes (List.map n_of_z o)) (dec_of_z nn)
      else Printf.printf "%s err\n" h
  | GoPanic -> Printf.printf "%s panic\n" h

let () = iter_lines (fun line ->
  match split_ws line with
  | ["enc32"; v] ->
      let z = z_of_dec v in
      Printf.printf "enc32 %s %s %s\n" v (hex_of_bytes (write32 z)) (dec_of_n (len32 z))
  | ["enc64"; v] ->
      let z = z_of_dec v in
      Printf.printf "enc64 %s %s %s\n" v (hex_of_bytes (write64 z)) (dec_of_n (len64 z))
  | ["dec32"; h] -> show_dec ("dec32 " ^ h) (run_flat read32 (bytes_of_hex h))
  | ["dec64"; h] -> show_dec ("dec64 " ^ h) (run_flat read64 (bytes_of_hex h))
  (* phase 4: the definitions TRANSLATED from the Go source (coq/Gen/C05gen.v) on the same kind of input *)
  | ["tdec32"; br; h] -> show_tdec ("tdec32 " ^ br ^ " " ^ h) (run_flat (packet_VarInt_ReadFrom_io (br = "1")) (bytes_of_hex h))
  | ["tdec64"; br; h] -> show_tdec ("tdec64 " ^ br ^ " " ^ h) (run_flat (packet_VarLong_ReadFrom_io (br = "1")) (bytes_of_hex h))
  | ["trb"; br; h] -> show_tdec ("trb " ^ br ^ " " ^ h) (run_flat (packet_readByte_io (br = "1")) (bytes_of_hex h))
  | ["tenc32"; v] -> show_tenc ("tenc32 " ^ v) (packet_VarInt_WriteTo_io (z_of_dec v))
  | ["tenc64"; v] -> show_tenc ("tenc64 " ^ v) (packet_VarLong_WriteTo_io (z_of_dec v))
  | _ -> Printf.printf "?? %s\n" line)
