(* C05 driver: one case per line on stdin, one result line on stdout, same format as the harness *)
let show_dec h = function
  | FOk ((v, nn), rest) -> Printf.printf "%s ok %s %s %d\n" h (dec_of_z v) (dec_of_n nn) (List.length rest)
  | FErr _ -> Printf.printf "%s err\n" h
  | FPanic _ -> Printf.printf "%s panic\n" h
  | FFuel -> Printf.printf "%s fuel\n" h

let () = iter_lines (fun line ->
  match split_ws line with
  | ["enc32"; v] ->
      let z = z_of_dec v in
      Printf.printf "enc32 %s %s %s\n" v (hex_of_bytes (write32 z)) (dec_of_n (len32 z))
  | ["enc64"; v] ->
      let z = z_of_dec v in
      Printf.printf "enc64 %s %s %s\n" v (hex_of_bytes (write64 z)) (dec_of_n (len64 z))
  | ["dec32"; h] -> show_dec ("dec32 " ^ h) (run_flat read32 (bytes_of_hex h))
  | ["dec64"; h] -> show_dec ("dec64 " ^ h) (run_flat read64 (bytes_of_hex h))
  | _ -> Printf.printf "?? %s\n" line)
