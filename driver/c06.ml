(* C06 driver: one case per line on stdin, one result line on stdout, same format as the harness.
   types : bool i8 u8 i16 u16 i32 i64 f32 f64 vi vl str ba uuid ang pos bits
           ary:<len>(T) option(T) opt1(T) opt0(T) tup(T,...,T)        len = vi vl i8 u8 i16 u16 i32 i64
   values: t f | <decimal> | x<hex>[+<sparehex>] | p(x,y,z) | [v,...,v|s,...,s] | some(v) none(v) | (v,...,v) *)
exception Parse of string

let rec nat_of_int i = if i <= 0 then O else S (nat_of_int (i - 1))
let fuel = nat_of_int 6000

type cur = { s : string; mutable i : int }
let peek c = if c.i < String.length c.s then c.s.[c.i] else '\000'
let adv c = c.i <- c.i + 1
let expect c ch = if peek c = ch then adv c else raise (Parse (Printf.sprintf "expected %c at %d in %s" ch c.i c.s))
let take_while c p = let st = c.i in while c.i < String.length c.s && p c.s.[c.i] do adv c done; String.sub c.s st (c.i - st)
let is_alnum ch = (ch >= 'a' && ch <= 'z') || (ch >= '0' && ch <= '9')
let is_hex ch = (ch >= 'a' && ch <= 'f') || (ch >= '0' && ch <= '9') || ch = '-'
let is_num ch = (ch >= '0' && ch <= '9') || ch = '-'

let lenk_of = function
  | "vi" -> LVarInt | "vl" -> LVarLong | "i8" -> LByte | "u8" -> LUByte
  | "i16" -> LShort | "u16" -> LUShort | "i32" -> LInt | "i64" -> LLong
  | s -> raise (Parse ("len kind " ^ s))

let rec p_ty c : fty =
  let w = take_while c is_alnum in
  match w with
  | "bool" -> TBool | "i8" -> TByte | "u8" -> TUByte | "i16" -> TShort | "u16" -> TUShort
  | "i32" -> TInt | "i64" -> TLong | "f32" -> TFloat | "f64" -> TDouble | "vi" -> TVarInt | "vl" -> TVarLong
  | "str" -> TString | "ba" -> TByteArray | "uuid" -> TUUID | "ang" -> TAngle | "pos" -> TPosition | "bits" -> TBitSet
  | "ary" -> expect c ':'; let k = lenk_of (take_while c is_alnum) in
             expect c '('; let e = p_ty c in expect c ')'; TAry (k, e)
  | "option" -> expect c '('; let e = p_ty c in expect c ')'; TOption e
  | "opt1" -> expect c '('; let e = p_ty c in expect c ')'; TOpt (true, e)
  | "opt0" -> expect c '('; let e = p_ty c in expect c ')'; TOpt (false, e)
  | "tup" -> expect c '(';
      let rec go () = if peek c = ')' then (adv c; TUnit) else begin
          let a = p_ty c in if peek c = ',' then adv c; let b = go () in TPair (a, b) end in
      go ()
  | _ -> raise (Parse ("type " ^ w ^ " in " ^ c.s))

let rec p_val c : fval =
  match peek c with
  | 't' -> adv c; VB true
  | 'f' -> adv c; VB false
  | 'x' -> adv c; let b = take_while c is_hex in
           let sp = if peek c = '+' then (adv c; take_while c is_hex) else "-" in
           VBytes (bytes_of_hex b, bytes_of_hex sp)
  | 'p' -> adv c; expect c '('; let x = take_while c is_num in expect c ',';
           let y = take_while c is_num in expect c ','; let z = take_while c is_num in expect c ')';
           VPos (z_of_dec x, z_of_dec y, z_of_dec z)
  | '[' -> adv c;
      let rec items stop acc =
        if peek c = ']' || peek c = '|' then List.rev acc
        else begin let v = p_val c in if peek c = ',' then adv c; items stop (v :: acc) end in
      let xs = items () [] in
      let sp = if peek c = '|' then (adv c; items () []) else [] in
      expect c ']'; VList (xs, sp)
  | 's' -> ignore (take_while c is_alnum); expect c '('; let v = p_val c in expect c ')'; VOpt (true, v)
  | 'n' -> ignore (take_while c is_alnum); expect c '('; let v = p_val c in expect c ')'; VOpt (false, v)
  | '(' -> adv c;
      let rec go () = if peek c = ')' then (adv c; VUnit) else begin
          let a = p_val c in if peek c = ',' then adv c; let b = go () in VPair (a, b) end in
      go ()
  | _ -> let d = take_while c is_num in
         if d = "" || d = "-" then raise (Parse ("value at " ^ string_of_int c.i ^ " in " ^ c.s)) else VZ (z_of_dec d)

let ty_of s = p_ty { s; i = 0 }
let val_of s = p_val { s; i = 0 }

let rec show (v : fval) : string =
  match v with
  | VB true -> "t" | VB false -> "f"
  | VZ z -> dec_of_z z
  | VBytes (b, _) -> "x" ^ hex_of_bytes b
  | VPos (x, y, z) -> Printf.sprintf "p(%s,%s,%s)" (dec_of_z x) (dec_of_z y) (dec_of_z z)
  | VList (xs, _) -> "[" ^ String.concat "," (List.map show xs) ^ "]"
  | VOpt (true, x) -> "some(" ^ show x ^ ")"
  | VOpt (false, x) -> "none(" ^ show x ^ ")"
  | VUnit -> "()"
  | VPair _ ->
      let rec flat = function VPair (a, b) -> show a :: flat b | VUnit -> [] | o -> ["!" ^ show o] in
      "(" ^ String.concat "," (flat v) ^ ")"

let rec triples = function
  | t :: v :: o :: rest -> let (l, r) = triples rest in ((t, v, o) :: l, r)
  | r -> ([], r)

let () = iter_lines (fun line ->
  try
  match split_ws line with
  | ["enc"; t; v] ->
      let (bs, n) = wr (ty_of t) (val_of v) in
      Printf.printf "enc %s %s\n" (hex_of_bytes bs) (dec_of_n n)
  | ["dec"; t; old; h] ->
      (match run_flat (read_f fuel (ty_of t) (val_of old)) (bytes_of_hex h) with
       | FOk ((v, n), rest) -> Printf.printf "dec ok %s %s %d\n" (show v) (dec_of_n n) (List.length rest)
       | FErr _ -> print_string "dec err\n" | FPanic _ -> print_string "dec panic\n" | FFuel -> print_string "dec fuel\n")
  | ["fbs"; old; h] ->
      (match run_flat (r_fixedbitset (bytes_of_hex old)) (bytes_of_hex h) with
       | FOk ((v, n), rest) -> Printf.printf "fbs ok %s %s %d\n" (hex_of_bytes v) (dec_of_n n) (List.length rest)
       | FErr _ -> print_string "fbs err\n" | _ -> print_string "fbs panic\n")
  | ["raw"; h] ->
      let (bs, n) = w_raw (bytes_of_hex h) in
      Printf.printf "raw %s %s\n" (hex_of_bytes bs) (dec_of_n n)
  | ["plug"; h] ->
      (match r_plugin (bytes_of_hex h) with
       | FOk ((v, n), rest) -> Printf.printf "plug ok %s %s %d\n" (hex_of_bytes v) (dec_of_n n) (List.length rest)
       | _ -> print_string "plug err\n")
  | "pkt" :: rest ->
      (* pkt T1 V1 OLD1 ... Tk Vk OLDk EXTRAHEX : Marshal the values, Scan Data ++ extra into the olds *)
      let (fs, tl) = triples rest in
      let extra = match tl with [h] -> bytes_of_hex h | _ -> raise (Parse "pkt tail") in
      let fs = List.map (fun (t, v, o) -> (ty_of t, val_of v, val_of o)) fs in
      let data = marshal (List.map (fun (t, v, _) -> (t, v)) fs) in
      (match run_flat (scan fuel (List.map (fun (t, _, o) -> (t, o)) fs)) (data @ extra) with
       | FOk (vs, _) -> Printf.printf "pkt %s ok %s\n" (hex_of_bytes data) (String.concat " " (List.map show vs))
       | FErr _ -> Printf.printf "pkt %s err\n" (hex_of_bytes data)
       | FPanic _ -> Printf.printf "pkt %s panic\n" (hex_of_bytes data)
       | FFuel -> Printf.printf "pkt %s fuel\n" (hex_of_bytes data))
  | ["nbtw"; "nil"] ->
      let (bs, n) = w_nbtfield None in
      Printf.printf "nbtw %s %s\n" (hex_of_bytes bs) (dec_of_n n)
  | ["nbtw"; chunks] ->
      let cs = List.map bytes_of_hex (String.split_on_char ',' chunks) in
      let (bs, n) = w_nbtfield (Some cs) in
      Printf.printf "nbtw %s %s\n" (hex_of_bytes bs) (dec_of_n n)
  | ["nbtr"; img; tail; cut] ->
      (* the NBT decoder is abstract in the model: a root TagEnd raises ErrEND (class e_end), any other
         document consumes exactly its image *)
      let img = bytes_of_hex img and tail = bytes_of_hex tail and cut = int_of_string cut in
      let e_end = n_of_int 7 in
      let len = List.length img in
      let d = ReadByte (fun id -> if id = n_of_int 0 then Fail e_end
                                  else ReadFull (n_of_int (len - 1), (fun bs -> Ret bs))) in
      let rec take k l = if k = 0 then [] else (match l with [] -> [] | x :: t -> x :: take (k - 1) t) in
      let input = take (len - cut) img @ tail in
      (match run_flat (r_nbtfield e_end d) input with
       | FOk ((_, n), rest) -> Printf.printf "nbtr ok %s %d\n" (dec_of_n n) (List.length rest)
       | FErr _ -> print_string "nbtr err\n" | FPanic _ -> print_string "nbtr panic\n" | FFuel -> print_string "nbtr fuel\n")
  | _ -> Printf.printf "?? %s\n" line
  with Parse m -> Printf.printf "?? parse %s\n" m)
