(* C07 driver: one case per line on stdin, one result line on stdout, same format as the harness.
   zlib is an oracle of the model: the harness ran compress/zlib itself (outside the code under test)
   and hands over, per case, the compressed bytes the frame carries and what they inflate to. *)
let stale = List.map n_of_int [0xde; 0xad; 0xbe; 0xef; 0x00; 0x80; 0x01]

let rec sublist l off len =
  if off > 0 then (match l with [] -> [] | _ :: t -> sublist t (off - 1) len)
  else if len = 0 then [] else (match l with [] -> [] | x :: t -> x :: sublist t 0 (len - 1))

(* parse m oracle entries: zoff zlen some|none outhex *)
let rec entries input m toks =
  if m = 0 then [] else
  match toks with
  | zoff :: zlen :: kind :: out :: rest ->
      let z = sublist input (int_of_string zoff) (int_of_string zlen) in
      let r = if kind = "some" then Some (bytes_of_hex out) else None in
      (z, r) :: entries input (m - 1) rest
  | _ -> failwith "bad oracle entries"

let missed = ref false
let oracle es = fun arg ->
  match List.find_opt (fun (z, _) -> z = arg) es with
  | Some (_, r) -> r
  | None -> missed := true; None

let () = iter_lines (fun line ->
  missed := false;
  match split_ws line with
  | ["pack"; thr; id; data; z; kind; infl] ->
      let zb = bytes_of_hex z and d = bytes_of_hex data and idz = z_of_dec id and t = z_of_dec thr in
      let frame = pack (fun _ -> zb) t stale (idz, d) in
      let strict = fun arg -> if arg = zb && kind = "some" then Some (bytes_of_hex infl) else None in
      let ok = (match spec_frame_reader strict t frame with
                | Some (i, dd) -> i = idz && dd = d
                | None -> false) in
      Printf.printf "pack %s %s %d %s spec=%s\n" thr id (List.length d) (hex_of_bytes frame) (if ok then "ok" else "bad")
  | ["packhdr"; thr; id; n; zn] ->
      let (h, c) = pack_hdr (z_of_dec thr) (z_of_dec id) (n_of_dec n) (n_of_dec zn) in
      Printf.printf "packhdr %s %s %s %s %s %s\n" thr id n zn (hex_of_bytes h) (if c then "z" else "p")
  | ["own"; thr; id; n] ->
      Printf.printf "own %s %s %s %s\n" thr id n
        (if own_accepts (z_of_dec thr) (z_of_dec id) (n_of_dec n) then "ok" else "err")
  | "unpackn" :: thr :: count :: oldcap :: input :: m :: toks ->
      let inp = bytes_of_hex input in
      let es = entries inp (int_of_string m) toks in
      let old = { r_id = z_of_int 77; r_data = []; r_cap = n_of_dec oldcap } in
      let pools = List.init (int_of_string count) (fun i -> if i mod 2 = 0 then stale else []) in
      let res = run_flat (unpack_seq (oracle es) (z_of_dec thr) pools old) inp in
      let b = Buffer.create 256 in
      Buffer.add_string b (Printf.sprintf "unpackn %s %s %s" thr count oldcap);
      (match res with
       | FOk (rs, rest) ->
           Buffer.add_string b " r=ok";
           List.iter (fun r -> Buffer.add_string b
             (Printf.sprintf " %s %s %s" (dec_of_z r.r_id) (dec_of_n r.r_cap) (hex_of_bytes r.r_data))) rs;
           Buffer.add_string b (Printf.sprintf " left=%d" (List.length rest))
       | FErr _ -> Buffer.add_string b " r=err"
       | FPanic _ -> Buffer.add_string b " r=panic"
       | FFuel -> Buffer.add_string b " r=fuel");
      if !missed then Buffer.add_string b " oracle-miss";
      print_endline (Buffer.contents b)
  (* ---- appended case kinds (Conn level, plain frames inside compressed mode) ---- *)
  | ["plainz"; thr; id; n] ->
      Printf.printf "plainz %s %s %s %s\n" thr id n
        (if plain_accepts (z_of_dec id) (n_of_dec n) then "ok" else "err")
  | "conn" :: oldcap :: trail :: nev :: toks ->
      (* events: P id datahex zhex | T thr | C a_eco a_deco b_eco b_deco ; zhex = "-": frame not compressed.
         deflate / inflate: the table of (id ++ payload, zlib stream) pairs of this case *)
      let table = ref [] in
      let rec evs k toks =
        if k = 0 then [] else
        match toks with
        | "P" :: id :: data :: z :: rest ->
            let idz = z_of_dec id and d = bytes_of_hex data in
            if z <> "-" then table := (write32 idz @ d, bytes_of_hex z) :: !table;
            EPacket ((if k mod 2 = 0 then stale else []), (if k mod 3 = 0 then stale else []), (idz, d)) :: evs (k - 1) rest
        | "T" :: t :: rest -> EThreshold (z_of_dec t) :: evs (k - 1) rest
        | "C" :: a :: b :: c :: d :: rest -> ECipher (n_of_dec a, n_of_dec b, n_of_dec c, n_of_dec d) :: evs (k - 1) rest
        | _ -> failwith "bad conn events" in
      let es = evs (int_of_string nev) toks in
      let defl x = (match List.assoc_opt x !table with Some z -> z | None -> missed := true; []) in
      let infl z = (match List.find_opt (fun (_, z') -> z' = z) !table with Some (x, _) -> Some x | None -> None) in
      let (wire, ca) = send_all toy_enc defl wrap_conn2 es in
      let old = { r_id = z_of_int 77; r_data = []; r_cap = n_of_dec oldcap } in
      let b = Buffer.create 256 in
      Buffer.add_string b (Printf.sprintf "conn %s %s wire=%s" oldcap nev (hex_of_bytes wire));
      (match recv_all toy_dec infl wrap_conn2 es old (wire @ bytes_of_hex trail) with
       | FOk ((rs, cb), rest) ->
           Buffer.add_string b " r=ok";
           List.iter (fun r -> Buffer.add_string b
             (Printf.sprintf " %s %s %s" (dec_of_z r.r_id) (dec_of_n r.r_cap) (hex_of_bytes r.r_data))) rs;
           Buffer.add_string b (Printf.sprintf " left=%d thr=%s/%s" (List.length rest) (dec_of_z ca.k_thr) (dec_of_z cb.k_thr))
       | FErr _ -> Buffer.add_string b " r=err"
       | FPanic _ -> Buffer.add_string b " r=panic"
       | FFuel -> Buffer.add_string b " r=fuel");
      if !missed then Buffer.add_string b " oracle-miss";
      print_endline (Buffer.contents b)
  | _ -> Printf.printf "?? %s\n" (if String.length line > 80 then String.sub line 0 80 else line))
