(* C08 driver: one case per line on stdin, one result line on stdout, same format as the harness *)
let split_on c s = if s = "-" then [] else String.split_on_char c s
let rec nat_of_int i = if i <= 0 then O else S (nat_of_int (i - 1))

(* node: kind:namehex:children:parser:run *)
let node_of (s : string) : node =
  match String.split_on_char ':' s with
  | [k; nm; cs; p; r] ->
      { kind = n_of_int (int_of_string k);
        name = bytes_of_hex nm;
        children = List.map (fun c -> z_of_int (int_of_string c)) (split_on ',' cs);
        parser0 = (if p = "n" then None else Some (z_of_int (int_of_string p)));
        run = (if r = "n" then None else Some (n_of_int (int_of_string r))) }
  | _ -> failwith ("bad node " ^ s)
let graph_of (s : string) : node list = List.map node_of (String.split_on_char '/' s)

let graphs : (string, node list) Hashtbl.t = Hashtbl.create 64

let show_arg = function
  | PNil -> "n"
  | PLit s -> "L" ^ hex_of_bytes s
  | PStr s -> "S" ^ hex_of_bytes s
let show_args l = if l = [] then "-" else String.concat "," (List.map show_arg l)

let show_flat name = function
  | FOk (_, rest) -> Printf.printf "%s ok %d\n" name (List.length rest)
  | FErr _ -> Printf.printf "%s err\n" name
  | FPanic _ -> Printf.printf "%s panic\n" name
  | FFuel -> Printf.printf "%s fuel\n" name

(* oracle table "k.ok;k.ok;..." : answers of the implementation's own sub-decoder, by index *)
let otab (s : string) : n -> unit dec =
  let arr = Array.of_list (List.map (fun e ->
    match String.split_on_char '.' e with
    | [k; ok] -> oracle (n_of_int (int_of_string k)) (if ok = "1" then Some () else None)
    | _ -> failwith ("bad oracle " ^ e)) (split_on ';' s)) in
  fun i -> let k = int_of_n i in if k < Array.length arr then arr.(k) else Fail (n_of_int 99)

let opt_len s = if s = "n" then None else Some (n_of_int (int_of_string s))

let () = iter_lines (fun line ->
  match split_ws line with
  | ["graph"; id; desc] ->
      let g = graph_of desc in
      Hashtbl.replace graphs id g;
      Printf.printf "graph %s %d\n" id (if wf_graph g then 1 else 0)
  | ["exec"; id; h] ->
      (match execute (Hashtbl.find graphs id) (bytes_of_hex h) with
       | ORun (hd, args) -> Printf.printf "exec run %s %s\n" (dec_of_n hd) (show_args args)
       | OErr -> print_string "exec err\n"
       | OCrash _ -> print_string "exec panic\n"
       | ONoFuel -> print_string "exec fuel\n")
  | ["json"; h] ->
      let k = int_of_n (json_dispatch (bytes_of_hex h)) in
      Printf.printf "json %s\n" (match k with 0 -> "eof" | 4 -> "unk" | _ -> "del")
  | ["tags"; nv; h] ->
      let s = bytes_of_hex h in
      show_flat "tags" (run_flat (tags_read (nat_of_int (List.length s + 1)) (z_of_int (int_of_string nv))) s)
  | ["idle"; h] ->
      let s = bytes_of_hex h in
      show_flat "idle" (run_flat (idle_tags (nat_of_int (List.length s + 1))) s)
  | ["chat"; h] ->
      let s = bytes_of_hex h in
      let (c, rest) = chat_outcome (nat_of_int (List.length s + 3)) s in
      (match int_of_n c with
       | 0 -> Printf.printf "chat ok %d\n" (int_of_n rest)
       | 1 -> print_string "chat err\n"
       | 2 -> print_string "chat panic\n"
       | _ -> print_string "chat fuel\n")
  | ["trimu"; h] -> Printf.printf "trimu %s\n" (hex_of_bytes (trim_u (bytes_of_hex h)))
  | ["utags"; spec; h] ->
      let s = bytes_of_hex h in
      let tbl = List.map (fun e -> match String.split_on_char '=' e with
                                   | [id; nv] -> (bytes_of_hex id, z_of_int (int_of_string nv))
                                   | _ -> failwith ("bad known " ^ e)) (split_on ',' spec) in
      let known id = List.assoc_opt id tbl in
      (match run_flat (update_tags (nat_of_int (List.length s + 1)) known) s with
       | FOk (_, _) -> print_string "utags ok\n"
       | FErr _ -> print_string "utags err\n"
       | FPanic _ -> print_string "utags panic\n"
       | FFuel -> print_string "utags fuel\n")
  | ["reg"; entries; h] ->
      let s = bytes_of_hex h in
      show_flat "reg" (run_flat (registry_read (otab entries) (nat_of_int (List.length s + 1))) s)
  | ["be"; orc; h] ->
      show_flat "be" (run_flat (block_entity (otab orc) (n_of_int 0)) (bytes_of_hex h))
  | ["putdata"; nsec; st; bi; h] ->
      show_flat "putdata" (run_flat (put_data (otab st) (otab bi) (nat_of_int (int_of_string nsec)) (bytes_of_hex h)) [])
  | ["chunk"; nsec; hk; hok; mb; ws; bes; st; bi; h] ->
      let s = bytes_of_hex h in
      let hm = oracle (n_of_int (int_of_string hk)) (if hok = "1" then Some (opt_len mb, opt_len ws) else None) in
      show_flat "chunk" (run_flat (chunk_read hm (otab bes) (otab st) (otab bi)
                                     (nat_of_int (List.length s + 1)) (nat_of_int (int_of_string nsec))) s)
  | _ -> Printf.printf "?? %s\n" line)
