(* C09 driver: one case per line on stdin, one result line on stdout, same format as harness/cmd/c09.

   reader specs  R ::= vi | vl | fld <type> <old> | fbs <oldhex> | frm <thr> <oldcap> <zhex> <some|none> <outhex>
                     | rcon | bs | nbt <file|net> <target> | nbtf | plug | rb0 | rb1
                 (targets: any map raw dyn snbt skip ty:<type> st:<shape>; shapes as in driver/c03.ml)
   case lines
     rc <tg> <eof|inj> <piece/piece/...> R      run_src on exactly these pieces
     rx <hex> R                                 ALL compositions of hex x tg in {0,1} (driver-side enumeration)
     rf <m> <tg> <eof|inj> <hex> R              the source fails at every offset k = 0..len (pieces of m bytes)
     w E                                        Write calls of the encoder, and a failing writer at every offset
   encoder specs E ::= vi <z> | vl <z> | fld <type> <value> | raw <hex> | frm <thr> <id> <datahex> <zhex>
                     | rcon <id> <ty> <plhex> | bs <hex> | nbt <file|net> <namehex> <tree...> | sloppy <hex> <hex>
   (field types / values: syntax of driver/c06.ml; trees and typed targets: syntax of driver/c01.ml; in a tree of a
   `w nbt` line a subtree prefixed by R was written by a RawMessage, one prefixed by Y by a *dynbt.Value)
   result lines: readers that return (n, err) print `err <n>`; rf lines are comma-separated O | E | E<n> | P | F.
   rc inputs longer than 1500 bytes and rf inputs longer than 300 run through run_flat_t on the concatenation
   (= run_src: C09_src_fast); shorter ones through run_src itself. *)
exception Parse of string

let nat_of_int i = let r = ref O in for _ = 1 to i do r := S !r done; !r
let fuel6000 = nat_of_int 6000
let stale = List.map n_of_int [0xde; 0xad; 0xbe; 0xef; 0x00; 0x80; 0x01]

(* ---------------------------------------------------------------- field types and values (as c06.ml) *)
type cur = { s : string; mutable i : int }
let peek c = if c.i < String.length c.s then c.s.[c.i] else '\000'
let adv c = c.i <- c.i + 1
let expect c ch = if peek c = ch then adv c else raise (Parse (Printf.sprintf "expected %c at %d in %s" ch c.i c.s))
let take_while c p = let st = c.i in while c.i < String.length c.s && p c.s.[c.i] do adv c done; String.sub c.s st (c.i - st)
let is_alnum ch = (ch >= 'a' && ch <= 'z') || (ch >= '0' && ch <= '9')
let is_hex ch = (ch >= 'a' && ch <= 'f') || (ch >= '0' && ch <= '9') || ch = '-'
let is_num ch = (ch >= '0' && ch <= '9') || ch = '-'

let lenk_of = function
  | "vi" -> LVarInt | "vl" -> LVarLong | "i8" -> LByte | "u8" -> LUByte
  | "i16" -> LShort | "u16" -> LUShort | "i32" -> LInt | "i64" -> LLong
  | s -> raise (Parse ("len kind " ^ s))

let rec p_ty c : fty =
  let w = take_while c is_alnum in
  match w with
  | "bool" -> TBool | "i8" -> TByte | "u8" -> TUByte | "i16" -> TShort | "u16" -> TUShort
  | "i32" -> TInt | "i64" -> TLong | "f32" -> TFloat | "f64" -> TDouble | "vi" -> TVarInt | "vl" -> TVarLong
  | "str" -> TString | "ba" -> TByteArray | "uuid" -> TUUID | "ang" -> TAngle | "pos" -> TPosition | "bits" -> TBitSet
  | "ary" -> expect c ':'; let k = lenk_of (take_while c is_alnum) in
             expect c '('; let e = p_ty c in expect c ')'; TAry (k, e)
  | "option" -> expect c '('; let e = p_ty c in expect c ')'; TOption e
  | "opt1" -> expect c '('; let e = p_ty c in expect c ')'; TOpt (true, e)
  | "opt0" -> expect c '('; let e = p_ty c in expect c ')'; TOpt (false, e)
  | "tup" -> expect c '(';
      let rec go () = if peek c = ')' then (adv c; TUnit) else begin
          let a = p_ty c in if peek c = ',' then adv c; let b = go () in TPair (a, b) end in
      go ()
  | _ -> raise (Parse ("type " ^ w ^ " in " ^ c.s))

let rec p_val c : fval =
  match peek c with
  | 't' -> adv c; VB true
  | 'f' -> adv c; VB false
  | 'x' -> adv c; let b = take_while c is_hex in
           let sp = if peek c = '+' then (adv c; take_while c is_hex) else "-" in
           VBytes (bytes_of_hex b, bytes_of_hex sp)
  | 'p' -> adv c; expect c '('; let x = take_while c is_num in expect c ',';
           let y = take_while c is_num in expect c ','; let z = take_while c is_num in expect c ')';
           VPos (z_of_dec x, z_of_dec y, z_of_dec z)
  | '[' -> adv c;
      let rec items stop acc =
        if peek c = ']' || peek c = '|' then List.rev acc
        else begin let v = p_val c in if peek c = ',' then adv c; items stop (v :: acc) end in
      let xs = items () [] in
      let sp = if peek c = '|' then (adv c; items () []) else [] in
      expect c ']'; VList (xs, sp)
  | 's' -> ignore (take_while c is_alnum); expect c '('; let v = p_val c in expect c ')'; VOpt (true, v)
  | 'n' -> ignore (take_while c is_alnum); expect c '('; let v = p_val c in expect c ')'; VOpt (false, v)
  | '(' -> adv c;
      let rec go () = if peek c = ')' then (adv c; VUnit) else begin
          let a = p_val c in if peek c = ',' then adv c; let b = go () in VPair (a, b) end in
      go ()
  | _ -> let d = take_while c is_num in
         if d = "" || d = "-" then raise (Parse ("value at " ^ string_of_int c.i ^ " in " ^ c.s)) else VZ (z_of_dec d)

let ty_of s = p_ty { s; i = 0 }
let val_of s = p_val { s; i = 0 }

let rec show (v : fval) : string =
  match v with
  | VB true -> "t" | VB false -> "f"
  | VZ z -> dec_of_z z
  | VBytes (b, _) -> "x" ^ hex_of_bytes b
  | VPos (x, y, z) -> Printf.sprintf "p(%s,%s,%s)" (dec_of_z x) (dec_of_z y) (dec_of_z z)
  | VList (xs, _) -> "[" ^ String.concat "," (List.map show xs) ^ "]"
  | VOpt (true, x) -> "some(" ^ show x ^ ")"
  | VOpt (false, x) -> "none(" ^ show x ^ ")"
  | VUnit -> "()"
  | VPair _ ->
      let rec flat = function VPair (a, b) -> show a :: flat b | VUnit -> [] | o -> ["!" ^ show o] in
      "(" ^ String.concat "," (flat v) ^ ")"

(* ---------------------------------------------------------------- NBT trees and values (as c01.ml) *)
let rec take_n f n toks = if n = 0 then ([], toks) else
  let (x, r) = f toks in let (xs, r') = take_n f (n - 1) r in (x :: xs, r')

let rec parse_tree (toks : string list) : tag * string list =
  match toks with
  | "b" :: v :: r -> (n_byte (z_of_dec v), r)
  | "s" :: v :: r -> (n_short (z_of_dec v), r)
  | "i" :: v :: r -> (n_int (z_of_dec v), r)
  | "l" :: v :: r -> (n_long (z_of_dec v), r)
  | "f" :: v :: r -> (n_float (n_of_dec v), r)
  | "d" :: v :: r -> (n_double (n_of_dec v), r)
  | "B" :: h :: r -> (n_bytes (bytes_of_hex h), r)
  | "S" :: h :: r -> (n_string (bytes_of_hex h), r)
  | "I" :: n :: r -> let (xs, r') = take_n (function v :: r -> (z_of_dec v, r) | [] -> failwith "I") (int_of_string n) r in (n_ints xs, r')
  | "L" :: n :: r -> let (xs, r') = take_n (function v :: r -> (z_of_dec v, r) | [] -> failwith "L") (int_of_string n) r in (n_longs xs, r')
  | "[" :: eid :: n :: r -> let (xs, r') = take_n parse_tree (int_of_string n) r in (n_list (n_of_int (int_of_string eid)) xs, r')
  | "{" :: n :: r ->
      let entry = function k :: r -> let (t, r') = parse_tree r in ((bytes_of_hex k, t), r') | [] -> failwith "{" in
      let (xs, r') = take_n entry (int_of_string n) r in (n_comp xs, r')
  | _ -> failwith "tree"

let rec parse_gty (s : string) : gty =
  match s with
  | "bool" -> GBool | "i8" -> GI8 | "u8" -> GU8 | "i16" -> GI16 | "u16" -> GU16 | "i32" -> GI32 | "u32" -> GU32
  | "i64" -> GI64 | "u64" -> GU64 | "int" -> GInt | "uint" -> GUint | "f32" -> GF32 | "f64" -> GF64
  | "str" -> GStr | "any" -> GAny | "map" -> GMapAny
  | _ when String.length s > 3 && String.sub s 0 3 = "sl:" -> GSl (parse_gty (String.sub s 3 (String.length s - 3)))
  | _ -> failwith ("type " ^ s)

let hexs (b : Buffer.t) (l : n list) =
  if l = [] then Buffer.add_char b '-' else
  List.iter (fun x -> Buffer.add_string b (Printf.sprintf "%02x" (int_of_n x land 255))) l

let sep_iter b sep f l =
  let first = ref true in
  List.iter (fun x -> if !first then first := false else Buffer.add_string b sep; f x) l

let rec pr_aval (b : Buffer.t) (a : aval) : unit =
  let add = Buffer.add_string b in
  match a with
  | AByte v -> add "b:"; add (dec_of_z v)
  | AShort v -> add "s:"; add (dec_of_z v)
  | AInt v -> add "i:"; add (dec_of_z v)
  | ALong v -> add "l:"; add (dec_of_z v)
  | AFloat v -> add "f:"; add (dec_of_n v)
  | ADouble v -> add "d:"; add (dec_of_n v)
  | ABytes l -> add "B:"; hexs b l
  | AString l -> add "S:"; hexs b l
  | AList l -> add "["; sep_iter b "," (pr_aval b) l; add "]"
  | AMap m ->
      let es = List.map (fun (k, v) -> let kb = Buffer.create 16 in hexs kb k; (Buffer.contents kb, v)) m in
      let es = List.sort (fun (k1, _) (k2, _) -> compare k1 k2) es in
      add "{"; sep_iter b "," (fun (k, v) -> add k; add "="; pr_aval b v) es; add "}"
  | AInts l -> add "I("; sep_iter b "," (fun v -> add (dec_of_z v)) l; add ")"
  | ALongs l -> add "L("; sep_iter b "," (fun v -> add (dec_of_z v)) l; add ")"

let rec pr_tval b (x : tval) : unit =
  let add = Buffer.add_string b in
  match x with
  | XBool v -> add (if v then "z:1" else "z:0")
  | XInt v -> add "n:"; add (dec_of_z v)
  | XF32 v -> add "f:"; add (dec_of_n v)
  | XF64 v -> add "d:"; add (dec_of_n v)
  | XStr l -> add "S:"; hexs b l
  | XSlice l -> add "<"; sep_iter b "," (pr_tval b) l; add ">"
  | XAny a -> pr_aval b a

let rec pr_dval b (x : dval) : unit =
  let add = Buffer.add_string b in
  match x with
  | DData (id, data) -> add "D"; add (dec_of_n id); add ":"; hexs b data
  | DList l -> add "["; sep_iter b "," (pr_dval b) l; add "]"
  | DComp l -> add "{"; sep_iter b "," (fun (k, v) -> hexs b k; add "="; pr_dval b v) l; add "}"

let with_buf f = let b = Buffer.create 128 in f b; Buffer.contents b
let named pr (name, v) = with_buf (fun b -> hexs b name; Buffer.add_char b ' '; pr b v)

(* ---------------------------------------------------------------- struct shapes (as c03.ml) *)
let parse_shape (s : string) : sty =
  let n = String.length s in
  let pos = ref 0 in
  let peek () = if !pos < n then s.[!pos] else '\000' in
  let eat c = if peek () = c then incr pos else failwith (Printf.sprintf "shape: expected %c at %d in %s" c !pos s) in
  let until stops =
    let st = !pos in
    while !pos < n && not (List.mem s.[!pos] stops) do incr pos done;
    String.sub s st (!pos - st) in
  let rec go () : sty =
    match peek () with
    | 'b' -> eat 'b'; eat ':'; SB (parse_gty (until [';'; ')'; '}']))
    | 'p' -> eat 'p'; eat '('; let t = go () in eat ')'; SPtr t
    | 'l' -> eat 'l'; eat '('; let t = go () in eat ')'; SList t
    | 'a' ->
        if !pos + 2 < n && String.sub s !pos 3 = "any" then (pos := !pos + 3; SAny)
        else begin
          eat 'a'; let k = until [':'] in eat ':';
          let t = parse_gty (until [';'; ')'; '}']) in SArr (n_of_int (int_of_string k), t)
        end
    | 'm' -> pos := !pos + 3; SMap
    | 'r' -> pos := !pos + 3; SRaw
    | 's' ->
        eat 's'; eat '{';
        let fs = ref [] in
        while peek () <> '}' do
          let name = until ['='] in eat '=';
          let t = go () in
          fs := (bytes_of_hex name, t) :: !fs;
          if peek () = ';' then eat ';'
        done;
        eat '}'; SStruct (List.rev !fs)
    | c -> failwith (Printf.sprintf "shape: unexpected %c at %d in %s" c !pos s)
  in
  let t = go () in
  if !pos <> n then failwith ("shape: trailing " ^ s); t

let rec pr_sval b (x : sval) : unit =
  let add = Buffer.add_string b in
  match x with
  | YB v -> pr_tval b v
  | YAny None -> add "?nil"
  | YAny (Some a) -> pr_aval b a
  | YMap None -> add "?nil"
  | YMap (Some m) -> pr_aval b (AMap m)
  | YRaw (id, data) -> add "R"; add (dec_of_n id); add ":"; hexs b data
  | YPtr None -> add "*nil"
  | YPtr (Some v) -> add "*"; pr_sval b v
  | YList l -> add "<"; sep_iter b "," (pr_sval b) l; add ">"
  | YArr l -> add "("; sep_iter b "," (pr_tval b) l; add ")"
  | YStruct l -> add "{|"; sep_iter b ";" (pr_sval b) l; add "|}"

let rec nat_add (a : nat) (b : nat) : nat = match a with O -> b | S a' -> S (nat_add a' b)

(* ---------------------------------------------------------------- readers
   a reader is a function from a source (data+error flag, terminal error, pieces) to its result text:
   "ok <value> <left>" | "err" | "err <n>" | "panic" | "fuel" *)
type reader = bool -> bool -> n -> n list list -> string     (* fast?, data+error flag, terminal error, pieces *)

let fmt_of = function "file" -> n_file | "net" -> n_net | s -> failwith ("fmt " ^ s)
let total_len (ps : n list list) = List.fold_left (fun a p -> a + List.length p) 0 ps
let big_rc = 1500 and big_rf = 300

(* a decoder, its value printer and (for readers that return (n, err)) the count that goes with an error *)
let of_dec (d : 'a dec) (pr : 'a -> string) (errn : (n list -> n) option) : reader =
  fun fast tg term ps ->
    let r = if fast then run_flat_t term d (List.concat ps) else run_src d tg term ps in
    match r with
    | FOk (v, rest) -> Printf.sprintf "ok %s %d" (pr v) (List.length rest)
    | FErr _ -> (match errn with None -> "err" | Some f -> "err " ^ dec_of_n (f (List.concat ps)))
    | FPanic _ -> "panic" | FFuel -> "fuel"

let zn (v, n) = dec_of_z v ^ " " ^ dec_of_n n

(* parse a reader spec; nbytes bounds the NBT fuel like driver/c01.ml does *)
let reader_of (nbytes : int) (toks : string list) : reader =
  match toks with
  | ["vi"] -> of_dec d_varint zn (Some errn_varint)
  | ["vl"] -> of_dec d_varlong zn (Some errn_varlong)
  | ["rb0"] -> of_dec readByte_orig dec_of_n None
  | ["rb1"] -> of_dec readByte_now dec_of_n None
  | ["fld"; t; old] ->
      let t = ty_of t and old = val_of old in
      of_dec (d_field fuel6000 t old) (fun (v, n) -> show v ^ " " ^ dec_of_n n) (Some (errn fuel6000 t old))
  | ["fbs"; old] ->
      of_dec (d_fixedbitset (bytes_of_hex old)) (fun (v, n) -> hex_of_bytes v ^ " " ^ dec_of_n n) (Some errn_fixedbitset)
  | ["frm"; thr; oldcap; z; kind; out] ->
      let zb = bytes_of_hex z and ob = bytes_of_hex out in
      let oracle = fun arg -> if kind = "some" && arg = zb then Some ob else None in
      of_dec (d_frame oracle (z_of_dec thr) stale (mk_rstate (z_of_int 77) (n_of_dec oldcap)))
        (fun r -> let ((id, cap), data) = rstate_view r in
                  Printf.sprintf "%s %s %s" (dec_of_z id) (dec_of_n cap) (hex_of_bytes data)) None
  | ["rcon"] -> of_dec d_rcon (fun ((id, ty), pl) -> Printf.sprintf "%s %s %s" (dec_of_z id) (dec_of_z ty) (hex_of_bytes pl)) None
  | ["bs"] -> of_dec (d_bits []) (fun r -> let (d, n) = d_bits_data r in
                                          String.concat "," (List.map dec_of_n d) ^ " " ^ dec_of_n n) (Some errn_bits)
  | ["plug"] ->
      (fun _ tg term ps ->
         let ((data, n), e) = plugin_read tg term ps in
         match e with
         | None -> Printf.sprintf "ok %s %s 0" (hex_of_bytes data) (dec_of_n n)
         | Some _ -> "err " ^ dec_of_n n)
  | ["nbtf"] ->
      let fuel = nat_of_int (nbytes + 2) in
      of_dec (d_nbtfield_any fuel)
        (fun (v, n) -> (match v with None -> "?nil" | Some a -> with_buf (fun b -> pr_aval b a)) ^ " " ^ dec_of_n n)
        (Some (nbtfield_errn_any fuel))
  | ["nbt"; f; target] ->
      let f = fmt_of f and fuel = nat_of_int (nbytes + 2) in
      (match target with
       | "any" -> of_dec (d_nbt_any f fuel) (named pr_aval) None
       | "map" -> of_dec (d_nbt_map f fuel) (named pr_aval) None
       | "raw" -> of_dec (d_nbt_raw f fuel) (named (fun b (id, data) -> Buffer.add_string b ("R" ^ dec_of_n id ^ ":"); hexs b data)) None
       | "dyn" -> of_dec (d_nbt_dyn f fuel) (named pr_dval) None
       | "snbt" -> of_dec (d_nbt_snbt f fuel) (named (fun b () -> Buffer.add_char b '-')) None
       | "skip" -> of_dec (d_nbt_skip f fuel) (named (fun b () -> Buffer.add_char b '-')) None
       | _ when String.length target > 3 && String.sub target 0 3 = "ty:" ->
           of_dec (d_nbt_ty f fuel (parse_gty (String.sub target 3 (String.length target - 3)))) (named pr_tval) None
       | _ when String.length target > 3 && String.sub target 0 3 = "st:" ->
           let sh = parse_shape (String.sub target 3 (String.length target - 3)) in
           of_dec (d_nbt_st f (nat_add (st_depth sh) fuel) sh (st_zero sh)) (named pr_sval) None
       | _ -> failwith "target")
  | _ -> failwith "reader spec"

let rf_token (text : string) : string =
  if text = "err" then "E"
  else if String.length text > 4 && String.sub text 0 4 = "err " then "E" ^ String.sub text 4 (String.length text - 4)
  else if String.length text >= 2 && String.sub text 0 2 = "ok" then "O"
  else if text = "panic" then "P" else "F"

let term_of = function "eof" -> n_of_int 1 | "inj" -> n_of_int 99 | s -> failwith ("term " ^ s)
let pieces_of (s : string) : n list list =
  if s = "." then [] else List.map bytes_of_hex (String.split_on_char '/' s)

let rec firstn k l = if k = 0 then [] else match l with [] -> [] | x :: t -> x :: firstn (k - 1) t
let rec skipn k l = if k = 0 then l else match l with [] -> [] | _ :: t -> skipn (k - 1) t

(* the composition of s selected by the bits of mask: bit i set = a cut after byte i *)
let compose (s : n list) (mask : int) : n list list =
  let rec go i cur acc = function
    | [] -> List.rev (if cur = [] then acc else List.rev cur :: acc)
    | x :: t ->
        let cur = x :: cur in
        if t <> [] && mask land (1 lsl i) <> 0 then go (i + 1) [] (List.rev cur :: acc) t
        else go (i + 1) cur acc t in
  go 0 [] [] s

(* ---------------------------------------------------------------- encoders *)
let rec parse_wtree (toks : string list) : wtree * string list =
  match toks with
  | "R" :: r -> let (t, r') = parse_tree r in (WRaw t, r')
  | "Y" :: r -> let (t, r') = parse_tree r in (dyn_w t, r')
  | "[" :: eid :: n :: r -> let (xs, r') = take_n parse_wtree (int_of_string n) r in (WList (n_of_int (int_of_string eid), xs), r')
  | "{" :: n :: r ->
      let entry = function k :: r -> let (t, r') = parse_wtree r in ((bytes_of_hex k, t), r') | [] -> failwith "{" in
      let (xs, r') = take_n entry (int_of_string n) r in (WComp xs, r')
  | _ -> let (t, r') = parse_tree toks in (WLeaf t, r')

let calls_of (toks : string list) : wcall list =
  match toks with
  | ["vi"; v] -> varint_calls (z_of_dec v)
  | ["vl"; v] -> varlong_calls (z_of_dec v)
  | ["fld"; t; v] -> fld_calls (ty_of t) (val_of v)
  | ["raw"; h] -> raw_calls (bytes_of_hex h)
  | ["frm"; thr; id; data; z] ->
      let zb = bytes_of_hex z in
      pack_calls (fun _ -> zb) (z_of_dec thr) stale (z_of_dec id, bytes_of_hex data)
  | ["rcon"; id; ty; pl] -> rcon_calls (z_of_dec id) (z_of_dec ty) (bytes_of_hex pl)
  | ["bs"; h] -> bs_calls (bits_store (bytes_of_hex h))
  | "nbt" :: f :: name :: tree ->
      if List.mem "R" tree || List.mem "Y" tree then
        let (w, _) = parse_wtree tree in wt_doc_calls (fmt_of f) (bytes_of_hex name) w
      else let (t, _) = parse_tree tree in nbt_doc_calls (fmt_of f) (bytes_of_hex name) t
  | ["sloppy"; a; b] -> sloppy_calls (bytes_of_hex a) (bytes_of_hex b)
  | _ -> failwith "encoder spec"

let () = iter_lines (fun line ->
  try
    match split_ws line with
    | "rc" :: tg :: term :: pieces :: spec ->
        let ps = pieces_of pieces in
        let rd = reader_of (total_len ps) spec in
        Printf.printf "rc %s\n" (rd (total_len ps > big_rc) (tg = "1") (term_of term) ps)
    | "rx" :: h :: spec ->
        let s = bytes_of_hex h in
        let len = List.length s in
        let rd = reader_of len spec in
        let eof = n_of_int 1 in
        let flat = rd false false eof (if s = [] then [] else [s]) in
        let count = ref 0 and bad = ref "" in
        let nmask = if len <= 1 then 1 else 1 lsl (len - 1) in
        for mask = 0 to nmask - 1 do
          let ps = compose s mask in
          List.iter (fun tg ->
            incr count;
            let r = rd false tg eof ps in
            if r <> flat && !bad = "" then bad := Printf.sprintf " diff=%d,%b" mask tg) [false; true]
        done;
        Printf.printf "rx %s all=%d%s\n" flat !count !bad
    | "rf" :: m :: tg :: term :: h :: spec ->
        let s = bytes_of_hex h in
        let len = List.length s in
        let rd = reader_of len spec in
        let m = n_of_dec m and tg = (tg = "1") and term = term_of term in
        let toks = ref [] in
        for k = 0 to len do
          let p = firstn k s in
          let ps = if m = N0 then (if p = [] then [] else [p]) else uniform m p in
          toks := rf_token (rd (len > big_rf) tg term ps) :: !toks
        done;
        Printf.printf "rf %s\n" (String.concat "," (List.rev !toks))
    | "w" :: spec ->
        let ws = calls_of spec in
        let img = image ws in
        let total = List.length img in
        let calls = if ws = [] then "." else String.concat "/" (List.map (fun (bs, _) -> hex_of_bytes bs) ws) in
        let b = Buffer.create (total + 1) in
        let pre = ref [] and rest = ref img in           (* pre = reversed firstn k img *)
        for k = 0 to total do
          let o = write_to ws (n_of_int k) in
          let sink = sink_of o in
          let want = List.rev !pre in
          Buffer.add_char b (if sink <> want then 'X' else if w_ok o then 'O' else 'E');
          (match !rest with x :: t -> pre := x :: !pre; rest := t | [] -> ())
        done;
        Printf.printf "w calls=%s faults=%s\n" calls (Buffer.contents b)
    | _ -> Printf.printf "?? %s\n" (if String.length line > 60 then String.sub line 0 60 else line)
  with
  | Parse m -> Printf.printf "?? parse %s\n" m
  | Failure m -> Printf.printf "?? parse %s\n" m)
