(* C10 driver: one case per line on stdin, one result line on stdout, same format as the harness.
     seq <de> <k> <ivhex> {<i|d> <srchex> <dsthex>}*   -> seq {<dsthex>:<ivhex>:<ivPos> | panic}*
     ref <de> <k> <ivhex> <msghex>                     -> ref <outhex>
     blk <k> <hex>                                     -> blk <hex>
     mem <de> <k> <strict> <bs> <ivhex> {<imagehex> <doff> <dlen> <soff> <slen>}*
                                                       -> mem {<imagehex>:<ivhex>:<ivPos> | panic | unspec | other}*
       (the INTERPRETED TRANSLATION of net/CFB8/cfb8.go, Model/C10_interp.v: dst = image[doff:doff+dlen],
        src = image[soff:soff+slen] in one memory image per call, any overlap)                       *)
let rec int_of_nat = function O -> 0 | S n -> 1 + int_of_nat n

let rec calls_of = function
  | [] -> []
  | a :: s :: d :: rest ->
      { c_alias = (if a = "i" then InPlace else Disjoint); c_src = bytes_of_hex s; c_dst = bytes_of_hex d }
      :: calls_of rest
  | _ -> failwith "bad call list"

let rec mcalls_of = function
  | [] -> []
  | img :: doff :: dlen :: soff :: slen :: rest ->
      { m_bytes = bytes_of_hex img; m_doff = z_of_int (int_of_string doff); m_dlen = z_of_int (int_of_string dlen);
        m_soff = z_of_int (int_of_string soff); m_slen = z_of_int (int_of_string slen) } :: mcalls_of rest
  | _ -> failwith "bad mem call list"

let () = iter_lines (fun line ->
  match split_ws line with
  | "seq" :: de :: k :: ivh :: rest ->
      let tr = toy_trace (n_of_int (int_of_string k)) (de = "1") (bytes_of_hex ivh) (calls_of rest) in
      let b = Buffer.create 256 in
      Buffer.add_string b "seq";
      List.iter (function
        | None -> Buffer.add_string b " panic"
        | Some (st, out) ->
            Buffer.add_string b (Printf.sprintf " %s:%s:%d" (hex_of_bytes out) (hex_of_bytes st.iv) (int_of_nat st.pos))) tr;
      print_endline (Buffer.contents b)
  | ["ref"; de; k; ivh; m] ->
      Printf.printf "ref %s\n"
        (hex_of_bytes (toy_ref (n_of_int (int_of_string k)) (de = "1") (bytes_of_hex ivh) (bytes_of_hex m)))
  | ["blk"; k; h] ->
      Printf.printf "blk %s\n" (hex_of_bytes (toyE (n_of_int (int_of_string k)) (bytes_of_hex h)))
  | "mem" :: de :: k :: strict :: bsz :: ivh :: rest ->
      let tr = toy_interp_trace (n_of_int (int_of_string k)) (strict = "1") (de = "1") (z_of_int (int_of_string bsz))
                 (bytes_of_hex ivh) (mcalls_of rest) in
      let b = Buffer.create 256 in
      Buffer.add_string b "mem";
      List.iter (function
        | MOk (img, ivb, p) -> Buffer.add_string b (Printf.sprintf " %s:%s:%d" (hex_of_bytes img) (hex_of_bytes ivb) (int_of_z p))
        | MPanic -> Buffer.add_string b " panic"
        | MUnspec -> Buffer.add_string b " unspec"
        | MOther -> Buffer.add_string b " other") tr;
      print_endline (Buffer.contents b)
  | _ -> Printf.printf "?? %s\n" line)
