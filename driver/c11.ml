(* C11 driver: one case per line on stdin, one result line on stdout, same format as the harness.
   bs <bits> <len> <raw> <step>...   raw = nil | - | h1,h2,..  (hexadecimal uint64)
     steps  g:i  s:i:v  w:i:v  r  l  W  R:<hex>  F:<bits>
   bsw ... = bs ... (phase 4: multi-round wire scripts, sampled separately by tools/xcheck.py)
   size <bits> <len> | bpv <len> <longs> | pack <b> <vals> | unpack <b> <n> <raw> | spec <b> <vals> <aop>... *)
(* uint64 words travel in hexadecimal (linear-time conversion to and from the extracted N) *)
let n_of_hex (s : string) : n =
  let acc = ref None in
  String.iter (fun ch ->
    let d = match ch with
      | '0'..'9' -> Char.code ch - 48 | 'a'..'f' -> Char.code ch - 87 | 'A'..'F' -> Char.code ch - 55
      | _ -> failwith "hex" in
    for k = 3 downto 0 do
      let bit = (d lsr k) land 1 = 1 in
      acc := (match !acc with
              | None -> if bit then Some XH else None
              | Some p -> Some (if bit then XI p else XO p))
    done) s;
  match !acc with None -> N0 | Some p -> Npos p
let hex_of_n (x : n) : string =
  match x with
  | N0 -> "0"
  | Npos p ->
      let rec bits p acc = match p with XH -> 1 :: acc | XO q -> bits q (0 :: acc) | XI q -> bits q (1 :: acc) in
      let bs = bits p [] in                      (* most significant first *)
      let pad = (4 - List.length bs mod 4) mod 4 in
      let bs = List.init pad (fun _ -> 0) @ bs in
      let b = Buffer.create 16 in
      let rec go = function
        | a :: c :: d :: e :: t -> Buffer.add_char b "0123456789abcdef".[a*8 + c*4 + d*2 + e]; go t
        | _ -> () in
      go bs; Buffer.contents b
let nlist_of (s : string) : n list =
  if s = "-" || s = "nil" then [] else List.map n_of_hex (String.split_on_char ',' s)
let str_of_nlist (l : n list) : string =
  if l = [] then "-" else String.concat "," (List.map hex_of_n l)
let rec nat_of_int (i : int) : nat = if i <= 0 then O else S (nat_of_int (i - 1))
let show_out (tag : string) (o : outcome) : string =
  match o with
  | ORet v -> tag ^ "=" ^ dec_of_z v
  | OUnit -> tag
  | OErr -> tag ^ "=err"
  | OPanic w -> tag ^ "!" ^ dec_of_n w
let aop_of (tok : string) : aop option =
  match String.split_on_char ':' tok with
  | ["g"; i] -> Some (AGet (z_of_dec i))
  | ["s"; i; v] -> Some (ASet (z_of_dec i, z_of_dec v))
  | ["w"; i; v] -> Some (ASwap (z_of_dec i, z_of_dec v))
  | _ -> None

let run_script (st0 : bstore) (steps : string list) (b : Buffer.t) : unit =
  let st = ref st0 in
  let stop = ref false in
  List.iter (fun tok ->
    if not !stop then begin
      Buffer.add_char b ' ';
      match String.split_on_char ':' tok with
      | ["g"; i] -> let (s, o) = bs_get !st (z_of_dec i) in st := s; Buffer.add_string b (show_out "g" o)
      | ["s"; i; v] -> let (s, o) = bs_set !st (z_of_dec i) (z_of_dec v) in st := s; Buffer.add_string b (show_out "s" o)
      | ["w"; i; v] -> let (s, o) = bs_swap !st (z_of_dec i) (z_of_dec v) in st := s; Buffer.add_string b (show_out "w" o)
      | ["r"] -> Buffer.add_string b ("r=" ^ str_of_nlist (!st).data)
      | ["l"] -> Buffer.add_string b ("l=" ^ dec_of_z (!st).blen)
      | ["W"] -> let (img, nn) = bs_write !st in Buffer.add_string b ("W=" ^ hex_of_bytes img ^ "/" ^ dec_of_n nn)
      | ["R"; h] ->
          (match run_flat (bs_read !st) (bytes_of_hex h) with
           | FOk ((s, nn), rest) -> st := s; Buffer.add_string b (Printf.sprintf "R=%s/%d" (dec_of_n nn) (List.length rest))
           | FErr _ -> stop := true; Buffer.add_string b "R!err"
           | FPanic _ -> stop := true; Buffer.add_string b "R!panic"
           | FFuel -> stop := true; Buffer.add_string b "R!fuel")
      | ["F"; bt] -> let (s, o) = bs_fix !st (z_of_dec bt) in st := s;
          Buffer.add_string b (match o with OUnit -> "F=ok" | o -> show_out "F" o)
      | _ -> Buffer.add_string b ("??" ^ tok)
    end) steps

let () = iter_lines (fun line ->
  match split_ws line with
  | "bs" :: bt :: ln :: raw :: steps ->
      let r = if raw = "nil" then None else Some (nlist_of raw) in
      let b = Buffer.create 256 in
      (match bs_new (z_of_dec bt) (z_of_dec ln) r with
       | RPanic w -> Buffer.add_string b ("bs new!" ^ dec_of_n w)
       | ROk st -> Buffer.add_string b "bs ok"; run_script st steps b);
      print_endline (Buffer.contents b)
  | "bsw" :: bt :: ln :: raw :: steps ->                    (* phase 4: same script, kind of its own *)
      let r = if raw = "nil" then None else Some (nlist_of raw) in
      let b = Buffer.create 256 in
      (match bs_new (z_of_dec bt) (z_of_dec ln) r with
       | RPanic w -> Buffer.add_string b ("bsw new!" ^ dec_of_n w)
       | ROk st -> Buffer.add_string b "bsw ok"; run_script st steps b);
      print_endline (Buffer.contents b)
  | ["size"; bt; ln] ->
      (match calc_size (z_of_dec bt) (z_of_dec ln) with
       | Some v -> Printf.printf "size %s\n" (dec_of_z v)
       | None -> print_endline "size !")
  | ["bpv"; ln; lg] ->
      (match calc_bits (z_of_dec ln) (z_of_dec lg) with
       | Some v -> Printf.printf "bpv %s\n" (dec_of_z v)
       | None -> print_endline "bpv !")
  | ["pack"; bt; vals] -> Printf.printf "pack %s\n" (str_of_nlist (pack (n_of_dec bt) (nlist_of vals)))
  | ["unpack"; bt; n; raw] ->
      Printf.printf "unpack %s\n" (str_of_nlist (unpack (n_of_dec bt) (nat_of_int (int_of_string n)) (nlist_of raw)))
  | "spec" :: bt :: vals :: ops ->
      let aops = List.filter_map aop_of ops in
      let (a, outs) = spec_run (n_of_dec bt) (nlist_of vals) aops in
      let tags = List.map2 (fun o r -> show_out (match o with AGet _ -> "g" | ASet _ -> "s" | ASwap _ -> "w") r) aops outs in
      Printf.printf "spec %s | %s\n" (String.concat " " tags) (str_of_nlist a)
  | _ -> Printf.printf "?? %s\n" line)
