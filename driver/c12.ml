(* C12 driver: one case per line on stdin, one result line on stdout, same format as the harness.
   pc <s|b> <gbits> <len> <init0> <init1> <step>...
     init   n:<default> | w:<longs>:<palette> | x          longs hex comma list or -, palette decimal comma list or -
     steps  s<a>:i:v  g<a>:i  S<a>  I<a>  W<a>  X<a><b>:<hex junk>  T<b>:<hex>  C<a>
   sv <s|b> <w> <len> <longs> <palette>                    the Coq save-data specification alone
   A read that fails leaves the destination "tainted": the model keeps ANY container of the same
   configuration and length in the slot (the one from before the read) and every step on it prints ~
   until a later read into it succeeds (theorem C12_failed_read_recoverable: the result of that read
   does not depend on what the failed one left behind). *)
let n_of_hex (s : string) : n =
  let acc = ref None in
  String.iter (fun ch ->
    let d = match ch with
      | '0'..'9' -> Char.code ch - 48 | 'a'..'f' -> Char.code ch - 87 | 'A'..'F' -> Char.code ch - 55
      | _ -> failwith "hex" in
    for k = 3 downto 0 do
      let bit = (d lsr k) land 1 = 1 in
      acc := (match !acc with
              | None -> if bit then Some XH else None
              | Some p -> Some (if bit then XI p else XO p))
    done) s;
  match !acc with None -> N0 | Some p -> Npos p
let nlist_of (s : string) : n list =
  if s = "-" || s = "nil" then [] else List.map n_of_hex (String.split_on_char ',' s)
let zlist_of (s : string) : z list =
  if s = "-" then [] else List.map z_of_dec (String.split_on_char ',' s)
let rec nat_of_int (i : int) : nat = if i <= 0 then O else S (nat_of_int (i - 1))

(* FNV-1a 64 *)
let fnv_init = 0xcbf29ce484222325L
let fnv_byte (h : int64) (b : int) : int64 = Int64.mul (Int64.logxor h (Int64.of_int (b land 255))) 0x100000001b3L
let fnv_i64 (h : int64) (v : int64) : int64 =
  let h = ref h in
  for k = 0 to 7 do h := fnv_byte !h (Int64.to_int (Int64.shift_right_logical v (8 * k)) land 255) done; !h
(* an extracted N below 2^64 as int64 bit pattern *)
let i64_of_pos (p : positive) : int64 =
  let rec go p = match p with XH -> 1L | XO q -> Int64.shift_left (go q) 1 | XI q -> Int64.logor (Int64.shift_left (go q) 1) 1L in go p
let i64_of_n = function N0 -> 0L | Npos p -> i64_of_pos p
let i64_of_z = function Z0 -> 0L | Zpos p -> i64_of_pos p | Zneg p -> Int64.neg (i64_of_pos p)
let hash_outcomes (l : outcome list) : string =
  let h = ref fnv_init in
  List.iter (fun o -> match o with
    | ORet v -> h := fnv_i64 (fnv_byte !h 1) (i64_of_z v)
    | OPanic w -> h := fnv_i64 (fnv_byte !h 2) (i64_of_n w)
    | OUnit -> h := fnv_byte !h 3
    | OErr -> h := fnv_byte !h 4) l;
  Printf.sprintf "%Lx" !h
let hash_zs (l : z list) : string = hash_outcomes (List.map (fun v -> ORet v) l)
let hash_bytes (l : n list) : string =
  let h = ref fnv_init in List.iter (fun b -> h := fnv_byte !h (int_of_n b)) l; Printf.sprintf "%Lx" !h
let hash_longs (l : n list) : string =
  let h = ref fnv_init in List.iter (fun x -> h := fnv_i64 !h (i64_of_n x)) l; Printf.sprintf "%Lx" !h
let str_of_zs (l : z list) : string = if l = [] then "-" else String.concat "," (List.map dec_of_z l)

let show_out (tag : string) (o : outcome) : string =
  match o with
  | ORet v -> tag ^ "=" ^ dec_of_z v
  | OUnit -> tag
  | OErr -> tag ^ "=err"
  | OPanic w -> tag ^ "!" ^ dec_of_n w

let introspect (c : pc) : string =
  let d = c.cdata in
  let (k, cap, pb, vals) = match c.cpal with
    | PSingle v -> (1, Z0, Z0, [v])
    | PLinear (vs, cap, pb) -> (2, cap, pb, vs)
    | PHash (vs, cap, pb) -> (3, cap, pb, vs)
    | PGlobal -> (4, Z0, Z0, []) in
  Printf.sprintf "I=%s/%d/%s/%s/%s/%s/%s/%d/%s" (dec_of_z c.cbits) k (dec_of_z cap) (dec_of_z pb) (str_of_zs vals)
    (dec_of_z d.bits) (dec_of_z d.vpl) (List.length d.data) (hash_longs d.data)

let kind_of = function "s" -> KStates | _ -> KBiomes

let () = iter_lines (fun line ->
  match split_ws line with
  | "pc" :: k :: g :: ln :: i0 :: i1 :: steps ->
      let kd = kind_of k in
      let cf = { ckind = kd; gbits = z_of_dec g } in
      let gn = n_of_dec g in
      let len = z_of_dec ln in
      let b = Buffer.create 256 in
      Buffer.add_string b "pc";
      let init (s : string) : pc option =
        match String.split_on_char ':' s with
        | ["x"] -> Buffer.add_string b " x"; None
        | ["n"; d] ->
            (match pc_new cf len (z_of_dec d) with
             | ROk c -> Buffer.add_string b " ok"; Some c
             | RPanic w -> Buffer.add_string b (" new!" ^ dec_of_n w); None)
        | ["w"; data; pat] ->
            (match pc_with_data cf len (nlist_of data) (zlist_of pat) with
             | ROk c -> Buffer.add_string b " ok"; Some c
             | RPanic w -> Buffer.add_string b (" new!" ^ dec_of_n w); None)
        | _ -> Buffer.add_string b " ??"; None in
      let c0 = init i0 in
      let c1 = init i1 in
      let slot = [| c0; c1 |] in
      let taint = [| false; false |] in
      let idx ch = Char.code ch - 48 in
      List.iter (fun tok ->
        Buffer.add_char b ' ';
        let parts = String.split_on_char ':' tok in
        let head = List.hd parts in
        let op = head.[0] in
        let a = idx head.[1] in
        let is_read = (op = 'X' || op = 'T') in
        let src_tainted = (match op with 'X' -> taint.(a) | 'T' -> false | _ -> taint.(a)) in
        ignore is_read;
        match slot.(a), op, parts with
        | None, _, _ -> Buffer.add_string b "-"
        | Some _, _, _ when src_tainted -> Buffer.add_string b "~"
        | Some c, 's', [_; i; v] ->
            let (c', o) = pc_set set_fuel c (z_of_dec i) (z_of_dec v) in
            slot.(a) <- Some c'; Buffer.add_string b (show_out "s" o)
        | Some c, 'g', [_; i] -> Buffer.add_string b (show_out "g" (pc_get c (z_of_dec i)))
        | Some c, 'S', _ -> Buffer.add_string b ("S=" ^ hash_outcomes (pc_sweep c))
        | Some c, 'I', _ -> Buffer.add_string b (introspect c)
        | Some c, 'W', _ ->
            let (img, nn) = pc_write c in
            Buffer.add_string b (Printf.sprintf "W=%s/%d/%s" (dec_of_n nn) (List.length img) (hash_bytes img))
        | Some c, 'C', _ ->
            let (img, _) = pc_write c in
            (match run_flat (spec_container kd gn (nat_of_int (int_of_z len)) (nat_of_int (List.length img + 1))) img with
             | FOk (arr, rest) -> Buffer.add_string b (Printf.sprintf "C=%s/%d" (hash_zs arr) (List.length rest))
             | _ -> Buffer.add_string b "C!err")
        | Some c, 'X', _ ->
            let bi = idx head.[2] in
            let junk = match parts with [_; h] -> bytes_of_hex h | _ -> [] in
            (match slot.(bi) with
             | None -> Buffer.add_string b "-"
             | Some d ->
                 let (img, _) = pc_write c in
                 let inp = img @ junk in
                 (match run_flat (pc_read (nat_of_int (List.length inp + 1)) d) inp with
                  | FOk ((d', nn), rest) -> slot.(bi) <- Some d'; taint.(bi) <- false;
                      Buffer.add_string b (Printf.sprintf "X=%s/%d" (dec_of_n nn) (List.length rest))
                  | FErr _ -> taint.(bi) <- true; Buffer.add_string b "X!err"
                  | FPanic _ -> taint.(bi) <- true; Buffer.add_string b "X!panic"
                  | FFuel -> taint.(bi) <- true; Buffer.add_string b "X!fuel"))
        | Some d, 'T', [_; h] ->
            let inp = bytes_of_hex h in
            (match run_flat (pc_read (nat_of_int (List.length inp + 1)) d) inp with
             | FOk ((d', nn), rest) -> slot.(a) <- Some d'; taint.(a) <- false;
                 Buffer.add_string b (Printf.sprintf "T=%s/%d" (dec_of_n nn) (List.length rest))
             | FErr _ -> taint.(a) <- true; Buffer.add_string b "T!err"
             | FPanic _ -> taint.(a) <- true; Buffer.add_string b "T!panic"
             | FFuel -> taint.(a) <- true; Buffer.add_string b "T!fuel")
        | _ -> Buffer.add_string b ("??" ^ tok)) steps;
      print_endline (Buffer.contents b)
  | ["sv"; k; w; ln; data; pat] ->
      ignore k;
      (match spec_saved (n_of_dec w) (nat_of_int (int_of_string ln)) (zlist_of pat) (nlist_of data) with
       | Some arr -> Printf.printf "sv %s\n" (hash_zs arr)
       | None -> print_endline "sv none")
  | _ -> Printf.printf "?? %s\n" line)
