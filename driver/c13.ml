(* C13 driver: one case per line on stdin, one result line on stdout, same format as the harness.
   Token formats (whitespace separated):
     longs   : "-" | h1,h2,...            (hexadecimal uint64 words)
     zlist   : "-" | d1,d2,...            (signed decimals)
     bs      : bits blen vpl maskhex longs
     optbs   : n | s bs          optbytes : n | hex ("-" = empty, non-nil)
     cont    : bits kind zlist bs
     sect    : count cont cont optbytes optbytes
     be      : xz y type nbttype datahex
     chunk   : nsec sect* optbs*6(WSWG WS OFWG OF MB MBNL) nbe be* nspare be* statushex
     ssect   : y nbp (namehex nt datahex)* longs nbio namehex* longs optbytes optbytes
     schunk  : ypos statushex nsec ssect* nhm (keyhex longs)*
   Cases:
     reg id namehex nt datahex | bio id namehex | air id          (registry tables, echoed)
     wire gs gb tailhex chunk(src) chunk(dst)
     read gs gb hex chunk(dst)
     tosave schunk(dst) chunk
     fromsave gs gb schunk
     setb zlist(runs v*count ...) nops (i v)*                                                   *)
let n_of_hex (s : string) : n =
  let acc = ref None in
  String.iter (fun ch ->
    let d = match ch with
      | '0'..'9' -> Char.code ch - 48 | 'a'..'f' -> Char.code ch - 87 | 'A'..'F' -> Char.code ch - 55
      | _ -> failwith "hex" in
    for k = 3 downto 0 do
      let bit = (d lsr k) land 1 = 1 in
      acc := (match !acc with
              | None -> if bit then Some XH else None
              | Some p -> Some (if bit then XI p else XO p))
    done) s;
  match !acc with None -> N0 | Some p -> Npos p
let hex_of_n (x : n) : string =
  match x with
  | N0 -> "0"
  | Npos p ->
      let rec bits p acc = match p with XH -> 1 :: acc | XO q -> bits q (0 :: acc) | XI q -> bits q (1 :: acc) in
      let bs = bits p [] in
      let pad = (4 - List.length bs mod 4) mod 4 in
      let bs = List.init pad (fun _ -> 0) @ bs in
      let b = Buffer.create 16 in
      let started = ref false in
      let rec go = function
        | a :: c :: d :: e :: t ->
            let v = a*8 + c*4 + d*2 + e in
            if v <> 0 || !started then (started := true; Buffer.add_char b "0123456789abcdef".[v]);
            go t
        | _ -> () in
      go bs; if Buffer.length b = 0 then "0" else Buffer.contents b
let longs_of_tok (s : string) : n list =
  if s = "-" then [] else List.map n_of_hex (String.split_on_char ',' s)
let tok_of_longs (l : n list) : string =
  if l = [] then "-" else String.concat "," (List.map hex_of_n l)
let zlist_of_tok (s : string) : z list =
  if s = "-" then [] else List.map z_of_dec (String.split_on_char ',' s)
let tok_of_zlist (l : z list) : string =
  if l = [] then "-" else String.concat "," (List.map dec_of_z l)
let nat_of_int (i : int) : nat = let r = ref O in for _ = 1 to i do r := S !r done; !r

(* token cursor *)
type cur = { toks : string array; mutable pos : int }
let next c = let t = c.toks.(c.pos) in c.pos <- c.pos + 1; t
let next_int c = int_of_string (next c)
let next_z c = z_of_dec (next c)
let rec times k f = if k <= 0 then [] else let x = f () in x :: times (k - 1) f

let p_bs c : bstore =
  let bits = next_z c in let blen = next_z c in let vpl = next_z c in
  let mask = n_of_hex (next c) in let d = longs_of_tok (next c) in
  { data = d; mask0 = mask; bits = bits; blen = blen; vpl = vpl }
let p_optbs c = match next c with "n" -> None | _ -> Some (p_bs c)
let p_optbytes c = match next c with "n" -> None | h -> Some (bytes_of_hex h)
let p_cont c : wcont =
  let b = next_z c in let k = n_of_int (next_int c) in let pal = zlist_of_tok (next c) in
  let d = p_bs c in { w_bits = b; w_kind = k; w_pal = pal; w_data = d }
let p_sect c : wcont sect =
  let cnt = next_z c in let st = p_cont c in let bi = p_cont c in
  let sky = p_optbytes c in let blk = p_optbytes c in
  { s_count = cnt; s_states = st; s_biomes = bi; s_sky = sky; s_blk = blk }
let p_be c : bent =
  let xz = next_z c in let y = next_z c in let ty = next_z c in
  let nt = n_of_int (next_int c) in let d = bytes_of_hex (next c) in
  { e_xz = xz; e_y = y; e_type = ty; e_nt = nt; e_data = d }
let p_hm c : hmaps =
  let a = p_optbs c in let b = p_optbs c in let d = p_optbs c in let e = p_optbs c in
  let f = p_optbs c in let g = p_optbs c in
  { hWSWG = a; hWS = b; hOFWG = d; hOF = e; hMB = f; hMBNL = g }
let p_chunk c : wchunk =
  let ns = next_int c in let secs = times ns (fun () -> p_sect c) in
  let hm = p_hm c in
  let nb = next_int c in let bes = times nb (fun () -> p_be c) in
  let nsp = next_int c in let sp = times nsp (fun () -> p_be c) in
  let st = bytes_of_hex (next c) in
  { c_secs = secs; c_hm = hm; c_bes = bes; c_spare = sp; c_status = st }
let p_ssect c : ssect =
  let y = next_z c in
  let nbp = next_int c in
  let bp = times nbp (fun () -> let nm = bytes_of_hex (next c) in let nt = n_of_int (next_int c) in
                                 let d = bytes_of_hex (next c) in (nm, (nt, d))) in
  let bd = longs_of_tok (next c) in
  let nbio = next_int c in
  let bio = times nbio (fun () -> bytes_of_hex (next c)) in
  let biod = longs_of_tok (next c) in
  let sky = p_optbytes c in let blk = p_optbytes c in
  { ss_y = y; ss_bpal = bp; ss_bdata = bd; ss_biopal = bio; ss_biodata = biod; ss_sky = sky; ss_blk = blk }
let p_schunk c : schunk =
  let yp = next_z c in let st = bytes_of_hex (next c) in
  let ns = next_int c in let secs = times ns (fun () -> p_ssect c) in
  let nh = next_int c in
  let hm = times nh (fun () -> let k = bytes_of_hex (next c) in let l = longs_of_tok (next c) in (k, l)) in
  { sc_secs = secs; sc_hm = hm; sc_status = st; sc_ypos = yp }

(* serialisation, identical to the harness *)
let add b s = Buffer.add_string b s; Buffer.add_char b ' '
let s_bs b (st : bstore) =
  add b (dec_of_z st.bits); add b (dec_of_z st.blen); add b (dec_of_z st.vpl);
  add b (hex_of_n st.mask0); add b (tok_of_longs st.data)
let s_optbs b = function None -> add b "n" | Some st -> add b "s"; s_bs b st
let s_optbytes b = function None -> add b "n" | Some l -> add b (hex_of_bytes l)
let s_cont b (c : wcont) =
  add b (dec_of_z c.w_bits); add b (dec_of_n c.w_kind); add b (tok_of_zlist c.w_pal); s_bs b c.w_data
let s_sect b (s : wcont sect) =
  add b (dec_of_z s.s_count); s_cont b s.s_states; s_cont b s.s_biomes; s_optbytes b s.s_sky; s_optbytes b s.s_blk
let s_be b (e : bent) =
  add b (dec_of_z e.e_xz); add b (dec_of_z e.e_y); add b (dec_of_z e.e_type); add b (dec_of_n e.e_nt);
  add b (hex_of_bytes e.e_data)
let s_hm b (h : hmaps) =
  s_optbs b h.hWSWG; s_optbs b h.hWS; s_optbs b h.hOFWG; s_optbs b h.hOF; s_optbs b h.hMB; s_optbs b h.hMBNL
let md5 (b : Buffer.t) : string = Digest.to_hex (Digest.string (Buffer.contents b))
(* the result of a read: sections, height maps, block entities (the spare capacity is not observed) *)
let ser_chunk (c : wchunk) : string =
  let b = Buffer.create 4096 in
  let bs = Buffer.create 4096 in List.iter (s_sect bs) c.c_secs;
  let bh = Buffer.create 4096 in s_hm bh c.c_hm;
  let be = Buffer.create 4096 in List.iter (s_be be) c.c_bes;
  Printf.bprintf b "%d:%s hm:%s %d:%s st:%s" (List.length c.c_secs) (md5 bs) (md5 bh)
    (List.length c.c_bes) (md5 be) (hex_of_bytes c.c_status);
  Buffer.contents b
let ser_schunk (s : schunk) : string =
  let bs = Buffer.create 4096 in
  List.iter (fun (x : ssect) ->
    add bs (dec_of_z x.ss_y); add bs (string_of_int (List.length x.ss_bpal));
    List.iter (fun (nm, (nt, d)) -> add bs (hex_of_bytes nm); add bs (dec_of_n nt); add bs (hex_of_bytes d)) x.ss_bpal;
    add bs (tok_of_longs x.ss_bdata); add bs (string_of_int (List.length x.ss_biopal));
    List.iter (fun nm -> add bs (hex_of_bytes nm)) x.ss_biopal;
    add bs (tok_of_longs x.ss_biodata); s_optbytes bs x.ss_sky; s_optbytes bs x.ss_blk) s.sc_secs;
  (* the map is compared by sorted key *)
  let hm = List.sort compare (List.map (fun (k, l) -> hex_of_bytes k ^ "=" ^ tok_of_longs l) s.sc_hm) in
  let bh = Buffer.create 4096 in List.iter (add bh) hm;
  Printf.sprintf "%d:%s hm%d:%s st:%s y:%s" (List.length s.sc_secs) (md5 bs) (List.length hm) (md5 bh)
    (hex_of_bytes s.sc_status) (dec_of_z s.sc_ypos)

(* registry tables (kept as strings: a small live heap keeps the collector out of the way) *)
let reg_name : (int, string * int * string) Hashtbl.t = Hashtbl.create 40000
let reg_id : (string, int) Hashtbl.t = Hashtbl.create 40000
let bio_name_t : (int, string) Hashtbl.t = Hashtbl.create 100
let bio_id_t : (string, int) Hashtbl.t = Hashtbl.create 100
let air_t : (int, unit) Hashtbl.t = Hashtbl.create 8
let small_int (v : z) : int option =
  match v with Z0 -> Some 0 | Zpos p -> (try Some (int_of_pos p) with _ -> None) | Zneg _ -> None
let in_small (v : z) : bool =      (* below 2^40: int_of_pos is safe *)
  let rec len p k = match p with XH -> k | XO q | XI q -> len q (k + 1) in
  match v with Z0 -> true | Zpos p -> len p 1 <= 40 | Zneg _ -> false
let key_of (nm, (nt, d)) = hex_of_bytes nm ^ "|" ^ dec_of_n nt ^ "|" ^ hex_of_bytes d
let st_name (v : z) =
  if in_small v then (match small_int v with
    | Some i -> (match Hashtbl.find_opt reg_name i with
                 | Some (nm, nt, d) -> Some (bytes_of_hex nm, (n_of_int nt, bytes_of_hex d))
                 | None -> None)
    | None -> None) else None
let st_id k = match Hashtbl.find_opt reg_id (key_of k) with Some i -> Some (z_of_int i) | None -> None
let bio_name (v : z) =
  if in_small v then (match small_int v with
    | Some i -> (match Hashtbl.find_opt bio_name_t i with Some h -> Some (bytes_of_hex h) | None -> None)
    | None -> None) else None
let bio_id nm = match Hashtbl.find_opt bio_id_t (hex_of_bytes nm) with Some i -> Some (z_of_int i) | None -> None
let is_air (v : z) = if in_small v then (match small_int v with Some i -> Hashtbl.mem air_t i | None -> false) else false

let show_read (r : (wchunk * n) fres) : string =
  match r with
  | FOk ((c, nn), rest) -> Printf.sprintf "ok %s %d %s" (dec_of_n nn) (List.length rest) (ser_chunk c)
  | FErr _ -> "err"
  | FPanic _ -> "panic"
  | FFuel -> "fuel"

let () = Gc.set { (Gc.get ()) with Gc.minor_heap_size = 4 * 1024 * 1024; Gc.space_overhead = 300 }
let () = iter_lines (fun line ->
  let c = { toks = Array.of_list (split_ws line); pos = 0 } in
  try
    match next c with
    | "reg" ->
        let id = next_int c in let nm = next c in let nt = next_int c in let d = next c in
        Hashtbl.replace reg_name id (nm, nt, d);
        Hashtbl.replace reg_id (nm ^ "|" ^ string_of_int nt ^ "|" ^ d) id;
        print_string "reg ok\n"
    | "bio" ->
        let id = next_int c in let nm = next c in
        Hashtbl.replace bio_name_t id nm; Hashtbl.replace bio_id_t nm id;
        print_string "bio ok\n"
    | "air" -> Hashtbl.replace air_t (next_int c) (); print_string "air ok\n"
    | "wire" ->
        let gs = next_z c in let gb = next_z c in let tail = bytes_of_hex (next c) in
        let src = p_chunk c in let dst = p_chunk c in
        (match wchunk_write src with
         | None -> print_string "wire w:panic\n"
         | Some img ->
             let b = Buffer.create 4096 in Buffer.add_string b (hex_of_bytes img);
             let inp = img @ tail in
             let fuel = nat_of_int (List.length inp + 68) in
             Printf.printf "wire w:ok %d %s r:%s\n" (List.length img) (md5 b)
               (show_read (run_fast (wchunk_read fuel gs gb dst) inp)))
    | "read" ->
        let gs = next_z c in let gb = next_z c in let inp = bytes_of_hex (next c) in
        let dst = p_chunk c in
        let fuel = nat_of_int (List.length inp + 68) in
        Printf.printf "read %s\n" (show_read (run_fast (wchunk_read fuel gs gb dst) inp))
    | "tosave" ->
        let dst = p_schunk c in let src = p_chunk c in
        (match to_save st_name bio_name src dst with
         | SOk s -> Printf.printf "tosave ok %s\n" (ser_schunk s)
         | SErr -> print_string "tosave err\n"
         | SPanic _ -> print_string "tosave panic\n")
    | "fromsave" ->
        let gs = next_z c in let gb = next_z c in let s = p_schunk c in
        (match from_save st_id bio_id is_air gs gb s with
         | SOk ((secs, hm), st) ->
             let bs = Buffer.create 4096 in
             List.iter (function None -> add bs "N" | Some x -> s_sect bs x) secs;
             let bh = Buffer.create 4096 in s_hm bh hm;
             Printf.printf "fromsave ok %d:%s hm:%s st:%s\n" (List.length secs) (md5 bs) (md5 bh) (hex_of_bytes st)
         | SErr -> print_string "fromsave err\n"
         | SPanic _ -> print_string "fromsave panic\n")
    | "fromsavee" ->
        (* fromsavee gs gb xpos zpos nbe (nt datahex ok idhex x y z type)* schunk : ChunkFromSave with block entities;
           what v.Unmarshal(&tmp) and block.EntityTypes gave travels with the case *)
        let gs = next_z c in let gb = next_z c in let xpos = next_z c in let zpos = next_z c in
        let nbe = next_int c in
        let ftab = Hashtbl.create 16 in let ttab = Hashtbl.create 16 in
        let bes = times nbe (fun () ->
          let nt = next_int c in let d = next c in let ok = next c in let id = next c in
          let x = next_z c in let y = next_z c in let z = next_z c in let ty = next_z c in
          if ok = "1" then Hashtbl.replace ftab (string_of_int nt ^ "|" ^ d) (bytes_of_hex id, x, y, z);
          Hashtbl.replace ttab id ty;
          (n_of_int nt, bytes_of_hex d)) in
        let be_fields (nt, d) =
          match Hashtbl.find_opt ftab (dec_of_n nt ^ "|" ^ hex_of_bytes d) with
          | Some (id, x, y, z) -> Some (((id, x), y), z) | None -> None in
        let entity_type id = match Hashtbl.find_opt ttab (hex_of_bytes id) with Some t -> t | None -> Z0 in
        let s = p_schunk c in
        (match from_save_full st_id bio_id is_air gs gb be_fields entity_type s xpos zpos bes with
         | SOk ((((secs, hm), st)), es) ->
             let bs = Buffer.create 4096 in
             List.iter (function None -> add bs "N" | Some x -> s_sect bs x) secs;
             let bh = Buffer.create 4096 in s_hm bh hm;
             let be = Buffer.create 256 in List.iter (s_be be) es;
             Printf.printf "fromsavee ok %d:%s hm:%s st:%s %d:%s\n" (List.length secs) (md5 bs) (md5 bh) (hex_of_bytes st)
               (List.length es) (md5 be)
         | SErr -> print_string "fromsavee err\n"
         | SPanic _ -> print_string "fromsavee panic\n")
    | "setb" ->
        let runs = zlist_of_tok (next c) in
        let rec expand = function
          | v :: k :: t -> List.init (int_of_z k) (fun _ -> v) @ expand t
          | _ -> [] in
        let a0 = expand runs in
        let cnt0 = next_z c in
        let nops = next_int c in
        let ops = times nops (fun () -> let i = next_z c in let v = next_z c in (i, v)) in
        let (cnt, a) = arr_set_blocks is_air (cnt0, a0) ops in
        let b = Buffer.create 4096 in Buffer.add_string b (tok_of_zlist a);
        Printf.printf "setb %s %s %s\n" (dec_of_z cnt) (dec_of_z (non_air is_air a)) (md5 b)
    | _ -> Printf.printf "?? %s\n" (String.sub line 0 (min 60 (String.length line)))
  with e -> Printf.printf "driver-exception %s\n" (Printexc.to_string e))
