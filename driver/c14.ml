(* C14 / C15 driver: histories of region operations *)
let fnv_init = 0xcbf29ce484222325L
let fnv_step h c = Int64.mul (Int64.logxor h (Int64.of_int c)) 0x100000001b3L
let fnv_bytes (l : n list) : int64 = List.fold_left (fun h b -> fnv_step h (int_of_n b)) fnv_init l
let hex64 (h : int64) : string = Printf.sprintf "%Lx" h

let payload seed n : n list =
  List.init n (fun i -> byte_n (seed + i * 13 + (i / 256) * 7))

let show_writes (ws : wr list) : string =
  String.concat "" (string_of_int (List.length ws) ::
    List.map (fun (p, (_, d)) -> Printf.sprintf " %s:%d:%s" (dec_of_n p) (List.length d) (hex64 (fnv_bytes d))) ws)

let rec nat_of_int i = if i <= 0 then O else S (nat_of_int (i - 1))

let tab_hash (m : nmap) : int64 =
  let h = ref fnv_init in
  for i = 0 to 1023 do
    let v = int_of_n (getN m (n_of_int i)) in
    h := fnv_step !h ((v lsr 24) land 255); h := fnv_step !h ((v lsr 16) land 255);
    h := fnv_step !h ((v lsr 8) land 255); h := fnv_step !h (v land 255)
  done; !h

let rres_str = function
  | ROk d -> Printf.sprintf "ok %d %s" (List.length d) (hex64 (fnv_bytes d))
  | RNoSector -> "nosector" | RNoData -> "nodata" | RNegative -> "neg" | RTooLarge -> "toolarge" | REOF -> "eof"

let parse_op (s : string) : op option =
  match split_ws s with
  | ["w"; x; z; len; seed; now] ->
      Some (OWrite (n_of_dec x, n_of_dec z, payload (int_of_string seed) (int_of_string len), n_of_dec now))
  | ["r"; x; z] -> Some (ORead (n_of_dec x, n_of_dec z))
  | ["e"; x; z] -> Some (OExist (n_of_dec x, n_of_dec z))
  | ["p"] -> Some OPad
  | ["o"] -> Some OReopen
  | _ -> None

let obs_str (s' : st) = function
  | BWrite (r, ws) ->
      Printf.sprintf "W %s %s" (match r with WOk -> "ok" | WTooLarge -> "toolarge" | WOutside -> "outside") (show_writes ws)
  | BRead r -> "R " ^ rres_str r
  | BExist b -> Printf.sprintf "E %b" b
  | BPad ws -> "P ok " ^ show_writes ws
  | BReopen true -> Printf.sprintf "O ok %s %s" (hex64 (tab_hash (offs s'))) (hex64 (tab_hash (tss s')))
  | BReopen false -> "O err"

(* a (possibly damaged) file as a freshly loaded region sees it: digest of the results of reading every chunk
   except `skip`, then what chunk `skip` itself reads as *)
let crash_digest (f : file) (skip : int) : string =
  match load f with
  | LErrShort -> "loaderr"
  | LOk s ->
      let h = ref fnv_init in
      let own = ref "" in
      for i = 0 to 1023 do
        let x = n_of_int (i mod 32) and z = n_of_int (i / 32) in
        let r = rres_str (read_sector s x z) ^ (if exist_sector s x z then "+" else "-") in
        if i <> skip then String.iter (fun c -> h := fnv_step !h (Char.code c)) r
        else own := String.map (fun c -> if c = ' ' then ',' else c) r
      done; hex64 !h ^ "/" ^ !own

let () = iter_lines (fun line ->
  match String.index_opt line ' ' with
  | None -> print_endline "??"
  | Some sp ->
    let kind = String.sub line 0 sp in
    let rest = String.sub line (sp + 1) (String.length line - sp - 1) in
    if kind = "hist" then begin
      (* `wf x z len seed now k short`: WriteSector on a medium whose k-th I/O call fails; the model is
         Model.C14.write_sector_fail (proved equal to the interpretation of the translated WriteSector on the failing
         medium for instances, Proofs/C14_skel_fail.v) *)
      let s = ref create in
      let run_one (txt : string) : string option =
        match split_ws txt with
        | ["wf"; x; z; len; seed; now; k; short] ->
            let d = payload (int_of_string seed) (int_of_string len) in
            (match Some (write_sector_fail (nat_of_int (int_of_string k)) (n_of_dec short) !s (n_of_dec x) (n_of_dec z) d (n_of_dec now)) with
             | Some ((s', ws), r) ->
                 s := s';
                 Some (Printf.sprintf "W %s %s" (match r with WFOk -> "ok" | WFTooLarge -> "toolarge" | WFErr -> "err" | WFOutside -> "outside") (show_writes ws))
             | None -> Some "W stuck")
        | _ ->
            (match parse_op txt with
             | Some o -> let (s', b) = step !s o in s := s'; Some (obs_str s' b)
             | None -> None) in
      let out = List.filter_map run_one (String.split_on_char ';' rest) in
      let f = img !s in
      let size = fsize f in
      (* hash the whole file content sector by sector (a single huge range costs O(writes x size)) *)
      let sz = int_of_n size in
      let h = ref fnv_init in
      let pos = ref 0 in
      while !pos < sz do
        let n = min 4096 (sz - !pos) in
        List.iter (fun b -> h := fnv_step !h (int_of_n b)) (read_range f (n_of_int !pos) (n_of_int n));
        pos := !pos + n
      done;
      print_endline ("hist " ^ String.concat "|" (out @ [Printf.sprintf "F %s %s" (dec_of_n size) (hex64 !h)]))
    end else if kind = "raw" then begin
      (* raw <hex>: an arbitrary byte image; Load, then ReadSector / ExistSector of all 1024 slots *)
      let b = bytes_of_hex rest in
      print_endline ("raw " ^ crash_digest [mkwr N0 b] (-1))
    end else if kind = "crash" then begin
      (* crash <ops> # <opindex>:<k>:<t> ...  : images after k full writes of op #opindex, the next torn after t bytes *)
      match String.split_on_char '#' rest with
      | [opss; pts] ->
          let ops = Array.of_list (List.filter_map parse_op (String.split_on_char ';' opss)) in
          let points = List.map (fun p -> match String.split_on_char ':' p with
                                   | [a; b; c] -> (int_of_string a, int_of_string b, int_of_string c)
                                   | _ -> (-1, 0, 0)) (split_ws pts) in
          let s = ref create in
          let buf = Buffer.create 256 in
          Buffer.add_string buf "crash";
          Array.iteri (fun i o ->
            let before = !s in
            let (s', b) = step !s o in
            (match o, b with
             | OWrite (x, z, _, _), BWrite (_, ws) ->
                 List.iter (fun (oi, k, t) ->
                   if oi = i then begin
                     let im = torn_image (img before) ws (nat_of_int k) (n_of_int t) in
                     Buffer.add_string buf (Printf.sprintf " %d:%d:%d=%s" oi k t (crash_digest im (int_of_n (idx x z))))
                   end) points
             | _ -> ());
            s := s') ops;
          print_endline (Buffer.contents buf)
      | _ -> print_endline "??"
    end else print_endline "??")
