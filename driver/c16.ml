(* C16 driver: one case per line on stdin, one result line on stdout, same format as the harness *)
let show_frame ((id, ty), pl) = Printf.sprintf "%s %s %s" (dec_of_z id) (dec_of_z ty) (hex_of_bytes pl)
let okerr b = if b then "ok" else "err"
let rec nat_of_int i = if i <= 0 then O else S (nat_of_int (i - 1))

(* event tokens  C:<hex>  A  R:<hex>  V  XC:<hex>  XS:<hex> *)
let ev_of_tok t =
  let arg k = bytes_of_hex (String.sub t k (String.length t - k)) in
  if t = "A" then EAccept else if t = "V" then ERecv
  else if String.length t > 3 && String.sub t 0 3 = "XC:" then EXC (arg 3)
  else if String.length t > 3 && String.sub t 0 3 = "XS:" then EXS (arg 3)
  else if String.length t > 2 && String.sub t 0 2 = "C:" then ECmd (arg 2)
  else if String.length t > 2 && String.sub t 0 2 = "R:" then EResp (arg 2)
  else failwith ("bad event " ^ t)
let tok_of_obs = function
  | OSent -> "S" | OCmd c -> "C:" ^ hex_of_bytes c | OResp r -> "R:" ^ hex_of_bytes r | OErr -> "E"
let show_session chans (obs, k) =
  let ended_err = List.exists (fun o -> o = OErr) obs in
  Printf.sprintf "%s | sid=%s%s" (String.concat " " (List.map tok_of_obs obs)) (dec_of_z k.sid)
    (if ended_err || not chans then ""
     else Printf.sprintf " c2s=%s s2c=%s" (hex_of_bytes k.c2s) (hex_of_bytes k.s2c))

(* the harness's position-dependent payload of n bytes *)
let pat_bytes n f = List.init n (fun i -> n_of_int ((f + 7 * i + i / 251) land 255))
let cksum bs = List.fold_left (fun h b -> (h * 31 + int_of_n b) mod 1000000007) 0 bs

let rec read_loop acc s =
  match s with
  | [] -> (List.rev acc, "clean")
  | _ -> (match run_flat rcon_read s with
          | FOk (f, rest) -> read_loop (f :: acc) rest
          | FErr _ -> (List.rev acc, "err")
          | FPanic _ -> (List.rev acc, "panic")
          | FFuel -> (List.rev acc, "fuel"))

let () = iter_lines (fun line ->
  match split_ws line with
  | ["wr"; id; ty; pl] ->
      Printf.printf "wr %s\n" (hex_of_bytes (rcon_write (z_of_dec id) (z_of_dec ty) (bytes_of_hex pl)))
  | ["rd"; h] ->
      (match run_flat rcon_read (bytes_of_hex h) with
       | FOk (f, rest) -> Printf.printf "rd ok %s %d\n" (show_frame f) (List.length rest)
       | FErr _ -> print_string "rd err\n"
       | FPanic _ -> print_string "rd panic\n"
       | FFuel -> print_string "rd fuel\n")
  | ["rdall"; h] ->
      let s = bytes_of_hex h in
      let (fs, how) = read_loop [] s in
      let rs = (match read_stream s with Some l -> Printf.sprintf "some%d" (List.length l) | None -> "none") in
      Printf.printf "rdall n=%d end=%s rs=%s%s\n" (List.length fs) how rs
        (String.concat "" (List.map (fun f -> " " ^ show_frame f) fs))
  | ["dial"; id; pw; s2c] ->
      let idz = z_of_dec id in
      let sent = dial_send idz (bytes_of_hex pw) in
      let r = (match run_flat (dial_recv idz) (bytes_of_hex s2c) with
               | FOk (_, _) -> "ok" | FErr _ -> "err" | FPanic _ -> "panic" | FFuel -> "fuel") in
      Printf.printf "dial %s %s\n" (hex_of_bytes sent) r
  | ["alogin"; sid0; pws; c2s] ->
      (match run_flat (accept_login (bytes_of_hex pws)) (bytes_of_hex c2s) with
       | FOk (((sid, w), ok), rest) ->
           Printf.printf "alogin %s %s %s %d\n" (okerr ok) (dec_of_z sid) (hex_of_bytes w) (List.length rest)
       | FErr _ -> Printf.printf "alogin rderr %s\n" sid0
       | FPanic _ -> print_string "alogin panic\n"
       | FFuel -> print_string "alogin fuel\n")
  | ["acmd"; sid0; c2s] ->
      (match run_flat accept_cmd (bytes_of_hex c2s) with
       | FOk (((sid, c), ok), rest) ->
           Printf.printf "acmd %s %s %s %d\n" (okerr ok) (dec_of_z sid) (hex_of_bytes c) (List.length rest)
       | FErr _ -> Printf.printf "acmd rderr %s\n" sid0
       | FPanic _ -> print_string "acmd panic\n"
       | FFuel -> print_string "acmd fuel\n")
  | ["resp"; id; s2c] ->
      (match run_flat (resp_recv (z_of_dec id)) (bytes_of_hex s2c) with
       | FOk (p, rest) -> Printf.printf "resp ok %s %d\n" (hex_of_bytes p) (List.length rest)
       | FErr _ -> print_string "resp err\n"
       | FPanic _ -> print_string "resp panic\n"
       | FFuel -> print_string "resp fuel\n")
  | "sess" :: id :: sid0 :: toks ->
      let evs = List.map ev_of_tok toks in
      let r = run_session (z_of_dec id) evs { c2s = []; s2c = []; sid = z_of_dec sid0 } in
      Printf.printf "sess %s\n" (show_session true r)
  | "login" :: id :: pwc :: pws :: pairs ->
      let idz = z_of_dec id and pwc = bytes_of_hex pwc and pws = bytes_of_hex pws in
      let lo = login_run idz Z0 pwc pws in
      let w = (match run_flat (accept_login pws) (dial_send idz pwc) with
               | FOk (((_, w), _), _) -> hex_of_bytes w | _ -> "-") in
      let head = Printf.sprintf "login c=%s s=%s sid=%s w=%s" (okerr lo.lo_client) (okerr lo.lo_server)
                   (dec_of_z lo.lo_conn.sid) w in
      if lo.lo_client && lo.lo_server then begin
        let rec evs = function
          | c :: r :: t -> ECmd (bytes_of_hex c) :: EAccept :: EResp (bytes_of_hex r) :: ERecv :: evs t
          | _ -> [] in
        Printf.printf "%s | %s\n" head (show_session false (run_session idz (evs pairs) lo.lo_conn))
      end else Printf.printf "%s\n" head
  (* ---- extension (Model/C16_ext.v) *)
  | ["wrn"; id; ty; n; f] ->
      let pl = pat_bytes (int_of_string n) (int_of_string f) in
      let w = rcon_write (z_of_dec id) (z_of_dec ty) pl in
      let rec take k l = if k = 0 then [] else (match l with [] -> [] | x :: t -> x :: take (k - 1) t) in
      let rd = (match run_flat rcon_read w with FOk _ -> "ok" | FErr _ -> "err" | FPanic _ -> "panic" | FFuel -> "fuel") in
      Printf.printf "wrn %s len=%d decl=%s wr=ok rd=%s\n" (hex_of_bytes (take 12 w)) (List.length w)
        (dec_of_z (declared_len pl)) rd
  | ["mresp"; id; n; f] ->
      let idz = z_of_dec id in
      let resp = pat_bytes (int_of_string n) (int_of_string f) in
      let pieces = split_resp resp in
      let wire = resp_multi idz resp in
      let k = List.length pieces in
      (match run_flat (recv_n idz (nat_of_int k)) wire with
       | FOk (ps, rest) ->
           Printf.printf "mresp frames=%d wire=%d recv=ok n=%d left=%d ck=%d lens=%s\n" k (List.length wire) (List.length ps)
             (List.length rest) (cksum (List.concat ps)) (String.concat "," (List.map (fun p -> string_of_int (List.length p)) ps))
       | _ -> Printf.printf "mresp frames=%d wire=%d recv=err\n" k (List.length wire))
  | "incr" :: id0 :: sid0 :: pairs ->
      let rec ps = function
        | c :: r :: t -> (bytes_of_hex c, bytes_of_hex r) :: ps t
        | _ -> [] in
      let (obs, k) = incr_lockstep (z_of_dec id0) (ps pairs) { c2s = []; s2c = []; sid = z_of_dec sid0 } in
      Printf.printf "incr %s | sid=%s\n" (String.concat " " (List.map tok_of_obs obs)) (dec_of_z k.sid)
  | "multi" :: k :: rest ->
      let k = int_of_string k in
      let rec split i l acc = if i = 0 then (List.rev acc, l) else (match l with x :: t -> split (i - 1) t (x :: acc) | [] -> (List.rev acc, [])) in
      let (ids, toks) = split k rest [] in
      let ks = List.map (fun id -> let z = z_of_dec id in { m_id = z; m_conn = { c2s = []; s2c = []; sid = z }; m_alive = true }) ids in
      let ev_of t =
        let j = String.index t '/' in
        (nat_of_int (int_of_string (String.sub t 0 j)), ev_of_tok (String.sub t (j + 1) (String.length t - j - 1))) in
      let os = run_multi (List.map ev_of toks) ks in
      let rec int_of_nat = function O -> 0 | S n -> 1 + int_of_nat n in
      let buf = Buffer.create 64 in
      Buffer.add_string buf "multi";
      for i = 0 to k - 1 do
        let mine = List.filter (fun (j, _) -> int_of_nat j = i) os in
        Buffer.add_string buf (Printf.sprintf " %d=[%s]" i (String.concat " " (List.map (fun (_, o) -> tok_of_obs o) mine)))
      done;
      print_string (Buffer.contents buf ^ "\n")
  | _ -> Printf.printf "?? %s\n" line)
