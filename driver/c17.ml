(* C17 driver: one case per line on stdin, one result line on stdout, same format as the harness.

   Term syntax (no blanks inside a term; strings are hex, "-" = empty):
     msg   M(text,flags5,font,color,insertion,click,hover,translate,[arg,...],[msg,...])
     click _ | C(action,value)        hover _ | H(action,msg)        arg  msg | S(hex)
     json  N | T | F | I<int> | S(hex) | A[json,...] | O[hexkey=json,...]
     tag   n<id>:<raw> | a<id>[raw,...] | s(hex) | l<et>[tag,...] | c[hexkey=tag,...]          *)

exception Parse of string

let hexs (l : n list) = hex_of_bytes l

(* ---------- parser ---------- *)
type cur = { s : string; mutable i : int }
let peek c = if c.i < String.length c.s then c.s.[c.i] else '\000'
let adv c = c.i <- c.i + 1
let expect c ch = if peek c = ch then adv c else raise (Parse (Printf.sprintf "expected %c at %d in %s" ch c.i c.s))
let is_hex ch = (ch >= '0' && ch <= '9') || (ch >= 'a' && ch <= 'f')
let p_hex c : n list =
  if peek c = '-' then (adv c; []) else begin
    let st = c.i in
    while is_hex (peek c) do adv c done;
    bytes_of_hex (let h = String.sub c.s st (c.i - st) in if h = "" then "-" else h)
  end
let p_list c (openc : char) (closec : char) (item : cur -> 'a) : 'a list =
  expect c openc;
  if peek c = closec then (adv c; []) else begin
    let acc = ref [item c] in
    while peek c = ',' do adv c; acc := item c :: !acc done;
    expect c closec; List.rev !acc
  end

let rec p_msg c : msg =
  expect c 'M'; expect c '(';
  let text = p_hex c in expect c ',';
  let fl = String.sub c.s c.i 5 in c.i <- c.i + 5; expect c ',';
  let font = p_hex c in expect c ',';
  let color = p_hex c in expect c ',';
  let ins = p_hex c in expect c ',';
  let click = if peek c = '_' then (adv c; None) else begin
      expect c 'C'; expect c '('; let a = p_hex c in expect c ','; let v = p_hex c in expect c ')'; Some (a, v) end in
  expect c ',';
  let hover = if peek c = '_' then (adv c; None) else begin
      expect c 'H'; expect c '('; let a = p_hex c in expect c ','; let v = p_msg c in expect c ')'; Some (a, v) end in
  expect c ',';
  let tr = p_hex c in expect c ',';
  let args = p_list c '[' ']' p_arg in expect c ',';
  let extra = p_list c '[' ']' p_msg in
  expect c ')';
  let f k = fl.[k] = '1' in
  Msg (text, { s_bold = f 0; s_italic = f 1; s_underlined = f 2; s_strike = f 3; s_obf = f 4;
               s_font = font; s_color = color; s_insertion = ins; s_click = click }, hover, tr, args, extra)
and p_arg c : arg =
  if peek c = 'S' then begin expect c 'S'; expect c '('; let s = p_hex c in expect c ')'; AS s end
  else AM (p_msg c)

let p_int c : string =
  let st = c.i in
  if peek c = '-' then adv c;
  while peek c >= '0' && peek c <= '9' do adv c done;
  String.sub c.s st (c.i - st)

let rec p_json c : json =
  match peek c with
  | 'N' -> adv c; JNull
  | 'T' -> adv c; JBool true
  | 'F' -> adv c; JBool false
  | 'I' -> adv c; JNum (z_of_dec (p_int c))
  | 'S' -> adv c; expect c '('; let s = p_hex c in expect c ')'; JStr s
  | 'A' -> adv c; JArr (p_list c '[' ']' p_json)
  | 'O' -> adv c; JObj (p_list c '[' ']' (fun c -> let k = p_hex c in expect c '='; let v = p_json c in (k, v)))
  | ch -> raise (Parse (Printf.sprintf "json: unexpected %c at %d" ch c.i))

let parse (f : cur -> 'a) (s : string) : 'a =
  let c = { s; i = 0 } in
  let v = f c in
  if c.i <> String.length s then raise (Parse ("trailing input in " ^ s));
  v

(* ---------- printers ---------- *)
let rec show_msg (Msg (text, st, hover, tr, args, extra)) : string =
  let bit x = if x then "1" else "0" in
  Printf.sprintf "M(%s,%s%s%s%s%s,%s,%s,%s,%s,%s,%s,[%s],[%s])" (hexs text)
    (bit st.s_bold) (bit st.s_italic) (bit st.s_underlined) (bit st.s_strike) (bit st.s_obf)
    (hexs st.s_font) (hexs st.s_color) (hexs st.s_insertion)
    (match st.s_click with None -> "_" | Some (a, v) -> Printf.sprintf "C(%s,%s)" (hexs a) (hexs v))
    (match hover with None -> "_" | Some (a, v) -> Printf.sprintf "H(%s,%s)" (hexs a) (show_msg v))
    (hexs tr)
    (String.concat "," (List.map (function AM m -> show_msg m | AS s -> "S(" ^ hexs s ^ ")") args))
    (String.concat "," (List.map show_msg extra))

let rec show_json = function
  | JNull -> "N" | JBool true -> "T" | JBool false -> "F"
  | JNum z -> "I" ^ dec_of_z z
  | JStr s -> "S(" ^ hexs s ^ ")"
  | JArr l -> "A[" ^ String.concat "," (List.map show_json l) ^ "]"
  | JObj fs -> "O[" ^ String.concat "," (List.map (fun (k, v) -> hexs k ^ "=" ^ show_json v) fs) ^ "]"

let rec show_tag = function
  | TNum (id, raw) -> Printf.sprintf "n%s:%s" (dec_of_n id) (dec_of_n raw)
  | TArr (id, es) -> Printf.sprintf "a%s[%s]" (dec_of_n id) (String.concat "," (List.map dec_of_n es))
  | TStr s -> "s(" ^ hexs s ^ ")"
  | TList (et, items) -> Printf.sprintf "l%s[%s]" (dec_of_n et) (String.concat "," (List.map show_tag items))
  | TComp fs -> "c[" ^ String.concat "," (List.map (fun (k, v) -> hexs k ^ "=" ^ show_tag v) fs) ^ "]"

let show_rres = function ROk s -> hexs s | RCrash -> "panic" | RUnsup -> "unsup"

let table : (str * str) list ref = ref []

let show_read = function
  | Some (m, rest) -> Printf.sprintf "ok %s %d" (show_msg m) (List.length rest)
  | None -> "err"

let () = iter_lines (fun line ->
  try
    match split_ws line with
    | ["enc"; ms] ->
        let m = parse p_msg ms in
        (match wire_opt m with
         | None -> print_string "enc err\n"
         | Some w ->
           Printf.printf "enc %s %s %s | nbt %s | json %s\n" (hexs w) (hexs (wire_named m)) (show_json (to_json m))
             (show_read (msg_read w))
             (match of_json (to_json m) with Some x -> "ok " ^ show_msg x | None -> "err"))
    | ["decn"; h] ->
        let s = bytes_of_hex h in
        Printf.printf "decn %s | tree %s\n" (show_read (msg_read s))
          (match dec_net s with Some (t, rest) -> Printf.sprintf "%s %d" (show_tag t) (List.length rest) | None -> "err")
    | ["decj"; js] ->
        let j = parse p_json js in
        Printf.printf "decj %s\n" (match of_json j with Some x -> "ok " ^ show_msg x | None -> "err")
    | ["type"; id; sn; tgt] ->
        let idz = z_of_dec id in
        let sender = parse p_msg sn in
        let target = if tgt = "_" then None else Some (parse p_msg tgt) in
        (match type_write_opt idz sender target with
         | None -> print_string "type err\n"
         | Some w ->
           Printf.printf "type %s | %s\n" (hexs w)
             (match type_read w with
              | Some (((i, s), t), rest) ->
                  Printf.sprintf "ok %s %s %s %d" (dec_of_z i) (show_msg s)
                    (match t with None -> "_" | Some x -> show_msg x) (List.length rest)
              | None -> "err"))
    | ["typed"; h] ->
        Printf.printf "typed %s\n"
          (match type_read (bytes_of_hex h) with
           | Some (((i, s), t), rest) ->
               Printf.sprintf "ok %s %s %s %d" (dec_of_z i) (show_msg s)
                 (match t with None -> "_" | Some x -> show_msg x) (List.length rest)
           | None -> "err")
    | "table" :: kvs ->
        table := List.map (fun kv ->
          match String.split_on_char '=' kv with
          | [k; v] -> (bytes_of_hex k, bytes_of_hex v)
          | _ -> raise (Parse kv)) kvs;
        Printf.printf "table %d\n" (List.length !table)
    | ["render"; ms] ->
        let m = parse p_msg ms in
        Printf.printf "render %s %s\n" (show_rres (clear_string !table m)) (show_rres (ansi_string !table m))
    | ["strip"; h] ->
        let s = bytes_of_hex h in
        let (a, ch) = trans_ctrl true s in
        Printf.printf "strip %s %s %b\n" (hexs (strip s)) (hexs a) ch
    | ["tables"] ->
        Printf.printf "tables %s | %s\n"
          (String.concat "," (List.map (fun (c, v) -> dec_of_n c ^ "=" ^ hexs v) fmt_code))
          (String.concat "," (List.map (fun (k, v) -> hexs k ^ "=" ^ hexs v) colors))
    | ["hoverj"; ah; cs; ms] ->
        (* phase 5: HoverEvent with non-nil Contents, JSON form (Model/C17_hover.v) *)
        let a = bytes_of_hex ah in
        let c = dec_any (parse p_json cs) in
        let v = parse p_msg ms in
        let j = hover_to_json a c v in
        Printf.printf "hoverj %s | %s\n" (show_json j)
          (match hover_of_json j with
           | Some ((a', c'), v') -> Printf.sprintf "ok %s %s %s" (hexs a') (show_json (enc_any c')) (show_msg v')
           | None -> "err")
    | _ -> Printf.printf "?? %s\n" line
  with Parse e -> Printf.printf "parse-error %s\n" e)
