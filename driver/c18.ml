(* C18 driver: one case per line on stdin, one result line on stdout, same format as the harness.
   Oracles: MD5 = OCaml's Digest; SHA-1, SHA-256, base64 text and the RSA verdict are supplied per case
   by the harness (computed with the Go standard library outside the code under test) and are only
   handed out for the argument the harness computed them for. *)
let string_of_bytes (m : n list) : string =
  let b = Buffer.create 64 in
  List.iter (fun x -> Buffer.add_char b (Char.chr (int_of_n x land 255))) m;
  Buffer.contents b

let md5 (m : n list) : n list =
  let d = Digest.string (string_of_bytes m) in
  List.init 16 (fun i -> n_of_int (Char.code d.[i]))

let text_of (l : n list) : string = "=" ^ string_of_bytes l

let show_res f = function Ok a -> f a | Panic -> "panic" | OutOfFuel -> "fuel"

let chunks_of (s : string) : n list list =
  if s = "." then [] else List.map bytes_of_hex (String.split_on_char ',' s)

(* the Write calls of Go's base64 stream encoder for one Write(key) + Close(): 1024-character pieces of
   the complete groups, then the padded last group on Close *)
let b64_chunks (keylen : int) (text : n list) : n list list =
  let arr = Array.of_list text in
  let total = Array.length arr in
  let interior = keylen / 3 * 4 in
  let interior = if interior > total then total else interior in
  let sub a b = Array.to_list (Array.sub arr a (b - a)) in
  let rec go pos acc =
    if pos >= interior then List.rev acc
    else let e = if pos + 1024 > interior then interior else pos + 1024 in go e (sub pos e :: acc) in
  let cs = go 0 [] in
  if total > interior then cs @ [sub interior total] else cs

(* phase 4: the same Write calls split into what enc.Write issues and what enc.Close issues *)
let b64_parts (keylen : int) (text : n list) : n list list * n list list =
  let all = b64_chunks keylen text in
  let total = List.length text in
  let interior = let i = keylen / 3 * 4 in if i > total then total else i in
  if total > interior then
    let rec split acc = function [x] -> (List.rev acc, [x]) | x :: t -> split (x :: acc) t | [] -> (List.rev acc, []) in
    split [] all
  else (all, [])

let rec nat_of_small (i : int) : nat = if i <= 0 then O else S (nat_of_small (i - 1))

let b01 b = if b then "1" else "0"

let () = iter_lines (fun line ->
  match split_ws line with
  | ["uuid"; name] ->
      let nm = bytes_of_hex name in
      Printf.printf "uuid %s %s\n" (hex_of_bytes (name_to_uuid md5 nm))
        (hex_of_bytes (java_name_uuid md5 (offline_prefix @ nm)))
  | ["dig"; who; sid; secret; key; h] ->
      let sid = bytes_of_hex sid and secret = bytes_of_hex secret and key = bytes_of_hex key in
      let hb = bytes_of_hex h in
      let sha1 m = if m = sid @ secret @ key then hb else [] in
      let r = if who = "bot" then bot_auth_digest sha1 sid secret key else server_auth_digest sha1 sid secret key in
      Printf.printf "dig %s %s %s\n" who (show_res text_of r) (text_of (java_hex (signed_be hb)))
  | ["twos"; who; h] ->
      Printf.printf "twos %s %s\n" who (hex_of_bytes (twos (bytes_of_hex h)))
  | ["lb"; cs] ->
      let chunks = chunks_of cs in
      let r = show_res (fun (out, ns) ->
        hex_of_bytes out ^ " " ^ (if ns = [] then "." else String.concat "," (List.map dec_of_n ns))) (lb_run chunks) in
      Printf.printf "lb %s %s\n" r (hex_of_bytes (pem_lines (List.concat chunks)))
  | ["const"; "pemLineLength"] ->
      Printf.printf "const pemLineLength %s\n" (dec_of_n pem_line_length)
  | ["vs"; fp; key; sg; b64; h; verdict] ->
      let key = bytes_of_hex key and sg = bytes_of_hex sg and b64 = bytes_of_hex b64 and h = bytes_of_hex h in
      let fp = bytes_of_hex fp in
      let payload = ref [] in
      let b64w k = if k = key then b64_chunks (List.length key) b64 else [] in
      let sha256 m = payload := m; h in
      let rsa k hh s = k = fp && hh = h && s = sg && verdict = "1" in
      let r = verify_signature b64w sha256 rsa fp key sg in
      Printf.printf "vs %s %s\n" (show_res b01 r) (hex_of_bytes !payload)
  | ["pkv"; fp; now; expires; der; sg; b64; h; verdict] ->
      let sg = bytes_of_hex sg and b64 = bytes_of_hex b64 and h = bytes_of_hex h in
      let fp = bytes_of_hex fp in
      let marshal () = if der = "none" then None else Some (bytes_of_hex der) in
      let b64w k = if Some k = marshal () then b64_chunks (List.length k) b64 else [] in
      let sha256 _ = h in
      let rsa k hh s = k = fp && hh = h && s = sg && verdict = "1" in
      let r = pk_verify b64w sha256 rsa fp marshal (z_of_dec now) (z_of_dec expires) () sg in
      Printf.printf "pkv %s\n" (show_res b01 r)
  (* ---- phase 4: the functions TRANSLATED from the Go source (Gen/C18gen.v) on the same cases ---- *)
  | ["tuuid"; name] ->
      Printf.printf "tuuid %s\n" (show_res hex_of_bytes (offline_NameToUUID md5 (bytes_of_hex name)))
  | ["tdig"; who; sid; secret; key; h] ->
      let sid = bytes_of_hex sid and secret = bytes_of_hex secret and key = bytes_of_hex key in
      let hb = bytes_of_hex h in
      let sha1 m = if m = sid @ secret @ key then hb else [] in
      let r = if who = "bot" then bot_authDigest sha1 sid secret key else auth_authDigest sha1 sid secret key in
      Printf.printf "tdig %s %s\n" who (show_res text_of r)
  | ["tlb"; cs] ->
      (* every Write call through the translated method (fuel len+1), then the translated Close *)
      let chunks = chunks_of cs in
      let ns_str ns = if ns = [] then "." else String.concat "," (List.map dec_of_z ns) in
      let rec go line used out ns = function
        | [] ->
            (match user_lineBreaker_Close hash_writer line used out with
             | Ok (((_, _), out'), err) -> if err then "err" else hex_of_bytes out' ^ " " ^ ns_str (List.rev ns)
             | Panic -> "panic" | OutOfFuel -> "fuel")
        | c :: rest ->
            (match user_lineBreaker_Write hash_writer (nat_of_small (List.length c + 1)) line used out c with
             | Ok (((line', used'), out'), (n, err)) -> if err then "err" else go line' used' out' (n :: ns) rest
             | Panic -> "panic" | OutOfFuel -> "fuel") in
      Printf.printf "tlb %s\n" (go (List.init 76 (fun _ -> n_of_int 0)) (z_of_int 0) [] [] chunks)
  | ["tvs"; fp; key; sg; b64; h; verdict] ->
      let key = bytes_of_hex key and sg = bytes_of_hex sg and b64 = bytes_of_hex b64 and h = bytes_of_hex h in
      let fp = bytes_of_hex fp in
      let payload = ref [] in
      let (inner, last) = b64_parts (List.length key) b64 in
      let b64w data k = if data = [] && k = key then inner else [] in
      let b64c data = if data = key then last else [] in
      let sha256 m = payload := m; h in
      let rsa k hh s = k = fp && hh = h && s = sg && verdict = "1" in
      let r = user_VerifySignature b64w b64c rsa fp sha256 key sg in
      Printf.printf "tvs %s %s\n" (show_res b01 r) (hex_of_bytes !payload)
  | ["tpkv"; fp; now; expires; der; sg; b64; h; verdict] ->
      let sg = bytes_of_hex sg and b64 = bytes_of_hex b64 and h = bytes_of_hex h in
      let fp = bytes_of_hex fp in
      let marshal () = if der = "none" then None else Some (bytes_of_hex der) in
      let parts k = b64_parts (List.length k) b64 in
      let b64w data k = if data = [] && Some k = marshal () then fst (parts k) else [] in
      let b64c data = if Some data = marshal () then snd (parts data) else [] in
      let sha256 _ = h in
      let rsa k hh s = k = fp && hh = h && s = sg && verdict = "1" in
      let r = user_PublicKey_Verify (z_of_dec now) marshal b64w b64c rsa fp sha256 (z_of_dec expires) () sg in
      Printf.printf "tpkv %s\n" (show_res b01 r)
  | ["encr"; pkt; lk; id; data; kb; et; dtok; dkey; token] ->
      (* server/auth encryptionResponse: hand model, translated function, and the AES key-length gate of Encrypt *)
      let opt s = if s = "none" then None else Some (bytes_of_hex s) in
      let data = bytes_of_hex data and token = bytes_of_hex token in
      let rp = if pkt = "none" then None else Some (z_of_dec id, data) in
      let scan d = match opt kb, opt et with Some a, Some b when d = data -> Some (a, b) | _ -> None in
      let decrypt c = if Some c = opt et then opt dtok else if Some c = opt kb then opt dkey else None in
      let lk = z_of_dec lk in
      let m = match enc_response rp lk scan decrypt token with Some s -> "ok:" ^ hex_of_bytes s | None -> "err" in
      let t = match auth_encryptionResponse rp lk scan decrypt token with
        | Ok (s, false) -> "ok:" ^ hex_of_bytes s | Ok (_, true) -> "err" | Panic -> "panic" | OutOfFuel -> "fuel" in
      let g = match encrypt_secret rp lk scan decrypt token with Some s -> "key:" ^ hex_of_bytes s | None -> "nokey" in
      Printf.printf "encr %s %s %s\n" m t g
  | ["aes"; len] ->
      Printf.printf "aes %s %s\n" len (b01 (aes_key_ok (List.init (int_of_string len) (fun _ -> n_of_int 0))))
  (* ---- phase 5: the offline handshake: translated handleEncryptionRequest and Encrypt on what crossed the wire ---- *)
  | ["hs"; hid; lid; name; pub; token; key; c1; c2; h] ->
      let name = bytes_of_hex name and pub = bytes_of_hex pub and token = bytes_of_hex token and key = bytes_of_hex key in
      let c1 = bytes_of_hex c1 and c2 = bytes_of_hex c2 and hb = bytes_of_hex h in
      let hid = z_of_dec hid and lid = z_of_dec lid in
      let sha1 _ = hb in
      let show_stream = function
        | SEnc (k, iv) -> "E" ^ hex_of_bytes k ^ "/" ^ hex_of_bytes iv
        | SDec (k, iv) -> "D" ^ hex_of_bytes k ^ "/" ^ hex_of_bytes iv
        | SNil -> "nil" in
      let show_field = function FString s -> "s" ^ hex_of_bytes s | FByteArray b -> "b" ^ hex_of_bytes b in
      let show_ev = function
        | EWrite (id, PFields fs) -> "W" ^ dec_of_z id ^ ":" ^ String.concat "," (List.map show_field fs)
        | EWrite (id, PRaw _) -> "W" ^ dec_of_z id ^ ":raw"
        | EReadResponse -> "R"
        | ESetCipher (a, b) -> "C" ^ show_stream a ^ "+" ^ show_stream b
        | EAuth (n, d) -> "A" ^ hex_of_bytes n ^ ":" ^ text_of d
        | EJoin d -> "J" ^ text_of d in
      let show tr = String.concat " " (List.map show_ev tr) in
      let rsa_enc i _ m = if i = z_of_int 0 && m = key then Some c1 else if i = z_of_int 1 && m = token then Some c2 else None in
      let decrypt c = if c = c1 then Some key else if c = c2 then Some token else None in
      let b = match bot_handleEncryptionRequest (fun _ -> Some key) (fun _ -> Some (([], pub), token)) sha1 (fun _ -> false)
                      (fun _ -> Some ()) (fun _ -> true) rsa_enc lid (fun _ -> false) [] (hid, PRaw []) with
        | Ok (tr, e) -> show tr ^ " " ^ b01 e | Panic -> "panic" | OutOfFuel -> "fuel" in
      let s = match auth_Encrypt (Some pub) (fun _ -> Some token) (fun _ -> false) hid (Some (lid, [])) lid
                      (fun _ -> Some (c1, c2)) decrypt sha1 (fun _ _ -> Some ()) [] name with
        | Ok (tr, (_, e)) -> show tr ^ " " ^ b01 e | Panic -> "panic" | OutOfFuel -> "fuel" in
      Printf.printf "hs bot %s srv %s\n" b s
  | _ -> Printf.printf "?? %s\n" line)
