(* C19 driver: one case per line on stdin, one result line on stdout, same format as the harness *)
let rec nat_of_int i = if i <= 0 then O else S (nat_of_int (i - 1))
let kv tok =
  match String.index_opt tok '=' with
  | Some i -> (String.sub tok 0 i, String.sub tok (i + 1) (String.length tok - i - 1))
  | None -> (tok, "")
let get kvs k = try List.assoc k kvs with Not_found -> failwith ("missing " ^ k)
let split c s = if s = "-" || s = "" then [] else String.split_on_char c s
let sched_of s = List.init (String.length s) (fun i -> s.[i] = 'b')
let show_frame f =
  let pl = enc_fields f.f_fields in
  Printf.sprintf "%s:%s:%s" (dec_of_n (layout f.f_thr (n_of_int (List.length pl)))) (dec_of_z f.f_id) (hex_of_bytes pl)
let show_frames fs = if fs = [] then "-" else String.concat "," (List.map show_frame fs)
let stage_name n = match int_of_n n with 2 -> "discscan" | 7 -> "registry" | 11 -> "login" | 12 -> "config" | _ -> "other"
let show_bot b =
  match b.b_ph with
  | BJoined -> "joined"
  | BStatusDone j -> "done:" ^ hex_of_bytes j
  | BFailed st -> "fail:" ^ stage_name st
  | BDisconnected (st, r) -> "disc:" ^ stage_name st ^ ":" ^ hex_of_bytes r
  | BUnmodelled -> "unmodelled"
  | _ -> "stuck"
let show_srv s =
  match s.s_ph with
  | SJoined -> "joined"
  | SClosed _ -> "closed"
  | SStatus O -> "closed"
  | _ -> "stuck"
let play_wire thr toks =
  if toks = [] then "-" else
  String.concat "," (List.map (fun t ->
    match String.split_on_char ':' t with
    | [id; len] -> Printf.sprintf "%s:%s:%s" (dec_of_n (layout thr (n_of_dec len))) id len
    | _ -> failwith "bad play token") toks)

(* regs=<hex id>/<hex key>:<hex nbt>+<hex key>:<hex nbt>...,... : the registries of the stock configuration
   handler in struct order; the model renders each registry with reg_write *)
let reg_entries_of_kvs kvs =
  List.map (fun t -> match String.split_on_char '/' t with
                     | [i; es] ->
                         let ents = List.map (fun e -> match String.split_on_char ':' e with
                                                       | [k; v] -> (bytes_of_hex k, bytes_of_hex v)
                                                       | _ -> failwith "bad registry entry") (split '+' es) in
                         (bytes_of_hex i, ents)
                     | _ -> failwith "bad regs token")
    (split ',' (try List.assoc "regs" kvs with Not_found -> "-"))
let regs_of_kvs kvs = List.map (fun (i, ents) -> (i, reg_write ents)) (reg_entries_of_kvs kvs)
(* the bot's registries in the token format of the case line, as a digest *)
let show_bregs regs =
  let tok = if regs = [] then "-" else
    String.concat "," (List.map (fun (rid, es) ->
      hex_of_bytes rid ^ "/" ^ (if es = [] then "-" else
        String.concat "+" (List.map (fun (k, v) -> hex_of_bytes k ^ ":" ^ hex_of_bytes v) es))) regs) in
  Digest.to_hex (Digest.string tok)
let bcfg_of kvs =
  (* the bot has the same registries (struct tags) as the server; reading a registry packet written from
     the entries of the case line yields those entries *)
  let ents = reg_entries_of_kvs kvs in
  { bc_name = bytes_of_hex (get kvs "name"); bc_claim = bytes_of_hex (get kvs "claim");
    bc_host = bytes_of_hex (get kvs "host"); bc_port = n_of_dec (get kvs "port");
    bc_plugin = (fun _ _ -> None); bc_cookie = (fun _ -> None);
    bc_registry = (fun rid content -> match List.assoc_opt rid ents with
                                      | Some es -> if content = reg_write es then Some (Some es) else Some None
                                      | None -> None);
    bc_time = z_of_dec (try List.assoc "time" kvs with Not_found -> "0") }
let scfg_of kvs =
  let chk = get kvs "chk" in
  let checker =
    if chk = "none" then None
    else if chk = "ok" then Some (fun _ _ _ -> None)
    else (* refuse:<hex json>/<hex nbt> *)
      let r = String.sub chk 7 (String.length chk - 7) in
      Some (fun _ _ _ -> Some (bytes_of_hex r)) in
  let status = (try List.assoc "json" kvs with Not_found -> "none") in
  { sc_threshold = z_of_dec (get kvs "thr"); sc_checker = checker;
    sc_cfg = (if (try List.assoc "cfg" kvs with Not_found -> "finish") = "stock" then CfgStock else CfgFinishOnly);
    sc_registries = regs_of_kvs kvs;
    sc_status = (fun _ -> if status = "none" then None else Some (bytes_of_hex status)) }

let finish offl bc sc x0 sched =
  let x1 = grun_sched offl bc sc sched x0 in
  let x2 = grun_greedy offl bc sc (nat_of_int 200) x1 in
  (x2, gterminalb offl bc sc x2)

let parse_handler t =
  match String.split_on_char '.' t with
  | [id; prio; tag] -> { h_id = z_of_dec id; h_prio = z_of_dec prio; h_tag = n_of_dec tag }
  | _ -> failwith ("bad handler " ^ t)
let parse_reg t =
  let body = String.sub t 2 (String.length t - 2) in
  let hs = List.map parse_handler (split ',' body) in
  if t.[0] = 'L' then RListener hs else RGeneric hs

let () = iter_lines (fun line ->
  match split_ws line with
  | ["const"; i] ->
      let v = (try dec_of_z (List.assoc (n_of_dec i) id_table) with Not_found -> "?") in
      Printf.printf "const %s %s\n" i v
  | "join" :: toks ->
      let kvs = List.map kv toks in
      let bc = bcfg_of kvs and sc = scfg_of kvs in
      let u = bytes_of_hex (get kvs "uuid") in
      let offl = (fun _ -> u) in
      let (x, term) = finish offl bc sc (join_init bc) (sched_of (get kvs "sched")) in
      let b = x.x_b and s = x.x_s in
      let flag = (if term then "" else "!nonterminal") ^ (if seen_ok x.x_bseen && seen_ok x.x_sseen then "" else "!threshold-mismatch") in
      Printf.printf "join %s%s %s bname=%s buuid=%s sname=%s suuid=%s sproto=%s bregs=%s c2s=%s s2c=%s pc=%s ps=%s\n"
        (show_bot b) flag (show_srv s)
        (hex_of_bytes b.b_name) (hex_of_bytes b.b_uuid) (hex_of_bytes s.s_name) (hex_of_bytes s.s_uuid)
        (dec_of_z s.s_proto) (show_bregs (match b.b_ph with BJoined -> b.b_regs | _ -> []))
        (show_frames x.x_c2s_hist) (show_frames x.x_s2c_hist)
        (play_wire b.b_thr (split ',' (get kvs "pc"))) (play_wire s.s_thr (split ',' (get kvs "ps")))
  | "cut" :: toks ->
      (* one machine against the recorded peer that stops after nf frames *)
      let kvs = List.map kv toks in
      let bc = bcfg_of kvs and sc = scfg_of kvs in
      let u = bytes_of_hex (get kvs "uuid") in
      let offl = (fun _ -> u) in
      let (x, _) = finish offl bc sc (join_init bc) [] in
      let nf = int_of_string (get kvs "nf") in
      if get kvs "side" = "bot" then begin
        let b = cut_outcome_bot bc (nat_of_int nf) x.x_s2c_hist in
        let out = (match b.b_ph with
                   | BJoined -> "joined"
                   | BFailed st -> (match int_of_n st with 13 -> "fail:login-read" | 14 -> "fail:config-read" | _ -> "fail:other")
                   | _ -> "stuck") in
        Printf.printf "cut bot %s\n" out
      end else begin
        let s = cut_outcome_srv offl sc (nat_of_int nf) x.x_c2s_hist in
        Printf.printf "cut srv %s\n" (show_srv s)
      end
  | "ping" :: toks ->
      let kvs = List.map kv toks in
      let bc = bcfg_of kvs and sc = scfg_of kvs in
      let offl = (fun _ -> []) in
      let (x, term) = finish offl bc sc (ping_init bc) (sched_of (get kvs "sched")) in
      let flag = (if term then "" else "!nonterminal") ^ (if seen_ok x.x_bseen && seen_ok x.x_sseen then "" else "!threshold-mismatch") in
      Printf.printf "ping %s%s %s sproto=%s c2s=%s s2c=%s\n"
        (show_bot x.x_b) flag (show_srv x.x_s)
        (dec_of_z x.x_s.s_proto) (show_frames x.x_c2s_hist) (show_frames x.x_s2c_hist)
  | "disp" :: toks ->
      let kvs = List.map kv toks in
      let regs = List.map parse_reg (split ';' (get kvs "regs")) in
      let pkts = List.mapi (fun i id -> { p_id = z_of_dec id; p_uid = n_of_int i }) (split ',' (get kvs "pkts")) in
      let fl = List.map (fun t -> match String.split_on_char '.' t with
                                  | [tag; uid] -> (int_of_string tag, int_of_string uid)
                                  | _ -> failwith "bad fail") (split ',' (get kvs "fail")) in
      let fails tag uid = List.mem (int_of_n tag, int_of_n uid) fl in
      (match register events_init regs with
       | None -> print_string "disp regpanic calls=-\n"
       | Some e ->
           let (calls, o) = handle_game fails e pkts in
           let os = (match o with
                     | OEnd -> "end" | OHandler (id, tag) -> Printf.sprintf "herr:%s:%s" (dec_of_z id) (dec_of_n tag)
                     | OBundleLimit -> "limit" | OPanic -> "panic") in
           let b = Buffer.create 256 in
           List.iteri (fun i (tag, uid) ->
             if i > 0 then Buffer.add_char b ',';
             Buffer.add_string b (dec_of_n tag); Buffer.add_char b '.'; Buffer.add_string b (dec_of_n uid)) calls;
           Printf.printf "disp %s calls=%s\n" os (if calls = [] then "-" else Buffer.contents b))
  | _ -> Printf.printf "?? %s\n" line)
