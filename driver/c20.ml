(* C20 driver.  Case lines (one per line on stdin), result = the case line followed by " = ..." :
     sched <ll|ch> <cap> <nthreads> <tid>:<push:v|pull|close> ...
         phased schedule: each phase starts one call on one logical thread and lets the machine run until
         nobody can move (FIFO wake-up order, as the Go runtime's notify list / channel recvq do);
         results per phase after the last phase: ok full got:v closed done panic blocked busy
     explore <ll|ch> <cap> <producers> <consumers> <closers>
         exhaustive exploration (all interleavings, all Signal choices) of the machine running the
         REGENERATED programs; "ok" when no bad state is reachable, else "BAD <kind> <schedule>"
     plist <max> <j<c>|l<c>|c|n> ...      sequential run of the translated player-list sections
     disc                                  discipline of the pooled-object event sequences *)

let rec nat_of_int i = if i <= 0 then O else S (nat_of_int (i - 1))
let rec int_of_nat = function O -> 0 | S n -> 1 + int_of_nat n

let progs_of = function "ll" -> ll_progs | "ch" -> ch_progs | k -> failwith ("unknown queue kind " ^ k)

let show_res = function
  | RPush true -> "ok" | RPush false -> "full"
  | RPull (Some v, true) -> "got:" ^ dec_of_n v
  | RPull (None, false) -> "closed"
  | RPull (Some v, false) -> "odd:" ^ dec_of_n v ^ ":false"
  | RPull (None, true) -> "odd:zero:true"
  | RClose -> "done"

(* ------------------------------------------------------------------ phased schedules *)
let nth_thr s i = List.nth s.thr i
let set_thr s i t = { s with thr = List.mapi (fun j x -> if j = i then t else x) s.thr }
let idle t = t.st = Run && t.cur = None && t.cont = [] && t.script = []

let run_sched kind cap n phases =
  let p = progs_of kind in
  let s = ref (init (nat_of_int cap) (List.init n (fun _ -> []))) in
  let waitorder = ref [] in
  let quiesce () =
    let moved = ref true in
    while !moved do
      moved := false;
      (* FIFO choice: the longest-parked thread *)
      waitorder := List.filter (fun j -> (nth_thr !s j).st = Waiting) !waitorder;
      let c = match !waitorder with j :: _ -> j | [] -> 0 in
      (try
        for i = 0 to n - 1 do
          match exec p (nat_of_int i) (nat_of_int c) !s with
          | Some s' ->
              s := s'; moved := true;
              List.iteri (fun j t -> if t.st = Waiting && not (List.mem j !waitorder) then waitorder := !waitorder @ [j]) s'.thr;
              raise Exit
          | None -> ()
        done
      with Exit -> ())
    done in
  (* per phase: (tid, index into out of that thread) or busy *)
  let started = Array.make n 0 in
  let slots = List.map (fun (tid, o) ->
    let t = nth_thr !s tid in
    if idle t then begin
      s := set_thr !s tid { t with script = [o] };
      let k = started.(tid) in
      started.(tid) <- k + 1;
      quiesce ();
      Some (tid, k)
    end else None) phases in
  List.map (function
    | None -> "busy"
    | Some (tid, k) ->
        let t = nth_thr !s tid in
        (match List.nth_opt t.out k with
         | Some r -> show_res r
         | None -> if t.st = Panicked then "panic" else "blocked")) slots

let parse_phase w =
  match String.split_on_char ':' w with
  | [t; "push"; v] -> (int_of_string t, OPush (n_of_dec v))
  | [t; "pull"] -> (int_of_string t, OPull)
  | [t; "close"] -> (int_of_string t, OClose)
  | _ -> failwith ("bad phase " ^ w)

(* ------------------------------------------------------------------ exhaustive exploration *)
let key (s : state) : string = Marshal.to_string s [Marshal.No_sharing]

let explore_scripts np nc ncl =
  (* producer k pushes 10k+1 (and 10k+2 for k = 0); every consumer pulls twice; every closer closes once *)
  List.init np (fun k -> if k = 0 then [OPush (n_of_int 1); OPush (n_of_int 2)] else [OPush (n_of_int (10 * k + 1))])
  @ List.init nc (fun _ -> [OPull; OPull])
  @ List.init ncl (fun _ -> [OClose])

let explore kind cap np nc ncl limit =
  let p = progs_of kind in
  let s0 = init (nat_of_int cap) (explore_scripts np nc ncl) in
  let n = List.length s0.thr in
  let seen : (string, (string * string) option) Hashtbl.t = Hashtbl.create 100000 in
  let queue = Queue.create () in
  Hashtbl.add seen (key s0) None;
  Queue.add s0 queue;
  let bad = ref None in
  let count = ref 0 in
  let trace s =
    let rec go k acc = match Hashtbl.find seen k with
      | None -> acc
      | Some (pk, lbl) -> go pk (lbl :: acc) in
    String.concat "," (go (key s) []) in
  let describe s =
    String.concat ";" (List.mapi (fun i t ->
      Printf.sprintf "t%d=%s%s" i
        (match t.st with Run -> "run" | Waiting -> "parked" | Woken -> "woken" | Panicked -> "panicked")
        (if finished t then "(finished)" else match t.cur with
           | Some (OPush _) -> "(in-push)" | Some OPull -> "(in-pull)" | Some OClose -> "(in-close)" | None -> "(idle)")) s.thr)
    ^ Printf.sprintf ";queue=%d;closed=%b;mutex=%s" (List.length s.q) s.closed
        (match s.owner with None -> "free" | Some j -> "t" ^ string_of_int (int_of_nat j)) in
  (try
    while not (Queue.is_empty queue) do
      let s = Queue.pop queue in
      incr count;
      if !count > limit then begin bad := Some ("limit", "state-limit-exceeded", ""); raise Exit end;
      let fail kind = bad := Some (kind, trace s, describe s); raise Exit in
      if not (flags_ok s) then fail (if s.race then "unprotected-access" else "fatal-error");
      if not (fifo_ok s) then fail "fifo";
      if not (results_ok s) then fail "result";
      let succs = ref [] in
      for i = 0 to n - 1 do
        let ks = ref [] in
        for c = 0 to n - 1 do
          match exec p (nat_of_int i) (nat_of_int c) s with
          | Some s' ->
              let k = key s' in
              if not (List.mem k !ks) then begin
                ks := k :: !ks;
                succs := (s', k, (if !ks = [k] && c = 0 then Printf.sprintf "t%d" i else Printf.sprintf "t%d.wake%d" i c)) :: !succs
              end
          | None -> ()
        done
      done;
      if !succs = [] then begin
        if not (rest_ok s) then fail "deadlock";
        let a = List.sort compare (List.map dec_of_n (gots s)) and b = List.sort compare (List.map dec_of_n s.delivered) in
        if a <> b then fail "lost-or-duplicated"
      end;
      let pk = key s in
      List.iter (fun (s', k, lbl) ->
        if not (Hashtbl.mem seen k) then begin
          Hashtbl.add seen k (Some (pk, lbl));
          Queue.add s' queue
        end) (List.rev !succs)
    done
  with Exit -> ());
  (!bad, !count)

(* ------------------------------------------------------------------ player list *)
let parse_pop w =
  match w.[0] with
  | 'j' -> PJoin (n_of_dec (String.sub w 1 (String.length w - 1)))
  | 'l' -> PLeft (n_of_dec (String.sub w 1 (String.length w - 1)))
  | 'c' -> PCheck
  | 'n' -> PLen
  | _ -> failwith ("bad player-list op " ^ w)
let show_pres = function
  | PRDone false -> "-" | PRDone true -> "D"
  | PRBool true -> "T" | PRBool false -> "F"
  | PRLen k -> string_of_int (int_of_nat k)
  | PRNotAtomic -> "NOTATOMIC"

let () = iter_lines (fun line ->
  match split_ws line with
  | "sched" :: kind :: cap :: n :: phases ->
      let rs = run_sched kind (int_of_string cap) (int_of_string n) (List.map parse_phase phases) in
      Printf.printf "%s = %s\n" line (String.concat " " rs)
  | ["explore"; kind; cap; np; nc; ncl] ->
      (match explore kind (int_of_string cap) (int_of_string np) (int_of_string nc) (int_of_string ncl) 3000000 with
       | (None, cnt) ->
           prerr_endline (Printf.sprintf "explore %s: %d states" line cnt);
           Printf.printf "%s = ok\n" line
       | (Some (k, tr, d), _) -> Printf.printf "%s = BAD %s at [%s] after schedule %s\n" line k d tr)
  | "plist" :: mx :: ops ->
      let (p, rs) = prun pl_progs (List.map parse_pop ops) { pmax = z_of_dec mx; players = [] } in
      Printf.printf "%s = %s | %s\n" line (String.concat " " (List.map show_pres rs))
        (String.concat "," (List.map string_of_int (List.sort compare (List.map int_of_n p.players))))
  | "ka" :: evs ->
      let ev w = match w.[0] with
        | 'j' -> KJoin (n_of_dec (String.sub w 1 (String.length w - 1)))
        | 'l' -> KLeft (n_of_dec (String.sub w 1 (String.length w - 1)))
        | 't' -> KTick (n_of_dec (String.sub w 1 (String.length w - 1)))
        | 'p' -> KPing | 'k' -> KKick
        | _ -> failwith ("bad keep-alive event " ^ w) in
      let s = krun (List.map ev evs) in
      let cl l = match l with [] -> "-" | _ -> String.concat "," (List.map (fun (_, c) -> dec_of_n c) l) in
      let ns l = match l with [] -> "-" | _ -> String.concat "," (List.map dec_of_n l) in
      let sent = match s.ksent with [] -> "-" | l -> String.concat "," (List.map (fun (c, i) -> dec_of_n c ^ ":" ^ dec_of_n i) l) in
      Printf.printf "%s = index:%d ping:%s wait:%s kicked:%s panics:%d sent:%s\n" line (List.length s.kindex) (cl s.kping) (cl s.kwait)
        (ns s.kkicked) (int_of_nat s.kpanics) sent
  | ["disc"] ->
      let bad = List.filter (fun l -> not (disciplined [] l)) packet_seqs in
      Printf.printf "disc = %s\n" (if packet_seqs <> [] && bad = [] then "ok" else Printf.sprintf "BAD %d of %d" (List.length bad) (List.length packet_seqs))
  | _ -> Printf.printf "?? %s\n" line)
