(* conversions between OCaml strings/ints and the extracted positive / N / Z (shared, prepended
   after `open <Model>`); 64-bit and larger quantities travel as decimal strings *)
let rec pos_of_int (i : int) : positive =
  if i = 1 then XH else if i land 1 = 0 then XO (pos_of_int (i lsr 1)) else XI (pos_of_int (i lsr 1))
let n_of_int (i : int) : n = if i = 0 then N0 else Npos (pos_of_int i)
let z_of_int (i : int) : z = if i = 0 then Z0 else if i > 0 then Zpos (pos_of_int i) else Zneg (pos_of_int (-i))
let rec int_of_pos = function XH -> 1 | XO p -> 2 * int_of_pos p | XI p -> 2 * int_of_pos p + 1
let int_of_n = function N0 -> 0 | Npos p -> int_of_pos p
let int_of_z = function Z0 -> 0 | Zpos p -> int_of_pos p | Zneg p -> - (int_of_pos p)

(* arbitrary precision via decimal strings: little-endian digit arrays base 10 *)
let pos_of_dec (s : string) : positive option =
  (* repeated division by 2 of a decimal string *)
  let digits = Array.init (String.length s) (fun i -> Char.code s.[i] - 48) in
  let is_zero d = Array.for_all (fun x -> x = 0) d in
  let div2 d = let r = ref 0 in
    Array.iteri (fun i x -> let v = !r * 10 + x in d.(i) <- v / 2; r := v mod 2) d; !r in
  if is_zero digits then None else begin
    let bits = ref [] in
    while not (is_zero digits) do bits := div2 digits :: !bits done;
    (* !bits: most significant first; first is 1 *)
    match !bits with
    | [] -> None
    | _ :: rest -> Some (List.fold_left (fun acc b -> if b = 1 then XI acc else XO acc) XH rest)
  end
let n_of_dec (s : string) : n = match pos_of_dec s with None -> N0 | Some p -> Npos p
let z_of_dec (s : string) : z =
  if String.length s > 0 && s.[0] = '-' then
    (match pos_of_dec (String.sub s 1 (String.length s - 1)) with None -> Z0 | Some p -> Zneg p)
  else (match pos_of_dec s with None -> Z0 | Some p -> Zpos p)
let dec_of_pos (p : positive) : string =
  (* bits most-significant first *)
  let rec bits p acc = match p with XH -> 1 :: acc | XO q -> bits q (0 :: acc) | XI q -> bits q (1 :: acc) in
  let bs = bits p [] in
  let digits = ref [0] in (* little endian *)
  List.iter (fun b ->
    let carry = ref b in
    digits := List.map (fun d -> let v = d * 2 + !carry in carry := v / 10; v mod 10) !digits;
    if !carry > 0 then digits := !digits @ [!carry]) bs;
  String.concat "" (List.rev_map string_of_int !digits)
let dec_of_n = function N0 -> "0" | Npos p -> dec_of_pos p
let dec_of_z = function Z0 -> "0" | Zpos p -> dec_of_pos p | Zneg p -> "-" ^ dec_of_pos p

(* the 256 byte values, allocated once and shared (a fresh N per byte costs ~25 words) *)
let byte_tab : n array = Array.init 256 n_of_int
let byte_n (i : int) : n = byte_tab.(i land 255)

let hex_of_bytes (l : n list) : string =
  let b = Buffer.create 64 in
  List.iter (fun x -> Buffer.add_string b (Printf.sprintf "%02x" (int_of_n x land 255))) l;
  if Buffer.length b = 0 then "-" else Buffer.contents b
let bytes_of_hex (s : string) : n list =
  if s = "-" then [] else
  let len = String.length s / 2 in
  List.init len (fun i -> byte_n (int_of_string ("0x" ^ String.sub s (2*i) 2)))

let split_ws (line : string) : string list =
  List.filter (fun s -> s <> "") (String.split_on_char ' ' line)

let iter_lines (f : string -> unit) : unit =
  try while true do f (input_line stdin) done with End_of_file -> ()
