package c01x

import (
	"bytes"
	"fmt"
	"math"
	"reflect"
	"strings"

	"verif/harness/hx"
)

// GV is a Go value of the small encoder universe of Model/C01.v (gval).
type GV struct {
	K    byte   // 'b' bool, 'i' integer, 'f' float32, 'd' float64, 's' string, '[' slice, '{' map[string]any, 'n' nil
	Ty   string // integer kind / slice ELEMENT type token
	B    bool
	I    int64  // signed kinds
	U    uint64 // unsigned kinds, float bits
	S    []byte
	L    []*GV
	Keys [][]byte
	Nil  bool // nil slice / nil map instead of an empty one
}

func isUnsigned(ty string) bool { return ty[0] == 'u' }

var intKinds = []string{"i8", "u8", "i16", "u16", "i32", "u32", "i64", "u64", "int", "uint"}

func kindBits(ty string) uint {
	switch ty {
	case "i8", "u8":
		return 8
	case "i16", "u16":
		return 16
	case "i32", "u32":
		return 32
	}
	return 64
}

func genIntOf(r *hx.Rng, ty string) *GV {
	g := &GV{K: 'i', Ty: ty}
	bits := kindBits(ty)
	if isUnsigned(ty) {
		switch r.Intn(5) {
		case 0:
			g.U = 0
		case 1:
			g.U = math.MaxUint64 >> (64 - bits)
		case 2:
			g.U = uint64(1) << (bits - 1)
		default:
			g.U = r.Next() >> (64 - bits)
		}
	} else {
		g.I = genInt(r, bits)
	}
	return g
}

// GenOfType draws a value of the static type ty (token).
func GenOfType(r *hx.Rng, ty string, depth int) *GV {
	switch {
	case ty == "bool":
		return &GV{K: 'b', B: r.Bool()}
	case ty == "f32":
		return &GV{K: 'f', U: genF32(r)}
	case ty == "f64":
		return &GV{K: 'd', U: genF64(r)}
	case ty == "str":
		return &GV{K: 's', S: genStr(r, false)}
	case ty == "any":
		if r.Intn(25) == 0 {
			return &GV{K: 'n'}
		}
		return GenGV(r, depth)
	case ty == "map":
		g := &GV{K: '{', Nil: r.Intn(6) == 0}
		if depth > 0 && !g.Nil {
			seen := map[string]bool{}
			for i, n := 0, r.Intn(4); i < n; i++ {
				k := GenKey(r)
				if seen[string(k)] {
					continue
				}
				seen[string(k)] = true
				g.Keys = append(g.Keys, k)
				g.L = append(g.L, GenOfType(r, "any", depth-1))
			}
		}
		return g
	case strings.HasPrefix(ty, "sl:"):
		g := &GV{K: '[', Ty: ty[3:], Nil: r.Intn(6) == 0}
		if depth > 0 && !g.Nil {
			n := r.Intn(4)
			if g.Ty == "any" && r.Intn(3) > 0 && n > 0 {
				// homogeneous []any: all elements of one drawn type
				et := genTypeToken(r, depth-1)
				for i := 0; i < n; i++ {
					g.L = append(g.L, GenOfType(r, et, depth-1))
				}
			} else {
				for i := 0; i < n; i++ {
					g.L = append(g.L, GenOfType(r, g.Ty, depth-1))
				}
			}
		}
		return g
	}
	return genIntOf(r, ty)
}

func genTypeToken(r *hx.Rng, depth int) string {
	n := 16
	if depth > 0 {
		n = 19
	}
	switch k := r.Intn(n); {
	case k < 10:
		return intKinds[k]
	case k == 10:
		return "bool"
	case k == 11:
		return "f32"
	case k == 12:
		return "f64"
	case k == 13, k == 14:
		return "str"
	case k == 15:
		return "map"
	case k == 16:
		return "sl:any"
	default:
		return "sl:" + genTypeToken(r, depth-1)
	}
}

// GenGV draws a value of a random type.
func GenGV(r *hx.Rng, depth int) *GV {
	return GenOfType(r, genTypeToken(r, depth), depth)
}

// TypeToken is the dynamic type of the value.
func (g *GV) TypeToken() string {
	switch g.K {
	case 'b':
		return "bool"
	case 'i':
		return g.Ty
	case 'f':
		return "f32"
	case 'd':
		return "f64"
	case 's':
		return "str"
	case '[':
		return "sl:" + g.Ty
	case '{':
		return "map"
	}
	return "any"
}

// ToGo builds the Go value (nil for K == 'n').
func (g *GV) ToGo() any {
	switch g.K {
	case 'b':
		return g.B
	case 'i':
		v := reflect.New(GoType(g.Ty)).Elem()
		if isUnsigned(g.Ty) {
			v.SetUint(g.U)
		} else {
			v.SetInt(g.I)
		}
		return v.Interface()
	case 'f':
		return math.Float32frombits(uint32(g.U))
	case 'd':
		return math.Float64frombits(g.U)
	case 's':
		return string(g.S)
	case '[':
		st := reflect.SliceOf(GoType(g.Ty))
		if g.Nil {
			return reflect.Zero(st).Interface()
		}
		s := reflect.MakeSlice(st, len(g.L), len(g.L))
		for i, e := range g.L {
			if x := e.ToGo(); x != nil {
				s.Index(i).Set(reflect.ValueOf(x))
			}
		}
		return s.Interface()
	case '{':
		if g.Nil {
			return map[string]any(nil)
		}
		m := map[string]any{}
		for i, e := range g.L {
			m[string(g.Keys[i])] = e.ToGo()
		}
		return m
	}
	return nil
}

// Tokens renders the value in the token syntax of driver/c01.ml (parse_gval).
func (g *GV) Tokens(sb *strings.Builder) {
	switch g.K {
	case 'b':
		if g.B {
			sb.WriteString(" vb 1")
		} else {
			sb.WriteString(" vb 0")
		}
	case 'i':
		if isUnsigned(g.Ty) {
			fmt.Fprintf(sb, " vi %s %d", g.Ty, g.U)
		} else {
			fmt.Fprintf(sb, " vi %s %d", g.Ty, g.I)
		}
	case 'f':
		fmt.Fprintf(sb, " vf %d", g.U)
	case 'd':
		fmt.Fprintf(sb, " vd %d", g.U)
	case 's':
		sb.WriteString(" vs " + hx.Hex(g.S))
	case '[':
		fmt.Fprintf(sb, " v[ %s %d", g.Ty, len(g.L))
		for _, e := range g.L {
			e.Tokens(sb)
		}
	case '{':
		fmt.Fprintf(sb, " v{ %d", len(g.L))
		for i, e := range g.L {
			sb.WriteString(" " + hx.Hex(g.Keys[i]))
			e.Tokens(sb)
		}
	default:
		sb.WriteString(" vn")
	}
}

func tagByType(ty string) byte {
	switch ty {
	case "bool", "i8", "u8":
		return Byte
	case "i16", "u16":
		return Short
	case "i32", "u32":
		return Int
	case "i64", "u64":
		return Long
	case "f32":
		return Float
	case "f64":
		return Double
	case "str":
		return String
	case "map":
		return Compound
	}
	return End
}

// Image is the DOCUMENTED mapping from Go values to NBT trees, written from the package documentation:
// nil when the value has no image (int, uint, nil, heterogeneous slices, strings of 32768 bytes or more).
func (g *GV) Image() *Tree {
	switch g.K {
	case 'b':
		if g.B {
			return &Tree{Kind: Byte, I: 1}
		}
		return &Tree{Kind: Byte}
	case 'i':
		bits := g.I
		if isUnsigned(g.Ty) {
			bits = int64(g.U)
		}
		switch g.Ty {
		case "i8", "u8":
			return &Tree{Kind: Byte, I: int64(int8(bits))}
		case "i16", "u16":
			return &Tree{Kind: Short, I: int64(int16(bits))}
		case "i32", "u32":
			return &Tree{Kind: Int, I: int64(int32(bits))}
		case "i64", "u64":
			return &Tree{Kind: Long, I: bits}
		}
		return nil
	case 'f':
		return &Tree{Kind: Float, Bits: g.U}
	case 'd':
		return &Tree{Kind: Double, Bits: g.U}
	case 's':
		if len(g.S) > 32767 {
			return nil
		}
		return &Tree{Kind: String, Bytes: g.S}
	case '[':
		var ts []*Tree
		for _, e := range g.L {
			t := e.Image()
			if t == nil {
				return nil
			}
			ts = append(ts, t)
		}
		id := tagByType(g.Ty)
		if len(ts) > 0 {
			id = ts[0].Kind
		}
		for _, t := range ts {
			if t.Kind != id {
				return nil
			}
		}
		switch id {
		case Byte:
			t := &Tree{Kind: ByteArray, Bytes: []byte{}}
			for _, e := range ts {
				t.Bytes = append(t.Bytes, byte(e.I))
			}
			return t
		case Int, Long:
			t := &Tree{Kind: IntArray, Ints: []int64{}}
			if id == Long {
				t.Kind = LongArray
			}
			for _, e := range ts {
				t.Ints = append(t.Ints, e.I)
			}
			return t
		}
		return &Tree{Kind: List, Eid: id, List: ts}
	case '{':
		t := &Tree{Kind: Compound}
		for i, e := range g.L {
			x := e.Image()
			if x == nil || len(g.Keys[i]) > 32767 {
				return nil
			}
			t.Keys = append(t.Keys, g.Keys[i])
			t.List = append(t.List, x)
		}
		return t
	}
	return nil
}

// Reorder puts the entries of every map of g in the order in which their keys appear in the compound out
// (the document the encoder produced): Go's map iteration order becomes an explicit input of the model.
func (g *GV) Reorder(out *Tree) {
	if out == nil {
		return
	}
	switch g.K {
	case '[':
		if out.Kind == List && len(out.List) == len(g.L) {
			for i, e := range g.L {
				e.Reorder(out.List[i])
			}
		}
	case '{':
		if out.Kind != Compound || len(out.List) != len(g.L) {
			return
		}
		pos := map[string]int{}
		for i, k := range g.Keys {
			pos[string(k)] = i
		}
		var keys [][]byte
		var vals []*GV
		for _, k := range out.Keys {
			i, ok := pos[string(k)]
			if !ok {
				return
			}
			delete(pos, string(k))
			keys = append(keys, g.Keys[i])
			vals = append(vals, g.L[i])
		}
		g.Keys, g.L = keys, vals
		for i, e := range g.L {
			e.Reorder(out.List[i])
		}
	}
}

// SameDoc: does the emitted document decode (with the strict reference parser) to the expected tree,
// compounds compared as key -> value maps?
func SameDoc(out []byte, file bool, name []byte, want *Tree) (bool, string) {
	t, nm, rest, err := ParseDoc(out, file)
	if err != nil {
		return false, "not a well-formed document: " + err.Error()
	}
	if len(rest) != 0 {
		return false, fmt.Sprintf("%d bytes after the document", len(rest))
	}
	if file && !bytes.Equal(nm, name) {
		return false, "root name differs"
	}
	if !Equal(t, want, true) {
		return false, "decodes to a different tree"
	}
	return true, ""
}
