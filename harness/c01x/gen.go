package c01x

import (
	"math"

	"verif/harness/hx"
)

// boundary values per width
func genInt(r *hx.Rng, bits uint) int64 {
	lo, hi := -(int64(1) << (bits - 1)), int64(1)<<(bits-1)-1
	switch r.Intn(8) {
	case 0:
		return lo
	case 1:
		return hi
	case 2:
		return -1
	case 3:
		return 0
	case 4:
		return int64(r.Intn(256)) - 128
	case 5:
		return lo + int64(r.Intn(3))
	case 6:
		return hi - int64(r.Intn(3))
	}
	v := int64(r.Next())
	if bits < 64 {
		v >>= 64 - bits
	}
	return v
}

func genF32(r *hx.Rng) uint64 {
	switch r.Intn(8) {
	case 0:
		return uint64(math.Float32bits(float32(math.Copysign(0, -1)))) // -0.0
	case 1:
		return 0x7fc00001 // quiet NaN with payload
	case 2:
		return 0xffc12345 // negative quiet NaN with payload
	case 3:
		return 0x7f800000 // +Inf
	case 4:
		return 1 // smallest subnormal
	case 5:
		return uint64(math.Float32bits(1.5))
	}
	b := uint32(r.Next())
	if b&0x7f800000 == 0x7f800000 && b&0x007fffff != 0 {
		b |= 0x00400000 // keep NaNs quiet: signalling NaNs may be quieted by the hardware when moved
	}
	return uint64(b)
}

func genF64(r *hx.Rng) uint64 {
	switch r.Intn(8) {
	case 0:
		return math.Float64bits(math.Copysign(0, -1))
	case 1:
		return 0x7ff8000000000001
	case 2:
		return 0xfff8123456789abc
	case 3:
		return 0xfff0000000000000
	case 4:
		return 1
	case 5:
		return math.Float64bits(-2.25)
	}
	b := r.Next()
	if b&0x7ff0000000000000 == 0x7ff0000000000000 && b&0x000fffffffffffff != 0 {
		b |= 0x0008000000000000
	}
	return b
}

// GenKey: arbitrary key bytes including the empty key, 0x00, non-UTF-8, duplicates of a small pool.
func GenKey(r *hx.Rng) []byte {
	switch r.Intn(10) {
	case 0:
		return []byte{}
	case 1:
		return []byte{0}
	case 2:
		return []byte{0xff, 0xfe}
	case 3, 4, 5:
		return []byte{byte('a' + r.Intn(4))}
	case 6:
		return []byte("Name")
	}
	return r.Bytes(1 + r.Intn(6))
}

func genStr(r *hx.Rng, big bool) []byte {
	switch r.Intn(12) {
	case 0:
		return []byte{}
	case 1:
		return r.Bytes(1)
	case 2:
		if big {
			return r.Bytes(32767)
		}
	case 3:
		if big {
			return r.Bytes(32766)
		}
	case 4:
		return r.Bytes(255 + r.Intn(3))
	}
	return r.Bytes(r.Intn(12))
}

// Gen draws a tree of the given kind (0 = any kind) with nesting at most depth; budget bounds the size.
func Gen(r *hx.Rng, kind byte, depth int, budget *int, big bool) *Tree {
	if kind == 0 {
		kind = byte(1 + r.Intn(12))
		if depth <= 1 && (kind == List || kind == Compound) && r.Intn(3) != 0 {
			kind = byte(1 + r.Intn(8))
		}
	}
	*budget--
	t := &Tree{Kind: kind}
	room := func(max int) int {
		if *budget <= 0 {
			return 0
		}
		n := r.Intn(max + 1)
		if n > *budget {
			n = *budget
		}
		return n
	}
	switch kind {
	case Byte:
		t.I = genInt(r, 8)
	case Short:
		t.I = genInt(r, 16)
	case Int:
		t.I = genInt(r, 32)
	case Long:
		t.I = genInt(r, 64)
	case Float:
		t.Bits = genF32(r)
	case Double:
		t.Bits = genF64(r)
	case ByteArray:
		t.Bytes = genStr(r, big)
	case String:
		t.Bytes = genStr(r, big)
	case IntArray:
		n := room(6)
		*budget -= n
		t.Ints = make([]int64, n)
		for i := range t.Ints {
			t.Ints[i] = genInt(r, 32)
		}
	case LongArray:
		n := room(6)
		*budget -= n
		t.Ints = make([]int64, n)
		for i := range t.Ints {
			t.Ints[i] = genInt(r, 64)
		}
	case List:
		n := 0
		if depth > 1 {
			n = room(5)
		}
		if n == 0 {
			// empty list: End element id, or any of the 12 ids
			if r.Bool() {
				t.Eid = End
			} else {
				t.Eid = byte(r.Intn(13))
			}
			break
		}
		t.Eid = byte(1 + r.Intn(12))
		if r.Intn(3) == 0 {
			t.Eid = []byte{List, Compound, ByteArray, IntArray, LongArray}[r.Intn(5)]
		}
		if depth <= 2 && (t.Eid == List || t.Eid == Compound) && r.Bool() {
			t.Eid = byte(1 + r.Intn(8))
		}
		for i := 0; i < n; i++ {
			t.List = append(t.List, Gen(r, t.Eid, depth-1, budget, false))
		}
	case Compound:
		n := 0
		if depth > 1 {
			n = room(6)
		}
		for i := 0; i < n; i++ {
			t.Keys = append(t.Keys, GenKey(r))
			t.List = append(t.List, Gen(r, 0, depth-1, budget, big && i == 0))
		}
	}
	return t
}

// GenDoc: a document tree with depth <= 6 and size <= 400.
func GenDoc(r *hx.Rng, root byte) *Tree {
	budget := 20 + r.Intn(120)
	if r.Intn(6) == 0 {
		budget = 400
	}
	return Gen(r, root, 1+r.Intn(6), &budget, r.Intn(40) == 0)
}
