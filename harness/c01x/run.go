package c01x

import (
	"bytes"
	"fmt"
	"io"
	"math"
	"reflect"
	"sort"
	"strconv"
	"strings"
	"time"

	"github.com/Tnze/go-mc/nbt"
	"github.com/Tnze/go-mc/nbt/dynbt"
	"verif/harness/hx"
)

// Plain is a counting reader that is NOT an io.ByteReader; Chunk > 0 limits every Read to that many bytes.
type Plain struct {
	B     []byte
	Off   int
	Chunk int
}

func (p *Plain) Read(b []byte) (int, error) {
	if p.Off >= len(p.B) {
		return 0, io.EOF
	}
	n := len(b)
	if p.Chunk > 0 && n > p.Chunk {
		n = p.Chunk
	}
	n = copy(b[:n], p.B[p.Off:])
	p.Off += n
	return n, nil
}

// CanonAny renders what the decoder stored in an interface{}.
func CanonAny(sb *strings.Builder, v any) {
	switch x := v.(type) {
	case int8:
		fmt.Fprintf(sb, "b:%d", x)
	case int16:
		fmt.Fprintf(sb, "s:%d", x)
	case int32:
		fmt.Fprintf(sb, "i:%d", x)
	case int64:
		fmt.Fprintf(sb, "l:%d", x)
	case float32:
		fmt.Fprintf(sb, "f:%d", math.Float32bits(x))
	case float64:
		fmt.Fprintf(sb, "d:%d", math.Float64bits(x))
	case string:
		sb.WriteString("S:" + hx.Hex([]byte(x)))
	case []byte:
		sb.WriteString("B:" + hx.Hex(x))
	case []int32:
		sb.WriteString("I(")
		for i, e := range x {
			if i > 0 {
				sb.WriteByte(',')
			}
			sb.WriteString(strconv.FormatInt(int64(e), 10))
		}
		sb.WriteByte(')')
	case []int64:
		sb.WriteString("L(")
		for i, e := range x {
			if i > 0 {
				sb.WriteByte(',')
			}
			sb.WriteString(strconv.FormatInt(e, 10))
		}
		sb.WriteByte(')')
	case []any:
		sb.WriteByte('[')
		for i, e := range x {
			if i > 0 {
				sb.WriteByte(',')
			}
			CanonAny(sb, e)
		}
		sb.WriteByte(']')
	case map[string]any:
		keys := make([]string, 0, len(x))
		back := map[string]string{}
		for k := range x {
			h := hx.Hex([]byte(k))
			keys = append(keys, h)
			back[h] = k
		}
		sort.Strings(keys)
		sb.WriteByte('{')
		for i, k := range keys {
			if i > 0 {
				sb.WriteByte(',')
			}
			sb.WriteString(k + "=")
			CanonAny(sb, x[back[k]])
		}
		sb.WriteByte('}')
	default:
		fmt.Fprintf(sb, "?%T", v)
	}
}

// CanonTyped renders a typed destination by kind (syntax of pr_tval in driver/c01.ml).
func CanonTyped(sb *strings.Builder, v reflect.Value) {
	switch v.Kind() {
	case reflect.Bool:
		if v.Bool() {
			sb.WriteString("z:1")
		} else {
			sb.WriteString("z:0")
		}
	case reflect.Int, reflect.Int8, reflect.Int16, reflect.Int32, reflect.Int64:
		fmt.Fprintf(sb, "n:%d", v.Int())
	case reflect.Uint, reflect.Uint8, reflect.Uint16, reflect.Uint32, reflect.Uint64:
		fmt.Fprintf(sb, "n:%d", v.Uint())
	case reflect.Float32:
		fmt.Fprintf(sb, "f:%d", f32bits(v))
	case reflect.Float64:
		fmt.Fprintf(sb, "d:%d", math.Float64bits(v.Float()))
	case reflect.String:
		sb.WriteString("S:" + hx.Hex([]byte(v.String())))
	case reflect.Slice:
		sb.WriteByte('<')
		for i := 0; i < v.Len(); i++ {
			if i > 0 {
				sb.WriteByte(',')
			}
			CanonTyped(sb, v.Index(i))
		}
		sb.WriteByte('>')
	case reflect.Interface, reflect.Map:
		if v.IsNil() {
			sb.WriteString("?nil")
			return
		}
		CanonAny(sb, v.Interface())
	default:
		fmt.Fprintf(sb, "?%s", v.Kind())
	}
}

// GoType builds the reflect.Type of a type token of driver/c01.ml.
func GoType(s string) reflect.Type {
	if strings.HasPrefix(s, "sl:") {
		return reflect.SliceOf(GoType(s[3:]))
	}
	switch s {
	case "bool":
		return reflect.TypeOf(false)
	case "i8":
		return reflect.TypeOf(int8(0))
	case "u8":
		return reflect.TypeOf(uint8(0))
	case "i16":
		return reflect.TypeOf(int16(0))
	case "u16":
		return reflect.TypeOf(uint16(0))
	case "i32":
		return reflect.TypeOf(int32(0))
	case "u32":
		return reflect.TypeOf(uint32(0))
	case "i64":
		return reflect.TypeOf(int64(0))
	case "u64":
		return reflect.TypeOf(uint64(0))
	case "int":
		return reflect.TypeOf(int(0))
	case "uint":
		return reflect.TypeOf(uint(0))
	case "f32":
		return reflect.TypeOf(float32(0))
	case "f64":
		return reflect.TypeOf(float64(0))
	case "str":
		return reflect.TypeOf("")
	case "any":
		return reflect.TypeOf((*any)(nil)).Elem()
	case "map":
		return reflect.TypeOf(map[string]any(nil))
	}
	panic("type " + s)
}

// FitType picks a Go destination type (token) into which the tree decodes; noF64 avoids float64 (the
// float32 -> float64 widening is not modelled, and a mutated document may put a Float there).
func FitType(r *hx.Rng, t *Tree, noF64 bool) string {
	if r.Intn(12) == 0 {
		return "any"
	}
	pick := func(xs ...string) string { return xs[r.Intn(len(xs))] }
	switch t.Kind {
	case Byte:
		return pick("bool", "i8", "u8", "i16", "u16", "i32", "u32", "i64", "u64", "int", "uint")
	case Short:
		return pick("i16", "u16", "i32", "u32", "i64", "u64", "int", "uint")
	case Int:
		return pick("i32", "u32", "i64", "u64", "int", "uint")
	case Long:
		return pick("i64", "u64", "int", "uint")
	case Float:
		return "f32"
	case Double:
		if noF64 {
			return "any"
		}
		return "f64"
	case String:
		return "str"
	case ByteArray:
		return pick("sl:u8", "sl:i8")
	case IntArray:
		return pick("sl:i32", "sl:int")
	case LongArray:
		return pick("sl:i64", "sl:u64")
	case List:
		if len(t.List) == 0 {
			return "sl:" + pick("any", "i8", "str", "sl:u8", "map", "i64")
		}
		return "sl:" + FitType(r, t.List[r.Intn(len(t.List))], noF64)
	case Compound:
		return pick("map", "any")
	}
	return "any"
}

// MisfitType: a destination that usually does NOT fit (both sides must agree on the error).
func MisfitType(r *hx.Rng) string {
	xs := []string{"bool", "i8", "u16", "i32", "i64", "uint", "str", "f32", "sl:u8", "sl:i8", "sl:i32", "sl:int", "sl:i64", "sl:u64", "sl:str", "sl:any", "sl:sl:i16", "map", "sl:map", "sl:bool"}
	return xs[r.Intn(len(xs))]
}

// Result of one decoding call.
type Result struct {
	Class string // ok err panic hang
	Name  []byte
	Value string
	Left  int
	Err   error
	Panic string
}

// Line renders the result in the format of the model driver.
func (x Result) Line(hd string) string {
	if x.Class != "ok" {
		return hd + " " + x.Class
	}
	return fmt.Sprintf("%s ok %s %s %d", hd, hx.Hex(x.Name), x.Value, x.Left)
}

// Watchdog per call.
var Watchdog = 20 * time.Second

// RunTarget decodes data with Decoder.Decode into the destination named by target.
// mode: 0 = bytes.Reader (a ByteReader), 1 = plain reader, 2 = plain reader delivering 1 byte per Read,
// 3 = plain reader delivering up to 3 bytes per Read.
func RunTarget(file bool, target string, data []byte, mode int) Result {
	done := make(chan Result, 1)
	go func() {
		var res Result
		res.Panic = hx.Try(func() { res = runTarget(file, target, data, mode) })
		if res.Panic != "" {
			res.Class = "panic"
		}
		done <- res
	}()
	tm := time.NewTimer(Watchdog)
	defer tm.Stop()
	select {
	case r := <-done:
		return r
	case <-tm.C:
		return Result{Class: "hang"}
	}
}

func runTarget(file bool, target string, data []byte, mode int) Result {
	var rd io.Reader
	left := func() int { return 0 }
	switch mode {
	case 0:
		br := bytes.NewReader(data)
		rd, left = br, br.Len
	default:
		p := &Plain{B: data}
		if mode == 2 {
			p.Chunk = 1
		} else if mode == 3 {
			p.Chunk = 3
		}
		rd, left = p, func() int { return len(p.B) - p.Off }
	}
	d := nbt.NewDecoder(rd)
	d.NetworkFormat(!file)
	var sb strings.Builder
	var name string
	var err error
	switch {
	case target == "any":
		var v any
		name, err = d.Decode(&v)
		if err == nil {
			CanonAny(&sb, v)
		}
	case target == "map":
		var v map[string]any
		name, err = d.Decode(&v)
		if err == nil {
			CanonAny(&sb, v)
		}
	case target == "raw":
		var v nbt.RawMessage
		name, err = d.Decode(&v)
		if err == nil {
			fmt.Fprintf(&sb, "R%d:%s", v.Type, hx.Hex(v.Data))
		}
	case target == "dyn":
		var v dynbt.Value
		name, err = d.Decode(&v)
		if err == nil {
			v.VerifDump(&sb)
		}
	case target == "snbt":
		var v nbt.StringifiedMessage
		name, err = d.Decode(&v)
		sb.WriteByte('-')
	case target == "skip":
		var v struct{}
		name, err = d.Decode(&v)
		sb.WriteByte('-')
	case strings.HasPrefix(target, "ty:"):
		p := reflect.New(GoType(target[3:]))
		name, err = d.Decode(p.Interface())
		if err == nil {
			CanonTyped(&sb, p.Elem())
		}
	default:
		panic("target " + target)
	}
	if err != nil {
		return Result{Class: "err", Err: err}
	}
	return Result{Class: "ok", Name: []byte(name), Value: sb.String(), Left: left()}
}

// Targets of C01 (typed destinations are chosen per tree).
var Targets = []string{"any", "map", "raw", "dyn", "snbt", "skip"}

// f32bits returns the bits of a float32-kinded value AS STORED: reflect.Value.Float converts to float64,
// which on amd64 turns a signalling NaN into a quiet one (0x7f810000 -> 0x7fc10000) - an artefact of the
// observation, not of the decoder
func f32bits(v reflect.Value) uint32 {
	nv := reflect.New(v.Type()).Elem()
	nv.Set(v)
	return *(*uint32)(nv.Addr().UnsafePointer())
}
