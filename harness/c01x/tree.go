// Package c01x is shared by the C01 and C03 harnesses (owned by C01): NBT trees written from the format
// definition, an independent encoder and strict parser, generators, canonical renderings of Go results,
// and runners for every decoding entry point.
package c01x

import (
	"bytes"
	"encoding/binary"
	"errors"
	"fmt"
	"sort"
	"strconv"
	"strings"

	"verif/harness/hx"
)

// Tree is one NBT value.  Kind is the tag id 1..12.
type Tree struct {
	Kind  byte
	I     int64    // Byte Short Int Long (signed value)
	Bits  uint64   // Float Double (IEEE bits)
	Bytes []byte   // ByteArray, String
	Ints  []int64  // IntArray, LongArray
	Eid   byte     // List: element id in the header
	List  []*Tree  // List elements, Compound values
	Keys  [][]byte // Compound keys
}

const (
	End byte = iota
	Byte
	Short
	Int
	Long
	Float
	Double
	ByteArray
	String
	List
	Compound
	IntArray
	LongArray
)

// Payload is the independent reference encoder (format definition, big-endian).
func (t *Tree) Payload(b *bytes.Buffer) {
	var w [8]byte
	switch t.Kind {
	case Byte:
		b.WriteByte(byte(t.I))
	case Short:
		binary.BigEndian.PutUint16(w[:], uint16(t.I))
		b.Write(w[:2])
	case Int:
		binary.BigEndian.PutUint32(w[:], uint32(t.I))
		b.Write(w[:4])
	case Long:
		binary.BigEndian.PutUint64(w[:], uint64(t.I))
		b.Write(w[:8])
	case Float:
		binary.BigEndian.PutUint32(w[:], uint32(t.Bits))
		b.Write(w[:4])
	case Double:
		binary.BigEndian.PutUint64(w[:], t.Bits)
		b.Write(w[:8])
	case ByteArray:
		binary.BigEndian.PutUint32(w[:], uint32(len(t.Bytes)))
		b.Write(w[:4])
		b.Write(t.Bytes)
	case String:
		binary.BigEndian.PutUint16(w[:], uint16(len(t.Bytes)))
		b.Write(w[:2])
		b.Write(t.Bytes)
	case List:
		b.WriteByte(t.Eid)
		binary.BigEndian.PutUint32(w[:], uint32(len(t.List)))
		b.Write(w[:4])
		for _, e := range t.List {
			e.Payload(b)
		}
	case Compound:
		for i, e := range t.List {
			b.WriteByte(e.Kind)
			binary.BigEndian.PutUint16(w[:], uint16(len(t.Keys[i])))
			b.Write(w[:2])
			b.Write(t.Keys[i])
			e.Payload(b)
		}
		b.WriteByte(End)
	case IntArray:
		binary.BigEndian.PutUint32(w[:], uint32(len(t.Ints)))
		b.Write(w[:4])
		for _, v := range t.Ints {
			binary.BigEndian.PutUint32(w[:], uint32(v))
			b.Write(w[:4])
		}
	case LongArray:
		binary.BigEndian.PutUint32(w[:], uint32(len(t.Ints)))
		b.Write(w[:4])
		for _, v := range t.Ints {
			binary.BigEndian.PutUint64(w[:], uint64(v))
			b.Write(w[:8])
		}
	}
}

// Doc is the whole document in file format (with root name) or network format.
func (t *Tree) Doc(file bool, name []byte) []byte {
	var b bytes.Buffer
	b.WriteByte(t.Kind)
	if file {
		b.WriteByte(byte(len(name) >> 8))
		b.WriteByte(byte(len(name)))
		b.Write(name)
	}
	t.Payload(&b)
	return b.Bytes()
}

// Tokens renders the tree in the prefix token syntax of driver/c01.ml.
func (t *Tree) Tokens(sb *strings.Builder) {
	switch t.Kind {
	case Byte:
		fmt.Fprintf(sb, " b %d", t.I)
	case Short:
		fmt.Fprintf(sb, " s %d", t.I)
	case Int:
		fmt.Fprintf(sb, " i %d", t.I)
	case Long:
		fmt.Fprintf(sb, " l %d", t.I)
	case Float:
		fmt.Fprintf(sb, " f %d", t.Bits)
	case Double:
		fmt.Fprintf(sb, " d %d", t.Bits)
	case ByteArray:
		sb.WriteString(" B " + hx.Hex(t.Bytes))
	case String:
		sb.WriteString(" S " + hx.Hex(t.Bytes))
	case IntArray, LongArray:
		if t.Kind == IntArray {
			fmt.Fprintf(sb, " I %d", len(t.Ints))
		} else {
			fmt.Fprintf(sb, " L %d", len(t.Ints))
		}
		for _, v := range t.Ints {
			sb.WriteByte(' ')
			sb.WriteString(strconv.FormatInt(v, 10))
		}
	case List:
		fmt.Fprintf(sb, " [ %d %d", t.Eid, len(t.List))
		for _, e := range t.List {
			e.Tokens(sb)
		}
	case Compound:
		fmt.Fprintf(sb, " { %d", len(t.List))
		for i, e := range t.List {
			sb.WriteString(" " + hx.Hex(t.Keys[i]))
			e.Tokens(sb)
		}
	}
}

// ExpectAny is the canonical rendering of the value the FORMAT assigns to the tree when it is decoded into
// an interface{} (same syntax as CanonAny): maps keep one entry per key, the last one wins.
func (t *Tree) ExpectAny(sb *strings.Builder) {
	switch t.Kind {
	case Byte:
		fmt.Fprintf(sb, "b:%d", t.I)
	case Short:
		fmt.Fprintf(sb, "s:%d", t.I)
	case Int:
		fmt.Fprintf(sb, "i:%d", t.I)
	case Long:
		fmt.Fprintf(sb, "l:%d", t.I)
	case Float:
		fmt.Fprintf(sb, "f:%d", t.Bits)
	case Double:
		fmt.Fprintf(sb, "d:%d", t.Bits)
	case ByteArray:
		sb.WriteString("B:" + hx.Hex(t.Bytes))
	case String:
		sb.WriteString("S:" + hx.Hex(t.Bytes))
	case IntArray, LongArray:
		if t.Kind == IntArray {
			sb.WriteString("I(")
		} else {
			sb.WriteString("L(")
		}
		for i, v := range t.Ints {
			if i > 0 {
				sb.WriteByte(',')
			}
			sb.WriteString(strconv.FormatInt(v, 10))
		}
		sb.WriteByte(')')
	case List:
		sb.WriteByte('[')
		for i, e := range t.List {
			if i > 0 {
				sb.WriteByte(',')
			}
			e.ExpectAny(sb)
		}
		sb.WriteByte(']')
	case Compound:
		last := map[string]int{}
		for i := range t.List {
			last[hx.Hex(t.Keys[i])] = i
		}
		keys := make([]string, 0, len(last))
		for k := range last {
			keys = append(keys, k)
		}
		sort.Strings(keys)
		sb.WriteByte('{')
		for i, k := range keys {
			if i > 0 {
				sb.WriteByte(',')
			}
			sb.WriteString(k + "=")
			t.List[last[k]].ExpectAny(sb)
		}
		sb.WriteByte('}')
	}
}

// ExpectDyn is what dynbt must hold: raw big-endian data, list elements, compound entries in order.
func (t *Tree) ExpectDyn(sb *strings.Builder) {
	switch t.Kind {
	case List:
		sb.WriteByte('[')
		for i, e := range t.List {
			if i > 0 {
				sb.WriteByte(',')
			}
			e.ExpectDyn(sb)
		}
		sb.WriteByte(']')
	case Compound:
		sb.WriteByte('{')
		for i, e := range t.List {
			if i > 0 {
				sb.WriteByte(',')
			}
			sb.WriteString(hx.Hex(t.Keys[i]) + "=")
			e.ExpectDyn(sb)
		}
		sb.WriteByte('}')
	default:
		var b bytes.Buffer
		t.Payload(&b)
		fmt.Fprintf(sb, "D%d:%s", t.Kind, hx.Hex(b.Bytes()))
	}
}

// Size counts nodes (array elements count one each).
func (t *Tree) Size() int {
	n := 1 + len(t.Ints) + len(t.Bytes)/8
	for _, e := range t.List {
		n += e.Size()
	}
	return n
}

// Depth of nesting.
func (t *Tree) Depth() int {
	d := 0
	for _, e := range t.List {
		if x := e.Depth(); x > d {
			d = x
		}
	}
	return d + 1
}

// Equal compares two trees; compounds are compared as ordered entry lists unless unordered is set.
func Equal(a, b *Tree, unordered bool) bool {
	if a.Kind != b.Kind || a.I != b.I || a.Bits != b.Bits || !bytes.Equal(a.Bytes, b.Bytes) || len(a.Ints) != len(b.Ints) || len(a.List) != len(b.List) {
		return false
	}
	for i := range a.Ints {
		if a.Ints[i] != b.Ints[i] {
			return false
		}
	}
	switch a.Kind {
	case List:
		if a.Eid != b.Eid {
			return false
		}
		for i := range a.List {
			if !Equal(a.List[i], b.List[i], unordered) {
				return false
			}
		}
	case Compound:
		if !unordered {
			for i := range a.List {
				if !bytes.Equal(a.Keys[i], b.Keys[i]) || !Equal(a.List[i], b.List[i], unordered) {
					return false
				}
			}
			return true
		}
		ia, ib := sortedIdx(a), sortedIdx(b)
		for i := range ia {
			if !bytes.Equal(a.Keys[ia[i]], b.Keys[ib[i]]) || !Equal(a.List[ia[i]], b.List[ib[i]], unordered) {
				return false
			}
		}
	}
	return true
}

func sortedIdx(t *Tree) []int {
	idx := make([]int, len(t.List))
	for i := range idx {
		idx[i] = i
	}
	sort.SliceStable(idx, func(x, y int) bool { return bytes.Compare(t.Keys[idx[x]], t.Keys[idx[y]]) < 0 })
	return idx
}

// ---------------------------------------------------------------- strict reference parser

var errShort = errors.New("truncated")

type parser struct {
	b   []byte
	off int
}

func (p *parser) take(n int) ([]byte, error) {
	if n < 0 || p.off+n > len(p.b) {
		return nil, errShort
	}
	s := p.b[p.off : p.off+n]
	p.off += n
	return s, nil
}

func (p *parser) value(kind byte, depth int) (*Tree, error) {
	if depth > 600 {
		return nil, errors.New("too deep")
	}
	t := &Tree{Kind: kind}
	switch kind {
	case Byte:
		s, err := p.take(1)
		if err != nil {
			return nil, err
		}
		t.I = int64(int8(s[0]))
	case Short:
		s, err := p.take(2)
		if err != nil {
			return nil, err
		}
		t.I = int64(int16(binary.BigEndian.Uint16(s)))
	case Int:
		s, err := p.take(4)
		if err != nil {
			return nil, err
		}
		t.I = int64(int32(binary.BigEndian.Uint32(s)))
	case Long:
		s, err := p.take(8)
		if err != nil {
			return nil, err
		}
		t.I = int64(binary.BigEndian.Uint64(s))
	case Float:
		s, err := p.take(4)
		if err != nil {
			return nil, err
		}
		t.Bits = uint64(binary.BigEndian.Uint32(s))
	case Double:
		s, err := p.take(8)
		if err != nil {
			return nil, err
		}
		t.Bits = binary.BigEndian.Uint64(s)
	case ByteArray, IntArray, LongArray:
		s, err := p.take(4)
		if err != nil {
			return nil, err
		}
		n := int(int32(binary.BigEndian.Uint32(s)))
		if n < 0 {
			return nil, errors.New("negative length")
		}
		switch kind {
		case ByteArray:
			if t.Bytes, err = p.take(n); err != nil {
				return nil, err
			}
			t.Bytes = append([]byte{}, t.Bytes...)
		case IntArray:
			if n > (len(p.b)-p.off)/4 {
				return nil, errShort
			}
			t.Ints = make([]int64, n)
			for i := range t.Ints {
				s, _ := p.take(4)
				t.Ints[i] = int64(int32(binary.BigEndian.Uint32(s)))
			}
		default:
			if n > (len(p.b)-p.off)/8 {
				return nil, errShort
			}
			t.Ints = make([]int64, n)
			for i := range t.Ints {
				s, _ := p.take(8)
				t.Ints[i] = int64(binary.BigEndian.Uint64(s))
			}
		}
	case String:
		s, err := p.take(2)
		if err != nil {
			return nil, err
		}
		n := int(int16(binary.BigEndian.Uint16(s)))
		if n < 0 {
			return nil, errors.New("negative length")
		}
		if t.Bytes, err = p.take(n); err != nil {
			return nil, err
		}
		t.Bytes = append([]byte{}, t.Bytes...)
	case List:
		s, err := p.take(5)
		if err != nil {
			return nil, err
		}
		t.Eid = s[0]
		n := int(int32(binary.BigEndian.Uint32(s[1:])))
		if n < 0 {
			return nil, errors.New("negative length")
		}
		if t.Eid > LongArray || (n > 0 && t.Eid == End) {
			return nil, errors.New("bad element id")
		}
		if n > len(p.b)-p.off {
			return nil, errShort
		}
		for i := 0; i < n; i++ {
			e, err := p.value(t.Eid, depth+1)
			if err != nil {
				return nil, err
			}
			t.List = append(t.List, e)
		}
	case Compound:
		for {
			s, err := p.take(1)
			if err != nil {
				return nil, err
			}
			if s[0] == End {
				break
			}
			k := s[0]
			if k > LongArray {
				return nil, errors.New("bad tag id")
			}
			if s, err = p.take(2); err != nil {
				return nil, err
			}
			n := int(int16(binary.BigEndian.Uint16(s)))
			if n < 0 {
				return nil, errors.New("negative length")
			}
			key, err := p.take(n)
			if err != nil {
				return nil, err
			}
			e, err := p.value(k, depth+1)
			if err != nil {
				return nil, err
			}
			t.Keys = append(t.Keys, append([]byte{}, key...))
			t.List = append(t.List, e)
		}
	default:
		return nil, errors.New("bad tag id")
	}
	return t, nil
}

// ParseDoc is the independent strict reader: one well-formed document and what follows it.
func ParseDoc(b []byte, file bool) (t *Tree, name []byte, rest []byte, err error) {
	p := &parser{b: b}
	s, err := p.take(1)
	if err != nil {
		return nil, nil, nil, err
	}
	kind := s[0]
	if kind == End || kind > LongArray {
		return nil, nil, nil, errors.New("bad root id")
	}
	if file {
		if s, err = p.take(2); err != nil {
			return nil, nil, nil, err
		}
		n := int(int16(binary.BigEndian.Uint16(s)))
		if n < 0 {
			return nil, nil, nil, errors.New("negative length")
		}
		if name, err = p.take(n); err != nil {
			return nil, nil, nil, err
		}
	}
	t, err = p.value(kind, 0)
	if err != nil {
		return nil, nil, nil, err
	}
	return t, name, b[p.off:], nil
}
