// The documented embedded-field rule of the encoder/decoder (promotion of the fields of anonymous struct
// fields, the shallowest one of a name wins), checked on the implementation against an expected document
// written by hand from the rule - predicate only; the typed model of these rules is C02's (Model/C02.v Part 6).
package main

import (
	"bytes"
	"reflect"

	"github.com/Tnze/go-mc/nbt"
	"verif/harness/c01x"
	"verif/harness/hx"
)

type emb3 struct {
	X int32  `nbt:"X"`
	Y string `nbt:"Y"`
	W int16  `nbt:"W"`
}
type emb2 struct {
	emb3
	V int64 `nbt:"V"`
}
type emb1 struct {
	emb2
	Y int8 `nbt:"Y"` // hides the deeper Y
}
type embRoot struct {
	emb1
	Z int8 `nbt:"Z"`
}
type embPtrRoot struct {
	*emb2
	Q int32 `nbt:"Q"`
}

func embeddedCases(o *hx.Out) {
	r := o.R
	for i := 0; i < o.N(40, 5); i++ {
		x, y3, w, v, y1, z := int32(r.Next()), string(rune('a'+r.Intn(26)))+"s", int16(r.Next()), int64(r.Next()), int8(r.Next()), int8(r.Next())
		val := embRoot{emb1: emb1{emb2: emb2{emb3: emb3{X: x, Y: y3, W: w}, V: v}, Y: y1}, Z: z}
		file := i%2 == 0
		// what the rule assigns: the promoted fields of the deepest struct in declaration order, then each
		// level's own fields; the shallower Y (Byte) replaces the deeper Y (String), at the deeper one's place
		// or its own - so compare as a key -> value map with the expected tag types
		want := map[string]*c01x.Tree{
			"X": {Kind: c01x.Int, I: int64(x)}, "W": {Kind: c01x.Short, I: int64(w)}, "V": {Kind: c01x.Long, I: v},
			"Y": {Kind: c01x.Byte, I: int64(y1)}, "Z": {Kind: c01x.Byte, I: int64(z)},
		}
		for _, byPtr := range []bool{false, true} {
			var buf bytes.Buffer
			var err error
			var in any = val
			if byPtr {
				in = &val
			}
			p := hx.Try(func() {
				e := nbt.NewEncoder(&buf)
				e.NetworkFormat(!file)
				err = e.Encode(in, "r")
			})
			o.Eval("encode.embedded", true, hx.Hex(buf.Bytes()))
			if p != "" || err != nil {
				o.Fail("C01.encode.embedded", "3 levels of embedding: err=%v panic=%q", err, p)
				continue
			}
			t, _, rest, perr := c01x.ParseDoc(buf.Bytes(), file)
			ok := perr == nil && len(rest) == 0 && t.Kind == c01x.Compound && len(t.Keys) == len(want)
			if ok {
				for k, key := range t.Keys {
					wv := want[string(key)]
					if wv == nil || t.List[k].Kind != wv.Kind || t.List[k].I != wv.I {
						ok = false
					}
				}
			}
			if !ok {
				o.Fail("C01.encode.embedded", "3 levels of embedding, value X=%d Y3=%q W=%d V=%d Y1=%d Z=%d: encoder wrote %s", x, y3, w, v, y1, z, hx.Hex(buf.Bytes()))
				continue
			}
			var back embRoot
			d := nbt.NewDecoder(bytes.NewReader(buf.Bytes()))
			d.NetworkFormat(!file)
			_, derr := d.Decode(&back)
			wantBack := val
			wantBack.emb1.emb2.emb3.Y = "" // the hidden deeper Y is never written
			if derr != nil || !reflect.DeepEqual(back, wantBack) {
				o.Fail("C01.decode.embedded", "3 levels of embedding: decoded %+v, want %+v (err=%v)", back, wantBack, derr)
			}
		}
		// embedded pointer, nil and non-nil
		for _, inner := range []*emb2{nil, {emb3: emb3{X: x, Y: y3, W: w}, V: v}} {
			pv := embPtrRoot{emb2: inner, Q: x}
			var buf bytes.Buffer
			var err error
			p := hx.Try(func() { err = nbt.NewEncoder(&buf).Encode(pv, "r") })
			o.Eval("encode.embedded-pointer", true, hx.Hex(buf.Bytes()))
			if p != "" || err != nil {
				o.Fail("C01.encode.embedded", "embedded pointer (nil=%v): err=%v panic=%q", inner == nil, err, p)
				continue
			}
			t, _, _, perr := c01x.ParseDoc(buf.Bytes(), true)
			n := 1
			if inner != nil {
				n = 5
			}
			if perr != nil || t.Kind != c01x.Compound || len(t.Keys) != n {
				o.Fail("C01.encode.embedded", "embedded pointer (nil=%v): encoder wrote %s", inner == nil, hx.Hex(buf.Bytes()))
			}
		}
	}
}

// The documented omitempty / "-" rules, checked on the implementation against the set of keys the rule assigns:
// a field with `omitempty` is left out exactly when the FIELD ITSELF is empty - false, 0, "", a nil pointer, a nil
// interface, an empty slice / map / array; a non-nil pointer or interface is written whatever it points to.
type omitRoot struct {
	B   bool            `nbt:"B,omitempty"`
	I   int32           `nbt:"I,omitempty"`
	U   uint16          `nbt:"U,omitempty"`
	F   float64         `nbt:"F,omitempty"`
	S   string          `nbt:"S,omitempty"`
	L   []int16         `nbt:"L,omitempty"`
	M   map[string]int8 `nbt:"M,omitempty"`
	PI  *int32          `nbt:"PI,omitempty"`
	PS  *string         `nbt:"PS,omitempty"`
	PL  *[]int16        `nbt:"PL,omitempty"`
	A   any             `nbt:"A,omitempty"`
	K   int8            `nbt:"K"` // always written
	Off int8            `nbt:"-"` // never written
}

func omitCases(o *hx.Out) {
	r := o.R
	for i := 0; i < o.N(200, 20); i++ {
		var v omitRoot
		want := map[string]bool{"K": true}
		pick := func(name string) int { // 0 = empty field, 1 = non-empty, 2 = non-nil holder of an empty value
			k := r.Intn(3)
			if k != 0 {
				want[name] = true
			}
			return k
		}
		if pick("B") != 0 {
			v.B = true
		}
		if pick("I") != 0 {
			v.I = int32(r.Next()) | 1
		}
		if pick("U") != 0 {
			v.U = uint16(r.Next()) | 1
		}
		if pick("F") != 0 {
			v.F = 1.5
		}
		if pick("S") != 0 {
			v.S = "s"
		}
		if pick("L") != 0 {
			v.L = []int16{0}
		}
		if pick("M") != 0 {
			v.M = map[string]int8{"": 0}
		}
		switch pick("PI") {
		case 1:
			x := int32(r.Next()) | 1
			v.PI = &x
		case 2:
			v.PI = new(int32) // non-nil pointer to zero: written
		}
		switch pick("PS") {
		case 1:
			x := "p"
			v.PS = &x
		case 2:
			v.PS = new(string)
		}
		switch pick("PL") {
		case 1:
			v.PL = &[]int16{3}
		case 2:
			v.PL = &[]int16{} // non-nil pointer to an empty slice: written (as an empty list)
		}
		switch pick("A") {
		case 1:
			v.A = int64(r.Next()) | 1
		case 2:
			v.A = int8(0) // non-nil interface holding zero: written
		}
		v.Off = int8(r.Next())
		v.K = int8(r.Next())
		file := i%2 == 0
		var buf bytes.Buffer
		var err error
		p := hx.Try(func() {
			e := nbt.NewEncoder(&buf)
			e.NetworkFormat(!file)
			err = e.Encode(v, "r")
		})
		o.Eval("encode.omitempty", len(want) > 1, hx.Hex(buf.Bytes()))
		if p != "" || err != nil {
			o.Fail("C01.encode.omitempty", "value %+v: err=%v panic=%q", v, err, p)
			continue
		}
		t, _, rest, perr := c01x.ParseDoc(buf.Bytes(), file)
		ok := perr == nil && len(rest) == 0 && t.Kind == c01x.Compound && len(t.Keys) == len(want)
		if ok {
			for _, key := range t.Keys {
				ok = ok && want[string(key)]
			}
		}
		if !ok {
			keys := []string{}
			if t != nil {
				for _, k := range t.Keys {
					keys = append(keys, string(k))
				}
			}
			o.Fail("C01.encode.omitempty", "value %+v: encoder wrote keys %v (%s), the rule assigns %v", v, keys, hx.Hex(buf.Bytes()), want)
		}
	}
}
