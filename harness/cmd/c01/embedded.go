// The documented embedded-field rule of the encoder/decoder (promotion of the fields of anonymous struct
// fields, the shallowest one of a name wins), checked on the implementation against an expected document
// written by hand from the rule - predicate only; the typed model of these rules is C02's (Model/C02.v Part 6).
package main

import (
	"bytes"
	"reflect"

	"github.com/Tnze/go-mc/nbt"
	"verif/harness/c01x"
	"verif/harness/hx"
)

type emb3 struct {
	X int32  `nbt:"X"`
	Y string `nbt:"Y"`
	W int16  `nbt:"W"`
}
type emb2 struct {
	emb3
	V int64 `nbt:"V"`
}
type emb1 struct {
	emb2
	Y int8 `nbt:"Y"` // hides the deeper Y
}
type embRoot struct {
	emb1
	Z int8 `nbt:"Z"`
}
type embPtrRoot struct {
	*emb2
	Q int32 `nbt:"Q"`
}

func embeddedCases(o *hx.Out) {
	r := o.R
	for i := 0; i < o.N(40, 5); i++ {
		x, y3, w, v, y1, z := int32(r.Next()), string(rune('a'+r.Intn(26)))+"s", int16(r.Next()), int64(r.Next()), int8(r.Next()), int8(r.Next())
		val := embRoot{emb1: emb1{emb2: emb2{emb3: emb3{X: x, Y: y3, W: w}, V: v}, Y: y1}, Z: z}
		file := i%2 == 0
		// what the rule assigns: the promoted fields of the deepest struct in declaration order, then each
		// level's own fields; the shallower Y (Byte) replaces the deeper Y (String), at the deeper one's place
		// or its own - so compare as a key -> value map with the expected tag types
		want := map[string]*c01x.Tree{
			"X": {Kind: c01x.Int, I: int64(x)}, "W": {Kind: c01x.Short, I: int64(w)}, "V": {Kind: c01x.Long, I: v},
			"Y": {Kind: c01x.Byte, I: int64(y1)}, "Z": {Kind: c01x.Byte, I: int64(z)},
		}
		for _, byPtr := range []bool{false, true} {
			var buf bytes.Buffer
			var err error
			var in any = val
			if byPtr {
				in = &val
			}
			p := hx.Try(func() {
				e := nbt.NewEncoder(&buf)
				e.NetworkFormat(!file)
				err = e.Encode(in, "r")
			})
			o.Eval("encode.embedded", true, hx.Hex(buf.Bytes()))
			if p != "" || err != nil {
				o.Fail("C01.encode.embedded", "3 levels of embedding: err=%v panic=%q", err, p)
				continue
			}
			t, _, rest, perr := c01x.ParseDoc(buf.Bytes(), file)
			ok := perr == nil && len(rest) == 0 && t.Kind == c01x.Compound && len(t.Keys) == len(want)
			if ok {
				for k, key := range t.Keys {
					wv := want[string(key)]
					if wv == nil || t.List[k].Kind != wv.Kind || t.List[k].I != wv.I {
						ok = false
					}
				}
			}
			if !ok {
				o.Fail("C01.encode.embedded", "3 levels of embedding, value X=%d Y3=%q W=%d V=%d Y1=%d Z=%d: encoder wrote %s", x, y3, w, v, y1, z, hx.Hex(buf.Bytes()))
				continue
			}
			var back embRoot
			d := nbt.NewDecoder(bytes.NewReader(buf.Bytes()))
			d.NetworkFormat(!file)
			_, derr := d.Decode(&back)
			wantBack := val
			wantBack.emb1.emb2.emb3.Y = "" // the hidden deeper Y is never written
			if derr != nil || !reflect.DeepEqual(back, wantBack) {
				o.Fail("C01.decode.embedded", "3 levels of embedding: decoded %+v, want %+v (err=%v)", back, wantBack, derr)
			}
		}
		// embedded pointer, nil and non-nil
		for _, inner := range []*emb2{nil, {emb3: emb3{X: x, Y: y3, W: w}, V: v}} {
			pv := embPtrRoot{emb2: inner, Q: x}
			var buf bytes.Buffer
			var err error
			p := hx.Try(func() { err = nbt.NewEncoder(&buf).Encode(pv, "r") })
			o.Eval("encode.embedded-pointer", true, hx.Hex(buf.Bytes()))
			if p != "" || err != nil {
				o.Fail("C01.encode.embedded", "embedded pointer (nil=%v): err=%v panic=%q", inner == nil, err, p)
				continue
			}
			t, _, _, perr := c01x.ParseDoc(buf.Bytes(), true)
			n := 1
			if inner != nil {
				n = 5
			}
			if perr != nil || t.Kind != c01x.Compound || len(t.Keys) != n {
				o.Fail("C01.encode.embedded", "embedded pointer (nil=%v): encoder wrote %s", inner == nil, hx.Hex(buf.Bytes()))
			}
		}
	}
}
