// C01 harness: NBT binary codec against the extracted model (spec encoder + decoder models + encoder
// model) and the property predicate evaluated directly on the implementation with an independent
// reference encoder / strict parser (harness/c01x).
package main

import (
	"bytes"
	"fmt"
	"strings"

	"github.com/Tnze/go-mc/nbt"
	"verif/harness/c01x"
	"verif/harness/hx"
)

var idx int

func fmtName(file bool) string {
	if file {
		return "file"
	}
	return "net"
}

// one generated document, every destination
func decodeTree(o *hx.Out, cat string, t *c01x.Tree, file bool, name, trail []byte) {
	r := o.R
	data := append(t.Doc(file, name), trail...)
	var tok strings.Builder
	t.Tokens(&tok)
	var payload bytes.Buffer
	t.Payload(&payload)
	wantName := name
	if !file {
		wantName = nil
	}
	targets := append([]string{}, c01x.Targets...)
	targets = append(targets, "ty:"+c01x.FitType(r, t, false))
	if r.Intn(3) == 0 {
		targets = append(targets, "ty:"+c01x.FitType(r, t, false))
	}
	if r.Intn(4) == 0 {
		targets = append(targets, "ty:"+c01x.MisfitType(r))
	}
	for _, target := range targets {
		idx++
		mode := r.Intn(4)
		res := c01x.RunTarget(file, target, data, mode)
		hd := fmt.Sprintf("T %d", idx)
		o.Case(cat+"."+strings.SplitN(target, ":", 2)[0], t.Size() > 1 || len(trail) > 0,
			fmt.Sprintf("T %d %s %s %s %s%s", idx, fmtName(file), target, hx.Hex(name), hx.Hex(trail), tok.String()),
			res.Line(hd))
		// ---- the property predicate, from the format definition only
		desc := func() string {
			d := hx.Hex(data)
			if len(d) > 400 {
				d = d[:400] + "..."
			}
			return fmt.Sprintf("fmt=%s target=%s mode=%d root=%d doc=%s got=%s", fmtName(file), target, mode, t.Kind, d, clip(res.Line("")))
		}
		if res.Class == "panic" || res.Class == "hang" {
			o.Fail("C01.decode."+res.Class, "%s panic=%s", desc(), res.Panic)
			continue
		}
		var want strings.Builder
		fits := true
		switch target {
		case "any":
			t.ExpectAny(&want)
		case "map":
			fits = t.Kind == c01x.Compound
			t.ExpectAny(&want)
		case "raw":
			fmt.Fprintf(&want, "R%d:%s", t.Kind, hx.Hex(payload.Bytes()))
		case "dyn":
			t.ExpectDyn(&want)
		case "snbt":
			want.WriteByte('-')
		case "skip":
			fits = t.Kind == c01x.Compound
			want.WriteByte('-')
		default: // typed: only exact consumption is checked here, the value is compared with the model
			if res.Class == "ok" && res.Left != len(trail) {
				o.Fail("C01.decode.overread", "%s left=%d want=%d", desc(), res.Left, len(trail))
			}
			continue
		}
		if !fits {
			if res.Class == "ok" {
				o.Fail("C01.decode.misfit-accepted", "%s", desc())
			}
			continue
		}
		if res.Class != "ok" {
			o.Fail("C01.decode.rejected."+target, "%s err=%v", desc(), res.Err)
			continue
		}
		if res.Left != len(trail) {
			o.Fail("C01.decode.overread", "%s left=%d want=%d", desc(), res.Left, len(trail))
		}
		if res.Value != want.String() {
			o.Fail("C01.decode.value."+target, "%s want=%s", desc(), clip(want.String()))
		}
		if !bytes.Equal(res.Name, wantName) {
			o.Fail("C01.decode.name", "%s want=%s", desc(), hx.Hex(wantName))
		}
	}
}

func clip(s string) string {
	if len(s) > 300 {
		return s[:300] + "..."
	}
	return s
}

// raw bytes (malformed stream, End root, compression headers)
func decodeRaw(o *hx.Out, cat string, file bool, data []byte, mustErr bool) {
	for _, target := range append(append([]string{}, c01x.Targets...), "ty:"+c01x.MisfitType(o.R)) {
		idx++
		res := c01x.RunTarget(file, target, data, o.R.Intn(4))
		o.Case(cat+"."+strings.SplitN(target, ":", 2)[0], len(data) > 1,
			fmt.Sprintf("R %d %s %s %s", idx, fmtName(file), target, hx.Hex(data)), res.Line(fmt.Sprintf("R %d", idx)))
		if res.Class == "panic" || res.Class == "hang" {
			o.Fail("C01.decode."+res.Class, "fmt=%s target=%s input=%s panic=%s", fmtName(file), target, clip(hx.Hex(data)), res.Panic)
		} else if mustErr && res.Class == "ok" && !(target == "dyn" && len(data) > 0 && data[0] == 0) {
			o.Fail("C01.decode.accepted-malformed", "fmt=%s target=%s input=%s got=%s", fmtName(file), target, clip(hx.Hex(data)), clip(res.Line("")))
		}
	}
}

func encodeValue(o *hx.Out, cat string, g *c01x.GV, file bool, name []byte) {
	idx++
	var buf bytes.Buffer
	var err error
	p := hx.Try(func() {
		e := nbt.NewEncoder(&buf)
		e.NetworkFormat(!file)
		err = e.Encode(g.ToGo(), string(name))
	})
	out := buf.Bytes()
	line := fmt.Sprintf("E %d ok %s", idx, hx.Hex(out))
	if p != "" {
		line = fmt.Sprintf("E %d panic", idx)
	} else if err != nil {
		line = fmt.Sprintf("E %d err", idx)
	}
	if p == "" && err == nil {
		if t, _, _, perr := c01x.ParseDoc(out, file); perr == nil {
			g.Reorder(t) // Go's map iteration order, read off the output, becomes an input of the model
		}
	}
	var tok strings.Builder
	g.Tokens(&tok)
	o.Case(cat, g.K == '[' || g.K == '{', fmt.Sprintf("E %d %s %s%s", idx, fmtName(file), hx.Hex(name), tok.String()), line)
	if p != "" || err != nil {
		return // the encoder did not accept the value: nothing claimed here (C02 owns no-panic)
	}
	want := g.Image()
	desc := fmt.Sprintf("fmt=%s name=%s value=%s out=%s", fmtName(file), clip(hx.Hex(name)), clip(tok.String()), clip(hx.Hex(out)))
	if want == nil || (file && len(name) > 32767) {
		o.Fail("C01.encode.accepted-unmappable", "%s", desc)
		return
	}
	if ok, why := c01x.SameDoc(out, file, name, want); !ok {
		o.Fail("C01.encode.malformed", "%s: %s", desc, why)
	}
}

func main() {
	o := hx.Open()
	defer o.Close()
	r := o.R
	// ---- decode: every root kind, both formats, boundary names and trailing bytes
	names := [][]byte{{}, []byte("root"), {0}, {0xff, 0x00, 0x80}}
	for root := byte(1); root <= 12; root++ {
		for rep := 0; rep < o.N(12, 10); rep++ {
			t := c01x.GenDoc(r, root)
			file := rep%2 == 0
			decodeTree(o, "decode.root", t, file, names[r.Intn(len(names))], r.Bytes(r.Intn(17)))
		}
	}
	// long root name, long strings
	for rep := 0; rep < o.N(3, 4); rep++ {
		b := 3
		t := c01x.Gen(r, c01x.Compound, 3, &b, true)
		decodeTree(o, "decode.big", t, true, r.Bytes(32767-rep), r.Bytes(r.Intn(4)))
		s := &c01x.Tree{Kind: c01x.String, Bytes: r.Bytes(32767 - rep)}
		decodeTree(o, "decode.big", s, rep%2 == 0, []byte("s"), r.Bytes(r.Intn(4)))
	}
	// sequences longer than the decoder's first allocation step (65536 elements): the slice is grown in
	// steps while the elements arrive, the result must still have exactly the declared elements
	for rep, n := range []int{65537, 70000, 65536, 131073, 65535, 131071} {
		if rep >= o.N(2, 3) {
			break
		}
		l := &c01x.Tree{Kind: c01x.List, Eid: c01x.Short}
		ia := &c01x.Tree{Kind: c01x.IntArray}
		la := &c01x.Tree{Kind: c01x.LongArray}
		ba := &c01x.Tree{Kind: c01x.ByteArray, Bytes: r.Bytes(n)}
		for i := 0; i < n; i++ {
			v := int64(int16(r.Next()))
			l.List = append(l.List, &c01x.Tree{Kind: c01x.Short, I: v})
			ia.Ints = append(ia.Ints, int64(int32(r.Next())))
			la.Ints = append(la.Ints, int64(r.Next()))
		}
		for _, t := range []*c01x.Tree{l, ia, la, ba} { // RawMessage included: the driver captures in linear time (decode_raw_fast)
			decodeTree(o, "decode.long-sequence", t, rep%2 == 0, []byte("q"), r.Bytes(r.Intn(3)))
		}
	}
	// one SHALLOW compound with more entries than the decoder's nesting limit (10 000), every entry a list or
	// array of fixed-width scalars: whatever a target skips or captures entry by entry must leave the decoder's
	// depth accounting balanced - a wide document is not a deep one
	for rep := 0; rep < o.N(1, 2); rep++ {
		wide := &c01x.Tree{Kind: c01x.Compound}
		eids := []byte{c01x.Byte, c01x.Short, c01x.Int, c01x.Long, c01x.Float, c01x.Double}
		for i := 0; i < 10050+rep*7; i++ {
			e := eids[i%len(eids)]
			l := &c01x.Tree{Kind: c01x.List, Eid: e}
			for j := 0; j < 1+i%3; j++ {
				x := &c01x.Tree{Kind: e, I: int64(int8(i + j))}
				if e == c01x.Float {
					x.Bits = uint64(0x3f800000 + i)
				} else if e == c01x.Double {
					x.Bits = 0x3ff0000000000000 + uint64(i)
				}
				l.List = append(l.List, x)
			}
			wide.Keys = append(wide.Keys, []byte(fmt.Sprintf("k%d", i)))
			wide.List = append(wide.List, l)
		}
		decodeTree(o, "decode.wide-compound", wide, rep%2 == 0, []byte("w"), r.Bytes(rep))
	}
	// empty lists with every element id, nested empties
	for eid := byte(0); eid <= 12; eid++ {
		t := &c01x.Tree{Kind: c01x.List, Eid: eid}
		decodeTree(o, "decode.emptylist", t, eid%2 == 0, nil, r.Bytes(r.Intn(5)))
		tt := &c01x.Tree{Kind: c01x.List, Eid: c01x.List, List: []*c01x.Tree{t, {Kind: c01x.List, Eid: c01x.End}}}
		decodeTree(o, "decode.emptylist", tt, eid%2 == 1, nil, r.Bytes(r.Intn(5)))
	}
	n := o.N(2600, 20)
	for i := 0; i < n; i++ {
		t := c01x.GenDoc(r, 0)
		if r.Intn(3) == 0 {
			t = c01x.GenDoc(r, c01x.Compound)
		}
		name := c01x.GenKey(r)
		decodeTree(o, "decode.random", t, r.Bool(), name, r.Bytes(r.Intn(17)))
	}
	// ---- malformed: End root, compression headers, unknown ids, negative lengths, truncations
	for _, file := range []bool{true, false} {
		decodeRaw(o, "raw.end", file, []byte{0}, true)
		decodeRaw(o, "raw.end", file, []byte{0, 0, 0, 1, 2}, true)
		decodeRaw(o, "raw.empty", file, nil, true)
		decodeRaw(o, "raw.gzip", file, []byte{0x1f, 0x8b, 0x08, 0, 0, 0, 0, 0}, true)
		decodeRaw(o, "raw.zlib", file, []byte{0x78, 0x9c, 0x01, 0, 0, 0xff, 0xff}, true)
		for _, id := range []byte{13, 14, 0x1e, 0x20, 0x77, 0x79, 0x80, 0xff} {
			decodeRaw(o, "raw.unknown", file, []byte{id, 0, 0, 0, 0, 0, 0, 0, 0, 0, 0}, true)
		}
	}
	for i := 0; i < o.N(150, 10); i++ {
		t := c01x.GenDoc(r, 0)
		file := r.Bool()
		d := t.Doc(file, c01x.GenKey(r))
		if len(d) > 1 {
			decodeRaw(o, "raw.truncated", file, d[:1+r.Intn(len(d)-1)], true)
		}
		e := append([]byte{}, d...)
		e[r.Intn(len(e))] ^= 1 << uint(r.Intn(8))
		decodeRaw(o, "raw.bitflip", file, e, false)
	}
	// ---- encode
	longs := []int{32767, 32768, 40000, 65535, 65536, 70000}
	for i, l := range longs {
		encodeValue(o, "encode.long", &c01x.GV{K: 's', S: r.Bytes(l)}, i%2 == 0, nil)
		encodeValue(o, "encode.long", &c01x.GV{K: 'b', B: true}, true, r.Bytes(l))
		encodeValue(o, "encode.long", &c01x.GV{K: '{', Keys: [][]byte{r.Bytes(l)}, L: []*c01x.GV{{K: 'i', Ty: "i8", I: 1}}}, true, nil)
		encodeValue(o, "encode.long", &c01x.GV{K: '[', Ty: "str", L: []*c01x.GV{{K: 's', S: r.Bytes(l)}}}, false, nil)
	}
	encodeValue(o, "encode.nil", &c01x.GV{K: 'n'}, true, nil)
	// []any of integers of MIXED widths: the array tag is chosen from the first element; a later wider
	// element must be refused or survive - never be truncated
	iv := func(ty string, v int64) *c01x.GV { return &c01x.GV{K: 'i', Ty: ty, I: v} }
	mixes := [][]*c01x.GV{
		{iv("i32", 1), iv("i64", 1<<40)}, {iv("i32", 1), iv("i64", 7)}, {iv("i64", 1<<40), iv("i32", 1)},
		{iv("i8", 1), iv("i16", 300)}, {iv("i8", 1), iv("i32", 1<<20)}, {iv("i32", -1), iv("i32", 2), iv("i64", -(1 << 35))},
		{iv("i16", 5), iv("i8", 1)}, {iv("i32", 1), {K: 'n'}}, {iv("i64", 1), {K: 's', S: []byte("x")}},
		{iv("int", 1<<40), iv("i32", 3)}, {iv("i32", 3), iv("int", 1<<40)},
	}
	for i, mx := range mixes {
		encodeValue(o, "encode.mixed-widths", &c01x.GV{K: '[', Ty: "any", L: mx}, i%2 == 0, []byte("m"))
		encodeValue(o, "encode.mixed-widths", &c01x.GV{K: '{', Keys: [][]byte{[]byte("k")}, L: []*c01x.GV{{K: '[', Ty: "any", L: mx}}}, i%2 == 1, nil)
	}
	for _, ty := range []string{"bool", "i8", "u8", "i16", "u16", "i32", "u32", "i64", "u64", "int", "uint", "f32", "f64", "str", "map", "any", "sl:u8", "sl:any", "sl:sl:i32"} {
		for rep := 0; rep < o.N(6, 5); rep++ {
			encodeValue(o, "encode.type", c01x.GenOfType(r, ty, 2), rep%2 == 0, c01x.GenKey(r))
			encodeValue(o, "encode.slice", c01x.GenOfType(r, "sl:"+ty, 2), rep%2 == 0, c01x.GenKey(r))
		}
	}
	embeddedCases(o)
	omitCases(o)
	m := o.N(2000, 20)
	for i := 0; i < m; i++ {
		var g *c01x.GV
		switch r.Intn(4) {
		case 0:
			g = c01x.GenOfType(r, "map", 3)
		case 1:
			g = c01x.GenOfType(r, "sl:any", 3)
		default:
			g = c01x.GenGV(r, 3)
		}
		encodeValue(o, "encode.random", g, r.Bool(), c01x.GenKey(r))
	}
}
