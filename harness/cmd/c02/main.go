// C02 harness: typed round trip Unmarshal(Marshal(v)) == v over randomly generated Go TYPES (built with
// reflect) and values, against the extracted model (Model/C02.v: marshal / unmarshal), plus the property
// predicate evaluated directly on the implementation: no panic, output is a well-formed document (strict
// parser of harness/c01x), decoding into a fresh variable succeeds, consumes everything, returns the root
// name and a value equal to v under the property's equality (computed here, independently of the model),
// Marshal does not modify v; carriers (RawMessage, *dynbt.Value) re-encode what they decoded byte for byte.
package main

import (
	"bytes"
	"fmt"
	"math"
	"reflect"
	"sort"
	"strconv"
	"strings"

	"github.com/Tnze/go-mc/nbt"
	"github.com/Tnze/go-mc/nbt/dynbt"
	"verif/harness/c01x"
	"verif/harness/hx"
)

// ---------------------------------------------------------------- types

type Fld struct {
	Go   string // Go field name (exported)
	Name string // NBT name in the field table
	Tag  string // struct tag text
	Omit bool
	List bool
	Skip bool
	T    *Ty
}

type Ty struct {
	K  string // bool i8 u8 i16 u16 i32 u32 i64 u64 f32 f64 str sl ar map st ptr any raw dyn
	N  int    // ar
	E  *Ty    // sl ar map ptr
	F  []Fld  // st
	rt reflect.Type
}

var (
	anyType = reflect.TypeOf((*any)(nil)).Elem()
	rawType = reflect.TypeOf(nbt.RawMessage{})
	dynType = reflect.TypeOf((*dynbt.Value)(nil))
)

func (t *Ty) RT() reflect.Type {
	if t.rt != nil {
		return t.rt
	}
	switch t.K {
	case "bool":
		t.rt = reflect.TypeOf(false)
	case "i8":
		t.rt = reflect.TypeOf(int8(0))
	case "u8":
		t.rt = reflect.TypeOf(uint8(0))
	case "i16":
		t.rt = reflect.TypeOf(int16(0))
	case "u16":
		t.rt = reflect.TypeOf(uint16(0))
	case "i32":
		t.rt = reflect.TypeOf(int32(0))
	case "u32":
		t.rt = reflect.TypeOf(uint32(0))
	case "i64":
		t.rt = reflect.TypeOf(int64(0))
	case "u64":
		t.rt = reflect.TypeOf(uint64(0))
	case "f32":
		t.rt = reflect.TypeOf(float32(0))
	case "f64":
		t.rt = reflect.TypeOf(float64(0))
	case "str":
		t.rt = reflect.TypeOf("")
	case "sl":
		t.rt = reflect.SliceOf(t.E.RT())
	case "ar":
		t.rt = reflect.ArrayOf(t.N, t.E.RT())
	case "map":
		t.rt = reflect.MapOf(reflect.TypeOf(""), t.E.RT())
	case "ptr":
		t.rt = reflect.PointerTo(t.E.RT())
	case "any":
		t.rt = anyType
	case "raw":
		t.rt = rawType
	case "dyn":
		t.rt = dynType
	case "st":
		fs := make([]reflect.StructField, len(t.F))
		for i, f := range t.F {
			fs[i] = reflect.StructField{Name: f.Go, Type: f.T.RT(), Tag: reflect.StructTag(f.Tag)}
		}
		t.rt = reflect.StructOf(fs)
	default:
		panic("type " + t.K)
	}
	return t.rt
}

func (t *Ty) Tokens(sb *strings.Builder) {
	sb.WriteByte(' ')
	sb.WriteString(t.K)
	switch t.K {
	case "sl", "map", "ptr":
		t.E.Tokens(sb)
	case "ar":
		fmt.Fprintf(sb, " %d", t.N)
		t.E.Tokens(sb)
	case "st":
		fmt.Fprintf(sb, " %d", len(t.F))
		for _, f := range t.F {
			fl := ""
			if f.Omit {
				fl += "o"
			}
			if f.List {
				fl += "l"
			}
			if f.Skip {
				fl += "s"
			}
			if fl == "" {
				fl = "-"
			}
			sb.WriteString(" " + hx.Hex([]byte(f.Name)) + " " + fl)
			f.T.Tokens(sb)
		}
	}
}

var scalarKinds = []string{"bool", "i8", "u8", "i16", "u16", "i32", "u32", "i64", "u64", "f32", "f64", "str"}
var namePool = []string{"a", "b", "A", "Name", "name", "x_y", "id", "Id", "", "k9", "Pos", "list", "v", "W"}

func isMarshalerTy(t *Ty) bool {
	for t.K == "ptr" {
		t = t.E
	}
	return t.K == "raw" || t.K == "dyn"
}

func genTy(r *hx.Rng, depth int) *Ty {
	if depth <= 0 || r.Intn(10) < 4 {
		switch r.Intn(14) {
		case 0:
			return &Ty{K: "any"}
		case 1:
			return &Ty{K: "raw"}
		case 2:
			return &Ty{K: "dyn"}
		}
		return &Ty{K: scalarKinds[r.Intn(len(scalarKinds))]}
	}
	switch r.Intn(12) {
	case 0, 1, 2:
		return &Ty{K: "sl", E: genTy(r, depth-1)}
	case 3, 4:
		return &Ty{K: "ar", N: r.Intn(4), E: genTy(r, depth-1)}
	case 5:
		return &Ty{K: "map", E: genTy(r, depth-1)}
	case 6, 7:
		return &Ty{K: "ptr", E: genTy(r, depth-1)}
	}
	return genStruct(r, depth)
}

func genStruct(r *hx.Rng, depth int) *Ty {
	t := &Ty{K: "st"}
	n := r.Intn(5)
	used := map[string]bool{}
	for i := 0; i < n; i++ {
		f := Fld{Go: fmt.Sprintf("F%d", i), T: genTy(r, depth-1)}
		f.Name = f.Go
		var tag []string
		switch r.Intn(6) {
		case 0, 1: // tag name
			nm := namePool[r.Intn(len(namePool))]
			if nm != "" && !used[nm] {
				f.Name = nm
			}
			if f.Name != f.Go {
				tag = append(tag, f.Name)
			} else {
				tag = append(tag, "")
			}
		case 2: // nbtkey
			nm := namePool[r.Intn(len(namePool))]
			if nm != "" && !used[nm] {
				f.Name = nm
				f.Tag = `nbtkey:"` + nm + `" `
			}
			tag = append(tag, "")
		default:
			tag = append(tag, "")
		}
		used[f.Name] = true
		if r.Intn(10) < 3 {
			f.Omit = true
			tag = append(tag, "omitempty")
		}
		// a slice or array (possibly behind pointers) whose elements (possibly pointers) are byte/int32/int64-tagged
		seq := f.T
		for seq.K == "ptr" {
			seq = seq.E
		}
		arrayish := false
		if seq.K == "sl" || seq.K == "ar" {
			el := seq.E
			for el.K == "ptr" {
				el = el.E
			}
			arrayish = el.K == "bool" || el.K == "i8" || el.K == "u8" || el.K == "i32" || el.K == "u32" || el.K == "i64" || el.K == "u64"
		}
		// the option on other field types is an encoder error; on a Marshaler (or an interface or pointer that may
		// hold one) whose TagType is an array the encoder writes the array payload under a TagList header (a
		// malformed document, reported to C01's owner: not a use the documentation names) - not generated
		base := f.T
		for base.K == "ptr" {
			base = base.E
		}
		mayMarshal := base.K == "any" || base.K == "raw" || base.K == "dyn"
		if (arrayish && r.Intn(3) == 0) || (r.Intn(40) == 0 && !mayMarshal) {
			f.List = true
			tag = append(tag, "list")
		}
		if r.Intn(10) == 0 {
			f.Skip = true
			f.Tag += `nbt:"-"`
		} else if len(tag) > 1 || tag[0] != "" {
			f.Tag += `nbt:"` + strings.Join(tag, ",") + `"`
		}
		f.Tag = strings.TrimSpace(f.Tag)
		t.F = append(t.F, f)
	}
	return t
}

// ---------------------------------------------------------------- dynamic values held by interfaces

type AV struct {
	K    byte // b s i l f d B S I L [ {
	I    int64
	Bits uint64
	S    []byte
	Ints []int64
	L    []*AV
	Keys [][]byte
}

func (a *AV) tagOf() byte {
	switch a.K {
	case 'b':
		return 1
	case 's':
		return 2
	case 'i':
		return 3
	case 'l':
		return 4
	case 'f':
		return 5
	case 'd':
		return 6
	case 'B':
		return 7
	case 'S':
		return 8
	case '{':
		return 10
	case 'I':
		return 11
	case 'L':
		return 12
	}
	if len(a.L) == 0 {
		return 9
	}
	switch a.L[0].tagOf() {
	case 1:
		return 7
	case 3:
		return 11
	case 4:
		return 12
	}
	return 9
}

func genInt(r *hx.Rng, bits uint) int64 {
	lo, hi := -(int64(1) << (bits - 1)), int64(1)<<(bits-1)-1
	switch r.Intn(8) {
	case 0:
		return lo
	case 1:
		return hi
	case 2:
		return -1
	case 3:
		return 0
	case 4:
		return int64(r.Intn(256)) - 128
	case 5:
		return lo + int64(r.Intn(3))
	case 6:
		return hi - int64(r.Intn(3))
	}
	v := int64(r.Next())
	if bits < 64 {
		v >>= 64 - bits
	}
	return v
}

func genUint(r *hx.Rng, bits uint) uint64 {
	max := uint64(math.MaxUint64) >> (64 - bits)
	switch r.Intn(7) {
	case 0:
		return 0
	case 1:
		return max
	case 2:
		return uint64(1) << (bits - 1)
	case 3:
		return uint64(1)<<(bits-1) - 1
	case 4:
		return uint64(r.Intn(256))
	}
	return r.Next() >> (64 - bits)
}

func genF32(r *hx.Rng) uint64 {
	switch r.Intn(9) {
	case 0:
		return 0x80000000 // -0.0
	case 1:
		return 0x7fc00001
	case 2:
		return 0xffc12345
	case 3:
		return 0x7f800000
	case 4:
		return 1
	case 5:
		return uint64(math.Float32bits(1.5))
	case 6:
		return 0
	}
	b := uint32(r.Next())
	if b&0x7f800000 == 0x7f800000 && b&0x007fffff != 0 {
		b |= 0x00400000 // signalling NaNs may be quieted when moved through float64
	}
	return uint64(b)
}

func genF64(r *hx.Rng) uint64 {
	switch r.Intn(9) {
	case 0:
		return 0x8000000000000000
	case 1:
		return 0x7ff8000000000001
	case 2:
		return 0xfff8123456789abc
	case 3:
		return 0xfff0000000000000
	case 4:
		return 1
	case 5:
		return math.Float64bits(-2.25)
	case 6:
		return 0
	}
	b := r.Next()
	if b&0x7ff0000000000000 == 0x7ff0000000000000 && b&0x000fffffffffffff != 0 {
		b |= 0x0008000000000000
	}
	return b
}

func genStr(r *hx.Rng) []byte {
	switch r.Intn(40) {
	case 0:
		return r.Bytes(32767)
	case 1:
		return r.Bytes(32768)
	case 2, 3, 4, 5:
		return []byte{}
	case 6:
		return []byte("héllo")
	}
	return r.Bytes(r.Intn(10))
}

func genKey(r *hx.Rng) []byte {
	switch r.Intn(8) {
	case 0:
		return []byte{}
	case 1:
		return []byte{0xff, 0x00}
	case 2:
		return []byte("Name")
	}
	return []byte{byte('a' + r.Intn(6)), byte('0' + r.Intn(3))}[:1+r.Intn(2)]
}

func distinctKeys(r *hx.Rng, n int) [][]byte {
	var ks [][]byte
	seen := map[string]bool{}
	for len(ks) < n {
		k := genKey(r)
		if !seen[string(k)] {
			seen[string(k)] = true
			ks = append(ks, k)
		}
	}
	return ks
}

// genAV: kind 0 = any.  canonical: a value the decoder itself would produce.
func genAV(r *hx.Rng, kind byte, depth int, canonical bool) *AV {
	kinds := "bsilfdBSIL[{"
	if kind == 0 {
		kind = kinds[r.Intn(len(kinds))]
		if depth <= 0 && (kind == '[' || kind == '{') {
			kind = kinds[r.Intn(10)]
		}
	}
	a := &AV{K: kind}
	switch kind {
	case 'b':
		a.I = genInt(r, 8)
	case 's':
		a.I = genInt(r, 16)
	case 'i':
		a.I = genInt(r, 32)
	case 'l':
		a.I = genInt(r, 64)
	case 'f':
		a.Bits = genF32(r)
	case 'd':
		a.Bits = genF64(r)
	case 'B', 'S':
		a.S = genStr(r)
		if kind == 'B' && len(a.S) > 1000 {
			a.S = a.S[:5]
		}
	case 'I', 'L':
		n := r.Intn(4)
		for i := 0; i < n; i++ {
			if kind == 'I' {
				a.Ints = append(a.Ints, genInt(r, 32))
			} else {
				a.Ints = append(a.Ints, genInt(r, 64))
			}
		}
	case '[':
		n := r.Intn(4)
		if n == 0 {
			break
		}
		ek := byte(0)
		if canonical {
			// homogeneous, and not starting with a byte / int / long
			ok := "sfdBSIL[{"
			ek = ok[r.Intn(len(ok))]
			if depth <= 1 && (ek == '[' || ek == '{') {
				ek = ok[r.Intn(7)]
			}
		}
		for i := 0; i < n; i++ {
			var e *AV
			for tries := 0; ; tries++ {
				e = genAV(r, ek, depth-1, canonical)
				// a canonical list of lists: every inner list must itself be a TagList
				if !canonical || i == 0 || e.tagOf() == a.L[0].tagOf() || tries > 20 {
					break
				}
			}
			if canonical && ek == '[' && e.tagOf() != 9 {
				e = &AV{K: '['}
			}
			a.L = append(a.L, e)
		}
	case '{':
		n := r.Intn(4)
		a.Keys = distinctKeys(r, n)
		for i := 0; i < n; i++ {
			a.L = append(a.L, genAV(r, 0, depth-1, canonical))
		}
	}
	return a
}

func (a *AV) Go() any {
	switch a.K {
	case 'b':
		return int8(a.I)
	case 's':
		return int16(a.I)
	case 'i':
		return int32(a.I)
	case 'l':
		return a.I
	case 'f':
		return math.Float32frombits(uint32(a.Bits))
	case 'd':
		return math.Float64frombits(a.Bits)
	case 'B':
		return append([]byte{}, a.S...)
	case 'S':
		return string(a.S)
	case 'I':
		x := make([]int32, len(a.Ints))
		for i, v := range a.Ints {
			x[i] = int32(v)
		}
		return x
	case 'L':
		return append([]int64{}, a.Ints...)
	case '[':
		x := make([]any, len(a.L))
		for i, e := range a.L {
			x[i] = e.Go()
		}
		return x
	case '{':
		m := make(map[string]any, len(a.L))
		for i, e := range a.L {
			m[string(a.Keys[i])] = e.Go()
		}
		return m
	}
	panic("AV kind")
}

// avOf reads a dynamic value back (maps sorted by key); nil for anything outside the canonical set.
func avOf(v any) *AV {
	switch x := v.(type) {
	case int8:
		return &AV{K: 'b', I: int64(x)}
	case int16:
		return &AV{K: 's', I: int64(x)}
	case int32:
		return &AV{K: 'i', I: int64(x)}
	case int64:
		return &AV{K: 'l', I: x}
	case float32:
		return &AV{K: 'f', Bits: uint64(math.Float32bits(x))}
	case float64:
		return &AV{K: 'd', Bits: math.Float64bits(x)}
	case []byte:
		return &AV{K: 'B', S: append([]byte{}, x...)}
	case string:
		return &AV{K: 'S', S: []byte(x)}
	case []int32:
		a := &AV{K: 'I'}
		for _, e := range x {
			a.Ints = append(a.Ints, int64(e))
		}
		return a
	case []int64:
		return &AV{K: 'L', Ints: append([]int64{}, x...)}
	case []any:
		a := &AV{K: '['}
		for _, e := range x {
			c := avOf(e)
			if c == nil {
				return nil
			}
			a.L = append(a.L, c)
		}
		return a
	case map[string]any:
		a := &AV{K: '{'}
		ks := make([]string, 0, len(x))
		for k := range x {
			ks = append(ks, k)
		}
		sort.Strings(ks)
		for _, k := range ks {
			c := avOf(x[k])
			if c == nil {
				return nil
			}
			a.Keys = append(a.Keys, []byte(k))
			a.L = append(a.L, c)
		}
		return a
	}
	return nil
}

func sortedIdx(keys [][]byte) []int {
	idx := make([]int, len(keys))
	for i := range idx {
		idx[i] = i
	}
	sort.SliceStable(idx, func(x, y int) bool { return hx.Hex(keys[idx[x]]) < hx.Hex(keys[idx[y]]) })
	return idx
}

func (a *AV) Tokens(sb *strings.Builder, sorted bool) {
	switch a.K {
	case 'b', 's', 'i', 'l':
		fmt.Fprintf(sb, " %c %d", a.K, a.I)
	case 'f', 'd':
		fmt.Fprintf(sb, " %c %d", a.K, a.Bits)
	case 'B', 'S':
		fmt.Fprintf(sb, " %c %s", a.K, hx.Hex(a.S))
	case 'I', 'L':
		fmt.Fprintf(sb, " %c %d", a.K, len(a.Ints))
		for _, v := range a.Ints {
			sb.WriteByte(' ')
			sb.WriteString(strconv.FormatInt(v, 10))
		}
	case '[':
		fmt.Fprintf(sb, " [ %d", len(a.L))
		for _, e := range a.L {
			e.Tokens(sb, sorted)
		}
	case '{':
		fmt.Fprintf(sb, " { %d", len(a.L))
		idx := make([]int, len(a.L))
		for i := range idx {
			idx[i] = i
		}
		if sorted {
			idx = sortedIdx(a.Keys)
		}
		for _, i := range idx {
			sb.WriteString(" " + hx.Hex(a.Keys[i]))
			a.L[i].Tokens(sb, sorted)
		}
	}
}

// ---------------------------------------------------------------- values

type Val struct {
	K    byte // z n f d s [ { ( & 0(nil) a r y ?
	B    bool
	I    int64
	U    uint64
	Uns  bool
	Bits uint64
	S    []byte
	L    []*Val
	Keys [][]byte
	P    *Val
	A    *AV
	T    *c01x.Tree
	Nil  bool // build a nil slice / map instead of an empty one
}

func smallTree(r *hx.Rng) *c01x.Tree {
	budget := 3 + r.Intn(25)
	return c01x.Gen(r, 0, 1+r.Intn(4), &budget, false)
}

// genVal: inList = the value is an element of a slice or array
func genVal(r *hx.Rng, t *Ty, depth int, inList bool) *Val {
	switch t.K {
	case "bool":
		return &Val{K: 'z', B: r.Bool()}
	case "i8", "i16", "i32", "i64":
		bits := map[string]uint{"i8": 8, "i16": 16, "i32": 32, "i64": 64}[t.K]
		return &Val{K: 'n', I: genInt(r, bits)}
	case "u8", "u16", "u32", "u64":
		bits := map[string]uint{"u8": 8, "u16": 16, "u32": 32, "u64": 64}[t.K]
		return &Val{K: 'n', Uns: true, U: genUint(r, bits)}
	case "f32":
		return &Val{K: 'f', Bits: genF32(r)}
	case "f64":
		return &Val{K: 'd', Bits: genF64(r)}
	case "str":
		return &Val{K: 's', S: genStr(r)}
	case "sl":
		v := &Val{K: '[', Nil: r.Bool()}
		n := r.Intn(4)
		for i := 0; i < n; i++ {
			v.L = append(v.L, genVal(r, t.E, depth-1, true))
		}
		return v
	case "ar":
		v := &Val{K: '['}
		for i := 0; i < t.N; i++ {
			v.L = append(v.L, genVal(r, t.E, depth-1, true))
		}
		return v
	case "map":
		v := &Val{K: '{', Nil: r.Bool()}
		n := r.Intn(4)
		v.Keys = distinctKeys(r, n)
		for i := 0; i < n; i++ {
			v.L = append(v.L, genVal(r, t.E, depth-1, false))
		}
		return v
	case "st":
		v := &Val{K: '('}
		for _, f := range t.F {
			v.L = append(v.L, genVal(r, f.T, depth-1, false))
		}
		return v
	case "ptr":
		if r.Intn(4) == 0 {
			return &Val{K: '0'}
		}
		return &Val{K: '&', P: genVal(r, t.E, depth-1, inList)}
	case "any":
		if r.Intn(8) == 0 {
			return &Val{K: '0'}
		}
		return &Val{K: 'a', A: genAV(r, 0, 2, r.Intn(8) != 0)}
	case "raw":
		return &Val{K: 'r', T: smallTree(r)}
	case "dyn":
		if r.Intn(8) == 0 {
			return &Val{K: '0'}
		}
		return &Val{K: 'y', T: smallTree(r)}
	}
	panic("genVal " + t.K)
}

func dynOf(t *c01x.Tree) *dynbt.Value {
	v := new(dynbt.Value)
	d := nbt.NewDecoder(bytes.NewReader(t.Doc(false, nil)))
	d.NetworkFormat(true)
	if _, err := d.Decode(v); err != nil {
		panic("harness: dynbt cannot hold generated tree: " + err.Error())
	}
	return v
}

// build makes the Go value of type t.RT().
func build(t *Ty, v *Val) reflect.Value {
	rv := reflect.New(t.RT()).Elem()
	switch t.K {
	case "bool":
		rv.SetBool(v.B)
	case "i8", "i16", "i32", "i64":
		rv.SetInt(v.I)
	case "u8", "u16", "u32", "u64":
		rv.SetUint(v.U)
	case "f32":
		rv.Set(reflect.ValueOf(math.Float32frombits(uint32(v.Bits))))
	case "f64":
		rv.SetFloat(math.Float64frombits(v.Bits))
	case "str":
		rv.SetString(string(v.S))
	case "sl":
		if len(v.L) == 0 && v.Nil {
			break
		}
		s := reflect.MakeSlice(t.RT(), len(v.L), len(v.L))
		for i, e := range v.L {
			s.Index(i).Set(build(t.E, e))
		}
		rv.Set(s)
	case "ar":
		for i, e := range v.L {
			rv.Index(i).Set(build(t.E, e))
		}
	case "map":
		if len(v.L) == 0 && v.Nil {
			break
		}
		m := reflect.MakeMap(t.RT())
		for i, e := range v.L {
			m.SetMapIndex(reflect.ValueOf(string(v.Keys[i])), build(t.E, e))
		}
		rv.Set(m)
	case "st":
		for i, e := range v.L {
			rv.Field(i).Set(build(t.F[i].T, e))
		}
	case "ptr":
		if v.K == '0' {
			break
		}
		p := reflect.New(t.E.RT())
		p.Elem().Set(build(t.E, v.P))
		rv.Set(p)
	case "any":
		if v.K == '0' {
			break
		}
		rv.Set(reflect.ValueOf(v.A.Go()))
	case "raw":
		var b bytes.Buffer
		v.T.Payload(&b)
		rv.Set(reflect.ValueOf(nbt.RawMessage{Type: v.T.Kind, Data: b.Bytes()}))
	case "dyn":
		if v.K == '0' {
			break
		}
		rv.Set(reflect.ValueOf(dynOf(v.T)))
	}
	return rv
}

// fromReflect reads a Go value of type t back into a Val (maps sorted by key).
func fromReflect(t *Ty, rv reflect.Value) *Val {
	switch t.K {
	case "bool":
		return &Val{K: 'z', B: rv.Bool()}
	case "i8", "i16", "i32", "i64":
		return &Val{K: 'n', I: rv.Int()}
	case "u8", "u16", "u32", "u64":
		return &Val{K: 'n', Uns: true, U: rv.Uint()}
	case "f32":
		return &Val{K: 'f', Bits: uint64(f32bits(rv))}
	case "f64":
		return &Val{K: 'd', Bits: math.Float64bits(rv.Float())}
	case "str":
		return &Val{K: 's', S: []byte(rv.String())}
	case "sl", "ar":
		v := &Val{K: '['}
		for i := 0; i < rv.Len(); i++ {
			v.L = append(v.L, fromReflect(t.E, rv.Index(i)))
		}
		return v
	case "map":
		v := &Val{K: '{'}
		ks := rv.MapKeys()
		sort.Slice(ks, func(i, j int) bool { return ks[i].String() < ks[j].String() })
		for _, k := range ks {
			v.Keys = append(v.Keys, []byte(k.String()))
			v.L = append(v.L, fromReflect(t.E, rv.MapIndex(k)))
		}
		return v
	case "st":
		v := &Val{K: '('}
		for i := range t.F {
			v.L = append(v.L, fromReflect(t.F[i].T, rv.Field(i)))
		}
		return v
	case "ptr":
		if rv.IsNil() {
			return &Val{K: '0'}
		}
		return &Val{K: '&', P: fromReflect(t.E, rv.Elem())}
	case "any":
		if rv.IsNil() {
			return &Val{K: '0'}
		}
		a := avOf(rv.Interface())
		if a == nil {
			return &Val{K: '?', S: []byte(fmt.Sprintf("%T", rv.Interface()))}
		}
		return &Val{K: 'a', A: a}
	case "raw":
		m := rv.Interface().(nbt.RawMessage)
		if m.Type == 0 && len(m.Data) == 0 {
			return &Val{K: '0'}
		}
		tr, _, rest, err := c01x.ParseDoc(append([]byte{m.Type}, m.Data...), false)
		if err != nil || len(rest) != 0 {
			return &Val{K: '?', S: append([]byte{m.Type}, m.Data...)}
		}
		return &Val{K: 'r', T: tr}
	case "dyn":
		if rv.IsNil() {
			return &Val{K: '0'}
		}
		var b bytes.Buffer
		e := nbt.NewEncoder(&b)
		e.NetworkFormat(true)
		if err := e.Encode(rv.Interface(), ""); err != nil {
			return &Val{K: '?', S: []byte(err.Error())}
		}
		tr, _, rest, err := c01x.ParseDoc(b.Bytes(), false)
		if err != nil || len(rest) != 0 {
			return &Val{K: '?', S: b.Bytes()}
		}
		return &Val{K: 'y', T: tr}
	}
	panic("fromReflect " + t.K)
}

func (v *Val) Tokens(sb *strings.Builder, sorted bool) {
	switch v.K {
	case 'z':
		if v.B {
			sb.WriteString(" z 1")
		} else {
			sb.WriteString(" z 0")
		}
	case 'n':
		if v.Uns {
			fmt.Fprintf(sb, " n %d", v.U)
		} else {
			fmt.Fprintf(sb, " n %d", v.I)
		}
	case 'f', 'd':
		fmt.Fprintf(sb, " %c %d", v.K, v.Bits)
	case 's':
		sb.WriteString(" s " + hx.Hex(v.S))
	case '[', '(':
		fmt.Fprintf(sb, " %c %d", v.K, len(v.L))
		for _, e := range v.L {
			e.Tokens(sb, sorted)
		}
	case '{':
		fmt.Fprintf(sb, " { %d", len(v.L))
		idx := make([]int, len(v.L))
		for i := range idx {
			idx[i] = i
		}
		if sorted {
			idx = sortedIdx(v.Keys)
		}
		for _, i := range idx {
			sb.WriteString(" " + hx.Hex(v.Keys[i]))
			v.L[i].Tokens(sb, sorted)
		}
	case '&':
		sb.WriteString(" &")
		v.P.Tokens(sb, sorted)
	case '0':
		sb.WriteString(" nil")
	case 'a':
		sb.WriteString(" a")
		v.A.Tokens(sb, sorted)
	case 'r', 'y':
		fmt.Fprintf(sb, " %c", v.K)
		v.T.Tokens(sb)
	case '?':
		sb.WriteString(" ?" + hx.Hex(v.S))
	}
}

func toks(v *Val, sorted bool) string {
	var sb strings.Builder
	v.Tokens(&sb, sorted)
	return sb.String()
}

// ---------------------------------------------------------------- the property's equality (independent of the model)

func zeroVal(t *Ty) *Val {
	switch t.K {
	case "bool":
		return &Val{K: 'z'}
	case "i8", "i16", "i32", "i64":
		return &Val{K: 'n'}
	case "u8", "u16", "u32", "u64":
		return &Val{K: 'n', Uns: true}
	case "f32":
		return &Val{K: 'f'}
	case "f64":
		return &Val{K: 'd'}
	case "str":
		return &Val{K: 's'}
	case "sl":
		return &Val{K: '['}
	case "ar":
		v := &Val{K: '['}
		for i := 0; i < t.N; i++ {
			v.L = append(v.L, zeroVal(t.E))
		}
		return v
	case "map":
		return &Val{K: '{'}
	case "st":
		v := &Val{K: '('}
		for _, f := range t.F {
			v.L = append(v.L, zeroVal(f.T))
		}
		return v
	}
	return &Val{K: '0'} // ptr any raw dyn
}

func isEmpty(v *Val) bool {
	switch v.K {
	case 'z':
		return !v.B
	case 'n':
		return v.I == 0 && v.U == 0
	case 'f':
		return math.Float32frombits(uint32(v.Bits)) == 0
	case 'd':
		return math.Float64frombits(v.Bits) == 0
	case 's':
		return len(v.S) == 0
	case '[', '{':
		return len(v.L) == 0
	case '0':
		return true
	}
	return false
}

// expect: the value a fresh variable must hold after decoding the encoding of v.
// nil pointer -> pointer to the zero value; omitempty field holding an empty value -> zero value;
// skipped field -> zero value; the rest identical.
func expect(t *Ty, v *Val) *Val {
	switch t.K {
	case "sl", "ar":
		c := &Val{K: '['}
		for _, e := range v.L {
			c.L = append(c.L, expect(t.E, e))
		}
		return c
	case "map":
		c := &Val{K: '{', Keys: v.Keys}
		for _, e := range v.L {
			c.L = append(c.L, expect(t.E, e))
		}
		return c
	case "st":
		c := &Val{K: '('}
		for i, f := range t.F {
			switch {
			case f.Skip:
				c.L = append(c.L, zeroVal(f.T))
			case f.Omit && isEmpty(v.L[i]):
				c.L = append(c.L, zeroVal(f.T))
			default:
				c.L = append(c.L, expect(f.T, v.L[i]))
			}
		}
		return c
	case "ptr":
		if v.K == '0' {
			return &Val{K: '&', P: expect(t.E, zeroVal(t.E))}
		}
		return &Val{K: '&', P: expect(t.E, v.P)}
	}
	return v
}

// canonicalAV: a dynamic value the decoder itself produces (a non-empty []any is homogeneous and does not start
// with an int8 / int32 / int64, which would make it a typed array)
func canonicalAV(a *AV) bool {
	switch a.K {
	case '[':
		if len(a.L) == 0 {
			return true
		}
		t0 := a.L[0].tagOf()
		if t0 == 1 || t0 == 3 || t0 == 4 {
			return false
		}
		for _, e := range a.L {
			if e.tagOf() != t0 || !canonicalAV(e) {
				return false
			}
		}
	case '{':
		for _, e := range a.L {
			if !canonicalAV(e) {
				return false
			}
		}
	case 'S':
		return len(a.S) <= 32767
	}
	return true
}

// tagOf: the tag the documentation assigns to a value of type t (0: none)
func tagOf(t *Ty, v *Val) byte {
	switch t.K {
	case "bool", "i8", "u8":
		return 1
	case "i16", "u16":
		return 2
	case "i32", "u32":
		return 3
	case "i64", "u64":
		return 4
	case "f32":
		return 5
	case "f64":
		return 6
	case "str":
		return 8
	case "map", "st":
		return 10
	case "ptr":
		if v.K == '&' {
			return tagOf(t.E, v.P)
		}
		return tagOf(t.E, zeroVal(t.E))
	case "any":
		if v.K == 'a' {
			return v.A.tagOf()
		}
		return 0
	case "raw", "dyn":
		if v.T != nil {
			return v.T.Kind
		}
		return 0
	case "sl", "ar":
		if isMarshalerTy(t.E) {
			return 9
		}
		et := byte(0)
		if len(v.L) > 0 {
			et = tagOf(t.E, v.L[0])
		} else {
			et = tagOf(t.E, zeroVal(t.E))
			if t.E.K == "sl" || t.E.K == "ar" || t.E.K == "ptr" {
				et = 0
			}
		}
		switch et {
		case 1:
			return 7
		case 3:
			return 11
		case 4:
			return 12
		}
		return 9
	}
	return 0
}

// inUniverse: the value is one the round-trip property speaks about: interfaces hold canonical dynamic values,
// and a slice or array of interfaces or pointers is not turned into a typed array by its first element
func inUniverse(t *Ty, v *Val) bool {
	switch t.K {
	case "sl", "ar":
		if (t.E.K == "any" || t.E.K == "ptr") && tagOf(t, v) != 9 {
			return false
		}
		for _, e := range v.L {
			if !inUniverse(t.E, e) {
				return false
			}
		}
	case "map":
		for _, e := range v.L {
			if !inUniverse(t.E, e) {
				return false
			}
		}
	case "st":
		for i, f := range t.F {
			if f.Skip {
				continue
			}
			if f.List {
				// the slice or array behind the pointers is written as a TagList whatever its first element is
				ft, fv := f.T, v.L[i]
				for ft.K == "ptr" && fv.K == '&' {
					ft, fv = ft.E, fv.P
				}
				if ft.K == "any" {
					return false // an interface holding []byte written as a list comes back as []any
				}
				if ft.K == "sl" || ft.K == "ar" {
					for _, e := range fv.L {
						if !inUniverse(ft.E, e) {
							return false
						}
					}
					continue
				}
			}
			if !inUniverse(f.T, v.L[i]) {
				return false
			}
		}
	case "ptr":
		if v.K == '&' {
			return inUniverse(t.E, v.P)
		}
	case "any":
		if v.K == 'a' {
			return canonicalAV(v.A)
		}
	}
	return true
}

// reorder maps of v (and of interface values) into the order the encoder emitted them (read off the output)
func reorder(t *Ty, v *Val, tr *c01x.Tree) {
	if tr == nil {
		return
	}
	switch t.K {
	case "ptr":
		if v.K == '&' {
			reorder(t.E, v.P, tr)
		}
	case "sl", "ar":
		if tr.Kind == c01x.List && len(tr.List) == len(v.L) {
			for i, e := range v.L {
				reorder(t.E, e, tr.List[i])
			}
		}
	case "map":
		if tr.Kind != c01x.Compound || len(tr.List) != len(v.L) {
			return
		}
		pos := map[string]int{}
		for i, k := range v.Keys {
			pos[string(k)] = i
		}
		var ks [][]byte
		var ls []*Val
		for i, k := range tr.Keys {
			j, ok := pos[string(k)]
			if !ok {
				return
			}
			reorder(t.E, v.L[j], tr.List[i])
			ks = append(ks, v.Keys[j])
			ls = append(ls, v.L[j])
		}
		v.Keys, v.L = ks, ls
	case "st":
		if tr.Kind != c01x.Compound {
			return
		}
		for i, f := range t.F {
			if f.Skip {
				continue
			}
			for j, k := range tr.Keys {
				if string(k) == f.Name {
					reorder(f.T, v.L[i], tr.List[j])
					break
				}
			}
		}
	case "any":
		if v.K == 'a' {
			reorderAV(v.A, tr)
		}
	}
}

func reorderAV(a *AV, tr *c01x.Tree) {
	switch a.K {
	case '[':
		if tr.Kind == c01x.List && len(tr.List) == len(a.L) {
			for i, e := range a.L {
				reorderAV(e, tr.List[i])
			}
		}
	case '{':
		if tr.Kind != c01x.Compound || len(tr.List) != len(a.L) {
			return
		}
		pos := map[string]int{}
		for i, k := range a.Keys {
			pos[string(k)] = i
		}
		var ks [][]byte
		var ls []*AV
		for i, k := range tr.Keys {
			j, ok := pos[string(k)]
			if !ok {
				return
			}
			reorderAV(a.L[j], tr.List[i])
			ks = append(ks, a.Keys[j])
			ls = append(ls, a.L[j])
		}
		a.Keys, a.L = ks, ls
	}
}

// ---------------------------------------------------------------- one round trip

var idx int

func fmtName(file bool) string {
	if file {
		return "file"
	}
	return "net"
}

func clip(s string) string {
	if len(s) > 500 {
		return s[:500] + "..."
	}
	return s
}

func encode(arg any, file bool, name string) (bs []byte, err error, pan string) {
	var b bytes.Buffer
	pan = hx.Try(func() {
		e := nbt.NewEncoder(&b)
		e.NetworkFormat(!file)
		err = e.Encode(arg, name)
	})
	return b.Bytes(), err, pan
}

func decode(bs []byte, file bool, dst any) (name string, left int, err error, pan string) {
	rd := bytes.NewReader(bs)
	pan = hx.Try(func() {
		d := nbt.NewDecoder(rd)
		d.NetworkFormat(!file)
		name, err = d.Decode(dst)
	})
	return name, rd.Len(), err, pan
}

func roundTrip(o *hx.Out, cat string, t *Ty, v *Val, file, byval bool, name []byte) {
	idx++
	var tyTok strings.Builder
	t.Tokens(&tyTok)
	rv := build(t, v)
	before := toks(fromReflect(t, rv), true)
	var arg any
	holder := rv
	if byval {
		arg = rv.Interface()
	} else {
		p := reflect.New(t.RT())
		p.Elem().Set(rv)
		holder = p.Elem()
		arg = p.Interface()
	}
	bs, err, pan := encode(arg, file, string(name))
	after := toks(fromReflect(t, holder), true)
	mode := "ptr"
	if byval {
		mode = "val"
	}
	desc := func() string {
		return clip(fmt.Sprintf("fmt=%s mode=%s type=%s value=%s", fmtName(file), mode, tyTok.String(), toks(v, false)))
	}
	nontrivial := t.K == "st" || t.K == "sl" || t.K == "ar" || t.K == "map" || t.K == "ptr"
	head := fmt.Sprintf("M %d", idx)
	caseLine := func() string {
		return fmt.Sprintf("M %d %s %s %s%s ;%s", idx, fmtName(file), mode, hx.Hex(name), tyTok.String(), toks(v, false))
	}
	if before != after {
		o.Fail("C02.pure", "%s before=%s after=%s", desc(), clip(before), clip(after))
	}
	if pan != "" {
		o.Case(cat, nontrivial, caseLine(), head+" panic")
		o.Fail("C02.panic.encode", "%s panic=%s", desc(), pan)
		return
	}
	if err != nil {
		o.Case(cat+".encerr", nontrivial, caseLine(), head+" err")
		return
	}
	// the output must be one well-formed document with the root name
	tr, gotName, rest, perr := c01x.ParseDoc(bs, file)
	if perr != nil || len(rest) != 0 {
		o.Fail("C02.encode.malformed", "%s out=%s", desc(), clip(hx.Hex(bs)))
	} else {
		if file && !bytes.Equal(gotName, name) {
			o.Fail("C02.encode.name", "%s out=%s", desc(), clip(hx.Hex(bs)))
		}
		reorder(t, v, tr)
	}
	fresh := reflect.New(t.RT())
	dname, left, derr, dpan := decode(bs, file, fresh.Interface())
	impl := head + " ok " + hx.Hex(bs)
	if !inUniverse(t, v) {
		// outside the property's universe (still compared with the model, and must not panic)
		cat += ".outside"
		switch {
		case dpan != "":
			impl += " dpanic"
			o.Fail("C02.panic.decode", "%s out=%s panic=%s", desc(), clip(hx.Hex(bs)), dpan)
		case derr != nil:
			impl += " derr"
		default:
			impl += fmt.Sprintf(" %s %d%s", hx.Hex([]byte(dname)), left, toks(fromReflect(t, fresh.Elem()), true))
		}
		o.Case(cat, nontrivial, caseLine(), impl)
		return
	}
	switch {
	case dpan != "":
		impl += " dpanic"
		o.Fail("C02.panic.decode", "%s out=%s panic=%s", desc(), clip(hx.Hex(bs)), dpan)
	case derr != nil:
		impl += " derr"
		o.Fail("C02.roundtrip.decode-error", "%s out=%s err=%v", desc(), clip(hx.Hex(bs)), derr)
	default:
		got := toks(fromReflect(t, fresh.Elem()), true)
		impl += fmt.Sprintf(" %s %d%s", hx.Hex([]byte(dname)), left, got)
		want := toks(expect(t, v), true)
		if got != want {
			o.Fail("C02.roundtrip.value", "%s out=%s got=%s want=%s", desc(), clip(hx.Hex(bs)), clip(got), clip(want))
		}
		wantName := string(name)
		if !file {
			wantName = ""
		}
		if dname != wantName {
			o.Fail("C02.roundtrip.name", "%s got=%q", desc(), dname)
		}
		if left != 0 {
			o.Fail("C02.roundtrip.left", "%s left=%d", desc(), left)
		}
	}
	o.Case(cat, nontrivial, caseLine(), impl)
}

// ---------------------------------------------------------------- carriers: decode a document, encode it again

func sortRoot(t *c01x.Tree) {
	if t.Kind != c01x.Compound {
		return
	}
	idx := sortedIdx(t.Keys)
	ks := make([][]byte, len(idx))
	ls := make([]*c01x.Tree, len(idx))
	for i, j := range idx {
		ks[i], ls[i] = t.Keys[j], t.List[j]
	}
	t.Keys, t.List = ks, ls
}

func hasDupKeys(t *c01x.Tree) bool {
	seen := map[string]bool{}
	for _, k := range t.Keys {
		if seen[string(k)] {
			return true
		}
		seen[string(k)] = true
	}
	return false
}

// carrier: ctx root|field|map|list, kind raw|dyn; doc is the document handed to the decoder
func carrier(o *hx.Out, ctx, kind string, doc *c01x.Tree, file bool, name []byte) {
	idx++
	ct := &Ty{K: kind}
	var t *Ty
	switch ctx {
	case "root":
		t = ct
	case "field":
		t = &Ty{K: "st", F: []Fld{{Go: "F", Name: "F", T: ct}}}
	case "map":
		t = &Ty{K: "map", E: ct}
	case "list":
		t = &Ty{K: "sl", E: ct}
	}
	var tyTok, trTok strings.Builder
	t.Tokens(&tyTok)
	doc.Tokens(&trTok)
	data := doc.Doc(file, name)
	head := fmt.Sprintf("K %d", idx)
	caseLine := fmt.Sprintf("K %d %s %s %s%s ;%s", idx, fmtName(file), ctx, hx.Hex(name), tyTok.String(), trTok.String())
	desc := func() string {
		return clip(fmt.Sprintf("fmt=%s ctx=%s carrier=%s doc=%s", fmtName(file), ctx, kind, hx.Hex(data)))
	}
	cat := "carrier." + kind + "." + ctx
	fresh := reflect.New(t.RT())
	_, left, derr, dpan := decode(data, file, fresh.Interface())
	if dpan != "" {
		o.Case(cat, true, caseLine, head+" dpanic")
		o.Fail("C02.panic.decode", "%s panic=%s", desc(), dpan)
		return
	}
	if derr != nil || left != 0 {
		o.Case(cat, true, caseLine, head+" derr")
		o.Fail("C02.carrier."+kind+"."+ctx+".decode", "%s err=%v left=%d", desc(), derr, left)
		return
	}
	out, err, pan := encode(fresh.Interface(), file, string(name))
	if pan != "" {
		o.Case(cat, true, caseLine, head+" panic")
		o.Fail("C02.panic.encode", "%s panic=%s", desc(), pan)
		return
	}
	if err != nil {
		o.Case(cat, true, caseLine, head+" err")
		o.Fail("C02.carrier."+kind+"."+ctx+".encode", "%s err=%v", desc(), err)
		return
	}
	impl := head + " ok " + hx.Hex(out)
	same := bytes.Equal(out, data)
	if ctx == "map" {
		// a map has no order (and keeps one entry per key): compare and print the re-encoding with sorted root entries
		tr, _, _, perr := c01x.ParseDoc(out, file)
		if perr != nil {
			impl = head + " ok ?" + hx.Hex(out)
			same = false
		} else {
			sortRoot(tr)
			var sb strings.Builder
			tr.Tokens(&sb)
			impl = head + " ok" + sb.String()
			want := *doc
			want.Keys = append([][]byte{}, doc.Keys...)
			want.List = append([]*c01x.Tree{}, doc.List...)
			sortRoot(&want)
			same = bytes.Equal(tr.Doc(file, name), want.Doc(file, name))
		}
	}
	o.Case(cat, true, caseLine, impl)
	// where exactness is promised: see Props/C02.v C02_carrier_*
	exact := true
	if ctx == "map" && hasDupKeys(doc) {
		exact = false // a Go map keeps one entry per key
	}
	if ctx == "list" && len(doc.List) == 0 {
		// a Go slice type carries no element id: []RawMessage{} is a list of compounds, []*Value{} of TagEnd
		if (kind == "raw" && doc.Eid != c01x.Compound) || (kind == "dyn" && doc.Eid != 0) {
			exact = false
		}
	}
	if exact && !same {
		o.Fail("C02.carrier."+kind+"."+ctx, "%s out=%s", desc(), clip(hx.Hex(out)))
	}
}

// carrierSNBT: the third carrier of the property, nbt.StringifiedMessage (predicate only: its text form is
// C04's model).  Documents stay inside what SNBT text represents exactly: integers of every width with negative
// values, byte / int / long arrays (bytes >= 0x80 included), ASCII strings and keys, nested compounds and
// non-empty lists - decode into a StringifiedMessage at the root / in a struct field / in a map / in a list, encode
// again, and the document must come back byte for byte.
func snbtDoc(r *hx.Rng, depth int) *c01x.Tree {
	t := &c01x.Tree{Kind: c01x.Compound}
	add := func(k string, v *c01x.Tree) { t.Keys = append(t.Keys, []byte(k)); t.List = append(t.List, v) }
	add("b", &c01x.Tree{Kind: c01x.Byte, I: int64(int8(r.Next()))})
	add("s", &c01x.Tree{Kind: c01x.Short, I: int64(int16(r.Next()))})
	add("i", &c01x.Tree{Kind: c01x.Int, I: int64(int32(r.Next()))})
	add("l", &c01x.Tree{Kind: c01x.Long, I: int64(r.Next())})
	ba := r.Bytes(1 + r.Intn(5))
	ba[0] = byte(r.Pick(0x7f, 0x80, 0xff, 0x81, 0x00))
	add("ba", &c01x.Tree{Kind: c01x.ByteArray, Bytes: ba})
	ia := &c01x.Tree{Kind: c01x.IntArray}
	la := &c01x.Tree{Kind: c01x.LongArray}
	for i, n := 0, 1+r.Intn(3); i < n; i++ {
		ia.Ints = append(ia.Ints, int64(int32(r.Next())))
		la.Ints = append(la.Ints, int64(r.Next()))
	}
	add("ia", ia)
	add("la", la)
	add("str", &c01x.Tree{Kind: c01x.String, Bytes: []byte([]string{"plain", "with space", "123", "", "q\"uote", "true"}[r.Intn(6)])})
	li := &c01x.Tree{Kind: c01x.List, Eid: c01x.Short}
	for i, n := 0, 1+r.Intn(3); i < n; i++ {
		li.List = append(li.List, &c01x.Tree{Kind: c01x.Short, I: int64(int16(r.Next()))})
	}
	add("li", li)
	if depth > 0 {
		add("sub", snbtDoc(r, depth-1))
	}
	return t
}

func carrierSNBT(o *hx.Out, ctx string, doc *c01x.Tree, file bool, name []byte) {
	var sm nbt.StringifiedMessage
	var dst any
	switch ctx {
	case "root":
		dst = &sm
	case "field":
		dst = &struct {
			F nbt.StringifiedMessage `nbt:"F"`
		}{}
		doc = &c01x.Tree{Kind: c01x.Compound, Keys: [][]byte{[]byte("F")}, List: []*c01x.Tree{doc}}
	case "map":
		dst = &map[string]nbt.StringifiedMessage{}
		doc = &c01x.Tree{Kind: c01x.Compound, Keys: [][]byte{[]byte("only")}, List: []*c01x.Tree{doc}}
	case "list":
		dst = &[]nbt.StringifiedMessage{}
		doc = &c01x.Tree{Kind: c01x.List, Eid: c01x.Compound, List: []*c01x.Tree{doc, doc}}
	}
	data := doc.Doc(file, name)
	desc := clip(fmt.Sprintf("fmt=%s ctx=%s carrier=snbt doc=%s", fmtName(file), ctx, hx.Hex(data)))
	o.Eval("carrier.snbt."+ctx, true, desc)
	_, left, derr, dpan := decode(data, file, dst)
	if dpan != "" || derr != nil || left != 0 {
		o.Fail("C02.carrier.snbt."+ctx+".decode", "%s err=%v left=%d panic=%q", desc, derr, left, dpan)
		return
	}
	out, err, pan := encode(reflect.ValueOf(dst).Elem().Interface(), file, string(name))
	if pan != "" || err != nil {
		o.Fail("C02.carrier.snbt."+ctx+".encode", "%s err=%v panic=%q text-root=%q", desc, err, pan, string(sm))
		return
	}
	if !bytes.Equal(out, data) {
		o.Fail("C02.carrier.snbt."+ctx, "%s out=%s", desc, clip(hx.Hex(out)))
	}
}

// ---------------------------------------------------------------- fixed types with embedding (predicate only)

type Inner struct {
	X int32
	Y string `nbt:"y,omitempty"`
}
type innerP struct {
	Z int8
}
type EmbV struct {
	Inner
	A int16
}
type EmbP struct {
	*Inner
	B []int64
}
type EmbTag struct {
	Inner `nbt:"in"`
	X     uint8
}
type EmbShadow struct {
	Inner
	X string
}

func embedded(o *hx.Out) {
	r := o.R
	check := func(cat string, v any, fresh any, want func() bool) {
		for _, file := range []bool{true, false} {
			bs, err, pan := encode(v, file, "n")
			if pan != "" {
				o.Fail("C02.panic.encode", "embedded %s %+v panic=%s", cat, v, pan)
				continue
			}
			if err != nil {
				o.Fail("C02.embedded.encode", "embedded %s %+v err=%v", cat, v, err)
				continue
			}
			f := reflect.New(reflect.TypeOf(fresh).Elem())
			_, left, derr, dpan := decode(bs, file, f.Interface())
			if dpan != "" || derr != nil || left != 0 {
				o.Fail("C02.embedded.decode", "embedded %s %+v out=%s err=%v panic=%s", cat, v, hx.Hex(bs), derr, dpan)
				continue
			}
			reflect.ValueOf(fresh).Elem().Set(f.Elem())
			if !want() {
				o.Fail("C02.embedded.value", "embedded %s in=%+v out=%s got=%+v", cat, v, hx.Hex(bs), f.Elem().Interface())
			}
			o.Eval("embedded."+cat, true, fmt.Sprintf("embedded %s %v %+v", cat, file, v))
		}
	}
	for i := 0; i < o.N(40, 5); i++ {
		ys := genStr(r)
		if len(ys) > 3 {
			ys = ys[:r.Intn(3)]
		}
		in := Inner{X: int32(genInt(r, 32)), Y: string(ys)}
		{
			v := EmbV{Inner: in, A: int16(genInt(r, 16))}
			var g EmbV
			check("value", v, &g, func() bool { return g == v })
			check("value-ptr", &v, &g, func() bool { return g == v })
		}
		{
			in2 := in
			v := EmbP{Inner: &in2, B: []int64{genInt(r, 64)}}
			var g EmbP
			check("pointer", v, &g, func() bool { return g.Inner != nil && *g.Inner == in && len(g.B) == 1 && g.B[0] == v.B[0] })
			v2 := EmbP{B: []int64{1}}
			var g2 EmbP
			check("pointer-nil", v2, &g2, func() bool { return g2.Inner == nil && len(g2.B) == 1 })
		}
		{
			v := EmbTag{Inner: in, X: uint8(genUint(r, 8))}
			var g EmbTag
			check("tagged", v, &g, func() bool { return g == v })
		}
		{
			v := EmbShadow{Inner: in, X: "s"}
			var g EmbShadow
			// the outer X hides Inner.X: Inner.X is not written and comes back zero
			check("shadow", v, &g, func() bool { return g.X == v.X && g.Inner.Y == in.Y && g.Inner.X == 0 })
		}
	}
}

// dynbt.Value held BY VALUE in a struct field (the package documentation allows it): the encoder does not
// find the pointer-receiver Marshaler and writes the struct's (unexported, hence empty) field table instead.
type dynByValue struct{ D dynbt.Value }

func dynValueField(o *hx.Out) {
	for _, d := range []*dynbt.Value{dynbt.NewString("A"), dynbt.NewInt(7), dynbt.NewList(dynbt.NewByte(1))} {
		v := dynByValue{D: *d}
		want, _, _ := encode(d, false, "")
		bs, err, pan := encode(v, true, "")
		if pan != "" {
			o.Fail("C02.panic.encode", "dynbt.Value by value: panic=%s", pan)
			continue
		}
		var g dynByValue
		var got []byte
		if err == nil {
			if _, _, derr, _ := decode(bs, true, &g); derr == nil {
				got, _, _ = encode(&g.D, false, "")
			}
		}
		o.Eval("dyn-value-field", true, "dyn by value "+hx.Hex(want))
		if !bytes.Equal(got, want) {
			o.Fail("C02.dyn-value-field", "struct{D dynbt.Value} holding %s: out=%s err=%v came back as %s", hx.Hex(want), hx.Hex(bs), err, hx.Hex(got))
		}
	}
	// the same carrier held by value in slices, arrays, []any and maps: a list the carrier decoded must be written
	// again, whatever the tag of its first element (byte / int / long elements must not turn it into a typed array)
	elems := []*dynbt.Value{dynbt.NewByte(-3), dynbt.NewShort(9), dynbt.NewInt(7), dynbt.NewLong(1 << 40), dynbt.NewString("A"),
		dynbt.NewList(dynbt.NewByte(1)), dynbt.NewCompound()}
	for _, d := range elems {
		one, _, _ := encode(d, false, "")
		holders := []struct {
			name string
			v    any
			back func(bs []byte) []*dynbt.Value
		}{
			{"[]dynbt.Value", []dynbt.Value{*d, *d}, func(bs []byte) []*dynbt.Value {
				var g []dynbt.Value
				if _, _, derr, _ := decode(bs, false, &g); derr != nil {
					return nil
				}
				r := []*dynbt.Value{}
				for i := range g {
					r = append(r, &g[i])
				}
				return r
			}},
			{"[2]dynbt.Value", [2]dynbt.Value{*d, *d}, func(bs []byte) []*dynbt.Value {
				var g [2]dynbt.Value
				if _, _, derr, _ := decode(bs, false, &g); derr != nil {
					return nil
				}
				return []*dynbt.Value{&g[0], &g[1]}
			}},
			{"map[string]dynbt.Value", map[string]dynbt.Value{"k": *d}, func(bs []byte) []*dynbt.Value {
				var g map[string]dynbt.Value
				if _, _, derr, _ := decode(bs, false, &g); derr != nil || len(g) != 1 {
					return nil
				}
				x := g["k"]
				return []*dynbt.Value{&x}
			}},
		}
		for _, h := range holders {
			bs, err, pan := encode(h.v, false, "")
			o.Eval("dyn-value-held", true, h.name+" of "+hx.Hex(one))
			if pan != "" {
				o.Fail("C02.panic.encode", "%s of %s: panic=%s", h.name, hx.Hex(one), pan)
				continue
			}
			if err != nil {
				o.Fail("C02.carrier.dyn.by-value", "%s of %s: Marshal refuses a value the carrier holds: %v", h.name, hx.Hex(one), err)
				continue
			}
			got := h.back(bs)
			ok := got != nil
			for _, g := range got {
				b, _, _ := encode(g, false, "")
				ok = ok && bytes.Equal(b, one)
			}
			if !ok {
				o.Fail("C02.carrier.dyn.by-value", "%s of %s: out=%s does not come back as the same values", h.name, hx.Hex(one), hx.Hex(bs))
			}
		}
	}
}

// ---------------------------------------------------------------- embedded structs compared with the model (typeFields)

// helper types: embedding depth 1..4, >= 2 fields at the innermost level, name clashes across levels, ties,
// tagged tie-breaks, embedded pointers
type E1 struct {
	A int32
	B string
}
type R1 struct {
	E1
	C int8
	B int16 // hides E1.B
}
type TA struct {
	T int8
	U int8
}
type TB struct {
	T int16
	V int16 `nbt:"v,omitempty"`
}
type TC struct {
	T int32 `nbt:"T"`
	U uint8 `nbt:"U"`
}
type RTie struct { // T: two untagged at the same depth annihilate each other
	TA
	TB
	W bool
}
type RTag struct { // T, U: the tagged ones win at equal depth
	TA
	TC
}
type M2 struct {
	X int32
	Y int32
	N string
}
type M1 struct {
	M2
	N int64 // hides M2.N
	P []int32
}
type R2 struct {
	M1
	K bool
	Y uint8 `nbt:"y"` // a different name: M2.Y stays visible
}
type L3 struct {
	X int32
	Y int32
	S string `nbt:",omitempty"`
}
type L2 struct {
	L3
	Q int8
}
type L1 struct {
	L2
	P int16
}
type R3 struct {
	L1
	Z [2]byte
}
type K4 struct {
	X int64
	Y int64
	Z string
	H []int16
}
type K3 struct {
	K4
	W float32
	G int8 `nbt:"-"`
}
type K2 struct {
	*K3
	V uint16
}
type K1 struct {
	K2
	X int8 // hides K4.X three levels down
}
type R4 struct {
	K1
	Z bool // hides K4.Z
	O *E1  // an ordinary pointer field of struct type
}
type R4P struct {
	*K1
	*E1
	Y uint32 `nbt:"Y"`
}

type Decl struct {
	Emb    bool
	Ptr    bool
	Sub    []Decl
	F      Fld
	Tagged bool
}

func tyOf(rt reflect.Type) *Ty {
	switch rt.Kind() {
	case reflect.Bool:
		return &Ty{K: "bool"}
	case reflect.Int8:
		return &Ty{K: "i8"}
	case reflect.Uint8:
		return &Ty{K: "u8"}
	case reflect.Int16:
		return &Ty{K: "i16"}
	case reflect.Uint16:
		return &Ty{K: "u16"}
	case reflect.Int32:
		return &Ty{K: "i32"}
	case reflect.Uint32:
		return &Ty{K: "u32"}
	case reflect.Int64:
		return &Ty{K: "i64"}
	case reflect.Uint64:
		return &Ty{K: "u64"}
	case reflect.Float32:
		return &Ty{K: "f32"}
	case reflect.Float64:
		return &Ty{K: "f64"}
	case reflect.String:
		return &Ty{K: "str"}
	case reflect.Slice:
		return &Ty{K: "sl", E: tyOf(rt.Elem()), rt: rt}
	case reflect.Array:
		return &Ty{K: "ar", N: rt.Len(), E: tyOf(rt.Elem()), rt: rt}
	case reflect.Map:
		return &Ty{K: "map", E: tyOf(rt.Elem()), rt: rt}
	case reflect.Pointer:
		return &Ty{K: "ptr", E: tyOf(rt.Elem()), rt: rt}
	case reflect.Struct: // a plain struct (no embedding inside)
		t := &Ty{K: "st", rt: rt}
		for i := 0; i < rt.NumField(); i++ {
			f, _ := fldOf(rt.Field(i))
			t.F = append(t.F, f)
		}
		return t
	}
	panic("tyOf " + rt.String())
}

// fldOf reads the struct tag the way the documentation describes it (independently of nbt/typeinfo.go)
func fldOf(sf reflect.StructField) (Fld, bool) {
	f := Fld{Go: sf.Name, Name: sf.Name, Tag: string(sf.Tag)}
	tag := sf.Tag.Get("nbt")
	if tag == "-" || !sf.IsExported() {
		f.Skip = true
	}
	parts := strings.Split(tag, ",")
	tagged := false
	if parts[0] != "" && tag != "-" {
		f.Name, tagged = parts[0], true
	}
	if k := sf.Tag.Get("nbtkey"); k != "" {
		f.Name, tagged = k, true
	}
	for _, o := range parts[1:] {
		switch o {
		case "omitempty":
			f.Omit = true
		case "list":
			f.List = true
		}
	}
	f.T = tyOf(sf.Type)
	return f, tagged
}

func declsOf(rt reflect.Type) []Decl {
	var ds []Decl
	for i := 0; i < rt.NumField(); i++ {
		sf := rt.Field(i)
		st := sf.Type
		isPtr := st.Kind() == reflect.Pointer
		if isPtr {
			st = st.Elem()
		}
		nameTag := strings.Split(sf.Tag.Get("nbt"), ",")[0] != "" || sf.Tag.Get("nbtkey") != ""
		if sf.Anonymous && st.Kind() == reflect.Struct && !nameTag && sf.Tag.Get("nbt") != "-" {
			ds = append(ds, Decl{Emb: true, Ptr: isPtr, Sub: declsOf(st)})
			continue
		}
		f, tagged := fldOf(sf)
		ds = append(ds, Decl{F: f, Tagged: tagged})
	}
	return ds
}

func declTokens(sb *strings.Builder, ds []Decl) {
	for _, d := range ds {
		if d.Emb {
			p := "v"
			if d.Ptr {
				p = "p"
			}
			fmt.Fprintf(sb, " DE %s %d", p, len(d.Sub))
			declTokens(sb, d.Sub)
			continue
		}
		fl := ""
		if d.Tagged {
			fl += "t"
		}
		if d.F.Omit {
			fl += "o"
		}
		if d.F.List {
			fl += "l"
		}
		if d.F.Skip {
			fl += "s"
		}
		if fl == "" {
			fl = "-"
		}
		sb.WriteString(" DF " + hx.Hex([]byte(d.F.Name)) + " " + fl)
		d.F.T.Tokens(sb)
	}
}

// fillEmb sets random values; returns nothing (the value is read back with dvTokens)
func fillEmb(r *hx.Rng, ds []Decl, rv reflect.Value) {
	for i, d := range ds {
		fv := rv.Field(i)
		if d.Emb {
			if d.Ptr {
				if r.Intn(4) == 0 {
					continue
				}
				fv.Set(reflect.New(fv.Type().Elem()))
				fv = fv.Elem()
			}
			fillEmb(r, d.Sub, fv)
			continue
		}
		fv.Set(build(d.F.T, genVal(r, d.F.T, 2, false)))
	}
}

func dvTokens(sb *strings.Builder, ds []Decl, rv reflect.Value, top bool) {
	if top {
		fmt.Fprintf(sb, " VL %d", len(ds))
	}
	for i, d := range ds {
		fv := rv.Field(i)
		if d.Emb {
			if d.Ptr {
				if fv.IsNil() {
					sb.WriteString(" VN")
					continue
				}
				fv = fv.Elem()
			}
			fmt.Fprintf(sb, " VE %d", len(d.Sub))
			dvTokens(sb, d.Sub, fv, false)
			continue
		}
		sb.WriteString(" VF")
		fromReflect(d.F.T, fv).Tokens(sb, true)
	}
}

// the documented visibility rule, written independently of the model: per name, the shallowest field wins;
// at equal depth a tagged name beats untagged ones; two of equal rank hide each other (and everything deeper)
type leafRef struct {
	path   []int
	d      *Decl
	tagged bool
}

func leaves(ds []Decl, pre []int, out *[]leafRef) {
	for i := range ds {
		p := append(append([]int{}, pre...), i)
		if ds[i].Emb {
			leaves(ds[i].Sub, p, out)
		} else if !ds[i].F.Skip {
			*out = append(*out, leafRef{p, &ds[i], ds[i].Tagged})
		}
	}
}

func visible(ds []Decl) map[string]bool { // key: path rendered
	var all []leafRef
	leaves(ds, nil, &all)
	byName := map[string][]leafRef{}
	for _, l := range all {
		byName[l.d.F.Name] = append(byName[l.d.F.Name], l)
	}
	vis := map[string]bool{}
	for _, ls := range byName {
		min := 1 << 30
		for _, l := range ls {
			if len(l.path) < min {
				min = len(l.path)
			}
		}
		var top, topTagged []leafRef
		for _, l := range ls {
			if len(l.path) == min {
				top = append(top, l)
				if l.tagged {
					topTagged = append(topTagged, l)
				}
			}
		}
		switch {
		case len(topTagged) == 1:
			vis[fmt.Sprint(topTagged[0].path)] = true
		case len(topTagged) == 0 && len(top) == 1:
			vis[fmt.Sprint(top[0].path)] = true
		}
	}
	return vis
}

// expectEmb: tokens of the value a fresh variable must hold after the round trip. present reports whether a
// visible field below was written (an embedded pointer is allocated exactly then).
func expectEmb(sb *strings.Builder, ds []Decl, rv reflect.Value, reach bool, vis map[string]bool, pre []int, top bool) (present bool) {
	if top {
		fmt.Fprintf(sb, " VL %d", len(ds))
	}
	for i, d := range ds {
		p := append(append([]int{}, pre...), i)
		var fv reflect.Value
		if reach {
			fv = rv.Field(i)
		}
		if d.Emb {
			r2 := reach
			if d.Ptr && reach {
				if fv.IsNil() {
					r2 = false
				} else {
					fv = fv.Elem()
				}
			}
			var inner strings.Builder
			pr := expectEmb(&inner, d.Sub, fv, r2, vis, p, false)
			if d.Ptr && !pr {
				sb.WriteString(" VN")
			} else {
				fmt.Fprintf(sb, " VE %d%s", len(d.Sub), inner.String())
			}
			present = present || pr
			continue
		}
		sb.WriteString(" VF")
		if reach && vis[fmt.Sprint(p)] {
			v := fromReflect(d.F.T, fv)
			if !(d.F.Omit && isEmpty(v)) {
				expect(d.F.T, v).Tokens(sb, true)
				present = true
				continue
			}
		}
		zeroVal(d.F.T).Tokens(sb, true)
	}
	return present
}

func embeddedModel(o *hx.Out) {
	r := o.R
	roots := []any{R1{}, RTie{}, RTag{}, R2{}, R3{}, R4{}, R4P{}}
	for _, root := range roots {
		rt := reflect.TypeOf(root)
		ds := declsOf(rt)
		vis := visible(ds)
		var dtok strings.Builder
		fmt.Fprintf(&dtok, " DL %d", len(ds))
		declTokens(&dtok, ds)
		for n := 0; n < o.N(30, 10); n++ {
			pv := reflect.New(rt)
			fillEmb(r, ds, pv.Elem())
			for _, byval := range []bool{true, false} {
				idx++
				file := r.Bool()
				name := []byte("e")
				if !file {
					name = nil
				}
				var vtok strings.Builder
				dvTokens(&vtok, ds, pv.Elem(), true)
				before := vtok.String()
				var arg any = pv.Interface()
				mode := "ptr"
				if byval {
					arg, mode = pv.Elem().Interface(), "val"
				}
				bs, err, pan := encode(arg, file, string(name))
				var atok strings.Builder
				dvTokens(&atok, ds, pv.Elem(), true)
				desc := clip(fmt.Sprintf("embedded %s fmt=%s mode=%s value=%s", rt.Name(), fmtName(file), mode, before))
				if atok.String() != before {
					o.Fail("C02.pure", "%s after=%s", desc, clip(atok.String()))
				}
				head := fmt.Sprintf("B %d", idx)
				caseLine := fmt.Sprintf("B %d %s %s %s%s ;%s", idx, fmtName(file), mode, hx.Hex(name), dtok.String(), before)
				cat := "embedded-model." + rt.Name()
				if pan != "" {
					o.Case(cat, true, caseLine, head+" panic")
					o.Fail("C02.panic.encode", "%s panic=%s", desc, pan)
					continue
				}
				if err != nil {
					o.Case(cat+".encerr", true, caseLine, head+" err")
					continue
				}
				if _, _, rest, perr := c01x.ParseDoc(bs, file); perr != nil || len(rest) != 0 {
					o.Fail("C02.encode.malformed", "%s out=%s", desc, clip(hx.Hex(bs)))
				}
				fresh := reflect.New(rt)
				dname, left, derr, dpan := decode(bs, file, fresh.Interface())
				impl := head + " ok " + hx.Hex(bs)
				switch {
				case dpan != "":
					impl += " dpanic"
					o.Fail("C02.panic.decode", "%s out=%s panic=%s", desc, clip(hx.Hex(bs)), dpan)
				case derr != nil:
					impl += " derr"
					o.Fail("C02.roundtrip.decode-error", "%s out=%s err=%v", desc, clip(hx.Hex(bs)), derr)
				default:
					var got, want strings.Builder
					dvTokens(&got, ds, fresh.Elem(), true)
					impl += fmt.Sprintf(" %s %d%s", hx.Hex([]byte(dname)), left, got.String())
					expectEmb(&want, ds, pv.Elem(), true, vis, nil, true)
					if got.String() != want.String() {
						o.Fail("C02.embedded.value", "%s out=%s got=%s want=%s", desc, clip(hx.Hex(bs)), clip(got.String()), clip(want.String()))
					}
					if left != 0 || dname != string(name) {
						o.Fail("C02.roundtrip.left", "%s left=%d name=%q", desc, left, dname)
					}
				}
				o.Case(cat, true, caseLine, impl)
			}
		}
	}
}

// ---------------------------------------------------------------- typeFields with type identities
// Struct types built with reflect.StructOf from a shared pool: one struct type embedded through several parents (on
// one level and on different levels), by value and by pointer, embedding depth >= 3 with >= 2 fields in the innermost
// structs, names that clash across levels, on one level, tagged and untagged.  The table nbt.typeFields returns (the
// cache bypassed) is compared with the model's tf_table (Model/C02_tf.v) entry by entry: index sequence, name, tagged,
// options, in table order.  Predicate on the implementation alone: every index sequence leads (reflect FieldByIndex)
// to a field of the entry's name, no name twice, and cap(index) == len(index) (an index sequence owns its storage).
var tfNames = []string{"A", "B", "C", "X", "Y"}

func tfOwnFields(r *hx.Rng, n int) []reflect.StructField {
	perm := []int{0, 1, 2, 3, 4}
	for i := len(perm) - 1; i > 0; i-- {
		j := r.Intn(i + 1)
		perm[i], perm[j] = perm[j], perm[i]
	}
	types := []reflect.Type{reflect.TypeOf(int8(0)), reflect.TypeOf(int32(0)), reflect.TypeOf(""), reflect.TypeOf([]int32(nil))}
	var fs []reflect.StructField
	for i := 0; i < n && i < len(perm); i++ {
		sf := reflect.StructField{Name: tfNames[perm[i]], Type: types[r.Intn(len(types))]}
		other := tfNames[r.Intn(len(tfNames))]
		switch r.Intn(9) {
		case 0:
			sf.Tag = reflect.StructTag(`nbt:"` + other + `"`)
		case 1:
			sf.Tag = reflect.StructTag(`nbt:"` + sf.Name + `"`)
		case 2:
			sf.Tag = `nbt:",omitempty"`
		case 3:
			sf.Tag = `nbt:"-"`
		case 4:
			sf.Tag = reflect.StructTag(`nbtkey:"` + other + `"`)
		case 5:
			sf.Tag = reflect.StructTag(`nbt:"` + other + `,list,omitempty"`)
		}
		fs = append(fs, sf)
	}
	return fs
}

// tfRoot: a struct type of embedding depth `depth`
func tfRoot(r *hx.Rng, depth int) reflect.Type {
	pool := make([][]reflect.Type, depth+1)
	for lvl := 0; lvl <= depth; lvl++ {
		width := 2 + r.Intn(2)
		if lvl == depth {
			width = 1
		}
		for w := 0; w < width; w++ {
			var fs []reflect.StructField
			if lvl == 0 {
				fs = tfOwnFields(r, 2+r.Intn(2))
			} else {
				own := tfOwnFields(r, r.Intn(3))
				nEmb := 1 + r.Intn(3)
				var embs []reflect.StructField
				for e := 0; e < nEmb; e++ {
					from := lvl - 1
					if e > 0 && r.Intn(3) == 0 {
						from = r.Intn(lvl)
					}
					t := pool[from][r.Intn(len(pool[from]))]
					if r.Intn(3) == 0 {
						t = reflect.PointerTo(t)
					}
					embs = append(embs, reflect.StructField{Name: fmt.Sprintf("E%d", e), Type: t, Anonymous: true})
				}
				// embedded fields before, between and after the ordinary ones
				cut := r.Intn(len(own) + 1)
				fs = append(fs, own[:cut]...)
				fs = append(fs, embs...)
				fs = append(fs, own[cut:]...)
			}
			pool[lvl] = append(pool[lvl], reflect.StructOf(fs))
		}
	}
	return pool[depth][0]
}

func sdeclTokens(sb *strings.Builder, rt reflect.Type, ids map[reflect.Type]int) {
	for i := 0; i < rt.NumField(); i++ {
		sf := rt.Field(i)
		st := sf.Type
		isPtr := st.Kind() == reflect.Pointer
		if isPtr {
			st = st.Elem()
		}
		nameTag := strings.Split(sf.Tag.Get("nbt"), ",")[0] != "" || sf.Tag.Get("nbtkey") != ""
		if sf.Anonymous && st.Kind() == reflect.Struct && !nameTag && sf.Tag.Get("nbt") != "-" {
			id, ok := ids[st]
			if !ok {
				id = len(ids)
				ids[st] = id
			}
			p := "v"
			if isPtr {
				p = "p"
			}
			fmt.Fprintf(sb, " SE %s %d %d", p, id, st.NumField())
			sdeclTokens(sb, st, ids)
			continue
		}
		f, tagged := fldOf(sf)
		declTokens(sb, []Decl{{F: f, Tagged: tagged}})
	}
}

func embDepth(rt reflect.Type) (depth, innermost int) {
	innermost = 0
	for i := 0; i < rt.NumField(); i++ {
		sf := rt.Field(i)
		st := sf.Type
		if st.Kind() == reflect.Pointer {
			st = st.Elem()
		}
		if sf.Anonymous && st.Kind() == reflect.Struct && sf.Tag == "" {
			d, in := embDepth(st)
			if d+1 > depth {
				depth, innermost = d+1, in
			}
		}
	}
	if depth == 0 {
		innermost = rt.NumField()
	}
	return
}

func typeFieldsCase(o *hx.Out, cat string, rt reflect.Type) {
	idx++
	ids := map[reflect.Type]int{rt: 0}
	var dtok strings.Builder
	fmt.Fprintf(&dtok, " DL %d", rt.NumField())
	sdeclTokens(&dtok, rt, ids)
	caseLine := fmt.Sprintf("T %d 0%s", idx, dtok.String())
	var table []nbt.VerifFieldC02
	if pan := hx.Try(func() { table = nbt.VerifTypeFieldsC02(rt) }); pan != "" {
		o.Case(cat, true, caseLine, fmt.Sprintf("T %d panic", idx))
		o.Fail("C02.typefields.panic", "type=%s panic=%s", clip(rt.String()), pan)
		return
	}
	var sb strings.Builder
	fmt.Fprintf(&sb, "T %d %d", idx, len(table))
	seen := map[string]bool{}
	for _, f := range table {
		parts := make([]string, len(f.Index))
		for i, x := range f.Index {
			parts[i] = strconv.Itoa(x)
		}
		fl := ""
		if f.Tagged {
			fl += "t"
		}
		if f.OmitEmpty {
			fl += "o"
		}
		if f.AsList {
			fl += "l"
		}
		if fl == "" {
			fl = "-"
		}
		fmt.Fprintf(&sb, " %s:%s:%s", strings.Join(parts, "."), hx.Hex([]byte(f.Name)), fl)
		// predicate: the index sequence is the sequence of embedding indices followed by the field's own index
		cur, ok := rt, true
		var last reflect.StructField
		for k, x := range f.Index {
			if cur.Kind() == reflect.Pointer {
				cur = cur.Elem()
			}
			if cur.Kind() != reflect.Struct || x < 0 || x >= cur.NumField() {
				ok = false
				break
			}
			last = cur.Field(x)
			if k < len(f.Index)-1 && !last.Anonymous {
				ok = false
				break
			}
			cur = last.Type
		}
		if ok {
			fl2, _ := fldOf(last)
			ok = fl2.Name == f.Name && !fl2.Skip
		}
		if !ok {
			o.Fail("C02.typefields.index", "type=%s entry=%s index=%v", clip(rt.String()), f.Name, f.Index)
		}
		if f.IndexCap != len(f.Index) {
			o.Fail("C02.typefields.index-shared", "type=%s entry=%s index=%v cap=%d", clip(rt.String()), f.Name, f.Index, f.IndexCap)
		}
		if seen[f.Name] {
			o.Fail("C02.typefields.name-twice", "type=%s entry=%s", clip(rt.String()), f.Name)
		}
		seen[f.Name] = true
	}
	o.Case(cat, true, caseLine, sb.String())
}

func typeFieldsModel(o *hx.Out) {
	r := o.R
	for _, root := range []any{R1{}, RTie{}, RTag{}, R2{}, R3{}, R4{}, R4P{}} {
		typeFieldsCase(o, "typefields.fixed", reflect.TypeOf(root))
	}
	for i := 0; i < o.N(400, 10); i++ {
		depth := 3 + r.Intn(2)
		if i%8 == 0 {
			depth = 1 + r.Intn(2)
		}
		rt := tfRoot(r, depth)
		d, in := embDepth(rt)
		cat := fmt.Sprintf("typefields.depth%d", d)
		if d >= 3 && in >= 2 {
			cat = "typefields.deep"
		}
		typeFieldsCase(o, cat, rt)
	}
}

// ---------------------------------------------------------------- main

func main() {
	o := hx.Open()
	defer o.Close()
	r := o.R

	names := [][]byte{{}, []byte("root"), {0xff, 0}, []byte("x")}
	run := func(cat string, t *Ty, v *Val) {
		file := r.Bool()
		name := names[r.Intn(len(names))]
		if !file {
			name = nil
		}
		roundTrip(o, cat, t, v, file, true, name)
		// the same value again through a pointer (fresh copy of the description: reorder mutates it)
		roundTrip(o, cat, t, v, file, false, name)
	}

	// 1. every scalar kind at the root and inside slice / array / map / pointer / struct field, boundary values
	for _, k := range append(append([]string{}, scalarKinds...), "any", "raw", "dyn") {
		for i := 0; i < o.N(6, 10); i++ {
			base := &Ty{K: k}
			wraps := []*Ty{
				base,
				{K: "sl", E: base},
				{K: "ar", N: 1 + r.Intn(3), E: base},
				{K: "ar", N: 0, E: base},
				{K: "map", E: base},
				{K: "ptr", E: base},
				{K: "st", F: []Fld{{Go: "V", Name: "V", T: base}}},
				{K: "st", F: []Fld{{Go: "V", Name: "v", Tag: `nbt:"v,omitempty"`, Omit: true, T: base}}},
				{K: "st", F: []Fld{{Go: "P", Name: "P", T: &Ty{K: "ptr", E: base}}}},
				{K: "st", F: []Fld{{Go: "P", Name: "P", Tag: `nbt:",omitempty"`, Omit: true, T: &Ty{K: "ptr", E: base}}}},
				{K: "sl", E: &Ty{K: "sl", E: base}},
				{K: "sl", E: &Ty{K: "ptr", E: base}},
				{K: "st", F: []Fld{{Go: "L", Name: "L", Tag: `nbt:",list"`, List: true, T: &Ty{K: "sl", E: base}}}},
				{K: "st", F: []Fld{{Go: "L", Name: "L", Tag: `nbt:",list"`, List: true, T: &Ty{K: "ar", N: 2, E: base}}}},
				{K: "st", F: []Fld{{Go: "L", Name: "L", Tag: `nbt:",list"`, List: true, T: &Ty{K: "sl", E: &Ty{K: "ptr", E: base}}}}},
				{K: "st", F: []Fld{{Go: "L", Name: "L", Tag: `nbt:",list"`, List: true, T: &Ty{K: "ptr", E: &Ty{K: "sl", E: base}}}}},
				{K: "st", F: []Fld{{Go: "L", Name: "L", Tag: `nbt:",list,omitempty"`, List: true, Omit: true, T: &Ty{K: "ar", N: 2, E: &Ty{K: "ptr", E: &Ty{K: "ptr", E: base}}}}}},
			}
			for _, t := range wraps {
				run("kinds."+k, t, genVal(r, t, 3, false))
			}
		}
	}
	// 2. random types
	for i := 0; i < o.N(700, 25); i++ {
		t := genTy(r, 1+r.Intn(3))
		if i%3 == 0 {
			t = genStruct(r, 1+r.Intn(3))
		}
		v := genVal(r, t, 4, false)
		run("random."+t.K, t, v)
	}
	// 3. carriers: decode a generated document, encode it again
	for i := 0; i < o.N(260, 20); i++ {
		file := r.Bool()
		name := names[r.Intn(len(names))]
		if !file {
			name = nil
		}
		for _, kind := range []string{"raw", "dyn"} {
			carrier(o, "root", kind, c01x.GenDoc(r, 0), file, name)
			carrier(o, "field", kind, &c01x.Tree{Kind: c01x.Compound, Keys: [][]byte{[]byte("F")}, List: []*c01x.Tree{smallTree(r)}}, file, name)
			m := c01x.GenDoc(r, c01x.Compound)
			carrier(o, "map", kind, m, file, name)
			l := c01x.GenDoc(r, c01x.List)
			carrier(o, "list", kind, l, file, name)
		}
	}
	for i := 0; i < o.N(60, 10); i++ {
		file := r.Bool()
		var name []byte
		if file {
			name = names[r.Intn(len(names))]
		}
		for _, ctx := range []string{"root", "field", "map", "list"} {
			carrierSNBT(o, ctx, snbtDoc(r, i%2), file, name)
		}
	}
	// 4. embedding through named helper types (predicate only: not in the model's universe)
	embedded(o)
	dynValueField(o)
	embeddedModel(o)
	typeFieldsModel(o)
}

// f32bits: the bits of a float32-kinded value as stored (reflect.Value.Float goes through float64 and quiets
// signalling NaNs on amd64)
func f32bits(v reflect.Value) uint32 {
	nv := reflect.New(v.Type()).Elem()
	nv.Set(v)
	return *(*uint32)(nv.Addr().UnsafePointer())
}
