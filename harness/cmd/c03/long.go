// Arrays longer than the decoder's first allocation step (64 KiB), complete and cut at every interesting point,
// into every destination that takes a byte array: predicate only (never a panic, a strict prefix of a document
// is never a success, a complete document is accepted) - such inputs are too long for the model-side case files.
package main

import (
	"bytes"
	"encoding/binary"
	"fmt"

	"github.com/Tnze/go-mc/nbt"
	"github.com/Tnze/go-mc/nbt/dynbt"
	"verif/harness/hx"
)

func longArrays() {
	r := o.R
	type dest struct {
		name string
		mk   func() any
	}
	dests := []dest{
		{"[]byte", func() any { return new([]byte) }},
		{"[]int8", func() any { return new([]int8) }},
		{"[]bool", func() any { return new([]bool) }},
		{"[70000]uint8", func() any { return new([70000]uint8) }},
		{"any", func() any { return new(any) }},
		{"RawMessage", func() any { return new(nbt.RawMessage) }},
		{"dynbt.Value", func() any { return new(dynbt.Value) }},
	}
	for _, n := range []int{65537, 70000, 131073} {
		if n != 70000 && !o.Thorough() {
			continue
		}
		payload := r.Bytes(n)
		doc := []byte{7, 0, 0}
		doc = binary.BigEndian.AppendUint32(doc, uint32(n))
		doc = append(doc, payload...)
		cuts := []int{len(doc), len(doc) - 1, 7 + 65536, 7 + 65536 + 1, 7 + 66000, 7 + 65535, 7 + 1, 7}
		for _, d := range dests {
			if d.name == "[70000]uint8" && n != 70000 {
				continue
			}
			for _, cut := range cuts {
				if cut > len(doc) {
					continue
				}
				in := doc[:cut]
				var err error
				pan := hx.Try(func() {
					dec := nbt.NewDecoder(bytes.NewReader(in))
					_, err = dec.Decode(d.mk())
				})
				desc := fmt.Sprintf("byte array declaring %d bytes, %d of %d document bytes supplied, into %s", n, cut, len(doc), d.name)
				o.Eval("long-array", true, desc)
				switch {
				case pan != "":
					o.Fail("C03.panic.long-array", "%s: panic=%s", desc, pan)
				case cut < len(doc) && err == nil:
					o.Fail("C03.accepts.prefix.long-array", "%s: accepted", desc)
				case cut == len(doc) && err != nil:
					o.Fail("C03.rejects.long-array", "%s: complete document refused: %v", desc, err)
				}
			}
		}
	}
}
