// C03 harness: NBT decoders are total.  Mutational corpus (bit flips, every length field overwritten,
// truncation at every offset, tag-id substitution) derived from valid generated documents, plus uniform
// random strings; every decoding entry point under recover and a per-call watchdog; hostile declared
// lengths in a child process under an address-space limit and an allocation bound.  Outcome class, value
// and bytes left are compared with the extracted model (driver/c03.ml); the property predicate is
// evaluated with an independent reference walker written from the format definition (refWalk).
package main

import (
	"bufio"
	"bytes"
	"encoding/binary"
	"fmt"
	"io"
	"math"
	"os"
	"os/exec"
	"reflect"
	"runtime"
	"runtime/debug"
	"strconv"
	"strings"
	"syscall"
	"time"

	"github.com/Tnze/go-mc/nbt"
	"github.com/Tnze/go-mc/nbt/dynbt"
	"verif/harness/c01x"
	"verif/harness/hx"
)

// ---------------------------------------------------------------------------------------------
// struct shapes (field names: ASCII without k/K/s/S, for which strings.EqualFold is ASCII folding)

type In1 struct {
	X int64 `nbt:"x"`
}
type In2 struct {
	Y string `nbt:"y"`
	Z *In1   `nbt:"z"`
}
type S1 struct {
	A int8           `nbt:"a"`
	B any            // key "B"; "b" matches through the case-folding fallback
	C []int32        `nbt:"c"`
	D *In1           `nbt:"d"`
	E [2]int16       `nbt:"e"`
	F nbt.RawMessage `nbt:"f"`
	G []In2          `nbt:"g"`
	H map[string]any `nbt:"h"`
}
type S2 struct {
	Name string `nbt:"Name"`
	Ab   uint16 // "Ab", "ab", "AB", "aB"
	AB   bool   `nbt:"AB"` // exact match wins over folding
	L    []int64
	U    []uint64 `nbt:"u"`
	By   []byte   `nbt:"c"`
	I8   []int8   `nbt:"d"`
	F    float32  `nbt:"f"`
	P    *int32   `nbt:"p"`
	PP   **In1    `nbt:"q"`
}
type S3 struct {
	A  [3]int32          `nbt:"a"`
	B  [2]int64          `nbt:"b"`
	C  [4]byte           `nbt:"c"`
	D  [2]bool           `nbt:"d"`
	E  [2]uint32         `nbt:"e"`
	R  []nbt.RawMessage  `nbt:"r"`
	PR *nbt.RawMessage   `nbt:"pr"`
	LA [][2]int16        `nbt:"la"`
	LP []*In1            `nbt:"lp"`
	AA []any             `nbt:"aa"`
	MM []map[string]any  `nbt:"mm"`
	N  In2               `nbt:"n"`
	W  [][]string        `nbt:"w"`
	Z  [0]int8           `nbt:"z"`
}

var shapeTypes = []reflect.Type{
	reflect.TypeOf(S1{}), reflect.TypeOf(S2{}), reflect.TypeOf(S3{}), reflect.TypeOf(In2{}),
	reflect.TypeOf([]S1{}), reflect.TypeOf((*S2)(nil)), reflect.TypeOf([2]int16{}), reflect.TypeOf([3]int32{}),
}

var rawType = reflect.TypeOf(nbt.RawMessage{})

// ---- random shapes (reflect.StructOf): the quantifier "all decode targets" is sampled over shapes too

var scalarTypes = []reflect.Type{
	reflect.TypeOf(false), reflect.TypeOf(int8(0)), reflect.TypeOf(uint8(0)), reflect.TypeOf(int16(0)), reflect.TypeOf(uint16(0)),
	reflect.TypeOf(int32(0)), reflect.TypeOf(uint32(0)), reflect.TypeOf(int64(0)), reflect.TypeOf(uint64(0)),
	reflect.TypeOf(int(0)), reflect.TypeOf(uint(0)), reflect.TypeOf(float32(0)), reflect.TypeOf(""),
}

// NBT field names: ASCII letters without k/K/s/S, drawn from a small pool in random case so that names
// which differ only in case (the strings.EqualFold fallback) meet in one struct
func genFieldName(r *hx.Rng) string {
	pool := []string{"a", "b", "ab", "na", "me", "id", "x", "tag", "name", "w"}
	b := []byte(pool[r.Intn(len(pool))])
	if r.Intn(8) == 0 {
		b = r.Bytes(1 + r.Intn(3))
		for i := range b {
			b[i] = "abcdefghijlmnopqrtuvwxyz"[int(b[i])%24]
		}
	}
	for i := range b {
		if r.Intn(3) == 0 {
			b[i] ^= 0x20
		}
	}
	return string(b)
}

func genFieldType(r *hx.Rng, depth int) reflect.Type {
	scalar := func() reflect.Type { return scalarTypes[r.Intn(len(scalarTypes))] }
	anyT := reflect.TypeOf((*any)(nil)).Elem()
	k := r.Intn(16)
	if depth <= 1 && (k == 6 || k == 7 || k == 12 || k == 13) {
		k = r.Intn(6)
	}
	switch k {
	case 0, 1, 2:
		return scalar()
	case 3:
		return reflect.SliceOf(scalar())
	case 4:
		return reflect.ArrayOf(r.Intn(4), scalarTypes[r.Intn(len(scalarTypes)-2)]) // no float / string arrays needed, any scalar works
	case 5:
		return anyT
	case 6:
		return genStruct(r, depth-1)
	case 7:
		return reflect.PointerTo(genStruct(r, depth-1))
	case 8:
		return reflect.PointerTo(scalar())
	case 9:
		return reflect.TypeOf(map[string]any(nil))
	case 10:
		return rawType
	case 11:
		return reflect.SliceOf(anyT)
	case 12:
		return reflect.SliceOf(genStruct(r, depth-1))
	case 13:
		return reflect.SliceOf(reflect.PointerTo(genStruct(r, depth-1)))
	case 14:
		return reflect.SliceOf(reflect.SliceOf(scalar()))
	}
	return reflect.SliceOf(rawType)
}

// genShapes appends n generated shapes to shapeTypes.
func genShapes(r *hx.Rng, n int) {
	for i := 0; i < n; i++ {
		t := genStruct(r, 1+r.Intn(3))
		switch r.Intn(6) {
		case 0:
			t = reflect.PointerTo(t)
		case 1:
			t = reflect.SliceOf(t)
		}
		shapeTypes = append(shapeTypes, t)
	}
}

// genStruct: 1..6 fields, nesting at most depth
func genStruct(r *hx.Rng, depth int) reflect.Type {
	n := 1 + r.Intn(6)
	seen := map[string]bool{}
	var fs []reflect.StructField
	for i := 0; i < n; i++ {
		f := reflect.StructField{Name: fmt.Sprintf("F%d", i), Type: genFieldType(r, depth)}
		name := f.Name
		if r.Intn(5) != 0 {
			name = genFieldName(r)
			f.Tag = reflect.StructTag(`nbt:"` + name + `"`)
		}
		if seen[name] { // two fields with the same NBT name annihilate each other (typeFields): not modelled
			continue
		}
		seen[name] = true
		fs = append(fs, f)
	}
	return reflect.StructOf(fs)
}

func baseToken(t reflect.Type) (string, bool) {
	switch t.Kind() {
	case reflect.Bool:
		return "bool", true
	case reflect.Int8:
		return "i8", true
	case reflect.Uint8:
		return "u8", true
	case reflect.Int16:
		return "i16", true
	case reflect.Uint16:
		return "u16", true
	case reflect.Int32:
		return "i32", true
	case reflect.Uint32:
		return "u32", true
	case reflect.Int64:
		return "i64", true
	case reflect.Uint64:
		return "u64", true
	case reflect.Int:
		return "int", true
	case reflect.Uint:
		return "uint", true
	case reflect.Float32:
		return "f32", true
	case reflect.String:
		return "str", true
	case reflect.Interface:
		return "any", true
	case reflect.Map:
		return "map", true
	case reflect.Slice:
		if e, ok := baseToken(t.Elem()); ok {
			return "sl:" + e, true
		}
	}
	return "", false
}

// shapeOf renders a Go type in the shape syntax of driver/c03.ml.
func shapeOf(t reflect.Type) string {
	switch t.Kind() {
	case reflect.Interface:
		return "any"
	case reflect.Map:
		return "map"
	case reflect.Pointer:
		return "p(" + shapeOf(t.Elem()) + ")"
	case reflect.Array:
		e, ok := baseToken(t.Elem())
		if !ok {
			panic("array element " + t.String())
		}
		return fmt.Sprintf("a%d:%s", t.Len(), e)
	case reflect.Struct:
		if t == rawType {
			return "raw"
		}
		var sb strings.Builder
		sb.WriteString("s{")
		for i := 0; i < t.NumField(); i++ {
			f := t.Field(i)
			name := f.Name
			if tag := f.Tag.Get("nbt"); tag != "" {
				name = strings.SplitN(tag, ",", 2)[0]
			}
			if i > 0 {
				sb.WriteByte(';')
			}
			sb.WriteString(hx.Hex([]byte(name)) + "=" + shapeOf(f.Type))
		}
		sb.WriteByte('}')
		return sb.String()
	case reflect.Slice:
		if b, ok := baseToken(t); ok {
			return "b:" + b
		}
		return "l(" + shapeOf(t.Elem()) + ")"
	}
	if b, ok := baseToken(t); ok {
		return "b:" + b
	}
	panic("shape " + t.String())
}

// canon renders a decoded Go value in the syntax of pr_sval / pr_tval (driver/c03.ml).
func canon(sb *strings.Builder, v reflect.Value) {
	switch v.Kind() {
	case reflect.Bool:
		if v.Bool() {
			sb.WriteString("z:1")
		} else {
			sb.WriteString("z:0")
		}
	case reflect.Int, reflect.Int8, reflect.Int16, reflect.Int32, reflect.Int64:
		fmt.Fprintf(sb, "n:%d", v.Int())
	case reflect.Uint, reflect.Uint8, reflect.Uint16, reflect.Uint32, reflect.Uint64:
		fmt.Fprintf(sb, "n:%d", v.Uint())
	case reflect.Float32:
		fmt.Fprintf(sb, "f:%d", math.Float32bits(v.Interface().(float32))) // the bits as stored (no conversion)
	case reflect.Float64:
		fmt.Fprintf(sb, "d:%d", math.Float64bits(v.Float()))
	case reflect.String:
		sb.WriteString("S:" + hx.Hex([]byte(v.String())))
	case reflect.Interface, reflect.Map:
		if v.IsNil() {
			sb.WriteString("?nil")
			return
		}
		c01x.CanonAny(sb, v.Interface())
	case reflect.Pointer:
		if v.IsNil() {
			sb.WriteString("*nil")
			return
		}
		sb.WriteByte('*')
		canon(sb, v.Elem())
	case reflect.Slice:
		sb.WriteByte('<')
		for i := 0; i < v.Len(); i++ {
			if i > 0 {
				sb.WriteByte(',')
			}
			canon(sb, v.Index(i))
		}
		sb.WriteByte('>')
	case reflect.Array:
		sb.WriteByte('(')
		for i := 0; i < v.Len(); i++ {
			if i > 0 {
				sb.WriteByte(',')
			}
			canon(sb, v.Index(i))
		}
		sb.WriteByte(')')
	case reflect.Struct:
		if v.Type() == rawType {
			m := v.Interface().(nbt.RawMessage)
			fmt.Fprintf(sb, "R%d:%s", m.Type, hx.Hex(m.Data))
			return
		}
		sb.WriteString("{|")
		for i := 0; i < v.NumField(); i++ {
			if i > 0 {
				sb.WriteByte(';')
			}
			canon(sb, v.Field(i))
		}
		sb.WriteString("|}")
	default:
		fmt.Fprintf(sb, "?%s", v.Kind())
	}
}

// typeOfTarget: the Go destination type of a typed target ("ty:<type>" or "st:<index>").
func typeOfTarget(target string) reflect.Type {
	if strings.HasPrefix(target, "ty:") {
		return c01x.GoType(target[3:])
	}
	var i int
	fmt.Sscanf(target, "st:%d", &i)
	return shapeTypes[i]
}

// caseTarget: the target as written on the case line (shapes are spelled out for the model).
func caseTarget(target string) string {
	if strings.HasPrefix(target, "st:") {
		return "st:" + shapeOf(typeOfTarget(target))
	}
	return target
}

// ---------------------------------------------------------------------------------------------
// running the implementation

const (
	opDecode    = 0 // Decoder.Decode, file or network format
	opUnmarshal = 1 // nbt.Unmarshal (file format, bytes.Reader)
	opRawUnm    = 2 // RawMessage{Type,Data}.Unmarshal
)

type result = c01x.Result

func runTyped(op int, file bool, id byte, target string, data []byte, mode int) (res result) {
	done := make(chan result, 1)
	go func() {
		var r result
		r.Panic = hx.Try(func() { r = runTyped1(op, file, id, target, data, mode) })
		if r.Panic != "" {
			r.Class = "panic"
		}
		done <- r
	}()
	tm := time.NewTimer(c01x.Watchdog)
	defer tm.Stop()
	select {
	case r := <-done:
		return r
	case <-tm.C:
		return result{Class: "hang"}
	}
}

func runTyped1(op int, file bool, id byte, target string, data []byte, mode int) result {
	var dst reflect.Value
	switch target {
	case "any":
		dst = reflect.New(reflect.TypeOf((*any)(nil)).Elem())
	case "map":
		dst = reflect.New(reflect.TypeOf(map[string]any(nil)))
	case "raw":
		dst = reflect.New(rawType)
	case "dyn":
		dst = reflect.New(reflect.TypeOf(dynbt.Value{}))
	case "snbt":
		dst = reflect.New(reflect.TypeOf(nbt.StringifiedMessage("")))
	case "skip":
		dst = reflect.New(reflect.TypeOf(struct{}{}))
	default:
		dst = reflect.New(typeOfTarget(target))
	}
	var name string
	var err error
	left := 0
	switch op {
	case opUnmarshal:
		err = nbt.Unmarshal(data, dst.Interface())
		left = -1
	case opRawUnm:
		err = nbt.RawMessage{Type: id, Data: data}.Unmarshal(dst.Interface())
		left = -1
	default:
		var rd io.Reader
		lf := func() int { return 0 }
		if mode == 0 {
			br := bytes.NewReader(data)
			rd, lf = br, br.Len
		} else {
			p := &c01x.Plain{B: data}
			if mode == 2 {
				p.Chunk = 1
			} else if mode == 3 {
				p.Chunk = 3
			}
			rd, lf = p, func() int { return len(p.B) - p.Off }
		}
		d := nbt.NewDecoder(rd)
		d.NetworkFormat(!file)
		name, err = d.Decode(dst.Interface())
		left = lf()
	}
	if err != nil {
		return result{Class: "err", Err: err}
	}
	var sb strings.Builder
	switch target {
	case "any", "map":
		c01x.CanonAny(&sb, dst.Elem().Interface())
	case "raw":
		m := dst.Elem().Interface().(nbt.RawMessage)
		fmt.Fprintf(&sb, "R%d:%s", m.Type, hx.Hex(m.Data))
	case "dyn":
		dst.Interface().(*dynbt.Value).VerifDump(&sb)
	case "snbt", "skip":
		sb.WriteByte('-')
	default:
		canon(&sb, dst.Elem())
	}
	return result{Class: "ok", Name: []byte(name), Value: sb.String(), Left: left}
}

// ---------------------------------------------------------------------------------------------
// the reference walker: NBT binary format, written from the format definition only

type ref struct {
	ok      bool
	why     string // negative-length unknown-tag truncated end-element compressed end-root
	used    int
	root    byte
	lenient bool  // an empty list with an element id above 12: no claim either way
	hostile int64 // largest declared count that exceeds what the remaining input can hold
	deep    int   // lists / compounds inside one another on the deepest path walked
}

// maxOpen: lists and compounds that may be open at once (maxNestingDepth + 1, the outermost value is depth 0)
const maxOpen = 10001

type walker struct {
	b     []byte
	off   int
	depth int
	r     *ref
}

// enter a list or compound: deeper than maxOpen is refused (and the walker itself stops recursing)
func (w *walker) enter() bool {
	w.depth++
	if w.depth > w.r.deep {
		w.r.deep = w.depth
	}
	if w.depth > maxOpen {
		w.fail("too-deep")
		return false
	}
	return true
}

func (w *walker) need(n int64, declared int64) bool {
	if int64(len(w.b)-w.off) < n {
		if declared > w.r.hostile {
			w.r.hostile = declared
		}
		w.fail("truncated")
		return false
	}
	return true
}
func (w *walker) fail(why string) {
	if w.r.why == "" {
		w.r.why = why
	}
}
func (w *walker) i32() (int64, bool) {
	if !w.need(4, 0) {
		return 0, false
	}
	v := int64(int32(binary.BigEndian.Uint32(w.b[w.off:])))
	w.off += 4
	return v, true
}
func (w *walker) str() bool {
	if !w.need(2, 0) {
		return false
	}
	n := int64(int16(binary.BigEndian.Uint16(w.b[w.off:])))
	w.off += 2
	if n < 0 {
		w.fail("negative-length")
		return false
	}
	if !w.need(n, 0) {
		return false
	}
	w.off += int(n)
	return true
}

var fixed = [7]int64{0, 1, 2, 4, 8, 4, 8}

func (w *walker) value(id byte) bool {
	switch {
	case id >= 1 && id <= 6:
		if !w.need(fixed[id], 0) {
			return false
		}
		w.off += int(fixed[id])
		return true
	case id == 8:
		return w.str()
	case id == 7 || id == 11 || id == 12:
		n, ok := w.i32()
		if !ok {
			return false
		}
		if n < 0 {
			w.fail("negative-length")
			return false
		}
		size := n
		if id == 11 {
			size = 4 * n
		} else if id == 12 {
			size = 8 * n
		}
		if !w.need(size, n) {
			return false
		}
		w.off += int(size)
		return true
	case id == 9:
		if !w.enter() {
			return false
		}
		defer func() { w.depth-- }()
		if !w.need(1, 0) {
			return false
		}
		eid := w.b[w.off]
		w.off++
		n, ok := w.i32()
		if !ok {
			return false
		}
		if n < 0 {
			w.fail("negative-length")
			return false
		}
		if n == 0 {
			if eid > 12 {
				w.r.lenient = true
			}
			return true
		}
		if n > int64(len(w.b)-w.off) && n > w.r.hostile {
			w.r.hostile = n
		}
		if eid == 0 {
			w.fail("end-element")
			return false
		}
		if eid > 12 {
			w.fail("unknown-tag")
			return false
		}
		for i := int64(0); i < n; i++ {
			if !w.value(eid) {
				return false
			}
		}
		return true
	case id == 10:
		if !w.enter() {
			return false
		}
		defer func() { w.depth-- }()
		for {
			if !w.need(1, 0) {
				return false
			}
			t := w.b[w.off]
			w.off++
			if t == 0 {
				return true
			}
			if t > 12 {
				w.fail("unknown-tag")
				return false
			}
			if !w.str() || !w.value(t) {
				return false
			}
		}
	}
	w.fail("unknown-tag")
	return false
}

func refWalk(data []byte, file bool) ref {
	var r ref
	w := &walker{b: data, r: &r}
	if !w.need(1, 0) {
		return r
	}
	id := data[0]
	w.off = 1
	r.root = id
	if file && (id == 0x1f || id == 0x78) {
		w.fail("compressed")
		return r
	}
	if id == 0 {
		w.fail("end-root")
		r.used = 1
		return r
	}
	if id > 12 {
		w.fail("unknown-tag")
		return r
	}
	if file && !w.str() {
		return r
	}
	if w.value(id) {
		r.ok = true
		r.used = w.off
	}
	return r
}

// ---------------------------------------------------------------------------------------------
// an encoder of c01x trees that records where the tag ids and the length fields are

type field struct {
	off, width int // width 2 (string / name) or 4
	val        int64
}
type layout struct {
	buf  bytes.Buffer
	ids  []int
	lens []field
}

func (l *layout) str(s []byte) {
	l.lens = append(l.lens, field{l.buf.Len(), 2, int64(len(s))})
	l.buf.WriteByte(byte(len(s) >> 8))
	l.buf.WriteByte(byte(len(s)))
	l.buf.Write(s)
}
func (l *layout) i32(n int) {
	l.lens = append(l.lens, field{l.buf.Len(), 4, int64(n)})
	var w [4]byte
	binary.BigEndian.PutUint32(w[:], uint32(n))
	l.buf.Write(w[:])
}
func (l *layout) payload(t *c01x.Tree) {
	switch t.Kind {
	case c01x.ByteArray:
		l.i32(len(t.Bytes))
		l.buf.Write(t.Bytes)
	case c01x.String:
		l.str(t.Bytes)
	case c01x.IntArray, c01x.LongArray:
		l.i32(len(t.Ints))
		var b bytes.Buffer
		t.Payload(&b)
		l.buf.Write(b.Bytes()[4:])
	case c01x.List:
		l.ids = append(l.ids, l.buf.Len())
		l.buf.WriteByte(t.Eid)
		l.i32(len(t.List))
		for _, e := range t.List {
			l.payload(e)
		}
	case c01x.Compound:
		for i, e := range t.List {
			l.ids = append(l.ids, l.buf.Len())
			l.buf.WriteByte(e.Kind)
			l.str(t.Keys[i])
			l.payload(e)
		}
		l.ids = append(l.ids, l.buf.Len())
		l.buf.WriteByte(0)
	default:
		t.Payload(&l.buf)
	}
}
func layoutDoc(t *c01x.Tree, file bool, name []byte) *layout {
	l := &layout{}
	l.ids = append(l.ids, 0)
	l.buf.WriteByte(t.Kind)
	if file {
		l.str(name)
	}
	l.payload(t)
	return l
}

// ---------------------------------------------------------------------------------------------
// documents aimed at the struct shapes

func keyVariants(r *hx.Rng, name string) []byte {
	b := []byte(name)
	switch r.Intn(6) {
	case 0:
		return bytes.ToUpper(b)
	case 1:
		return bytes.ToLower(b)
	case 2:
		if len(b) > 0 {
			i := r.Intn(len(b))
			b[i] ^= 0x20
		}
	}
	return b
}

// forceLen >= 0 fixes the element count of every slice / array value fitTree draws (long-then-short and
// short-then-long pairs for duplicate keys and used destinations)
var forceLen = -1

// fitTree draws a tree that usually decodes into t (and sometimes deliberately does not).
func fitTree(r *hx.Rng, t reflect.Type, depth int) *c01x.Tree {
	budget := 30
	if depth <= 0 || r.Intn(40) == 0 {
		return c01x.Gen(r, 0, 2, &budget, false)
	}
	switch t.Kind() {
	case reflect.Interface:
		return c01x.Gen(r, 0, 2, &budget, false)
	case reflect.Map:
		return c01x.Gen(r, c01x.Compound, 3, &budget, false)
	case reflect.Pointer:
		return fitTree(r, t.Elem(), depth)
	case reflect.Struct:
		if t == rawType {
			return c01x.Gen(r, 0, 3, &budget, false)
		}
		c := &c01x.Tree{Kind: c01x.Compound}
		n := r.Intn(t.NumField() + 3)
		for i := 0; i < n; i++ {
			if t.NumField() == 0 || r.Intn(9) == 0 { // unknown field: skipped
				c.Keys = append(c.Keys, c01x.GenKey(r))
				c.List = append(c.List, c01x.Gen(r, 0, 3, &budget, false))
				continue
			}
			f := t.Field(r.Intn(t.NumField()))
			name := f.Name
			if tag := f.Tag.Get("nbt"); tag != "" {
				name = strings.SplitN(tag, ",", 2)[0]
			}
			c.Keys = append(c.Keys, keyVariants(r, name))
			c.List = append(c.List, fitTree(r, f.Type, depth-1))
		}
		return c
	case reflect.Array, reflect.Slice:
		n := r.Intn(5)
		if t.Kind() == reflect.Array && r.Intn(3) != 0 {
			n = t.Len()
		}
		if forceLen >= 0 && (t.Kind() == reflect.Slice || r.Bool()) {
			n = forceLen
		}
		ek := t.Elem().Kind()
		if r.Bool() { // the typed-array forms
			switch ek {
			case reflect.Int8, reflect.Uint8, reflect.Bool:
				return &c01x.Tree{Kind: c01x.ByteArray, Bytes: r.Bytes(n)}
			case reflect.Int32, reflect.Uint32, reflect.Int:
				a := &c01x.Tree{Kind: c01x.IntArray, Ints: make([]int64, n)}
				for i := range a.Ints {
					a.Ints[i] = int64(int32(r.Next()))
				}
				return a
			case reflect.Int64, reflect.Uint64:
				a := &c01x.Tree{Kind: c01x.LongArray, Ints: make([]int64, n)}
				for i := range a.Ints {
					a.Ints[i] = int64(r.Next())
				}
				return a
			}
		}
		l := &c01x.Tree{Kind: c01x.List}
		for i := 0; i < n; i++ {
			e := fitTree(r, t.Elem(), depth-1)
			if i == 0 {
				l.Eid = e.Kind
			} else if e.Kind != l.Eid {
				continue
			}
			l.List = append(l.List, e)
		}
		if len(l.List) == 0 {
			l.Eid = byte(r.Intn(13))
		}
		return l
	case reflect.Bool, reflect.Int8, reflect.Uint8:
		return &c01x.Tree{Kind: c01x.Byte, I: int64(int8(r.Next()))}
	case reflect.Int16, reflect.Uint16:
		return &c01x.Tree{Kind: byte(1 + r.Intn(2)), I: int64(int8(r.Next()))}
	case reflect.Int32, reflect.Uint32:
		return &c01x.Tree{Kind: byte(1 + r.Intn(3)), I: int64(int8(r.Next()))}
	case reflect.Int64, reflect.Uint64, reflect.Int, reflect.Uint:
		return &c01x.Tree{Kind: byte(1 + r.Intn(4)), I: int64(int8(r.Next()))}
	case reflect.Float32:
		return &c01x.Tree{Kind: c01x.Float, Bits: uint64(uint32(r.Next()))}
	case reflect.String:
		return &c01x.Tree{Kind: c01x.String, Bytes: r.Bytes(r.Intn(6))}
	}
	return c01x.Gen(r, 0, 2, &budget, false)
}

func fieldKey(f reflect.StructField) string {
	if tag := f.Tag.Get("nbt"); tag != "" {
		return strings.SplitN(tag, ",", 2)[0]
	}
	return f.Name
}

// wrapFor builds the document around a compound c so that it reaches the struct inside pointer / slice shapes
func structOf(t reflect.Type) (reflect.Type, func(c *c01x.Tree) *c01x.Tree) {
	wrap := func(c *c01x.Tree) *c01x.Tree { return c }
	for {
		switch t.Kind() {
		case reflect.Pointer:
			t = t.Elem()
			continue
		case reflect.Slice:
			t = t.Elem()
			inner := wrap
			wrap = func(c *c01x.Tree) *c01x.Tree {
				return &c01x.Tree{Kind: c01x.List, Eid: c01x.Compound, List: []*c01x.Tree{inner(c)}}
			}
			continue
		}
		break
	}
	if t.Kind() != reflect.Struct || t == rawType {
		return nil, nil
	}
	return t, wrap
}

// dupKeys: the same field named twice in one compound - exact name and a case-folded variant, both orders,
// first value long and second short and the other way round: the second value is decoded INTO what the first left
func dupKeys(k int) {
	r := o.R
	st, wrap := structOf(shapeTypes[k])
	if st == nil {
		return
	}
	for i := 0; i < st.NumField(); i++ {
		f := st.Field(i)
		name := fieldKey(f)
		for _, lens := range [][2]int{{5, 1}, {1, 5}, {3, 0}, {2, 2}} {
			forceLen = lens[0]
			v1 := fitTree(r, f.Type, 3)
			forceLen = lens[1]
			v2 := fitTree(r, f.Type, 3)
			forceLen = -1
			k1, k2 := []byte(name), keyVariants(r, name)
			if r.Bool() {
				k1, k2 = k2, k1
			}
			c := &c01x.Tree{Kind: c01x.Compound, Keys: [][]byte{k1, k2}, List: []*c01x.Tree{v1, v2}}
			if r.Intn(3) == 0 { // a third occurrence, and something unknown in between
				c.Keys = append(c.Keys, c01x.GenKey(r), keyVariants(r, name))
				b := 6
				c.List = append(c.List, c01x.Gen(r, 0, 2, &b, false), fitTree(r, f.Type, 2))
			}
			file := r.Bool()
			feed("shape.dupkey", file, wrap(c).Doc(file, nil), []string{fmt.Sprintf("st:%d", k)}, "")
		}
	}
}

// usedDest: document 1, then document 2 decoded into the SAME Go value (the model gets the first result as the
// current state of the destination); element counts growing and shrinking
func usedDest(k int) {
	r := o.R
	t := shapeTypes[k]
	target := fmt.Sprintf("st:%d", k)
	for _, lens := range [][2]int{{4, 1}, {1, 4}, {-1, -1}, {3, 3}, {0, 2}} {
		forceLen = lens[0]
		d1 := fitTree(r, t, 3).Doc(false, nil)
		forceLen = lens[1]
		d2 := fitTree(r, t, 3).Doc(false, nil)
		forceLen = -1
		if r.Intn(6) == 0 && len(d2) > 2 { // a damaged second document
			d2 = append([]byte{}, d2...)
			d2[r.Intn(len(d2))] ^= 1 << uint(r.Intn(8))
		}
		w1, w2 := refWalk(d1, false), refWalk(d2, false)
		if w1.hostile >= hostileMin || w2.hostile >= hostileMin || w1.deep > deepMin || w2.deep > deepMin {
			continue
		}
		dst := reflect.New(t)
		var res result
		done := make(chan result, 1)
		first := true
		go func() {
			var r2 result
			r2.Panic = hx.Try(func() {
				d0 := nbt.NewDecoder(bytes.NewReader(d1))
				d0.NetworkFormat(true)
				if _, err := d0.Decode(dst.Interface()); err != nil {
					r2 = result{Class: "first-err"}
					return
				}
				first = false
				br := bytes.NewReader(d2)
				dec := nbt.NewDecoder(br)
				dec.NetworkFormat(true)
				name, err := dec.Decode(dst.Interface())
				if err != nil {
					r2 = result{Class: "err", Err: err}
					return
				}
				var sb strings.Builder
				canon(&sb, dst.Elem())
				r2 = result{Class: "ok", Name: []byte(name), Value: sb.String(), Left: br.Len()}
			})
			if r2.Panic != "" {
				r2.Class = "panic"
			}
			done <- r2
		}()
		select {
		case res = <-done:
		case <-time.After(c01x.Watchdog):
			res = result{Class: "hang"}
		}
		_ = first
		if res.Class == "first-err" {
			continue
		}
		idx++
		o.Case("shape.used.st", true, fmt.Sprintf("D %d net %s %s %s", idx, caseTarget(target), hx.Hex(d1), hx.Hex(d2)), res.Line(fmt.Sprintf("D %d", idx)))
		judge("shape.used", false, target, d2, w2, res, "")
	}
}

// ---------------------------------------------------------------------------------------------
// one input, a set of targets: run, record for the model, evaluate the predicate

var (
	idx       int
	o         *hx.Out
	untyped   = []string{"any", "map", "raw", "dyn", "snbt", "skip"}
	hostileQ  []hostileCase
	allocSeen int
	predOnly  bool // cases fed while this is set go to the predicate only
	trace     = os.Getenv("C03_TRACE") != "" // print every in-process case before it runs (debugging a runaway)
)

type hostileCase struct {
	noModel bool // judged by the predicate only (the model is quadratic in the nesting depth: 14 s per line at the limit)
	cat    string
	file   bool
	target string
	data   []byte
	w      ref
}

func fmtName(file bool) string {
	if file {
		return "file"
	}
	return "net"
}

func clip(s string) string {
	if len(s) > 300 {
		return s[:300] + "..."
	}
	return s
}

// pickTargets: all untyped targets for one input in three, otherwise three of them; plus typed ones.
func pickTargets(r *hx.Rng, fit []string) []string {
	var ts []string
	if r.Intn(3) == 0 {
		ts = append(ts, untyped...)
	} else {
		for i := 0; i < 3; i++ {
			ts = append(ts, untyped[r.Intn(len(untyped))])
		}
	}
	ts = append(ts, fit...)
	if r.Intn(3) == 0 {
		ts = append(ts, "ty:"+c01x.MisfitType(r))
	}
	if r.Intn(2) == 0 {
		ts = append(ts, fmt.Sprintf("st:%d", r.Intn(len(shapeTypes))))
	}
	return ts
}

// predicate: what the format definition says about this input (w), against what the implementation did
func judge(cat string, file bool, target string, data []byte, w ref, res result, mustFail string) {
	desc := func() string {
		return fmt.Sprintf("cat=%s fmt=%s target=%s input=%s got=%s", cat, fmtName(file), caseTarget(target), clip(hx.Hex(data)), clip(res.Line("")))
	}
	base := strings.SplitN(target, ":", 2)[0]
	switch res.Class {
	case "panic":
		o.Fail("C03.panic."+base, "%s panic=%s", desc(), res.Panic)
		return
	case "hang":
		o.Fail("C03.hang."+base, "%s", desc())
		if !strings.HasPrefix(cat, "hostile.") { // in this process: the decoder is still running; stop here
			o.Note("run stopped after an in-process hang: %s", desc())
			o.Close()
			os.Exit(0)
		}
		return
	case "fatal": // the child process died: runtime fatal error (stack overflow, out of memory), not recoverable
		o.Fail("C03.fatal."+base, "%s: %s", desc(), res.Panic)
		return
	}
	if mustFail != "" && res.Class == "ok" {
		o.Fail("C03.accepts."+mustFail+"."+base, "%s", desc())
		return
	}
	if w.lenient {
		return
	}
	if !w.ok {
		if res.Class == "ok" && !(target == "dyn" && w.why == "end-root") {
			o.Fail("C03.accepts."+w.why+"."+base, "%s", desc())
		}
		return
	}
	// a well-formed document (possibly followed by other bytes)
	switch target {
	case "any", "raw", "dyn", "snbt", "map", "skip":
		fits := w.root == c01x.Compound || (target != "map" && target != "skip")
		if fits && res.Class != "ok" {
			o.Fail("C03.rejects."+base, "%s err=%v", desc(), res.Err)
		} else if !fits && res.Class == "ok" {
			o.Fail("C03.accepts.misfit."+base, "%s", desc())
		}
	}
	if res.Class == "ok" && res.Left >= 0 && res.Left != len(data)-w.used {
		o.Fail("C03.consumed."+base, "%s left=%d want=%d", desc(), res.Left, len(data)-w.used)
	}
}

func feed(cat string, file bool, data []byte, targets []string, mustFail string) {
	w := refWalk(data, file)
	for _, target := range targets {
		if w.hostile >= hostileMin || w.deep > deepMin {
			hostileQ = append(hostileQ, hostileCase{predOnly, cat, file, target, data, w})
			continue
		}
		idx++
		mode := o.R.Intn(4)
		op := opDecode
		if file && mode == 0 && o.R.Intn(4) == 0 {
			op = opUnmarshal
		}
		if trace {
			fmt.Fprintf(os.Stderr, "R %d %s %s %s\n", idx, fmtName(file), target, hx.Hex(data))
		}
		res := runTyped(op, file, 0, target, data, mode)
		implLine := res.Line(fmt.Sprintf("R %d", idx))
		caseLine := fmt.Sprintf("R %d %s %s %s", idx, fmtName(file), caseTarget(target), hx.Hex(data))
		if op == opUnmarshal {
			// Unmarshal reports neither the name nor the bytes left: compare class only, through a
			// document that the model decodes the same way
			if res.Class == "ok" {
				res2 := runTyped(opDecode, file, 0, target, data, 0)
				if res2.Class != "ok" || res2.Value != res.Value {
					o.Fail("C03.unmarshal-differs."+strings.SplitN(target, ":", 2)[0], "input=%s Unmarshal=%s Decode=%s", clip(hx.Hex(data)), clip(res.Value), clip(res2.Line("")))
				}
				implLine = res2.Line(fmt.Sprintf("R %d", idx))
				res.Left, res.Name = res2.Left, res2.Name
			}
		}
		o.Case(cat+"."+strings.SplitN(target, ":", 2)[0], len(data) > 1, caseLine, implLine)
		judge(cat, file, target, data, w, res, mustFail)
	}
}

// RawMessage{Type, Data}: String() and Unmarshal into every kind of destination
func feedRaw(cat string, id byte, data []byte) {
	w := refWalk(append([]byte{id}, data...), false)
	if w.hostile >= hostileMin || w.deep > deepMin {
		return
	}
	idx++
	var s string
	done := make(chan string, 1)
	go func() {
		p := hx.Try(func() { s = nbt.RawMessage{Type: id, Data: data}.String() })
		done <- p
	}()
	class := ""
	select {
	case p := <-done:
		switch {
		case p != "":
			class = "panic"
			o.Fail("C03.panic.rawstring", "type=%d data=%s panic=%s", id, clip(hx.Hex(data)), p)
		case strings.HasPrefix(s, "<Invalid: "):
			class = "invalid"
		default:
			class = "text"
		}
	case <-time.After(c01x.Watchdog):
		class = "hang"
		o.Fail("C03.hang.rawstring", "type=%d data=%s", id, clip(hx.Hex(data)))
	}
	o.Case(cat+".string", len(data) > 0, fmt.Sprintf("S %d %d %s", idx, id, hx.Hex(data)), fmt.Sprintf("S %d %s", idx, class))
	if id != 0 && !w.lenient {
		if w.ok && class == "invalid" {
			o.Fail("C03.rejects.rawstring", "type=%d data=%s got=%s", id, clip(hx.Hex(data)), clip(s))
		} else if !w.ok && class == "text" {
			o.Fail("C03.accepts."+w.why+".rawstring", "type=%d data=%s got=%s", id, clip(hx.Hex(data)), clip(s))
		}
	}
	targets := []string{"any", "ty:" + c01x.MisfitType(o.R), fmt.Sprintf("st:%d", o.R.Intn(len(shapeTypes)))}
	for _, target := range targets {
		idx++
		res := runTyped(opRawUnm, false, id, target, data, 0)
		line := fmt.Sprintf("U %d %s", idx, res.Class)
		if res.Class == "ok" {
			line = fmt.Sprintf("U %d ok %s", idx, res.Value)
		}
		o.Case(cat+".unmarshal", len(data) > 0, fmt.Sprintf("U %d %d %s %s", idx, id, caseTarget(target), hx.Hex(data)), line)
		base := strings.SplitN(target, ":", 2)[0]
		if res.Class == "panic" || res.Class == "hang" {
			o.Fail("C03."+res.Class+".rawunmarshal."+base, "type=%d target=%s data=%s panic=%s", id, caseTarget(target), clip(hx.Hex(data)), res.Panic)
		} else if !w.ok && !w.lenient && res.Class == "ok" {
			o.Fail("C03.accepts."+w.why+".rawunmarshal."+base, "type=%d target=%s data=%s", id, caseTarget(target), clip(hx.Hex(data)))
		}
	}
}

// ---------------------------------------------------------------------------------------------
// hostile declared lengths: a child process under an address-space limit; allocation and time bounds

const (
	hostileMin = 1 << 12   // a declared count above this that the input cannot hold: decoded in the child process
	deepMin    = 2000      // nesting above this: decoded in the child process (a stack overflow is fatal to the process)
	modelMax   = 1 << 20   // inputs longer than this are judged by the predicate only (not sent to the model)
	parentAS   = 16 << 30  // RLIMIT_AS of the harness itself: a runaway decoder kills the harness, not the machine
	childAS    = 3 << 30   // RLIMIT_AS of the child
	allocBound = 256 << 20 // bytes a single decode of a small input may allocate in total
)

func childMain() {
	debug.SetMemoryLimit(1 << 30)
	// the same generated shapes as the parent: same seed, same first draws
	seed, err := strconv.ParseUint(os.Getenv("VERIF_SEED"), 10, 64)
	if err != nil {
		seed = 20260926
	}
	n := 28
	if len(os.Args) > 2 && os.Args[2] == "thorough" {
		n *= 10
	}
	genShapes(hx.NewRng(seed), n)
	_ = syscall.Setrlimit(syscall.RLIMIT_AS, &syscall.Rlimit{Cur: childAS, Max: childAS})
	in := bufio.NewScanner(os.Stdin)
	in.Buffer(make([]byte, 1<<20), 1<<26)
	out := bufio.NewWriter(os.Stdout)
	for in.Scan() {
		f := strings.Fields(in.Text())
		if len(f) != 3 {
			continue
		}
		var m0, m1 runtime.MemStats
		runtime.ReadMemStats(&m0)
		t0 := time.Now()
		res := runTyped(opDecode, f[0] == "file", 0, f[1], hx.UnHex(f[2]), 0)
		el := time.Since(t0)
		runtime.ReadMemStats(&m1)
		fmt.Fprintf(out, "%s\t%d\t%d\t%s\n", res.Line("X"), m1.TotalAlloc-m0.TotalAlloc, el.Milliseconds(), strings.ReplaceAll(res.Panic, "\n", " "))
		out.Flush()
	}
}

var childErr *bytes.Buffer // stderr of the current child (the runtime's fatal error message)

type child struct {
	cmd *exec.Cmd
	in  io.WriteCloser
	out *bufio.Reader
}

func startChild() *child {
	cmd := exec.Command(os.Args[0], "--child", o.Tier)
	cmd.Env = append(os.Environ(), fmt.Sprintf("VERIF_SEED=%d", o.Seed))
	in, _ := cmd.StdinPipe()
	outp, _ := cmd.StdoutPipe()
	errb := &bytes.Buffer{}
	cmd.Stderr = errb
	childErr = errb
	if err := cmd.Start(); err != nil {
		panic(err)
	}
	return &child{cmd, in, bufio.NewReaderSize(outp, 1<<20)}
}

func runHostile() {
	if len(hostileQ) == 0 {
		return
	}
	var c *child
	dead := 0 // hangs and runtime fatal errors of the child: each costs seconds, a handful is enough evidence
	for qi, h := range hostileQ {
		if dead >= 4 {
			o.Note("hostile run stopped after %d hangs / fatal errors of the child process; %d hostile cases not run", dead, len(hostileQ)-qi)
			break
		}
		if c == nil {
			c = startChild()
		}
		idx++
		fmt.Fprintf(c.in, "%s %s %s\n", fmtName(h.file), h.target, hx.Hex(h.data))
		type ans struct {
			line string
			err  error
		}
		ch := make(chan ans, 1)
		go func(c *child) {
			l, err := c.out.ReadString('\n')
			ch <- ans{l, err}
		}(c)
		var res result
		var alloc, ms int64
		select {
		case a := <-ch:
			if a.err != nil { // the child died: runtime fatal error (out of memory, stack overflow)
				c.cmd.Wait()
				c = nil
				dead++
				msg := childErr.String()
				if i := strings.Index(msg, "fatal error"); i >= 0 {
					msg = msg[i:]
				}
				if i := strings.IndexByte(msg, '\n'); i >= 0 {
					msg = msg[:i]
				}
				res = result{Class: "fatal", Panic: msg}
			} else {
				parts := strings.Split(strings.TrimRight(a.line, "\n"), "\t")
				fs := strings.Fields(parts[0])
				res.Class = fs[1]
				if res.Class == "ok" && len(fs) == 5 {
					res.Name, res.Value = hx.UnHex(fs[2]), fs[3]
					fmt.Sscanf(fs[4], "%d", &res.Left)
				}
				fmt.Sscanf(parts[1], "%d", &alloc)
				fmt.Sscanf(parts[2], "%d", &ms)
				if len(parts) > 3 {
					res.Panic = parts[3]
				}
			}
		case <-time.After(6 * time.Second):
			c.cmd.Process.Kill()
			c.cmd.Wait()
			c = nil
			dead++
			res = result{Class: "hang"}
		}
		implClass := res.Class
		if implClass == "fatal" || implClass == "hang" {
			implClass = "panic" // the model has no such outcome: it shows up as a mismatch as well
		}
		line := fmt.Sprintf("R %d %s", idx, implClass)
		if res.Class == "ok" {
			line = res.Line(fmt.Sprintf("R %d", idx))
		}
		if len(h.data) > modelMax || h.noModel {
			o.Eval("hostile."+h.cat+"."+strings.SplitN(h.target, ":", 2)[0], true, fmt.Sprintf("%s %s %d bytes deep=%d -> %s", fmtName(h.file), h.target, len(h.data), h.w.deep, res.Class))
		} else {
			o.Case("hostile."+h.cat+"."+strings.SplitN(h.target, ":", 2)[0], true,
				fmt.Sprintf("R %d %s %s %s", idx, fmtName(h.file), caseTarget(h.target), hx.Hex(h.data)), line)
		}
		judge("hostile."+h.cat, h.file, h.target, h.data, h.w, res, "")
		base := strings.SplitN(h.target, ":", 2)[0]
		if alloc > allocBound {
			o.Fail("C03.alloc."+base, "fmt=%s target=%s input=%s (%d bytes) allocated %d MiB, declared count %d", fmtName(h.file), caseTarget(h.target), clip(hx.Hex(h.data)), len(h.data), alloc>>20, h.w.hostile)
		}
		if ms > 4000 {
			o.Fail("C03.hang."+base, "fmt=%s target=%s input=%s took %d ms", fmtName(h.file), caseTarget(h.target), clip(hx.Hex(h.data)), ms)
		}
		allocSeen++
	}
	if c != nil {
		c.in.Close()
		c.cmd.Wait()
	}
}

// ---------------------------------------------------------------------------------------------

func put(b []byte, f field, v int64) []byte {
	e := append([]byte{}, b...)
	if f.width == 2 {
		binary.BigEndian.PutUint16(e[f.off:], uint16(v))
	} else {
		binary.BigEndian.PutUint32(e[f.off:], uint32(v))
	}
	return e
}

func mutate(cat string, t *c01x.Tree, file bool, name []byte, fit []string, full bool) {
	r := o.R
	l := layoutDoc(t, file, name)
	d := l.buf.Bytes()
	tg := func() []string { return pickTargets(r, fit) }
	// the valid document itself, alone and with trailing bytes
	feed(cat+".valid", file, d, append(append([]string{}, untyped...), fit...), "")
	feed(cat+".valid", file, append(append([]byte{}, d...), r.Bytes(1+r.Intn(8))...), tg(), "")
	// truncation: at EVERY offset (small documents) or at sampled offsets and around every field
	if full || len(d) <= 160 {
		for k := 0; k < len(d); k++ {
			feed(cat+".truncate", file, d[:k], tg(), "prefix")
		}
	} else {
		for i := 0; i < 40; i++ {
			feed(cat+".truncate", file, d[:r.Intn(len(d))], tg(), "prefix")
		}
		for _, f := range l.lens {
			feed(cat+".truncate", file, d[:f.off+r.Intn(f.width+1)], tg(), "prefix")
		}
	}
	// every length field overwritten
	lens := l.lens
	if !full && len(lens) > 24 {
		lens = append([]field{}, lens...)
		for i := range lens {
			j := r.Intn(len(lens))
			lens[i], lens[j] = lens[j], lens[i]
		}
		lens = lens[:24]
	}
	for _, f := range lens {
		var vs []int64
		if f.width == 2 {
			vs = []int64{-1, -32768, 32767, 0, f.val + 1, f.val - 1, 256, int64(r.Intn(65536))}
		} else {
			vs = []int64{-1, -2147483648, 2147483647, 0, f.val + 1, f.val - 1, int64(int32(r.Next())),
				[]int64{1 << 30, 65536, 65537, 1 << 24, 0x40000002, 1 << 16 + 1<<15}[r.Intn(6)]}
		}
		for _, v := range vs {
			if v == f.val {
				continue
			}
			feed(cat+".length", file, put(d, f, v), tg(), "")
		}
	}
	// tag-id substitution: every id position, ids 0..13 and the special ones; all 256 at the root
	ids := l.ids
	if !full && len(ids) > 16 {
		ids = append([]int{}, ids...)
		for i := range ids {
			j := r.Intn(len(ids))
			ids[i], ids[j] = ids[j], ids[i]
		}
		ids = ids[:16]
	}
	for _, p := range ids {
		subs := []int{0, 1, 2, 3, 4, 5, 6, 7, 8, 9, 10, 11, 12, 13, 0x1f, 0x78, 0x7f, 0x80, 0xff, r.Intn(256)}
		if p == 0 && full {
			subs = subs[:0]
			for i := 0; i < 256; i++ {
				subs = append(subs, i)
			}
		}
		for _, s := range subs {
			if byte(s) == d[p] {
				continue
			}
			e := append([]byte{}, d...)
			e[p] = byte(s)
			feed(cat+".tagid", file, e, tg(), "")
		}
	}
	// bit flips
	for i := 0; i < 24 && len(d) > 0; i++ {
		e := append([]byte{}, d...)
		e[r.Intn(len(e))] ^= 1 << uint(r.Intn(8))
		feed(cat+".bitflip", file, e, tg(), "")
	}
	// RawMessage{Type, Data}: the payload and a few mutations of it
	var pb bytes.Buffer
	t.Payload(&pb)
	p := pb.Bytes()
	feedRaw(cat+".raw", t.Kind, p)
	if len(p) > 0 {
		feedRaw(cat+".raw", t.Kind, p[:r.Intn(len(p))])
		e := append([]byte{}, p...)
		e[r.Intn(len(e))] ^= 1 << uint(r.Intn(8))
		feedRaw(cat+".raw", t.Kind, e)
		feedRaw(cat+".raw", byte(r.Intn(14)), p)
	}
}

func main() {
	if len(os.Args) > 1 && os.Args[1] == "--child" {
		childMain()
		return
	}
	debug.SetMemoryLimit(4 << 30)
	_ = syscall.Setrlimit(syscall.RLIMIT_AS, &syscall.Rlimit{Cur: parentAS, Max: parentAS})
	o = hx.Open()
	defer o.Close()
	r := o.R
	names := [][]byte{{}, []byte("root"), {0}}
	fixedShapes := len(shapeTypes)
	genShapes(r, o.N(28, 10)) // the first draws of the run: the child process repeats them from the same seed
	o.Note("destination shapes: %d compiled + %d generated with reflect.StructOf, e.g. %s", fixedShapes, len(shapeTypes)-fixedShapes, shapeOf(shapeTypes[len(shapeTypes)-1]))

	// ---- documents over the whole grammar, every root kind
	for root := byte(1); root <= 12; root++ {
		for rep := 0; rep < o.N(2, 8); rep++ {
			budget := 12 + r.Intn(20)
			t := c01x.Gen(r, root, 1+r.Intn(4), &budget, false)
			fit := []string{"ty:" + c01x.FitType(r, t, true)}
			mutate("grammar", t, rep%2 == 0, names[r.Intn(len(names))], fit, rep == 0)
		}
	}
	for i := 0; i < o.N(14, 12); i++ {
		t := c01x.GenDoc(r, 0)
		if r.Intn(3) == 0 {
			t = c01x.GenDoc(r, c01x.Compound)
		}
		fit := []string{"ty:" + c01x.FitType(r, t, true)}
		mutate("random", t, r.Bool(), c01x.GenKey(r), fit, false)
	}
	// ---- documents aimed at the struct shapes (duplicate and case-folded keys, misfits, unknown fields)
	for i := 0; i < len(shapeTypes)+o.N(8, 30); i++ {
		k := i % len(shapeTypes)
		t := fitTree(r, shapeTypes[k], 3)
		fit := []string{fmt.Sprintf("st:%d", k)}
		if r.Bool() {
			fit = append(fit, fmt.Sprintf("st:%d", r.Intn(len(shapeTypes))))
		}
		mutate("shape", t, r.Bool(), c01x.GenKey(r), fit, false)
	}
	// the same field twice in one compound, and a second document into a used destination: every shape
	for k := range shapeTypes {
		dupKeys(k)
		usedDest(k)
	}
	// interface{} field decoded twice: the second value must fit the Go type of the first (incl. float32 -> float64)
	for i := 0; i < o.N(120, 10); i++ {
		budget := 6
		a := c01x.Gen(r, 0, 2, &budget, false)
		b := c01x.Gen(r, 0, 2, &budget, false)
		if r.Bool() {
			a = &c01x.Tree{Kind: c01x.Double, Bits: r.Next()}
			b = &c01x.Tree{Kind: c01x.Float, Bits: uint64(uint32(r.Next()))}
			if r.Intn(3) == 0 {
				b.Bits = uint64([]uint32{0, 0x80000000, 1, 0x007fffff, 0x00800000, 0x7f7fffff, 0x7f800000, 0xff800000, 0x7fc00001, 0x7f800001, 0x00000100}[r.Intn(11)])
			}
		}
		t := &c01x.Tree{Kind: c01x.Compound, Keys: [][]byte{[]byte("B"), []byte("b")}, List: []*c01x.Tree{a, b}}
		feed("shape.any-twice", i%2 == 0, t.Doc(i%2 == 0, nil), []string{"st:0", "any"}, "")
	}
	longArrays()
	// ---- hand-written hostile inputs: 2^31-1 and 2^30 declared elements in a few bytes, every array kind,
	//      lists of every element id, at the root and nested
	for _, n := range []uint32{0x7fffffff, 0x40000002, 0x10000000, 1 << 20} {
		var c [4]byte
		binary.BigEndian.PutUint32(c[:], n)
		var ins [][]byte
		for _, id := range []byte{7, 11, 12} {
			ins = append(ins, append([]byte{id}, c[:]...))
			ins = append(ins, append(append([]byte{id}, c[:]...), r.Bytes(24)...))
			ins = append(ins, append(append([]byte{10, id, 0, 1, 'c'}, c[:]...), 1, 2, 3))
		}
		for eid := byte(0); eid <= 13; eid++ {
			ins = append(ins, append([]byte{9, eid}, c[:]...))
			ins = append(ins, append(append([]byte{9, eid}, c[:]...), r.Bytes(9)...))
			ins = append(ins, append(append([]byte{10, 9, 0, 1, 'g', eid}, c[:]...), 0, 0))
		}
		for _, in := range ins {
			ts := append(append([]string{}, untyped...), "ty:sl:i64", "ty:sl:i32", "ty:sl:u8", "ty:sl:str", "ty:sl:any", "st:0", "st:2")
			feed("count", false, in, ts, "")
			if r.Intn(4) == 0 {
				feed("count", true, append([]byte{in[0], 0, 0}, in[1:]...), ts, "")
			}
		}
	}
	// ---- nesting: exactly at, one above and far above the limit (10001 open lists / compounds), every walker;
	//      400000 levels fit a 2 MiB protocol frame, 10^6 a file.  All in the child process.
	nest := func(list bool, n int, wrap string) []byte {
		var d []byte
		id := byte(10)
		if list {
			id = 9
		}
		switch wrap { // the nested value sits in a field of the struct shape S1: known (any) or unknown (skipped)
		case "":
			d = append(d, id)
		default:
			d = append(d, 10, id, 0, byte(len(wrap)))
			d = append(d, wrap...)
			n--
		}
		if list {
			for i := 1; i < n; i++ {
				d = append(d, 9, 0, 0, 0, 1)
			}
			d = append(d, 0, 0, 0, 0, 0)
		} else {
			for i := 1; i < n; i++ {
				d = append(d, 10, 0, 1, 'a')
			}
			for i := 0; i < n; i++ {
				d = append(d, 0)
			}
		}
		if wrap != "" {
			d = append(d, 0)
		}
		return d
	}
	// eight of them also go to the model (one shard each)
	feed("depth", false, nest(true, maxOpen, ""), []string{"any", "dyn"}, "")
	feed("depth", false, nest(true, maxOpen+1, ""), []string{"any", "raw"}, "")
	feed("depth", false, nest(false, maxOpen, ""), []string{"snbt"}, "")
	feed("depth", false, nest(false, maxOpen+1, ""), []string{"dyn"}, "")
	feed("depth", false, nest(false, maxOpen, "B"), []string{"st:0"}, "")
	feed("depth", false, nest(false, maxOpen+1, "zz"), []string{"st:0"}, "")
	predOnly = true
	for _, n := range []int{maxOpen, maxOpen + 1} {
		for _, list := range []bool{true, false} {
			feed("depth", false, nest(list, n, ""), []string{"any", "raw", "dyn", "snbt", "ty:sl:any"}, "")
			feed("depth", false, nest(list, n, "B"), []string{"st:0"}, "")
			feed("depth", false, nest(list, n, "zz"), []string{"st:0", "skip"}, "")
		}
		feed("depth", false, nest(false, n, ""), []string{"map", "skip"}, "")
	}
	for i, n := range []int{100000, 400000, 1000000} {
		if n > 400000 && !o.Thorough() {
			continue
		}
		feed("depth", false, nest(i%2 == 0, n, ""), []string{"any", "raw", "dyn", "snbt", "skip"}, "")
		feed("depth", false, nest(i%2 == 1, n, "B"), []string{"st:0"}, "")
	}
	predOnly = false

	// ---- uniform random strings (first byte biased towards the 13 ids)
	for i := 0; i < o.N(1500, 30); i++ {
		b := r.Bytes(r.Intn(40))
		if len(b) > 0 && r.Intn(4) != 0 {
			b[0] = byte(r.Intn(14))
		}
		if len(b) > 3 && r.Bool() { // keep the root name short so that the value is reached
			b[1], b[2] = 0, byte(r.Intn(3))
		}
		feed("uniform", r.Bool(), b, pickTargets(r, nil), "")
		if i%10 == 0 {
			feedRaw("uniform.raw", byte(r.Intn(14)), b)
		}
	}
	runHostile()
	o.Note("hostile declared lengths run in a child process (RLIMIT_AS %d MiB): %d cases; allocation bound %d MiB per decode", childAS>>20, allocSeen, allocBound>>20)
}
