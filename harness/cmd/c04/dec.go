// C04 harness, part (F): the decoder (nbt/snbt_decode.go: writeValue, writeCompoundPayload, writeListOrArray,
// writeArray, parseLiteral) against its TRANSLATION (coq/Gen/Decoder.v, regenerated from the source on every run)
// under the interpreter of coq/Model/C04_dec.v.  The implementation side is StringifiedMessage.MarshalNBT into a
// bytes.Buffer: the payload written, or err, or panic.  The float oracle of the interpreter (strconv.ParseFloat) is
// a table computed here for every run of unquoted-string characters of the text - whole, without its last character,
// and its prefixes (all of them for runs up to 200 bytes, those around every byte that is not a digit for longer runs) - for both bit sizes.  The texts are converted one after the other in this process, rejected ones between
// accepted ones: a conversion that depends on what was converted before disagrees with the interpretation.
package main

import (
	"bytes"
	"math"
	"strconv"
	"strings"

	"github.com/Tnze/go-mc/nbt"
	"verif/harness/hx"
)

func floatTable(text []byte) string {
	var sb strings.Builder
	n := 0
	seen := map[string]bool{}
	add := func(tok []byte) {
		if len(tok) == 0 || len(tok) > 400 || seen[string(tok)] {
			return
		}
		seen[string(tok)] = true
		for _, bits := range []int{32, 64} {
			v, err := strconv.ParseFloat(string(tok), bits)
			val := "err"
			if err == nil {
				if bits == 32 {
					val = strconv.FormatUint(uint64(math.Float32bits(float32(v))), 10)
				} else {
					val = strconv.FormatUint(math.Float64bits(v), 10)
				}
			}
			sb.WriteString(" " + strconv.Itoa(bits) + " " + hx.Hex(tok) + " " + val)
			n++
		}
	}
	i := 0
	for i < len(text) {
		if !isBareByte(text[i]) {
			i++
			continue
		}
		j := i
		for j < len(text) && isBareByte(text[j]) {
			j++
		}
		add(text[i:j])
		add(text[i : j-1])
		for k := i + 1; k < j; k++ { // the scanner may end a number before the run ends: at a byte that is not a digit
			if j-i <= 200 || text[k] < '0' || text[k] > '9' {
				add(text[i:k])
				add(text[i : k-1])
				add(text[i : k+1])
			}
		}
		i = j
	}
	return strconv.Itoa(n) + sb.String()
}

func decLine(text []byte) string {
	var buf bytes.Buffer
	var err error
	pan := hx.Try(func() { err = nbt.StringifiedMessage(text).MarshalNBT(&buf) })
	switch {
	case pan != "":
		return "panic"
	case err != nil:
		return "err"
	}
	return "ok " + hx.Hex(buf.Bytes())
}

func decCase(o *hx.Out, cat string, text []byte) {
	o.Case(cat, len(text) > 1, "D "+hx.Hex(text)+" "+floatTable(text), "D "+decLine(text))
}

func decoderCases(o *hx.Out, corpus [][]byte) {
	r := o.R
	for _, s := range nasties {
		decCase(o, "decoder.fixed", []byte(s))
		decCase(o, "decoder.fixed", []byte("{k:"+s+"}"))
		decCase(o, "decoder.fixed", []byte("["+s+"]"))
		decCase(o, "decoder.fixed", []byte("[ "+s+" , "+s+" ]"))
	}
	for _, s := range []string{`"a\"b"`, `'a\'b'`, `"a\\b"`, `'a\\'`, `"\\\""`, `{"a\"":1}`, `['\\', '\'']`, `[B; 1b , -2B ]`, `[I;1,2]`, `[L;1L]`, `[B;]`, `[ I ; ]`, `[L;1l,]`,
		`[[B;1b],[B;]]`, `[[I;1],[L;1L]]`, `[[],[]]`, `[[[]]]`, `[{},{a:1}]`, `[{a:[1,2]},{b:{}}]`, `{a:{b:{c:[{}]}}}`, `[1.5,2.5]`, `[1.5f,2.5F]`, `[1.5,2.5f]`, `[1b,2s]`, `[a,"b",'c']`,
		`[a,1]`, `[1,a]`, `{a:1,a:2}`, `{"":""}`, `{1:2}`, `{1b:2}`, `{1.5:x}`, `{true:false}`, `[1e5]`, `[1.5e5,2.5e-5]`, `1.5e400`, `1e400f`, `[B;1,2]`, `[I;1b]`, `[L;1]`, `[B;a]`, `[B;[1]]`, `[B;{}]`,
		`[Bx,By]`, `[B]`, `[I]`, `[B,I]`, `127b`, `128b`, `-129b`, `32768s`, `2147483648`, `9223372036854775808L`, `99999999999999999999`, `-`, `+`, `{a:-}`, `[+]`} {
		decCase(o, "decoder.fixed", []byte(s))
	}
	for i, t := range corpus {
		if i >= o.N(2500, 3) {
			break
		}
		decCase(o, "decoder.grammar", t)
		if len(t) > 1 && i%2 == 0 {
			decCase(o, "decoder.grammar-cut", t[:1+r.Intn(len(t)-1)])
		}
	}
	const alphabet = "{}[],:;\"'\\ \t\n0123456789+-.eEbBsSlLfFdDiIaxBIL_tru/"
	for i, n := 0, o.N(5000, 15); i < n && len(corpus) > 0; i++ {
		t := append([]byte{}, corpus[r.Intn(len(corpus))]...)
		if len(t) > 300 {
			continue
		}
		for m := 1 + r.Intn(3); m > 0 && len(t) > 0; m-- {
			pos := r.Intn(len(t))
			switch r.Intn(4) {
			case 0:
				t[pos] = alphabet[r.Intn(len(alphabet))]
			case 1:
				t = append(t[:pos], t[pos+1:]...)
			case 2:
				t = append(t[:pos], append([]byte{alphabet[r.Intn(len(alphabet))]}, t[pos:]...)...)
			default:
				end := pos + 1 + r.Intn(4)
				if end > len(t) {
					end = len(t)
				}
				t = append(t[:pos], append(append([]byte{}, t[pos:end]...), t[pos:]...)...)
			}
		}
		decCase(o, "decoder.mutated", t)
	}
	// all texts of length <= 4 (thorough 5) over a structural alphabet
	a := []byte("{}[]:,;\"'\\1aB ")
	max := 4
	if o.Thorough() {
		max = 5
	}
	var rec func(p []byte)
	rec = func(p []byte) {
		if len(p) > 0 {
			decCase(o, "decoder.exhaustive", p)
		}
		if len(p) == max {
			return
		}
		for _, c := range a {
			rec(append(p[:len(p):len(p)], c))
		}
	}
	rec(nil)
}
