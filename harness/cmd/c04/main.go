// C04 harness: SNBT <-> NBT.
//
//	(A) writer     tree -> reference binary -> nbt.Unmarshal into StringifiedMessage / RawMessage.String
//	               diffed with the model of the writer; predicate: the text parses back to the same document.
//	(B) parser/L   tree -> text of the sublanguage L with a random layout -> nbt.Marshal(StringifiedMessage)
//	               diffed with the extracted SPEC parser + NBT grammar; predicate: equals the reference binary.
//	(C) hostile    mutated L texts, random texts, fixed nasties -> model-free predicates: no panic, nil error =>
//	               well-formed document (independent mini reader), announced TagType = type actually written,
//	               truncated / trailing text rejected, accepted text survives text -> binary -> text -> binary.
package main

import (
	"bytes"
	"encoding/binary"
	"fmt"
	"math"
	"strconv"
	"strings"

	"github.com/Tnze/go-mc/nbt"
	"verif/harness/hx"
)

// ---------------------------------------------------------------- trees

const (
	kByte = 1 + iota
	kShort
	kInt
	kLong
	kFloat
	kDouble
	kByteArray
	kString
	kList
	kCompound
	kIntArray
	kLongArray
)

type node struct {
	k    int
	i    int64   // integers
	bits uint64  // floats
	lit  string  // floats: decimal text used in L texts ("" = shortest)
	s    []byte  // strings
	arr  []int64 // typed arrays
	kids []*node // list / compound
	keys [][]byte
	eid  byte // element id written in the binary for an EMPTY list (text form cannot carry it)
}

type gen struct{ r *hx.Rng }

var bounds = map[int][]int64{
	kByte:  {0, 1, -1, 127, -128, 9, 10, 100},
	kShort: {0, 1, -1, 32767, -32768, 255, 256},
	kInt:   {0, 1, -1, 2147483647, -2147483648, 65535, 99999},
	kLong:  {0, 1, -1, 9223372036854775807, -9223372036854775808, 4294967296},
}

func (g *gen) intOf(k int) int64 {
	r := g.r
	if r.Intn(3) == 0 {
		b := bounds[k]
		return b[r.Intn(len(b))]
	}
	v := int64(r.Next()) >> uint(r.Intn(64))
	switch k {
	case kByte:
		return int64(int8(v))
	case kShort:
		return int64(int16(v))
	case kInt:
		return int64(int32(v))
	}
	return v
}

var strPool = []string{"", "a", "abc", "Tnze", "_x", "a.b", "a-b+c", "true", "false", "True", "123", "-1", "+5", "1.5", ".5", "1b", "1e3",
	"0x10", "-", "+", ".", "a b", "a\"b", "a'b", "\"", "'", "\\", "a\\b", "''\"", "\"\"'", "{", "[", "]", "}", ",", ":", ";", "[B;1b]",
	"\n", "\t x", "\x00", "\xff\xfe", "é", "名", "99999999999", "1I", "B", "I", "L", "minecraft:stone", "NaN", "Infinity", "1f", "1d", "2L", "0"}

func (g *gen) str() []byte {
	r := g.r
	switch r.Intn(6) {
	case 0, 1:
		return []byte(strPool[r.Intn(len(strPool))])
	case 2: // bare word
		const al = "abcdefghijklmnopqrstuvwxyzABCDEFGHIJKLMNOPQRSTUVWXYZ_"
		const an = al + "0123456789.+-"
		n := 1 + r.Intn(8)
		b := []byte{al[r.Intn(len(al))]}
		for i := 1; i < n; i++ {
			b = append(b, an[r.Intn(len(an))])
		}
		return b
	case 3: // number-like
		const nl = "0123456789+-.eEbBsSlLfFdDiI"
		n := 1 + r.Intn(6)
		b := make([]byte, n)
		for i := range b {
			b[i] = nl[r.Intn(len(nl))]
		}
		return b
	case 4: // structural characters and quotes
		const sc = "\"'\\ {}[],:;ab1\n\t"
		n := r.Intn(8)
		b := make([]byte, n)
		for i := range b {
			b[i] = sc[r.Intn(len(sc))]
		}
		return b
	default:
		if r.Intn(20) == 0 {
			return r.Bytes(250 + r.Intn(100))
		}
		return r.Bytes(r.Intn(10))
	}
}

func finite32(b uint32) bool { return (b>>23)&0xff != 0xff }
func finite64(b uint64) bool { return (b>>52)&0x7ff != 0x7ff }

var f64pool = []float64{0, math.Copysign(0, -1), 1, -1, 1.5, 0.1, 1e-20, 1e20, 1e300, 5e-324, math.MaxFloat64, math.SmallestNonzeroFloat64, 123456.789, 3.14159265358979, 1.0 / 3.0, 16777217}
var f32pool = []float32{0, float32(math.Copysign(0, -1)), 1, -1, 1.5, 0.1, 1e-20, 1e20, math.MaxFloat32, math.SmallestNonzeroFloat32, 16777216, 3.4e38, 1.0 / 3.0}

// float leaf: random bits (finite unless allowNonFinite), or a random decimal literal
func (g *gen) float(k int, allowNonFinite bool) *node {
	r := g.r
	n := &node{k: k}
	switch r.Intn(4) {
	case 0:
		if k == kFloat {
			n.bits = uint64(math.Float32bits(f32pool[r.Intn(len(f32pool))]))
		} else {
			n.bits = math.Float64bits(f64pool[r.Intn(len(f64pool))])
		}
	case 1: // decimal literal with few digits (leading / trailing zeros allowed)
		lit := ""
		if r.Intn(3) == 0 {
			lit = "-"
		}
		lit += randDigits(r, 1+r.Intn(6))
		if r.Intn(4) != 0 {
			lit += "." + randDigits(r, 1+r.Intn(6))
		}
		n.lit = lit
		if k == kFloat {
			f, _ := strconv.ParseFloat(lit, 32)
			n.bits = uint64(math.Float32bits(float32(f)))
		} else {
			f, _ := strconv.ParseFloat(lit, 64)
			n.bits = math.Float64bits(f)
		}
	default:
		for {
			if k == kFloat {
				n.bits = uint64(uint32(r.Next()))
				if finite32(uint32(n.bits)) || allowNonFinite && r.Intn(2) == 0 {
					break
				}
			} else {
				n.bits = r.Next()
				if finite64(n.bits) || allowNonFinite && r.Intn(2) == 0 {
					break
				}
			}
		}
	}
	return n
}

func randDigits(r *hx.Rng, n int) string {
	b := make([]byte, n)
	for i := range b {
		b[i] = byte('0' + r.Intn(10))
	}
	return string(b)
}

// shortest decimal text in 'f' format (what the writer is expected to print)
func (n *node) shortest() string {
	if n.k == kFloat {
		return strconv.FormatFloat(float64(math.Float32frombits(uint32(n.bits))), 'f', -1, 32)
	}
	return strconv.FormatFloat(math.Float64frombits(n.bits), 'f', -1, 64)
}

func (g *gen) leaf(k int, nonFinite bool) *node {
	switch k {
	case kByte, kShort, kInt, kLong:
		return &node{k: k, i: g.intOf(k)}
	case kFloat, kDouble:
		return g.float(k, nonFinite)
	case kString:
		return &node{k: k, s: g.str()}
	case kByteArray, kIntArray, kLongArray:
		ek := map[int]int{kByteArray: kByte, kIntArray: kInt, kLongArray: kLong}[k]
		n := &node{k: k}
		c := g.r.Pick(0, 0, 1, 2, 3, 7)
		if g.r.Intn(40) == 0 {
			c = 250 + g.r.Intn(20) // counts that do not fit one byte
		}
		for ; c > 0; c-- {
			n.arr = append(n.arr, g.intOf(ek))
		}
		return n
	}
	panic("leaf")
}

func (g *gen) tree(depth int, k int, nonFinite bool) *node {
	r := g.r
	if k == 0 {
		if depth <= 0 {
			k = r.Pick(kByte, kShort, kInt, kLong, kFloat, kDouble, kByteArray, kString, kIntArray, kLongArray)
		} else {
			k = 1 + r.Intn(12)
		}
	}
	switch k {
	case kList:
		n := &node{k: k}
		cnt := r.Pick(0, 0, 1, 2, 3, 5)
		if depth <= 0 && cnt > 2 {
			cnt = 2
		}
		if cnt == 0 {
			if r.Intn(3) == 0 {
				n.eid = byte(1 + r.Intn(12))
			}
			return n
		}
		ek := 1 + r.Intn(12)
		if ek <= 6 && r.Intn(30) == 0 {
			cnt = 250 + r.Intn(20)
		}
		for i := 0; i < cnt; i++ {
			n.kids = append(n.kids, g.tree(depth-1, ek, nonFinite))
		}
		return n
	case kCompound:
		n := &node{k: k}
		cnt := r.Pick(0, 1, 1, 2, 3, 6)
		if depth <= 0 && cnt > 2 {
			cnt = 2
		}
		for i := 0; i < cnt; i++ {
			n.keys = append(n.keys, g.str())
			n.kids = append(n.kids, g.tree(depth-1, 0, nonFinite))
		}
		return n
	}
	return g.leaf(k, nonFinite)
}

// reference NBT binary encoder (payload), written from the format definition
func (n *node) enc(b *bytes.Buffer, keepEid bool) {
	w := func(v any) { binary.Write(b, binary.BigEndian, v) }
	switch n.k {
	case kByte:
		w(int8(n.i))
	case kShort:
		w(int16(n.i))
	case kInt:
		w(int32(n.i))
	case kLong:
		w(n.i)
	case kFloat:
		w(uint32(n.bits))
	case kDouble:
		w(n.bits)
	case kByteArray:
		w(int32(len(n.arr)))
		for _, v := range n.arr {
			w(int8(v))
		}
	case kIntArray:
		w(int32(len(n.arr)))
		for _, v := range n.arr {
			w(int32(v))
		}
	case kLongArray:
		w(int32(len(n.arr)))
		for _, v := range n.arr {
			w(v)
		}
	case kString:
		w(uint16(len(n.s)))
		b.Write(n.s)
	case kList:
		if len(n.kids) == 0 {
			if keepEid {
				b.WriteByte(n.eid)
			} else {
				b.WriteByte(0)
			}
		} else {
			b.WriteByte(byte(n.kids[0].k))
		}
		w(int32(len(n.kids)))
		for _, c := range n.kids {
			c.enc(b, keepEid)
		}
	case kCompound:
		for i, c := range n.kids {
			b.WriteByte(byte(c.k))
			w(uint16(len(n.keys[i])))
			b.Write(n.keys[i])
			c.enc(b, keepEid)
		}
		b.WriteByte(0)
	}
}
func (n *node) doc(keepEid bool) []byte {
	var b bytes.Buffer
	b.Write([]byte{byte(n.k), 0, 0})
	n.enc(&b, keepEid)
	return b.Bytes()
}

// serialisation for the OCaml driver; lit selects the float text the model's oracle returns
func (n *node) ser(sb *strings.Builder, writerText bool) {
	switch n.k {
	case kByte:
		fmt.Fprintf(sb, "b %d ", n.i)
	case kShort:
		fmt.Fprintf(sb, "s %d ", n.i)
	case kInt:
		fmt.Fprintf(sb, "i %d ", n.i)
	case kLong:
		fmt.Fprintf(sb, "l %d ", n.i)
	case kFloat, kDouble:
		lit := n.lit
		if writerText || lit == "" {
			lit = n.shortest()
		}
		fmt.Fprintf(sb, "%s %d %s ", map[int]string{kFloat: "f", kDouble: "d"}[n.k], n.bits, lit)
	case kString:
		fmt.Fprintf(sb, "S %s ", hx.Hex(n.s))
	case kByteArray, kIntArray, kLongArray:
		fmt.Fprintf(sb, "%s %d ", map[int]string{kByteArray: "B", kIntArray: "I", kLongArray: "L"}[n.k], len(n.arr))
		for _, v := range n.arr {
			fmt.Fprintf(sb, "%d ", v)
		}
	case kList:
		fmt.Fprintf(sb, "T %d ", len(n.kids))
		for _, c := range n.kids {
			c.ser(sb, writerText)
		}
	case kCompound:
		fmt.Fprintf(sb, "C %d ", len(n.kids))
		for i, c := range n.kids {
			fmt.Fprintf(sb, "%s ", hx.Hex(n.keys[i]))
			c.ser(sb, writerText)
		}
	}
}

func (n *node) size() int {
	s := 1
	for _, c := range n.kids {
		s += c.size()
	}
	return s + len(n.arr)
}

// ---------------------------------------------------------------- independent mini NBT reader (well-formedness)

type rd struct {
	b   []byte
	off int
}

func (r *rd) take(n int) ([]byte, bool) {
	if n < 0 || r.off+n > len(r.b) {
		return nil, false
	}
	p := r.b[r.off : r.off+n]
	r.off += n
	return p, true
}
func (r *rd) i32() (int, bool) {
	p, ok := r.take(4)
	if !ok {
		return 0, false
	}
	return int(int32(binary.BigEndian.Uint32(p))), true
}
func (r *rd) payload(id byte, depth int) bool {
	if depth > 20000 {
		return false
	}
	fixed := map[byte]int{1: 1, 2: 2, 3: 4, 4: 8, 5: 4, 6: 8}
	if n, ok := fixed[id]; ok {
		_, ok := r.take(n)
		return ok
	}
	switch id {
	case 7, 11, 12:
		n, ok := r.i32()
		if !ok || n < 0 {
			return false
		}
		_, ok = r.take(n * map[byte]int{7: 1, 11: 4, 12: 8}[id])
		return ok
	case 8:
		p, ok := r.take(2)
		if !ok {
			return false
		}
		_, ok = r.take(int(binary.BigEndian.Uint16(p)))
		return ok
	case 9:
		p, ok := r.take(1)
		if !ok {
			return false
		}
		n, ok := r.i32()
		if !ok || n < 0 || p[0] > 12 || (p[0] == 0 && n > 0) {
			return false
		}
		for i := 0; i < n; i++ {
			if !r.payload(p[0], depth+1) {
				return false
			}
		}
		return true
	case 10:
		for {
			p, ok := r.take(1)
			if !ok {
				return false
			}
			if p[0] == 0 {
				return true
			}
			if p[0] > 12 {
				return false
			}
			l, ok := r.take(2)
			if !ok {
				return false
			}
			if _, ok = r.take(int(binary.BigEndian.Uint16(l))); !ok {
				return false
			}
			if !r.payload(p[0], depth+1) {
				return false
			}
		}
	}
	return false
}

// wellFormed: a complete document (root id 1..12, empty or any name, payload), nothing left over
func wellFormed(b []byte) bool {
	r := &rd{b: b}
	p, ok := r.take(1)
	if !ok || p[0] == 0 || p[0] > 12 {
		return false
	}
	l, ok := r.take(2)
	if !ok {
		return false
	}
	if _, ok = r.take(int(binary.BigEndian.Uint16(l))); !ok {
		return false
	}
	return r.payload(p[0], 0) && r.off == len(b)
}

// ---------------------------------------------------------------- L printer with random layout

type printer struct {
	r     *hx.Rng
	sb    bytes.Buffer
	dense bool // no optional whitespace at all
	tbl   map[string]string
}

func (p *printer) ws() {
	if p.dense || p.r.Intn(3) != 0 {
		return
	}
	for n := 1 + p.r.Intn(3); n > 0; n-- {
		p.sb.WriteByte(" \t\n\r  "[p.r.Intn(6)])
	}
}
func (p *printer) sfx(lo, up byte) {
	if p.r.Bool() {
		p.sb.WriteByte(up)
	} else {
		p.sb.WriteByte(lo)
	}
}
func (p *printer) sign(neg bool) {
	if neg {
		p.sb.WriteByte('-')
	} else if p.r.Intn(5) == 0 {
		p.sb.WriteByte('+')
	}
}
func (p *printer) int(v int64) {
	p.sign(v < 0)
	s := strconv.FormatInt(v, 10)
	p.sb.WriteString(strings.TrimPrefix(s, "-"))
}
func isBareByte(c byte) bool {
	return c == '_' || c == '-' || c == '.' || c == '+' || c >= '0' && c <= '9' || c >= 'A' && c <= 'Z' || c >= 'a' && c <= 'z'
}
func isWord(s []byte) bool {
	if len(s) == 0 || string(s) == "true" || string(s) == "false" {
		return false
	}
	c := s[0]
	if !(c == '_' || c >= 'A' && c <= 'Z' || c >= 'a' && c <= 'z') {
		return false
	}
	for _, c := range s {
		if !isBareByte(c) {
			return false
		}
	}
	return true
}
func (p *printer) str(s []byte) {
	style := p.r.Intn(3)
	if style == 0 && isWord(s) {
		p.sb.Write(s)
		return
	}
	q := byte('"')
	if style == 2 {
		q = '\''
	}
	p.sb.WriteByte(q)
	for _, c := range s {
		if c == q || c == '\\' {
			p.sb.WriteByte('\\')
		}
		p.sb.WriteByte(c)
	}
	p.sb.WriteByte(q)
}
func (p *printer) float(n *node) {
	lit := n.lit
	if lit == "" {
		lit = n.shortest()
	}
	w := "64"
	if n.k == kFloat {
		w = "32"
	}
	// oracle table entry: value of the literal, computed with strconv (correctly rounded)
	if n.k == kFloat {
		f, _ := strconv.ParseFloat(lit, 32)
		p.tbl[w+" "+lit] = strconv.FormatUint(uint64(math.Float32bits(float32(f))), 10)
	} else {
		f, _ := strconv.ParseFloat(lit, 64)
		p.tbl[w+" "+lit] = strconv.FormatUint(math.Float64bits(f), 10)
	}
	neg := strings.HasPrefix(lit, "-")
	p.sign(neg)
	p.sb.WriteString(strings.TrimPrefix(lit, "-"))
	if n.k == kFloat {
		p.sfx('f', 'F')
	} else if !(strings.Contains(lit, ".") && p.r.Bool()) {
		p.sfx('d', 'D')
	}
}
func (p *printer) val(n *node) {
	p.ws()
	switch n.k {
	case kByte:
		p.int(n.i)
		p.sfx('b', 'B')
	case kShort:
		p.int(n.i)
		p.sfx('s', 'S')
	case kInt:
		p.int(n.i)
		if p.r.Intn(4) == 0 {
			p.sfx('i', 'I')
		}
	case kLong:
		p.int(n.i)
		p.sfx('l', 'L')
	case kFloat, kDouble:
		p.float(n)
	case kString:
		p.str(n.s)
	case kByteArray, kIntArray, kLongArray:
		// no space inside "[B;": readings of SNBT disagree about it, so it is not part of L
		p.sb.WriteByte('[')
		p.sb.WriteByte(map[int]byte{kByteArray: 'B', kIntArray: 'I', kLongArray: 'L'}[n.k])
		p.sb.WriteByte(';')
		if len(n.arr) == 0 {
			p.ws()
		}
		for i, v := range n.arr {
			if i > 0 {
				p.sb.WriteByte(',')
			}
			p.ws()
			p.int(v)
			switch n.k {
			case kByteArray:
				p.sfx('b', 'B')
			case kIntArray:
				if p.r.Intn(4) == 0 {
					p.sfx('i', 'I')
				}
			default:
				p.sfx('l', 'L')
			}
			p.ws()
		}
		p.sb.WriteByte(']')
	case kList:
		p.sb.WriteByte('[')
		if len(n.kids) == 0 {
			p.ws()
		}
		for i, c := range n.kids {
			if i > 0 {
				p.sb.WriteByte(',')
			}
			p.val(c)
		}
		p.sb.WriteByte(']')
	case kCompound:
		p.sb.WriteByte('{')
		if len(n.kids) == 0 {
			p.ws()
		}
		for i, c := range n.kids {
			if i > 0 {
				p.sb.WriteByte(',')
			}
			p.ws()
			p.str(n.keys[i])
			p.ws()
			p.sb.WriteByte(':')
			p.val(c)
		}
		p.sb.WriteByte('}')
	}
	p.ws()
}

// ---------------------------------------------------------------- running the implementation

type res struct {
	panicked string
	err      error
	out      []byte
	tt       byte
}

func marshalText(text []byte) (r res) {
	r.panicked = hx.Try(func() {
		m := nbt.StringifiedMessage(text)
		r.tt = m.TagType()
		r.out, r.err = nbt.Marshal(m)
	})
	return
}

func toText(doc []byte) (text string, raw string, err error, panicked string) {
	panicked = hx.Try(func() {
		var m nbt.StringifiedMessage
		err = nbt.Unmarshal(doc, &m)
		text = string(m)
		if err == nil {
			raw = nbt.RawMessage{Type: doc[0], Data: doc[3:]}.String()
		}
	})
	return
}

func short(b []byte) string {
	if len(b) > 160 {
		return strconv.Quote(string(b[:160])) + "..."
	}
	return strconv.Quote(string(b))
}

func (n *node) allFinite() bool {
	if n.k == kFloat && !finite32(uint32(n.bits)) || n.k == kDouble && !finite64(n.bits) {
		return false
	}
	for _, c := range n.kids {
		if !c.allFinite() {
			return false
		}
	}
	return true
}

// (A) binary -> text (writer), then text -> binary through the real code
func writerCase(o *hx.Out, cat string, n *node) {
	doc := n.doc(true)
	text, raw, err, pan := toText(doc)
	var sb strings.Builder
	sb.WriteString("w ")
	n.ser(&sb, true)
	impl := "w " + hx.Hex([]byte(text))
	if pan != "" {
		impl = "w panic"
	} else if err != nil {
		impl = "w err"
	}
	o.Case(cat, n.size() > 1 || n.k == kString || n.k == kFloat || n.k == kDouble, strings.TrimSpace(sb.String()), impl)
	if pan != "" || err != nil {
		o.Fail("C04.writer.fails", "doc=%s err=%v panic=%s", hx.Hex(doc), err, pan)
		return
	}
	if raw != text {
		o.Fail("C04.writer.rawmsg-differs", "doc=%s text=%s raw=%s", hx.Hex(doc), short([]byte(text)), short([]byte(raw)))
	}
	if !n.allFinite() {
		return // the property speaks about finite floats only
	}
	want := n.doc(false) // empty lists come back with element id End
	r := marshalText([]byte(text))
	if r.panicked != "" || r.err != nil || !bytes.Equal(r.out, want) {
		o.Fail("C04.roundtrip.binary-text-binary", "text=%s doc=%s back=%s err=%v panic=%s", short([]byte(text)), hx.Hex(want), hx.Hex(r.out), r.err, r.panicked)
	}
}

// (B) text of L -> binary
func parseCase(o *hx.Out, cat string, n *node, dense bool) []byte {
	p := &printer{r: o.R, dense: dense, tbl: map[string]string{}}
	p.val(n)
	text := append([]byte{}, p.sb.Bytes()...)
	var sb strings.Builder
	fmt.Fprintf(&sb, "p %s %d ", hx.Hex(text), len(p.tbl))
	keys := make([]string, 0, len(p.tbl))
	for k := range p.tbl {
		keys = append(keys, k)
	}
	sortStrings(keys)
	for _, k := range keys {
		fmt.Fprintf(&sb, "%s %s ", k, p.tbl[k])
	}
	n.ser(&sb, false)
	r := marshalText(text)
	impl := "p err"
	if r.panicked != "" {
		impl = "p panic"
	} else if r.err == nil {
		impl = fmt.Sprintf("p ok %s tt=%d same=1", hx.Hex(r.out), r.tt)
	}
	o.Case(cat, n.size() > 1 || n.k == kString || n.k == kFloat || n.k == kDouble, strings.TrimSpace(sb.String()), impl)
	want := n.doc(false)
	if r.panicked != "" || r.err != nil || !bytes.Equal(r.out, want) {
		o.Fail("C04.parse.L-text", "text=%s want=%s got=%s err=%v panic=%s", short(text), hx.Hex(want), hx.Hex(r.out), r.err, r.panicked)
	}
	if r.panicked == "" && r.tt != byte(n.k) {
		o.Fail("C04.tagtype.L-text", "text=%s TagType=%d root=%d", short(text), r.tt, n.k)
	}
	return text
}

func sortStrings(a []string) {
	for i := 1; i < len(a); i++ {
		for j := i; j > 0 && a[j] < a[j-1]; j-- {
			a[j], a[j-1] = a[j-1], a[j]
		}
	}
}

// (C) model-free predicates on arbitrary text
func hostile(o *hx.Out, cat string, text []byte) {
	o.Eval(cat, len(text) > 1, "h "+hx.Hex(text))
	r := marshalText(text)
	if r.panicked != "" {
		o.Fail("C04.parse.panic", "text=%s panic=%s", short(text), r.panicked)
		return
	}
	if r.err != nil {
		return
	}
	if !wellFormed(r.out) {
		o.Fail("C04.parse.malformed-document", "text=%s out=%s", short(text), hx.Hex(r.out))
		return
	}
	// the type announced by TagType must be the type the value parser writes for the same text
	wrapped := marshalText([]byte("{x:" + string(text) + "}"))
	if wrapped.panicked != "" {
		o.Fail("C04.parse.panic", "text=%s panic=%s", short([]byte("{x:"+string(text)+"}")), wrapped.panicked)
	} else if wrapped.err == nil && len(wrapped.out) > 3 && wrapped.out[3] != r.tt {
		o.Fail("C04.tagtype.differs", "text=%s TagType=%d written-as=%d", short(text), r.tt, wrapped.out[3])
	} else if wrapped.err != nil {
		o.Fail("C04.parse.nested-rejected", "text=%s accepted at top level, rejected as {x:...}: %v", short(text), wrapped.err)
	}
	// accepted text survives text -> binary -> text -> binary
	t2, _, err, pan := toText(r.out)
	if pan != "" || err != nil {
		o.Fail("C04.writer.fails", "doc=%s err=%v panic=%s", hx.Hex(r.out), err, pan)
		return
	}
	r2 := marshalText([]byte(t2))
	if r2.panicked != "" || r2.err != nil || !bytes.Equal(r2.out, r.out) {
		o.Fail("C04.roundtrip.accepted-text", "text=%s doc=%s text2=%s back=%s err=%v", short(text), hx.Hex(r.out), short([]byte(t2)), hx.Hex(r2.out), r2.err)
	}
}

// (B') float-free text on which the reading of L is unambiguous (in-range / out-of-range integers,
// homogeneous / heterogeneous lists, typed-array element types): the spec parser is the reference.
func specCase(o *hx.Out, cat string, text string, wantOK bool) {
	r := marshalText([]byte(text))
	impl := "q err"
	if r.panicked != "" {
		impl = "q panic"
	} else if r.err == nil {
		impl = fmt.Sprintf("q ok %s tt=%d", hx.Hex(r.out), r.tt)
	}
	o.Case(cat, true, "q "+hx.Hex([]byte(text)), impl)
	if r.panicked != "" {
		o.Fail("C04.parse.panic", "text=%s panic=%s", short([]byte(text)), r.panicked)
	} else if wantOK && (r.err != nil || !wellFormed(r.out)) {
		o.Fail("C04.parse.valid-rejected", "text=%s err=%v out=%s", short([]byte(text)), r.err, hx.Hex(r.out))
	} else if !wantOK && r.err == nil {
		o.Fail("C04.parse.invalid-accepted", "text=%s out=%s", short([]byte(text)), hx.Hex(r.out))
	}
}

// must be rejected
func mustReject(o *hx.Out, class, cat string, text []byte) {
	o.Eval(cat, true, "r "+hx.Hex(text))
	r := marshalText(text)
	if r.panicked != "" {
		o.Fail("C04.parse.panic", "text=%s panic=%s", short(text), r.panicked)
	} else if r.err == nil {
		o.Fail(class, "text=%s accepted, out=%s", short(text), hx.Hex(r.out))
	}
}

var nasties = []string{"", " ", "1.5", "1.5e3", "[", "[,]", "[[1],[2]]", `""`, `"123"`, "[I;1I]", "-1b", "1 x", "{}x", "[a,{}]", "[a,[b]]", "[[1],[B;1b]]",
	"[[]", "{a:{}", "[{}", "[[[]]]", "1.5.5", "1.5x", "1bb", "1.0e", "1.0ee5", "1.0e5e5", "1.0e+5", "{a:1}}", "[1]]", "'a'b", "{a:}", "{a:1,}", "{,}", "[1,]",
	"[B;1b,]", "[B;,]", "+5", "1.", ".5", "1.d", "1e3", "true", "{true:false}", "[B;1]", "[B;1s]", "[L;1]", "[I;1L]", "[B ;1b]", "'a\\'b'", "\"a\\'b\"",
	"\"a\\nb\"", "99999999999", "{99999999999:1}", "128b", "-129b", "1_0", "--1", "+-1", "-", "+", "1-", "[1b,2s]", "[{},1]", "[[],1]", "{a:1", "{a", "{a:",
	"\"abc", "'", "[B", "[B;", "[B;1b", "[ B ; ]", "[B,C]", "[B]", "[Bx;1]", "[I;1,2i]", "1i", "0x10", "00012", "1.50", "{a:[[1],[2L]]}", "]", "}", ":", ",", ";",
	"[;]", "[B;;]", "{a::1}", "{a:1:2}", "{:1}", "{\"a\"}", "[1 2]", "{a:1 b:2}", "[\"a\" \"b\"]", "{a:[}", "[{]", "[}", "{]", "\\", "\"\\", "'\\", "[B;1b;2b]",
	"[1,[2]]", "[[1],2]", "[{},[]]", "[[],{}]", "[[B;1b],[1]]", "[[I;1],[I;2]]", "[[],[1]]", "[[1],[]]", "[[],[],[[]]]", "{a:[I;],b:[L;],c:[B;]}", "1e5f", "1E5", "1.e5",
	"-.5", "+.5d", "1..2", "1.2.3f", "١", "\x00", "1\x00", "{\x00:1}", "\xff", "[I;+1,-2]", "[L;1l]", "[B;true]", "[true]", "[true,1b]", "9223372036854775808L",
	"-9223372036854775808L", "2147483648", "-2147483648", "32768s", "1e", "1f1", "1d1", "1.0f0", "1.0d.", "0.0.", "..", "a..b", "{a.b:1}", "{1:2}", "{1.5:2}", "{-:1}"}

func main() {
	o := hx.Open()
	defer o.Close()
	g := &gen{r: o.R}
	r := o.R

	// (A) writer: every kind at the root with boundary values first, then random trees
	for k := 1; k <= 12; k++ {
		for i := 0; i < 12; i++ {
			writerCase(o, "writer.root-kind", g.tree(1, k, i%4 == 3))
		}
	}
	for _, s := range strPool {
		writerCase(o, "writer.string-pool", &node{k: kString, s: []byte(s)})
		writerCase(o, "writer.key-pool", &node{k: kCompound, keys: [][]byte{[]byte(s)}, kids: []*node{{k: kString, s: []byte(s)}}})
	}
	for _, k := range []int{kByte, kShort, kInt, kLong} {
		for _, v := range bounds[k] {
			writerCase(o, "writer.int-bounds", &node{k: k, i: v})
		}
	}
	for i, n := 0, o.N(6000, 12); i < n; i++ {
		writerCase(o, "writer.random", g.tree(r.Intn(5), 0, r.Intn(8) == 0))
	}

	// (B) parser on L with random layouts; the dense layout first
	var corpus [][]byte
	for k := 1; k <= 12; k++ {
		for i := 0; i < 12; i++ {
			corpus = append(corpus, parseCase(o, "parse.root-kind", g.tree(1, k, false), i%3 == 0))
		}
	}
	for _, s := range strPool {
		parseCase(o, "parse.string-pool", &node{k: kString, s: []byte(s)}, false)
		parseCase(o, "parse.key-pool", &node{k: kCompound, keys: [][]byte{[]byte(s)}, kids: []*node{{k: kList, kids: []*node{{k: kString, s: []byte(s)}}}}}, false)
	}
	for _, k := range []int{kByte, kShort, kInt, kLong} {
		for _, v := range bounds[k] {
			parseCase(o, "parse.int-bounds", &node{k: k, i: v}, r.Bool())
			parseCase(o, "parse.int-bounds", &node{k: kList, kids: []*node{{k: k, i: v}, {k: k, i: v}}}, r.Bool())
		}
	}
	for i, n := 0, o.N(8000, 12); i < n; i++ {
		t := parseCase(o, "parse.random", g.tree(r.Intn(5), 0, false), r.Intn(4) == 0)
		if len(t) < 200 {
			corpus = append(corpus, t)
		}
	}

	// (B') integer ranges at every suffix, in every position; list homogeneity; typed-array element types
	type lim struct {
		sfx    []string
		lo, hi string // first values outside the range
		min    string
		max    string
		arr    string
	}
	for _, l := range []lim{
		{[]string{"b", "B"}, "-129", "128", "-128", "127", "B"},
		{[]string{"s", "S"}, "-32769", "32768", "-32768", "32767", ""},
		{[]string{"", "i", "I"}, "-2147483649", "2147483648", "-2147483648", "2147483647", "I"},
		{[]string{"l", "L"}, "-9223372036854775809", "9223372036854775808", "-9223372036854775808", "9223372036854775807", "L"},
	} {
		for _, sf := range l.sfx {
			for _, c := range []struct {
				v  string
				ok bool
			}{{l.lo, false}, {l.hi, false}, {"+" + l.hi, false}, {l.min, true}, {l.max, true}, {"+" + l.max, true}, {l.hi + "0", false}, {"99999999999999999999", false}, {"-99999999999999999999", false}, {"-0", true}, {"+0", true}} {
				lit := c.v + sf
				specCase(o, "spec.int-range", lit, c.ok)
				specCase(o, "spec.int-range", " [ "+lit+" ] ", c.ok)
				specCase(o, "spec.int-range", "["+l.max+sf+","+lit+"]", c.ok)
				specCase(o, "spec.int-range", "{a:"+lit+",\"b c\":["+lit+"]}", c.ok)
				if l.arr != "" {
					specCase(o, "spec.int-range", "["+l.arr+";"+lit+"]", c.ok)
					specCase(o, "spec.int-range", "{k:["+l.arr+"; 0"+sf+" , "+lit+" ]}", c.ok)
				}
			}
		}
	}
	vals := []string{"1b", "1s", "1", "1L", "a", "\"a\"", "'1'", "{}", "{a:1}", "[]", "[1]", "[a]", "[B;]", "[B;1b]", "[I;]", "[I;1]", "[L;]", "[L;1L]", "[[]]", "1I"}
	kindOf := []int{1, 2, 3, 4, 8, 8, 8, 10, 10, 9, 9, 9, 7, 7, 11, 11, 12, 12, 9, 3}
	for i, a := range vals {
		for j, b := range vals {
			same := kindOf[i] == kindOf[j]
			specCase(o, "spec.list-homogeneity", "["+a+","+b+"]", same)
			specCase(o, "spec.list-homogeneity", "{x:[ "+a+" , "+b+" ,"+a+"]}", same)
			specCase(o, "spec.list-homogeneity", "[["+a+"],["+b+"]]", true)
		}
		for k, letter := range []string{"B", "I", "L"} {
			specCase(o, "spec.array-element", "["+letter+";"+a+"]", kindOf[i] == []int{1, 3, 4}[k])
			specCase(o, "spec.array-element", "["+letter+";"+[]string{"1b", "1", "1L"}[k]+","+a+"]", kindOf[i] == []int{1, 3, 4}[k])
		}
	}

	// (C) hostile text
	for _, s := range nasties {
		hostile(o, "hostile.fixed", []byte(s))
		hostile(o, "hostile.fixed", []byte("{k:"+s+"}"))
		hostile(o, "hostile.fixed", []byte("["+s+"]"))
		hostile(o, "hostile.fixed", []byte("[ "+s+" , "+s+" ]"))
	}
	// bare keys: every reading of SNBT takes an unquoted key as its raw characters, number-like or not
	for i, n := 0, o.N(600, 10); i < n; i++ {
		var tok []byte
		if i < len(strPool) {
			tok = []byte(strPool[i])
		} else {
			tok = g.str()
		}
		ok := len(tok) > 0 && len(tok) < 200
		for _, c := range tok {
			ok = ok && isBareByte(c)
		}
		if !ok {
			continue
		}
		text := []byte("{" + string(tok) + ":1b}")
		o.Eval("hostile.bare-key", true, "k "+hx.Hex(text))
		r := marshalText(text)
		want := append(append([]byte{10, 0, 0, 1, 0, byte(len(tok))}, tok...), 1, 0)
		if r.panicked != "" {
			o.Fail("C04.parse.panic", "text=%s panic=%s", short(text), r.panicked)
		} else if r.err == nil && !bytes.Equal(r.out, want) {
			o.Fail("C04.parse.bare-key", "text=%s out=%s want=%s", short(text), hx.Hex(r.out), hx.Hex(want))
		}
	}
	// truncation: a text of L whose root is a container or a quoted string, cut anywhere before its last
	// closing character, is not a value; a complete value followed by a space and anything else is not a value
	for i, t := range corpus {
		tt := bytes.TrimRight(t, " \t\r\n")
		if len(tt) == 0 {
			continue
		}
		last := tt[len(tt)-1]
		if last == '}' || last == ']' || last == '"' || last == '\'' {
			step := 1
			if len(tt) > 40 && !o.Thorough() {
				step = 1 + len(tt)/40
			}
			for cut := 0; cut < len(tt); cut += step {
				mustReject(o, "C04.parse.truncated-accepted", "hostile.truncated", tt[:cut])
			}
		}
		if i%3 == 0 && i < 3000 {
			for _, tail := range []string{" x", " 1", "]", "}", " ,", " {}", "\n[]", ":", " \"\""} {
				mustReject(o, "C04.parse.trailing-accepted", "hostile.trailing", append(append([]byte{}, t...), tail...))
			}
		}
	}
	// mutations of valid texts
	const alphabet = "{}[],:;\"'\\ \t\n0123456789+-.eEbBsSlLfFdDiIaxBIL_tru"
	for i, n := 0, o.N(40000, 15); i < n; i++ {
		src := corpus[r.Intn(len(corpus))]
		t := append([]byte{}, src...)
		for m := 1 + r.Intn(3); m > 0 && len(t) > 0; m-- {
			pos := r.Intn(len(t))
			switch r.Intn(5) {
			case 0:
				t[pos] = alphabet[r.Intn(len(alphabet))]
			case 1:
				t = append(t[:pos], t[pos+1:]...)
			case 2:
				t = append(t[:pos], append([]byte{alphabet[r.Intn(len(alphabet))]}, t[pos:]...)...)
			case 3:
				end := pos + 1 + r.Intn(4)
				if end > len(t) {
					end = len(t)
				}
				t = append(t[:pos], append(append([]byte{}, t[pos:end]...), t[pos:]...)...)
			default:
				t[pos] = byte(r.Next())
			}
		}
		hostile(o, "hostile.mutated", t)
	}
	for i, n := 0, o.N(20000, 15); i < n; i++ {
		l := r.Intn(12)
		t := make([]byte, l)
		for j := range t {
			t[j] = alphabet[r.Intn(len(alphabet))]
		}
		hostile(o, "hostile.random", t)
	}
	// exhaustive short texts over a small structural alphabet
	small := []byte("[]{},:;1bB.\" a")
	maxLen := 4
	if o.Thorough() {
		maxLen = 5
	}
	var rec func(p []byte)
	rec = func(p []byte) {
		if len(p) > 0 {
			hostile(o, "hostile.exhaustive", p)
		}
		if len(p) == maxLen {
			return
		}
		for _, c := range small {
			rec(append(p, c))
		}
	}
	rec(nil)

	// (D) the scanner against its translation (scan.go)
	scannerCases(o, corpus)

	// (F) the decoder against its translation (dec.go)
	decoderCases(o, corpus)
}
