// C04 harness, part (D): the SNBT scanner (nbt/snbt_scanner.go) against its TRANSLATION (coq/Gen/Scanner.v,
// regenerated from the source on every run) and against model-free predicates.
//
// Every text goes through the loop every user of the scanner runs - reset, s.step per byte, s.eof() - by way of the
// overlay export nbt.VerifScan; the line compared with the extracted translated scanner holds one opcode per byte,
// the scanner's fields (state function by name, parse stack, endTop, errContext set) after the last byte, the
// opcode of eof, and the fields again.
//
// Predicates, computed here without the model:
//
//	C04.scan.panic               the scanner panicked
//	C04.scan.error-not-sticky    an opcode other than scanError after a scanError
//	C04.scan.depth               parse stack deeper than maxNestingDepth+2
//	C04.scan.opcode-stack        scanBeginCompound / scanBeginList without the push of the matching frame,
//	                             scanEndValue without the pop of the frame the closing bracket matches, or a stack
//	                             that moves on any other opcode
//	C04.scan.accepts-unbalanced  eof answered scanEnd for a text whose brackets do not match outside string literals
//	C04.parse.scanner-rejected   the scanner does not accept the text, Marshal(StringifiedMessage) returns nil error
//	C04.parse.empty-error-text   Marshal(StringifiedMessage) returns an error whose text is empty
package main

import (
	"bytes"
	"strconv"
	"strings"

	"github.com/Tnze/go-mc/nbt"
	"verif/harness/hx"
)

var scC = nbt.VerifScanConsts()

func scState(b *strings.Builder, st nbt.VerifScanState) {
	b.WriteString(st.Step)
	b.WriteByte(':')
	if len(st.Stack) == 0 {
		b.WriteByte('-')
	}
	for _, v := range st.Stack {
		b.WriteByte(byte('0' + v))
	}
	b.WriteByte(':')
	if st.EndTop {
		b.WriteByte('1')
	} else {
		b.WriteByte('0')
	}
	if st.Err {
		b.WriteByte('1')
	} else {
		b.WriteByte('0')
	}
}

// scLine renders the observation in the format of the model driver (driver/c04.ml, sc_text)
func scLine(r *nbt.VerifScanResult) string {
	var b strings.Builder
	if len(r.Ops) == 0 {
		b.WriteByte('-')
	}
	for _, op := range r.Ops {
		b.WriteByte(byte('a' + op))
	}
	if strings.HasPrefix(r.Panic, "bytes") {
		b.WriteString(" P")
		return b.String()
	}
	b.WriteByte(' ')
	scState(&b, r.Pre)
	if r.Panic != "" {
		b.WriteString(" P")
		return b.String()
	}
	b.WriteByte(' ')
	b.WriteByte(byte('a' + r.EOF))
	b.WriteByte(' ')
	scState(&b, r.Post)
	return b.String()
}

// balancedRef: brackets match outside string literals.  Written from the grammar, not from the scanner: a quote
// opens a string that runs to the next occurrence of the same quote not preceded by an (unescaped) backslash.
func balancedRef(text []byte) bool {
	var open []byte
	i := 0
	for i < len(text) {
		c := text[i]
		switch c {
		case '"', '\'':
			j := i + 1
			for {
				if j >= len(text) {
					return false // the string never ends
				}
				if text[j] == '\\' {
					j += 2
					continue
				}
				if text[j] == c {
					break
				}
				j++
			}
			i = j + 1
			continue
		case '{', '[':
			open = append(open, c)
		case '}', ']':
			if len(open) == 0 || (c == '}') != (open[len(open)-1] == '{') {
				return false
			}
			open = open[:len(open)-1]
		}
		i++
	}
	return len(open) == 0
}

// scanPred evaluates the scanner-level predicates; it returns the first failure ("" = none)
func scanPred(text []byte, r *nbt.VerifScanResult) (class, detail string) {
	if r.Panic != "" {
		return "C04.scan.panic", r.Panic
	}
	sErr, sEnd := scC["scanError"], scC["scanEnd"]
	seenErr := false
	prevDepth, prevTop := 0, -1
	limit := scC["maxNestingDepth"] + 2
	for i, op := range r.Ops {
		if seenErr && op != sErr {
			return "C04.scan.error-not-sticky", "opcode after scanError at byte " + strconv_(i)
		}
		if op == sErr {
			seenErr = true
		}
		d, top, c := r.Depths[i], r.Tops[i], text[i]
		if d > limit {
			return "C04.scan.depth", "depth " + strconv_(d) + " at byte " + strconv_(i)
		}
		ok := true
		switch op {
		case scC["scanBeginCompound"]:
			ok = c == '{' && d == prevDepth+1 && top == scC["parseCompoundName"]
		case scC["scanBeginList"]:
			ok = c == '[' && d == prevDepth+1 && top == scC["parseListValue"]
		case scC["scanEndValue"]:
			ok = d == prevDepth-1 && (c == '}' && (prevTop == scC["parseCompoundName"] || prevTop == scC["parseCompoundValue"]) || c == ']' && prevTop == scC["parseListValue"])
		default:
			ok = d == prevDepth || op == sErr && (c == '{' || c == '[') && d == prevDepth+1 && d == limit
		}
		if !ok {
			return "C04.scan.opcode-stack", "byte " + strconv_(i) + " opcode " + strconv_(op) + " depth " + strconv_(prevDepth) + "->" + strconv_(d)
		}
		prevDepth, prevTop = d, top
	}
	if seenErr && r.EOF != sErr {
		return "C04.scan.error-not-sticky", "eof opcode after scanError"
	}
	if r.EOF == sEnd && !balancedRef(text) {
		return "C04.scan.accepts-unbalanced", "eof = scanEnd"
	}
	return "", ""
}

func strconv_(i int) string {
	var b [20]byte
	n := len(b)
	neg := i < 0
	if neg {
		i = -i
	}
	for {
		n--
		b[n] = byte('0' + i%10)
		i /= 10
		if i == 0 {
			break
		}
	}
	if neg {
		n--
		b[n] = '-'
	}
	return string(b[n:])
}

// scanCase: one text, compared line by line with the translated scanner, plus the predicates
func scanCase(o *hx.Out, cat string, text []byte, decoder bool) {
	r := nbt.VerifScan(text)
	o.Case(cat, len(text) > 1, "s "+hx.Hex(text), "s "+scLine(&r))
	if class, detail := scanPred(text, &r); class != "" {
		o.Fail(class, "text=%s %s", short(text), detail)
	}
	if !decoder {
		return
	}
	m := marshalText(text)
	if m.panicked != "" {
		o.Fail("C04.parse.panic", "text=%s panic=%s", short(text), m.panicked)
		return
	}
	if m.err == nil && r.EOF != scC["scanEnd"] {
		o.Fail("C04.parse.scanner-rejected", "text=%s scanner eof opcode %d, Marshal returned %s", short(text), r.EOF, hx.Hex(m.out))
	}
	if m.err != nil && m.err.Error() == "" {
		o.Fail("C04.parse.empty-error-text", "text=%s", short(text))
	}
}

func fnv32(h uint32, s string) uint32 {
	for i := 0; i < len(s); i++ {
		h = (h ^ uint32(s[i])) * 16777619
	}
	return (h ^ 10) * 16777619
}

// scanBatch: the prefix and every extension of it by up to k symbols of the alphabet, depth first in alphabet order;
// one compared line carries the number of texts and a hash of their result lines; the predicates run on every text
func scanBatch(o *hx.Out, cat string, alpha, prefix []byte, k int) {
	h, n := uint32(2166136261), 0
	failed := false
	var walk func(t []byte, k int)
	walk = func(t []byte, k int) {
		r := nbt.VerifScan(t)
		h = fnv32(h, scLine(&r))
		n++
		if class, detail := scanPred(t, &r); class != "" && !failed {
			failed = true // one report per batch
			o.Fail(class, "text=%s %s", short(t), detail)
		}
		if k > 0 {
			for _, c := range alpha {
				walk(append(t[:len(t):len(t)], c), k-1)
			}
		}
	}
	walk(append([]byte{}, prefix...), k)
	o.Case(cat, true, "X "+hx.Hex(alpha)+" "+hx.Hex(prefix)+" "+strconv_(k), "X "+strconv_(n)+" "+hex8(h))
}

func hex8(h uint32) string {
	const d = "0123456789abcdef"
	var b [8]byte
	for i := 7; i >= 0; i-- {
		b[i] = d[h&15]
		h >>= 4
	}
	return string(b[:])
}

func scannerCases(o *hx.Out, corpus [][]byte) {
	r := o.R
	// fixed texts: what the package's own tests scan, the nasties of part (C) in four embeddings
	for _, s := range []string{"", `{a:[B;]}`, "0", "1234567890", "3.1415926", "-0", "-3.1415926", "255B", "1234s", "6666L", "314F", "3.14f",
		"3.14159265358979323846264D", `{}`, `{name:3.14f}`, `{ "name" : 12345 }`, `{ abc: { }}`, `{ "a b\"c": {}, def: 12345}`, `{ ghi: [], klm: 1}`,
		`{T: 1.2E3d, U: 1.2e-3D, V: 12e3d, W: -1.2E3F }`, `[I; 1, 2 ,3]`, `[L;]`, `[ B ; 1b ]`, `'it''s'`, `'a\'b\\'`, `"\b\f\n\r\t\\\/\""`, `"\x"`, `'\n'`,
		`{a:'}',b:"]"}`, `["[","{"]`, `[Bx,By]`, `[B,I;]`, `[I]`, `[L ;]`, "1.e5", "1.e", "1.x", "1.-", "+", "-", "+-", "1e5", "1.0e-", "1.0e-5", "1.0e+5f", "1.0ee", "1bx", "1fx", "1.0fx", "1.0f ", "1.0f,",
		"a b", "a\tb", "a\n", " \t\r\n1 \t\r\n", "\v1", "\x0c1", "\x001", "\x7f", "\x80", "\xff", "é", "{é:1}", "\"é\"", "_", ".", "a.b-c+d_e", "{a.b:c-d}", "{+:-}", "[.,.]",
		"{{}}", "{[]}", "[{}]", "[[]]", "{a:{b:{c:{}}}}", "[[[[]]]]", "{a:[{b:[{}]}]}", "{a:1,b:[1,2],c:{d:'x'}}", "{a:1}}", "{a:1}]", "[1]}", "[1]]", "{]", "[}", "{a:]", "{a:1]", "[1}", "[1,}"} {
		scanCase(o, "scanner.fixed", []byte(s), true)
	}
	for _, s := range nasties {
		scanCase(o, "scanner.fixed", []byte(s), true)
		scanCase(o, "scanner.fixed", []byte("{k:"+s+"}"), true)
		scanCase(o, "scanner.fixed", []byte("["+s+"]"), true)
		scanCase(o, "scanner.fixed", []byte("[ "+s+" , "+s+" ]"), true)
	}
	// the depth limit: the deepest accepted nesting, one more, and far beyond (lists, compounds, mixed)
	max := scC["maxNestingDepth"]
	if o.Thorough() {
		for _, n := range []int{max, max + 1, max + 2, max + 3, max + 50} {
			scanCase(o, "scanner.depth", []byte(strings.Repeat("[", n)+strings.Repeat("]", n)), true)
			scanCase(o, "scanner.depth", []byte(strings.Repeat("{a:", n)+"1"+strings.Repeat("}", n)), true)
			scanCase(o, "scanner.depth", []byte(strings.Repeat("[{a:", n/2)+"[]"+strings.Repeat("}]", n/2)), true)
			scanCase(o, "scanner.depth", []byte(strings.Repeat("[", n)+"]]] x"), true)
		}
	} else { // the model's list operations are linear in the depth: four deep texts in the quick tier
		scanCase(o, "scanner.depth", []byte(strings.Repeat("[", max+1)+strings.Repeat("]", max+1)), true)
		scanCase(o, "scanner.depth", []byte(strings.Repeat("[", max+2)+"]]] x"), true)
		scanCase(o, "scanner.depth", []byte(strings.Repeat("{a:", max+2)+"1}}"), true)
		scanCase(o, "scanner.depth", []byte(strings.Repeat("[{a:", max/2+2)+"[]}]}]"), true)
	}
	// the texts of the grammar generator (part B), whole and cut
	for i, t := range corpus {
		if i >= o.N(4000, 3) {
			break
		}
		scanCase(o, "scanner.grammar", t, false)
		if len(t) > 1 {
			scanCase(o, "scanner.grammar-cut", t[:1+r.Intn(len(t)-1)], false)
		}
	}
	// mutations of them
	const alphabet = "{}[],:;\"'\\ \t\n0123456789+-.eEbBsSlLfFdDiIaxBIL_tru/"
	for i, n := 0, o.N(15000, 15); i < n && len(corpus) > 0; i++ {
		t := append([]byte{}, corpus[r.Intn(len(corpus))]...)
		for m := 1 + r.Intn(3); m > 0 && len(t) > 0; m-- {
			pos := r.Intn(len(t))
			switch r.Intn(5) {
			case 0:
				t[pos] = alphabet[r.Intn(len(alphabet))]
			case 1:
				t = append(t[:pos], t[pos+1:]...)
			case 2:
				t = append(t[:pos], append([]byte{alphabet[r.Intn(len(alphabet))]}, t[pos:]...)...)
			case 3:
				end := pos + 1 + r.Intn(4)
				if end > len(t) {
					end = len(t)
				}
				t = append(t[:pos], append(append([]byte{}, t[pos:end]...), t[pos:]...)...)
			default:
				t[pos] = byte(r.Next())
			}
		}
		scanCase(o, "scanner.mutated", t, i%4 == 0)
	}
	// random texts over the alphabet, and over all bytes
	for i, n := 0, o.N(6000, 15); i < n; i++ {
		t := make([]byte, r.Intn(14))
		for j := range t {
			if i%5 == 4 {
				t[j] = byte(r.Next())
			} else {
				t[j] = alphabet[r.Intn(len(alphabet))]
			}
		}
		scanCase(o, "scanner.random", t, false)
	}
	// every byte value in every state reachable by a short prefix
	for _, p := range []string{"", "{", "{a", "{a:", "{a:1", "{a:1,", "[", "[B", "[B;", "[1", "[1,", "'", "'\\", "\"", "\"\\", "a", "1", "-", "1.", "1.5", "1.5e", "1.5e1", "1b", "1.5f", "{}", "[]", "1 ", "{a ", "[1 ", "[ ", "{ ", "[B; "} {
		for c := 0; c < 256; c++ {
			scanCase(o, "scanner.every-byte", append([]byte(p), byte(c)), false)
			scanCase(o, "scanner.every-byte", append(append([]byte(p), byte(c)), '1'), false)
		}
	}
	// exhaustive: ALL texts of length <= 4 over two alphabets as individual lines ...
	a1 := []byte("{}[]:,;\"'\\1a ")  // structure: quotes, backslash, brackets, braces, colon, comma, semicolon, digit, letter, space
	a2 := []byte("1.e-+bfLB;[], ") // numbers and array prefixes
	for _, a := range [][]byte{a1, a2} {
		var rec func(p []byte)
		rec = func(p []byte) {
			if len(p) > 0 {
				scanCase(o, "scanner.exhaustive", p, false)
			}
			if len(p) == 4 {
				return
			}
			for _, c := range a {
				rec(append(p[:len(p):len(p)], c))
			}
		}
		rec(nil)
	}
	// ... and ALL texts of length <= 6 (the second alphabet: <= 5, thorough <= 6) in hashed batches, one per prefix of length 3 (2)
	for ai, a := range [][]byte{a1, a2} {
		pl := 3
		if ai == 1 && !o.Thorough() {
			pl = 2
		}
		var rec func(p []byte)
		rec = func(p []byte) {
			if len(p) == pl {
				scanBatch(o, "scanner.exhaustive-batch", a, p, 3)
				return
			}
			for _, c := range a {
				rec(append(p[:len(p):len(p)], c))
			}
		}
		rec(nil)
	}
	_ = bytes.Equal
	literalCases(o)
}

func strconvParseFloat(s string, bits int) (float64, error) { return strconv.ParseFloat(s, bits) }

// ---------------------------------------------------------------- the literal classifier (parseLiteral, unquoted tokens)
//
// Compared with the TRANSLATED classifier (coq/Gen/Literal.v): tag type, kind of conversion (0 the token itself,
// 1 ParseInt, 2 ParseFloat, 3 panic), width of the Go type of the value; for integers also whether the conversion
// failed and the value (the driver evaluates ParseInt(token[:strlen], 10, bits) from the model's strlen and bits).
// Predicates, without the model:
//
//	C04.literal.float-value   a float literal's value is not strconv.ParseFloat(token without its f/F/d/D suffix)
//	C04.literal.panic-bare    parseLiteral panicked on a token made of unquoted-string characters only
func litLine(tok []byte) string {
	tag, val, failed, pan := nbt.VerifParseLiteral(tok)
	if pan != "" {
		return "0 3 0 -"
	}
	conv, cast, rest := 0, 0, "-"
	switch v := val.(type) {
	case string:
	case int8:
		conv, cast, rest = 1, 8, strconv_(int(v))
	case int16:
		conv, cast, rest = 1, 16, strconv_(int(v))
	case int32:
		conv, cast, rest = 1, 32, strconv_(int(v))
	case int64:
		conv, cast = 1, 64
		if v == -9223372036854775808 {
			rest = "-9223372036854775808"
		} else {
			rest = strconv_(int(v))
		}
	case float32:
		conv, cast = 2, 32
	case float64:
		conv, cast = 2, 64
	default:
		return "? unexpected value type"
	}
	if conv == 1 && failed {
		rest = "err"
	}
	return strconv_(int(tag)) + " " + strconv_(conv) + " " + strconv_(cast) + " " + rest
}

func litPred(o *hx.Out, tok []byte) {
	tag, val, failed, pan := nbt.VerifParseLiteral(tok)
	bare := len(tok) > 0
	for _, c := range tok {
		bare = bare && isBareByte(c)
	}
	if pan != "" {
		if bare {
			o.Fail("C04.literal.panic-bare", "token=%s panic=%s", short(tok), pan)
		}
		return
	}
	body := string(tok)
	if n := len(body); n > 0 && strings.IndexByte("fFdD", body[n-1]) >= 0 {
		body = body[:n-1]
	}
	switch v := val.(type) {
	case float32:
		w, err := strconvParseFloat(body, 32)
		if tag != 5 || (err != nil) != failed || !failed && float32(w) != v && !(w != w && v != v) {
			o.Fail("C04.literal.float-value", "token=%s tag=%d value=%v failed=%v want=%v", short(tok), tag, v, failed, float32(w))
		}
	case float64:
		w, err := strconvParseFloat(body, 64)
		if tag != 6 || (err != nil) != failed || !failed && w != v && !(w != w && v != v) {
			o.Fail("C04.literal.float-value", "token=%s tag=%d value=%v failed=%v want=%v", short(tok), tag, v, failed, w)
		}
	}
}

func litCase(o *hx.Out, cat string, tok []byte) {
	o.Case(cat, len(tok) > 1, "L "+hx.Hex(tok), "L "+litLine(tok))
	litPred(o, tok)
}

func litBatch(o *hx.Out, cat string, alpha, prefix []byte, k int) {
	h, n := uint32(2166136261), 0
	var walk func(t []byte, k int)
	walk = func(t []byte, k int) {
		h = fnv32(h, litLine(t))
		n++
		litPred(o, t)
		if k > 0 {
			for _, c := range alpha {
				walk(append(t[:len(t):len(t)], c), k-1)
			}
		}
	}
	walk(append([]byte{}, prefix...), k)
	o.Case(cat, true, "Y "+hx.Hex(alpha)+" "+hx.Hex(prefix)+" "+strconv_(k), "Y "+strconv_(n)+" "+hex8(h))
}

func literalCases(o *hx.Out) {
	r := o.R
	for _, s := range []string{"0", "-0", "+0", "1", "-1", "127b", "128b", "-128b", "-129B", "32767s", "32768S", "2147483647", "2147483648", "-2147483648", "-2147483649",
		"9223372036854775807L", "9223372036854775808l", "-9223372036854775808L", "1i", "1I", "5f", "5F", "5d", "5D", "1.5", "1.5f", "1.5F", "1.5d", "1.5D", "-1.5", "+1.5", "1.", "1.f", ".5", "-.5",
		"1e5", "1.5e5", "1.5E5", "1.5e+5", "1.5e-5", "1.5e5f", "1.5e-5d", "1.5e", "1.5ee5", "1.5e5e5", "1.5+5", "1.5-5", "1.5e--5", "1.5e+-5", "1..5", "1.5.5", "1.5x", "1.5fx", "1.5ff",
		"b", "f", "d", "L", "B", "-", "+", "-b", "+f", "--1", "+-1", "-+1", "1-", "1+", "1b1", "1bb", "1_0", "0x10", "007", "00b", "true", "false", "a", "abc", "a.b", "a-b", "_", ".", "..", "a1", "1a",
		"1s2", "e5", "E", "1e", "1E5", "Infinity", "NaN", "inf", "1.5inf", "99999999999999999999", "-99999999999999999999", "99999999999999999999L", "1.7976931348623157e309", "1e400f", "3.4028236e38f",
		"4.9e-324", "1e-400", "0.1f", "16777217f", "9007199254740993d", "a b", "a\"b", "a'b", "a\\b", "a{b", "1 ", " 1", "é", "\x00", "1\x00", "a\xff"} {
		litCase(o, "literal.fixed", []byte(s))
	}
	const alphabet = "0123456789.-+eEbBsSlLfFdDiIxa_"
	for i, n := 0, o.N(20000, 15); i < n; i++ {
		t := make([]byte, 1+r.Intn(12))
		for j := range t {
			switch {
			case i%7 == 6:
				t[j] = byte(r.Next())
			case r.Intn(3) > 0:
				t[j] = byte('0' + r.Intn(10))
			default:
				t[j] = alphabet[r.Intn(len(alphabet))]
			}
		}
		if t[0] == '"' || t[0] == '\'' {
			t[0] = 'q'
		}
		litCase(o, "literal.random", t)
	}
	// exhaustive: all tokens of length <= 3 as lines, all of length <= 5 (thorough 6) in hashed batches
	a := []byte("01.-+eEbfdLsIx_")
	var rec func(p []byte)
	rec = func(p []byte) {
		if len(p) > 0 {
			litCase(o, "literal.exhaustive", p)
		}
		if len(p) == 3 {
			return
		}
		for _, c := range a {
			rec(append(p[:len(p):len(p)], c))
		}
	}
	rec(nil)
	pl := 2
	if o.Thorough() {
		pl = 3
	}
	var rec2 func(p []byte)
	rec2 = func(p []byte) {
		if len(p) == pl {
			litBatch(o, "literal.exhaustive-batch", a, p, 3)
			return
		}
		for _, c := range a {
			rec2(append(p[:len(p):len(p)], c))
		}
	}
	rec2(nil)
}
