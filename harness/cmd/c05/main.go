// C05 harness: VarInt / VarLong against the extracted model, plus the property predicate evaluated
// directly on the implementation.
package main

import (
	"bytes"
	"fmt"
	"io"
	"os"
	"testing/iotest"

	pk "github.com/Tnze/go-mc/net/packet"
	"verif/harness/hx"
)

// plain hides bytes.Reader's ReadByte so that the packet package has to wrap the reader itself.
type plain struct{ r *bytes.Reader }

func (p plain) Read(b []byte) (int, error) { return p.r.Read(b) }

// reference LEB128 of the two's-complement pattern, written from the format definition
func refLeb(u uint64) []byte {
	var out []byte
	for {
		if u < 128 {
			return append(out, byte(u))
		}
		out = append(out, byte(u&0x7f)|0x80)
		u >>= 7
	}
}

func enc32(o *hx.Out, cat string, v int32) {
	var buf bytes.Buffer
	var n int64
	var err error
	var tmp [pk.MaxVarIntLen]byte
	var n2, l int
	if p := hx.Try(func() {
		n, err = pk.VarInt(v).WriteTo(&buf)
		n2 = pk.VarInt(v).WriteToBytes(tmp[:])
		l = pk.VarInt(v).Len()
	}); p != "" {
		o.Case(cat, v < 0 || v >= 128, fmt.Sprintf("enc32 %d", v), fmt.Sprintf("enc32 %d panic", v))
		o.Fail("C05.panic.enc32", "v=%d panic=%s", v, p)
		return
	}
	b := buf.Bytes()
	o.Case(cat, v < 0 || v >= 128, fmt.Sprintf("enc32 %d", v), fmt.Sprintf("enc32 %d %s %d", v, hx.Hex(b), l))
	want := refLeb(uint64(uint32(v)))
	if err != nil || !bytes.Equal(b, want) || int(n) != len(b) || l != len(b) || n2 != len(b) || !bytes.Equal(tmp[:n2], b) {
		o.Fail("C05.enc32", "v=%d bytes=%s want=%s n=%d n2=%d len=%d err=%v", v, hx.Hex(b), hx.Hex(want), n, n2, l, err)
	}
	// decode what was written, with trailing bytes
	tail := []byte{0x80, 0x01, 0xff}
	rd := bytes.NewReader(append(append([]byte{}, b...), tail...))
	// the destination is REUSED: it holds an arbitrary earlier value (the result must not depend on it)
	back := pk.VarInt(prior(o))
	nn, err := back.ReadFrom(plain{rd})
	if err != nil || back != pk.VarInt(v) || int(nn) != len(b) || rd.Len() != len(tail) {
		o.Fail("C05.rt32", "v=%d back=%d nn=%d left=%d err=%v", v, back, nn, rd.Len(), err)
	}
}

// prior is what a reused destination variable held before ReadFrom: zero, all ones, single bits, random
func prior(o *hx.Out) int64 {
	switch o.R.Intn(6) {
	case 0:
		return 0
	case 1:
		return -1
	case 2:
		return int64(1) << uint(o.R.Intn(64))
	case 3:
		return 0x7f
	default:
		return int64(o.R.Next())
	}
}

func enc64(o *hx.Out, cat string, v int64) {
	var buf bytes.Buffer
	var n int64
	var err error
	var tmp [pk.MaxVarLongLen]byte
	var n2, l int
	if p := hx.Try(func() {
		n, err = pk.VarLong(v).WriteTo(&buf)
		n2 = pk.VarLong(v).WriteToBytes(tmp[:])
		l = pk.VarLong(v).Len()
	}); p != "" {
		o.Case(cat, v < 0 || v >= 128, fmt.Sprintf("enc64 %d", v), fmt.Sprintf("enc64 %d panic", v))
		o.Fail("C05.panic.enc64", "v=%d panic=%s", v, p)
		return
	}
	b := buf.Bytes()
	o.Case(cat, v < 0 || v >= 128, fmt.Sprintf("enc64 %d", v), fmt.Sprintf("enc64 %d %s %d", v, hx.Hex(b), l))
	want := refLeb(uint64(v))
	if err != nil || !bytes.Equal(b, want) || int(n) != len(b) || l != len(b) || n2 != len(b) || !bytes.Equal(tmp[:n2], b) {
		o.Fail("C05.enc64", "v=%d bytes=%s want=%s n=%d n2=%d len=%d err=%v", v, hx.Hex(b), hx.Hex(want), n, n2, l, err)
	}
	tail := []byte{0x80, 0x01, 0xff}
	rd := bytes.NewReader(append(append([]byte{}, b...), tail...))
	back := pk.VarLong(prior(o))
	nn, err := back.ReadFrom(plain{rd})
	if err != nil || back != pk.VarLong(v) || int(nn) != len(b) || rd.Len() != len(tail) {
		o.Fail("C05.rt64", "v=%d back=%d nn=%d left=%d err=%v", v, back, nn, rd.Len(), err)
	}
}

func dec(o *hx.Out, cat string, wide bool, b []byte) {
	rd := bytes.NewReader(b)
	var (
		val int64
		nn  int64
		err error
	)
	op, limit := "dec32", pk.MaxVarIntLen
	if wide {
		op, limit = "dec64", pk.MaxVarLongLen
		v := pk.VarLong(prior(o))
		nn, err = v.ReadFrom(plain{rd})
		val = int64(v)
	} else {
		v := pk.VarInt(prior(o))
		nn, err = v.ReadFrom(plain{rd})
		val = int64(v)
	}
	consumed := len(b) - rd.Len()
	// the same input from a source that is not a ByteReader and delivers its LAST byte together with
	// io.EOF (iotest.DataErrReader; compress/flate does this at the end of a stream): same verdict, value, count
	{
		rd2 := bytes.NewReader(b)
		var val2, nn2 int64
		var err2 error
		if wide {
			v := pk.VarLong(prior(o))
			nn2, err2 = v.ReadFrom(iotest.DataErrReader(plain{rd2}))
			val2 = int64(v)
		} else {
			v := pk.VarInt(prior(o))
			nn2, err2 = v.ReadFrom(iotest.DataErrReader(plain{rd2}))
			val2 = int64(v)
		}
		if (err == nil) != (err2 == nil) || (err == nil && (val != val2 || nn != nn2)) {
			o.Fail("C05.dataeof."+op, "input=%s plain: val=%d n=%d err=%v; data+EOF reader: val=%d n=%d err=%v", hx.Hex(b), val, nn, err, val2, nn2, err2)
		}
	}
	line := fmt.Sprintf("%s %s err", op, hx.Hex(b))
	if err == nil {
		line = fmt.Sprintf("%s %s ok %d %d %d", op, hx.Hex(b), val, nn, rd.Len())
	}
	o.Case(cat, len(b) >= 2, fmt.Sprintf("%s %s", op, hx.Hex(b)), line)
	// predicate: never more than the cap consumed; count = consumed on success; long runs rejected
	if consumed > limit {
		o.Fail("C05.cap."+op, "input=%s consumed=%d cap=%d err=%v", hx.Hex(b), consumed, limit, err)
	}
	if err == nil && int(nn) != consumed {
		o.Fail("C05.count."+op, "input=%s n=%d consumed=%d", hx.Hex(b), nn, consumed)
	}
	run := 0
	for run < len(b) && b[run]&0x80 != 0 {
		run++
	}
	if run >= limit && err == nil {
		o.Fail("C05.longrun."+op, "input=%s accepted a continuation run of %d", hx.Hex(b), run)
	}
	if run < len(b) && run < limit && err != nil && err != io.EOF {
		// a complete encoding within the cap must be accepted
		o.Fail("C05.reject."+op, "input=%s err=%v", hx.Hex(b), err)
	}
	if tdecSel(b) {
		tdec(o, cat, wide, b)
	}
}

// ---- phase 4: the same inputs against the TRANSLATED definitions (coq/Gen/C05gen.v), which the driver runs for
// the case kinds tdec32/tdec64 (reader, br = 1: the source is an io.ByteReader, br = 0: it is not), tenc32/tenc64
// (WriteTo) and trb (readByte, through the overlay export)

// tdecSel thins the exhaustive two- and three-byte inputs for the translated readers (every first byte with
// the continuation bit, and every 16th without)
func tdecSel(b []byte) bool {
	switch len(b) {
	case 2:
		return b[0]&0x80 != 0 || b[0]%16 == 0
	case 3: // thorough tier only: the inputs whose third byte is reached
		return b[0]&0x80 != 0 && b[1]&0x80 != 0
	}
	return true
}

func tdec(o *hx.Out, cat string, wide bool, b []byte) {
	for br := 0; br <= 1; br++ {
		rd := bytes.NewReader(b)
		var src io.Reader = plain{rd}
		if br == 1 {
			src = rd
		}
		var val, nn int64
		var err error
		op := "tdec32"
		if wide {
			op = "tdec64"
			v := pk.VarLong(prior(o))
			nn, err = v.ReadFrom(src)
			val = int64(v)
		} else {
			v := pk.VarInt(prior(o))
			nn, err = v.ReadFrom(src)
			val = int64(v)
		}
		line := fmt.Sprintf("%s %d %s err", op, br, hx.Hex(b))
		if err == nil {
			line = fmt.Sprintf("%s %d %s ok %d %d %d", op, br, hx.Hex(b), val, nn, rd.Len())
		}
		o.Case(cat+".translated", len(b) >= 2, fmt.Sprintf("%s %d %s", op, br, hx.Hex(b)), line)
		if err == nil && int(nn) != len(b)-rd.Len() {
			o.Fail("C05.count."+op, "input=%s br=%d n=%d consumed=%d", hx.Hex(b), br, nn, len(b)-rd.Len())
		}
	}
}

func trb(o *hx.Out, b []byte) {
	for br := 0; br <= 1; br++ {
		rd := bytes.NewReader(b)
		var src io.Reader = plain{rd}
		if br == 1 {
			src = rd
		}
		n, v, err := pk.VerifC05ReadByte(src)
		line := fmt.Sprintf("trb %d %s err", br, hx.Hex(b))
		if err == nil {
			line = fmt.Sprintf("trb %d %s ok %d %d %d", br, hx.Hex(b), n, v, rd.Len())
		}
		o.Case("readbyte.translated", len(b) >= 1, fmt.Sprintf("trb %d %s", br, hx.Hex(b)), line)
		// the count is the number of bytes taken from the source, on both outcomes
		if int(n) != len(b)-rd.Len() || (err == nil) != (len(b) > 0) || (err == nil && v != b[0]) {
			o.Fail("C05.readbyte", "input=%s br=%d n=%d v=%d consumed=%d err=%v", hx.Hex(b), br, n, v, len(b)-rd.Len(), err)
		}
	}
}

func tenc(o *hx.Out, cat string, wide bool, v int64) {
	var buf bytes.Buffer
	var n int64
	var err error
	op := "tenc32"
	if !wide {
		v = int64(int32(v))
	}
	p := hx.Try(func() {
		if wide {
			op = "tenc64"
			n, err = pk.VarLong(v).WriteTo(&buf)
		} else {
			n, err = pk.VarInt(int32(v)).WriteTo(&buf)
		}
	})
	line := fmt.Sprintf("%s %d err", op, v)
	if p != "" {
		line = fmt.Sprintf("%s %d panic", op, v)
		o.Fail("C05.panic."+op, "v=%d panic=%s", v, p)
	} else if err == nil {
		line = fmt.Sprintf("%s %d %s %d", op, v, hx.Hex(buf.Bytes()), n)
	}
	o.Case(cat+".translated", v < 0 || v >= 128, fmt.Sprintf("%s %d", op, v), line)
}

func main() {
	o := hx.Open()
	defer o.Close()
	r := o.R
	// boundaries of every 7-bit group, powers of two +-1
	for k := 0; k <= 32; k++ {
		for d := -2; d <= 2; d++ {
			enc32(o, "enc32.boundary", int32(uint32(1)<<uint(k%32))+int32(d))
		}
	}
	for k := 0; k <= 64; k++ {
		for d := -2; d <= 2; d++ {
			enc64(o, "enc64.boundary", int64(uint64(1)<<uint(k%64))+int64(d))
		}
	}
	for _, v := range []int32{0, -1, 127, 128, 16383, 16384, 2097151, 2097152, 268435455, 268435456, 2147483647, -2147483648} {
		enc32(o, "enc32.boundary", v)
	}
	n := o.N(20000, 25)
	for i := 0; i < n; i++ {
		switch r.Intn(3) {
		case 0:
			enc32(o, "enc32.random", int32(r.Next()))
		case 1:
			enc32(o, "enc32.small", int32(r.Next()>>uint(r.Intn(64))))
		default:
			enc32(o, "enc32.neg", -int32(r.Next()>>uint(33+r.Intn(31))))
		}
		switch r.Intn(3) {
		case 0:
			enc64(o, "enc64.random", int64(r.Next()))
		case 1:
			enc64(o, "enc64.small", int64(r.Next()>>uint(r.Intn(64))))
		default:
			enc64(o, "enc64.neg", -int64(r.Next()>>uint(1+r.Intn(63))))
		}
	}
	// decoder: exhaustive short strings
	maxLen := 2
	if o.Thorough() {
		maxLen = 3
	}
	var rec func(prefix []byte, l int)
	rec = func(prefix []byte, l int) {
		if len(prefix) == l {
			dec(o, fmt.Sprintf("dec.exhaustive%d", l), false, prefix)
			if l <= 2 {
				dec(o, fmt.Sprintf("dec.exhaustive%d", l), true, prefix)
			}
			return
		}
		for b := 0; b < 256; b++ {
			if l == 3 && len(prefix) < 2 && b%3 != 0 && b != 0x7f && b != 0x80 && b != 0xff {
				continue // thorough tier: thinned first two bytes for length 3
			}
			rec(append(prefix, byte(b)), l)
		}
	}
	for l := 0; l <= maxLen; l++ {
		rec(nil, l)
	}
	// structured: continuation runs of every length 0..12 followed by every final-byte class
	finals := []byte{0x00, 0x01, 0x07, 0x08, 0x0f, 0x10, 0x7f}
	for run := 0; run <= 12; run++ {
		for _, f := range finals {
			for rep := 0; rep < o.N(20, 10); rep++ {
				b := make([]byte, 0, 16)
				for i := 0; i < run; i++ {
					b = append(b, byte(r.Next())|0x80)
				}
				b = append(b, f)
				b = append(b, r.Bytes(r.Intn(3))...)
				dec(o, "dec.run", false, b)
				dec(o, "dec.run", true, b)
				// all-zero payload continuation bytes (non-minimal encodings)
				z := bytes.Repeat([]byte{0x80}, run)
				z = append(z, f)
				dec(o, "dec.zero-run", false, z)
				dec(o, "dec.zero-run", true, z)
			}
		}
		// truncated runs
		b := bytes.Repeat([]byte{0xff}, run)
		dec(o, "dec.truncated", false, b)
		dec(o, "dec.truncated", true, b)
	}
	// translated WriteTo and readByte (phase 4)
	for k := 0; k <= 64; k++ {
		for d := -2; d <= 2; d++ {
			tenc(o, "enc32.boundary", false, int64(int32(uint32(1)<<uint(k%32))+int32(d)))
			tenc(o, "enc64.boundary", true, int64(uint64(1)<<uint(k%64))+int64(d))
		}
	}
	for i := 0; i < o.N(4000, 25); i++ {
		tenc(o, "enc32.random", false, int64(int32(r.Next()>>uint(r.Intn(40)))))
		tenc(o, "enc64.random", true, int64(r.Next())>>uint(r.Intn(64)))
	}
	trb(o, nil)
	for b0 := 0; b0 < 256; b0++ {
		trb(o, []byte{byte(b0)})
		trb(o, []byte{byte(b0), byte(r.Next())})
	}
	if o.Thorough() && os.Getenv("VERIF_C05_ALL32") != "" {
		// all 2^32 values against the reference (predicate only)
		var tmp [pk.MaxVarIntLen]byte
		for u := uint64(0); u < 1<<32; u++ {
			v := pk.VarInt(int32(uint32(u)))
			k := v.WriteToBytes(tmp[:])
			if !bytes.Equal(tmp[:k], refLeb(u)) || v.Len() != k {
				o.Fail("C05.enc32", "v=%d bytes=%s", v, hx.Hex(tmp[:k]))
				break
			}
		}
		o.Note("all 2^32 VarInt values compared with the reference encoder")
	}
}
